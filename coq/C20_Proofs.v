(* C20 — proofs. *)
Require Import V.Lib V.GoPath V.C19_Model V.C19_Proofs V.Gen_C20 V.C20_Model.
Open Scope N_scope.

(* ------------------------------------------------------------------------------------------ *)
(* A. Replace: one scan round is total, consumes input, and yields a well-shaped key            *)
(* ------------------------------------------------------------------------------------------ *)
Lemma scan_step_ok s :
  exists r, scan_step s = Ok r /\
    forall pre key rest, r = Some (pre, key, rest) -> (length rest < length s)%nat /\ key_shape key.
Proof.
  unfold scan_step.
  destruct (find_unescaped_ok (S (length s)) LB s 0%nat) as [st [Est Hst]]; [discriminate|lia|lia|].
  rewrite Est. cbn [rbind].
  destruct st as [i0|]; [|eexists; split; [reflexivity|discriminate]].
  destruct (Hst i0 eq_refl) as [[_ Hi0] [Hn0 _]].
  ok_from s i0. set (sp := skipn i0 s).
  assert (Hsp : length sp = (length s - i0)%nat) by apply skipn_length.
  destruct (find_unescaped_ok (S (length sp)) RB sp 0%nat) as [en [Een Hen]]; [discriminate|lia|lia|].
  rewrite Een. cbn [rbind].
  destruct en as [e|]; [|eexists; split; [reflexivity|discriminate]].
  destruct (Hen e eq_refl) as [[_ He] [Hne Hprev]].
  assert (H0 : nth_error sp 0 = Some LB) by (unfold sp; rewrite nth_error_skipn, Nat.add_0_r; exact Hn0).
  assert (He0 : e <> 0%nat) by (intros ->; rewrite H0 in Hne; discriminate).
  destruct Hprev as [Hprev|[y [Hy Hyb]]]; [congruence|].
  ok_slice s i0 (i0 + e + 1)%nat.
  replace (i0 + e + 1 - i0)%nat with (S (S (e - 1))) by lia. fold sp.
  rewrite (firstn_two_last sp (e - 1) y RB Hy); [|replace (S (e - 1)) with e by lia; exact Hne].
  destruct (unescape_braces_end (firstn (e - 1) sp) y Hyb) as [t' [x' [Eu Hx']]].
  ok_slice s 0%nat i0. ok_from s (i0 + e + 1)%nat.
  eexists; split; [reflexivity|].
  intros pre key rest H. injection H as <- <- <-. split.
  - rewrite skipn_length. lia.
  - exists t', x'. split; [exact Eu|exact Hx'].
Qed.

Lemma expand_loop_ok fuel : forall gs s result, (length s < fuel)%nat ->
  exists r, expand_loop fuel gs s result = Ok r.
Proof.
  induction fuel as [|fuel IH]; intros gs s result Hf; [lia|]. cbn [expand_loop].
  destruct (scan_step_ok s) as [st [Est Hst]]. rewrite Est. cbn [rbind].
  destruct st as [[[pre key] rest]|]; [|eauto].
  destruct (Hst pre key rest eq_refl) as [Hlen _]. apply IH. lia.
Qed.

Lemma expand_total gs s : exists out, expand gs s = Ok out.
Proof.
  unfold expand. destruct (negb (has_brace s)); [eauto|]. apply expand_loop_ok. lia.
Qed.

Lemma template_loop_ok fuel : forall s, (length s < fuel)%nat ->
  exists t, template_loop fuel s = Ok t /\ Forall key_shape (keys_of t).
Proof.
  induction fuel as [|fuel IH]; intros s Hf; [lia|]. cbn [template_loop].
  destruct (scan_step_ok s) as [st [Est Hst]]. rewrite Est. cbn [rbind].
  destruct st as [[[pre key] rest]|].
  - destruct (Hst pre key rest eq_refl) as [Hlen Hk].
    destruct (IH rest) as [t [Et Ht]]; [lia|]. rewrite Et. cbn [rbind].
    eexists; split; [reflexivity|]. simpl. constructor; assumption.
  - eexists; split; [reflexivity|]. simpl. constructor.
Qed.

Lemma template_total s : exists t, template s = Ok t /\ Forall key_shape (keys_of t).
Proof.
  unfold template. destruct (negb (has_brace s)).
  - eexists; split; [reflexivity|]. simpl. constructor.
  - apply template_loop_ok. lia.
Qed.

(* Replace factorises through the template *)
Lemma expand_loop_factor fuel : forall gs s result,
  expand_loop fuel gs s result =
  match template_loop fuel s with Ok t => Ok (result ++ render gs t) | Panic => Panic end.
Proof.
  induction fuel as [|fuel IH]; intros gs s result; [reflexivity|]. cbn [expand_loop template_loop].
  destruct (scan_step s) as [st|]; cbn [rbind]; [|reflexivity].
  destruct st as [[[pre key] rest]|].
  - rewrite IH. destruct (template_loop fuel rest) as [t|]; cbn [rbind]; [|reflexivity].
    unfold render. simpl. rewrite <- !app_assoc. reflexivity.
  - unfold render. simpl. rewrite app_nil_r. reflexivity.
Qed.

Lemma expand_factorises gs s :
  expand gs s = match template s with Ok t => Ok (render gs t) | Panic => Panic end.
Proof.
  unfold expand, template. destruct (negb (has_brace s)).
  - unfold render. simpl. rewrite app_nil_r. reflexivity.
  - rewrite expand_loop_factor. destruct (template_loop (S (length s)) s); reflexivity.
Qed.

Lemma expand_render gs s : exists t, template s = Ok t /\ expand gs s = Ok (render gs t).
Proof.
  destruct (template_total s) as [t [Et _]]. exists t. split; [exact Et|].
  rewrite expand_factorises, Et. reflexivity.
Qed.

Lemma render_app gs a b : render gs (a ++ b) = render gs a ++ render gs b.
Proof. unfold render. rewrite map_app, concat_app. reflexivity. Qed.

(* the value of a placeholder is inserted verbatim, whatever it contains *)
Lemma value_verbatim gs s l1 k l2 :
  template s = Ok (l1 ++ Ph k :: l2) ->
  expand gs s = Ok (render gs l1 ++ gs k ++ render gs l2).
Proof.
  intro H. rewrite expand_factorises, H. rewrite render_app. unfold render at 2. simpl.
  reflexivity.
Qed.

Lemma render_ext gs1 gs2 t :
  (forall k, In k (keys_of t) -> gs1 k = gs2 k) -> render gs1 t = render gs2 t.
Proof.
  induction t as [|sg t IH]; intro H; [reflexivity|].
  unfold render in *. simpl. f_equal.
  - destruct sg as [b|k]; [reflexivity|]. simpl. apply H. simpl. now left.
  - apply IH. intros k Hk. apply H. destruct sg; simpl; auto.
Qed.

(* the output depends on the request only through the values of the placeholders that occur in
   the FORMAT: changing what any other key expands to (e.g. a key that merely occurs inside a
   header value) changes nothing *)
Lemma expand_depends_on_format_keys gs1 gs2 s t :
  template s = Ok t -> (forall k, In k (keys_of t) -> gs1 k = gs2 k) -> expand gs1 s = expand gs2 s.
Proof.
  intros Et H. rewrite !expand_factorises, Et. f_equal. apply render_ext. exact H.
Qed.

(* ---- escaped braces ------------------------------------------------------------------------ *)
Lemma unesc1_id c : forall n s, (length s <= n)%nat -> ~ In c s -> unesc1 c s = s.
Proof.
  induction n as [|n IH]; intros s Hn Hc.
  - destruct s; [reflexivity|simpl in Hn; lia].
  - destruct s as [|a [|b r]]; [reflexivity|reflexivity|].
    rewrite unesc1_cons2.
    assert (Hb : (b =? c) = false).
    { apply N.eqb_neq. intros ->. apply Hc. simpl. auto. }
    rewrite Hb, andb_false_r. f_equal. apply IH; [simpl in *; lia|].
    intro H. apply Hc. now right.
Qed.

Lemma has_brace_false s : has_brace s = false -> ~ In LB s /\ ~ In RB s.
Proof.
  unfold has_brace. intro H. split; intro Hin.
  - assert (existsb (fun c => (c =? LB) || (c =? RB)) s = true).
    { apply existsb_exists. exists LB. split; [exact Hin|reflexivity]. }
    congruence.
  - assert (existsb (fun c => (c =? LB) || (c =? RB)) s = true).
    { apply existsb_exists. exists RB. split; [exact Hin|reflexivity]. }
    congruence.
Qed.

Lemma unescape_no_brace s : has_brace s = false -> unescape_braces s = s.
Proof.
  intro H. destruct (has_brace_false s H) as [H1 H2]. unfold unescape_braces.
  rewrite (unesc1_id LB (length s) s (le_n _) H1). apply (unesc1_id RB (length s) s (le_n _) H2).
Qed.

(* every opening brace of s is preceded by a backslash *)
Definition all_open_escaped (s : bytes) : Prop :=
  forall k, nth_error s k = Some LB -> exists j, k = S j /\ nth_error s j = Some BSL.

Lemma escaped_open_no_placeholder gs s :
  all_open_escaped s -> expand gs s = Ok (unescape_braces s) /\ template s = Ok [Lit (unescape_braces s)].
Proof.
  intro H. unfold expand, template. destruct (negb (has_brace s)) eqn:Eb.
  - apply negb_true_iff in Eb. rewrite (unescape_no_brace s Eb). split; reflexivity.
  - assert (Hscan : scan_step s = Ok None).
    { unfold scan_step.
      destruct (find_unescaped_ok (S (length s)) LB s 0%nat) as [st [Est Hst]]; [discriminate|lia|lia|].
      rewrite Est. cbn [rbind]. destruct st as [k|]; [|reflexivity]. exfalso.
      destruct (Hst k eq_refl) as [_ [Hk Hprev]].
      destruct (H k Hk) as [j [-> Hj]].
      destruct Hprev as [Hprev|[y [Hy Hyb]]]; [discriminate|].
      simpl in Hy. rewrite Nat.sub_0_r in Hy. rewrite Hj in Hy. injection Hy as <-. now apply Hyb. }
    cbn [expand_loop template_loop]. rewrite Hscan. cbn [rbind]. split; reflexivity.
Qed.

(* ---- getSubstitution ----------------------------------------------------------------------- *)
Lemma key_shape_len key : key_shape key -> (2 <= length key)%nat.
Proof. intros [t [x [-> _]]]. rewrite app_length. simpl. lia. Qed.

Lemma key_shape_not_label6 key : key_shape key -> prefixb lit_label_13 key = true -> (length key <> 6)%nat.
Proof.
  intros [t [x [-> Hx]]] Ep H6. apply prefixb_same_length in Ep; [|now rewrite H6].
  assert (Hlast : last (t ++ [x; RB]) 0 = RB).
  { change [x; RB] with ([x] ++ [RB]). rewrite app_assoc. apply last_last. }
  rewrite Ep in Hlast. vm_compute in Hlast. discriminate.
Qed.

Lemma key_mid_ok key k1 : key_shape key -> idx key 1 = Ok k1 -> k1 <> RB -> exists w, key_mid key = Ok w.
Proof.
  intros Hs E Hk. pose proof (key_shape_len key Hs) as Hl.
  destruct Hs as [t [x [-> Hx]]].
  assert (Ht : t <> []).
  { intros ->. simpl in E. unfold idx in E. simpl in E. injection E as <-. now apply Hk. }
  assert (length t >= 1)%nat by (destruct t; [congruence|simpl; lia]).
  unfold key_mid. rewrite app_length in *. simpl in *.
  rewrite slice_ok; [eauto| lia | rewrite app_length; simpl; lia].
Qed.

Lemma get_subst_total tbl e key : key_shape key -> exists v, get_subst_chk tbl e key = Ok v.
Proof.
  intro Hs. unfold get_subst_chk. destruct (assoc key (e_custom e)); [eauto|].
  pose proof (key_shape_len key Hs) as Hl.
  ok_idx key 1%nat.
  assert (Hd : exists v,
    match assoc key tbl with
    | Some (Fn f) => Ok (f e)
    | Some Oracle => Ok match assoc key (e_defaults e) with Some v => v | None => [] end
    | None => if prefixb lit_label_13 key then do ns <- slice key 6 (length key - 1); Ok (label e ns)
              else Ok (e_empty e)
    end = Ok v).
  { destruct (assoc key tbl) as [[f|]|]; [eauto|eauto|].
    destruct (prefixb lit_label_13 key) eqn:Ep; [|eauto].
    pose proof (prefixb_length _ _ Ep) as Hl6. change (length lit_label_13) with 6%nat in Hl6.
    pose proof (key_shape_not_label6 key Hs Ep).
    rewrite slice_ok; [cbn [rbind]; eauto|lia|lia]. }
  destruct Hd as [dv Hd]. rewrite Hd.
  assert (Hmid : forall c, v = c -> c <> RB -> exists w, key_mid key = Ok w).
  { intros c -> Hc. eapply key_mid_ok; eauto. }
  destruct (v =? 62) eqn:E1.
  { apply N.eqb_eq in E1. destruct (Hmid 62 E1 ltac:(discriminate)) as [w ->]. cbn [rbind].
    destruct (hdr_lookup w (e_reqh e)); eauto. }
  destruct (v =? 60) eqn:E2.
  { destruct (e_resph e) as [h|]; [|eauto].
    apply N.eqb_eq in E2. destruct (Hmid 60 E2 ltac:(discriminate)) as [w ->]. cbn [rbind].
    destruct (hdr_lookup w h); eauto. }
  destruct (v =? 126) eqn:E3.
  { apply N.eqb_eq in E3. destruct (Hmid 126 E3 ltac:(discriminate)) as [w ->]. cbn [rbind].
    destruct (assoc w (e_cookies e)); eauto. }
  destruct (v =? 63) eqn:E4.
  { apply N.eqb_eq in E4. destruct (Hmid 63 E4 ltac:(discriminate)) as [w ->]. cbn [rbind]. eauto. }
  destruct (v =? 36) eqn:E5.
  { apply N.eqb_eq in E5. destruct (Hmid 36 E5 ltac:(discriminate)) as [w ->]. cbn [rbind].
    destruct (index_of [EQS] w); eauto. }
  eauto.
Qed.

(* unknown placeholders yield the configured empty value *)
Lemma unknown_placeholder_empty tbl e key k1 :
  assoc key (e_custom e) = None -> idx key 1 = Ok k1 ->
  k1 <> 62 -> k1 <> 60 -> k1 <> 126 -> k1 <> 63 -> k1 <> 36 ->
  assoc key tbl = None -> prefixb lit_label_13 key = false ->
  get_subst_chk tbl e key = Ok (e_empty e).
Proof.
  intros Hc Hi H1 H2 H3 H4 H5 Hv Hl. unfold get_subst_chk. rewrite Hc, Hi. cbn [rbind].
  rewrite Hv, Hl.
  apply N.eqb_neq in H1, H2, H3, H4, H5. rewrite H1, H2, H3, H4, H5. reflexivity.
Qed.

(* a request / response header or cookie that the request does not carry: empty value as well *)
Lemma missing_header_empty tbl e key w :
  key_shape key -> assoc key (e_custom e) = None -> idx key 1 = Ok 62 -> key_mid key = Ok w ->
  hdr_lookup w (e_reqh e) = None -> assoc key tbl = None ->
  get_subst_chk tbl e key = Ok (e_empty e).
Proof.
  intros Hs Hc Hi Hm Hh Hv. unfold get_subst_chk. rewrite Hc, Hi. cbn [rbind].
  rewrite Hm. cbn [rbind]. rewrite Hh, Hv.
  assert (Hl : prefixb lit_label_13 key = false).
  { destruct key as [|a [|b r]]; [reflexivity|discriminate Hi|]. unfold idx in Hi. simpl in Hi. assert (b = 62) by congruence. subst b.
    simpl. rewrite andb_false_r. reflexivity. }
  rewrite Hl. reflexivity.
Qed.

(* the whole expansion against a request environment never panics *)
Lemma expand_env_total e s :
  exists out t, expand_env e s = Ok out /\ template s = Ok t /\
                Forall (fun k => exists v, get_subst_chk dispatch e k = Ok v) (keys_of t).
Proof.
  destruct (template_total s) as [t [Et Hk]].
  destruct (expand_total (get_subst dispatch e) s) as [out Eo].
  exists out, t. split; [exact Eo|]. split; [exact Et|].
  eapply Forall_impl; [|exact Hk]. intros k Hs. apply get_subst_total. exact Hs.
Qed.

(* ------------------------------------------------------------------------------------------ *)
(* B. recorder / log middleware                                                                 *)
(* ------------------------------------------------------------------------------------------ *)
Lemma run_app c : forall a s b, no_panic a = true ->
  run c s (a ++ b) = run c (fst (run c s a)) b.
Proof.
  induction a as [|o a IH]; intros s b H; [reflexivity|].
  simpl in H. apply andb_true_iff in H as [Ho Ha].
  destruct o; try discriminate; simpl; apply IH; exact Ha.
Qed.

Lemma run_no_panic c : forall ops s, no_panic ops = true -> snd (run c s ops) = false.
Proof.
  induction ops as [|o ops IH]; intros s H; [reflexivity|].
  simpl in H. apply andb_true_iff in H as [Ho Ha].
  destruct o; try discriminate; simpl; apply IH; exact Ha.
Qed.

Lemma err_ops_no_panic tbl ek code : no_panic (err_ops tbl ek code) = true.
Proof. reflexivity. Qed.

Lemma fallback_no_panic tbl ek ret : no_panic (fallback tbl ek ret) = true.
Proof. unfold fallback. destruct (400 <=? ret)%Z; reflexivity. Qed.

Lemma upto_panic_no_panic : forall ops, no_panic (fst (upto_panic ops)) = true.
Proof.
  induction ops as [|o ops IH]; [reflexivity|].
  destruct o; simpl; try reflexivity; destruct (upto_panic ops); simpl in *; exact IH.
Qed.

Lemma no_panic_app a b : no_panic (a ++ b) = no_panic a && no_panic b.
Proof. unfold no_panic. apply forallb_app. Qed.

Lemma errors_flat_no_panic tbl ops ret : no_panic (fst (errors_flat tbl ops ret)) = true.
Proof.
  unfold errors_flat. pose proof (upto_panic_no_panic ops) as H.
  destruct (upto_panic ops) as [a p]. simpl in H.
  destruct p; [|destruct (400 <=? ret)%Z]; simpl; rewrite ?no_panic_app, ?H; reflexivity.
Qed.

(* ---- exactly one line per entry of every matching rule ------------------------------------- *)
Lemma count_id_app i a b : count_id i (a ++ b) = (count_id i a + count_id i b)%nat.
Proof. unfold count_id. rewrite filter_app, app_length. reflexivity. Qed.

(* the entries that get a line, and how many of them carry a given id *)
Definition logged (cs : bool) (path : bytes) (rules : list rule) : list entry :=
  filter (fun e => should_log cs (n_except e) path) (matching_entries cs rules path).
Definition idcount (j : nat) (es : list entry) : nat :=
  length (filter (fun e => Nat.eqb (n_id e) j) es).

Lemma count_id_map j (st : Z) (sz : N) es :
  count_id j (map (fun e => (n_id e, st, sz)) es) = idcount j es.
Proof.
  induction es as [|e es IH]; [reflexivity|].
  unfold count_id, idcount in *. simpl. destruct (Nat.eqb (n_id e) j); simpl; rewrite IH; reflexivity.
Qed.

Lemma idcount_app j a b : idcount j (a ++ b) = (idcount j a + idcount j b)%nat.
Proof. unfold idcount. rewrite filter_app, app_length. reflexivity. Qed.

Lemma idcount_none j es : ~ In j (map n_id es) -> idcount j es = 0%nat.
Proof.
  induction es as [|e es IH]; intro H; [reflexivity|].
  unfold idcount in *. simpl. destruct (Nat.eqb (n_id e) j) eqn:E.
  - apply Nat.eqb_eq in E. exfalso. apply H. simpl. now left.
  - apply IH. intro Hin. apply H. simpl. now right.
Qed.

Lemma filter_ids_subset (g : entry -> bool) es i : In i (map n_id (filter g es)) -> In i (map n_id es).
Proof.
  intro H. apply in_map_iff in H as [e [He Hin]]. apply filter_In in Hin as [Hin _].
  apply in_map_iff. exists e. split; assumption.
Qed.

Lemma idcount_one (g : entry -> bool) : forall es e,
  NoDup (map n_id es) -> In e es -> idcount (n_id e) (filter g es) = if g e then 1%nat else 0%nat.
Proof.
  induction es as [|a es IH]; intros e Hnd Hin; [contradiction|].
  simpl in Hnd. inversion Hnd as [|x l Hna Hnd']. subst x l. destruct Hin as [->|Hin].
  - simpl. destruct (g e) eqn:Eg.
    + unfold idcount. simpl. rewrite Nat.eqb_refl. simpl. f_equal.
      apply (idcount_none (n_id e) (filter g es)).
      intro H. apply Hna. eapply filter_ids_subset. exact H.
    + apply idcount_none. intro H. apply Hna. eapply filter_ids_subset. exact H.
  - assert (Hne : n_id a <> n_id e).
    { intro Heq. apply Hna. rewrite Heq. apply in_map. exact Hin. }
    simpl. destruct (g a).
    + unfold idcount. simpl. apply Nat.eqb_neq in Hne. rewrite Hne. apply IH; assumption.
    + apply IH; assumption.
Qed.

Lemma logged_cons cs path r rs :
  logged cs path (r :: rs) =
  (if path_matches cs path (ru_scope r)
   then filter (fun e => should_log cs (n_except e) path) (ru_entries r) else []) ++ logged cs path rs.
Proof.
  unfold logged, matching_entries. simpl. destruct (path_matches cs path (ru_scope r)); [|reflexivity].
  simpl. apply filter_app.
Qed.

Lemma logged_ids_subset cs path : forall rules i,
  In i (map n_id (logged cs path rules)) -> In i (map n_id (flat_map ru_entries rules)).
Proof.
  induction rules as [|r rs IH]; intros i H; [exact H|].
  rewrite logged_cons, map_app in H. simpl. rewrite map_app. apply in_or_app.
  apply in_app_or in H as [H|H].
  - left. destruct (path_matches cs path (ru_scope r)); [|contradiction]. eapply filter_ids_subset. exact H.
  - right. apply IH. exact H.
Qed.

Lemma NoDup_app_parts {A} (a b : list A) :
  NoDup (a ++ b) -> NoDup a /\ NoDup b /\ (forall x, In x a -> ~ In x b).
Proof.
  induction a as [|x a IH]; intro H.
  - split; [constructor|]. split; [exact H|]. intros x [].
  - simpl in H. inversion H as [|y l Hx Hnd]. subst y l. destruct (IH Hnd) as [Ha [Hb Hd]].
    split; [constructor; [intro Hin; apply Hx; apply in_or_app; now left|exact Ha]|].
    split; [exact Hb|]. intros z [<-|Hz]; [intro Hin; apply Hx; apply in_or_app; now right|apply Hd; exact Hz].
Qed.

Lemma idcount_logged cs path : forall rules r e,
  NoDup (map n_id (flat_map ru_entries rules)) -> In r rules -> In e (ru_entries r) ->
  idcount (n_id e) (logged cs path rules) =
  if path_matches cs path (ru_scope r) && should_log cs (n_except e) path then 1%nat else 0%nat.
Proof.
  induction rules as [|r0 rs IH]; intros r e Hnd Hr He; [contradiction|].
  simpl in Hnd. rewrite map_app in Hnd. apply NoDup_app_parts in Hnd as [Ha [Hb Hd]].
  rewrite logged_cons, idcount_app. destruct Hr as [->|Hr].
  - assert (Hz : idcount (n_id e) (logged cs path rs) = 0%nat).
    { apply idcount_none. intro H. apply logged_ids_subset in H.
      apply (Hd (n_id e)); [apply in_map; exact He|exact H]. }
    rewrite Hz, Nat.add_0_r. destruct (path_matches cs path (ru_scope r)); [|reflexivity].
    simpl. apply idcount_one; assumption.
  - assert (Hz : idcount (n_id e)
                   (if path_matches cs path (ru_scope r0)
                    then filter (fun e => should_log cs (n_except e) path) (ru_entries r0) else []) = 0%nat).
    { apply idcount_none. intro H.
      assert (H' : In (n_id e) (map n_id (ru_entries r0))).
      { destruct (path_matches cs path (ru_scope r0)); [eapply filter_ids_subset; exact H|contradiction]. }
      apply (Hd (n_id e) H'). apply in_map. apply in_flat_map. exists r. split; assumption. }
    rewrite Hz. simpl. apply IH; assumption.
Qed.

Lemma find_none_filter {A} (m : A -> bool) : forall l, find m l = None -> filter m l = [].
Proof.
  induction l as [|x l IH]; intro H; [reflexivity|]. simpl in *.
  destruct (m x); [discriminate|]. apply IH. exact H.
Qed.

(* whatever the handler does, the lines are those of [logged], all with one status and size; a
   panic gets past the middleware only when the request is outside every scope *)
Lemma log_serve_lines_shape c cs tbl ek rules path ops ret u :
  let '(_, _, p, lines) := log_serve c cs tbl ek rules path ops ret u return Prop in
  (exists st sz, lines = map (fun e => (n_id e, st, sz)) (logged cs path rules)) /\
  (p = true -> find (fun r => path_matches cs path (ru_scope r)) rules = None).
Proof.
  unfold log_serve.
  destruct (find (fun r => path_matches cs path (ru_scope r)) rules) as [r|] eqn:Hf.
  - destruct (run c (u, rec0) ops) as [[u1 r1] p].
    destruct (400 <=? (if p then 500 else ret))%Z.
    + destruct (run c (u1, r1) (err_ops tbl ek (if p then 500%Z else ret))) as [[u2 r2] p2].
      split; [eexists; eexists; reflexivity|discriminate].
    + split; [eexists; eexists; reflexivity|discriminate].
  - destruct (run c (u, rec0) ops) as [[u' r'] p].
    split; [|reflexivity]. exists 0%Z, 0. unfold logged, matching_entries.
    rewrite (find_none_filter _ rules Hf). reflexivity.
Qed.

Lemma find_none_all {A} (m : A -> bool) : forall l, find m l = None -> forall x, In x l -> m x = false.
Proof.
  induction l as [|y l IH]; intros H x Hx; [contradiction|]. simpl in H.
  destruct (m y) eqn:E; [discriminate|]. destruct Hx as [<-|Hx]; [exact E|apply IH; assumption].
Qed.

Lemma one_line_per_entry c cs tbl ek rules path ops ret u :
  NoDup (map n_id (flat_map ru_entries rules)) ->
  let '(_, _, p, lines) := log_serve c cs tbl ek rules path ops ret u in
  (forall r e, In r rules -> In e (ru_entries r) ->
     count_id (n_id e) lines =
     if path_matches cs path (ru_scope r) && should_log cs (n_except e) path then 1%nat else 0%nat) /\
  (forall i, ~ In i (map n_id (flat_map ru_entries rules)) -> count_id i lines = 0%nat) /\
  (exists st sz, forall l, In l lines -> snd (fst l) = st /\ snd l = sz) /\
  (p = true -> forall r, In r rules -> path_matches cs path (ru_scope r) = false).
Proof.
  intros Hnd. pose proof (log_serve_lines_shape c cs tbl ek rules path ops ret u) as H.
  destruct (log_serve c cs tbl ek rules path ops ret u) as [[[u' r'] p] lines].
  destruct H as [[st [sz ->]] Hp]. split; [|split; [|split]].
  - intros r e Hr He. rewrite count_id_map. apply idcount_logged; assumption.
  - intros i Hi. rewrite count_id_map. apply idcount_none. intro H. apply Hi.
    apply logged_ids_subset in H. exact H.
  - exists st, sz. intros l Hl. apply in_map_iff in Hl as [e [<- _]]. split; reflexivity.
  - intros E r Hr. apply (find_none_all _ rules (Hp E) r Hr).
Qed.

(* ---- logged status and size are what the client got ----------------------------------------- *)
(* the recorder and the writer below it agree: every byte the writer accepted is in the recorder's
   count — those accepted by a call that also reported an error included; and either both have
   committed the same status or neither has (the recorder then still holds its default 200) *)
Definition consistent (c : wcfg) (s : uw * rec) : Prop :=
  u_size (fst s) = logged_size c (snd s) /\
  ((u_status (fst s) = Some (r_status (snd s)) /\ r_wrote (snd s) = true) \/
   (u_status (fst s) = None /\ r_status (snd s) = 200%Z /\ r_wrote (snd s) = false)).

Lemma consistent_client c s : consistent c s ->
  client_status (fst s) = r_status (snd s) /\ u_size (fst s) = logged_size c (snd s).
Proof.
  intros [Hs [[Hc _]|[Hc [H2 _]]]]; split; try exact Hs; unfold client_status; rewrite Hc; [reflexivity|].
  symmetry. exact H2.
Qed.

Lemma consistent_init c : consistent c (uw0, rec0).
Proof. split; simpl; [unfold logged_size; destruct (w_head c); reflexivity|right; repeat split; reflexivity]. Qed.

Lemma head_ok_cases c : head_ok c = true ->
  (w_head c = true /\ w_nethttp c = true) \/ w_head c = false.
Proof. unfold head_ok. destruct (w_head c), (w_nethttp c); simpl; auto; discriminate. Qed.

(* the implicit 200 of a body call *)
Lemma wh200_view c u r : consistent c (u, r) ->
  u_status (uw_wh u 200) = Some (r_status r) /\ u_size (uw_wh u 200) = u_size u.
Proof.
  intros [_ Hc]. cbn [fst snd] in Hc. unfold uw_wh.
  destruct Hc as [[Hc _]|[Hc [H2 _]]]; rewrite Hc; cbn; [auto|]. rewrite H2. auto.
Qed.

Lemma logged_size_add c r n :
  logged_size c (rec_add r n) = if w_head c then 0 else logged_size c r + n.
Proof. unfold logged_size, rec_add. cbn. destruct (w_head c); reflexivity. Qed.

Lemma copy_chunk_split j : j = j - j mod copy_chunk + j mod copy_chunk.
Proof. pose proof (N.mod_le j copy_chunk ltac:(discriminate)). lia. Qed.

Lemma step_consistent c s o :
  head_ok c = true -> final_codes [o] = true -> consistent c s -> consistent c (step c s o).
Proof.
  intros Hh Hf Hcons. destruct s as [u r]. destruct o as [code|k len se cut|]; [| |exact Hcons].
  - destruct Hcons as [Hs Hc]. simpl in Hf. rewrite andb_true_r in Hf. simpl in *. unfold uw_wh.
    destruct Hc as [[Hc Hw]|[Hc [H2 Hw]]]; rewrite Hc, Hw; simpl.
    + split; [exact Hs|left; split; assumption].
    + rewrite Hf. simpl. split; [exact Hs|left; split; reflexivity].
  - destruct (wh200_view c u r Hcons) as [Hst Hsz]. destruct Hcons as [Hs Hc0]. cbn [fst snd] in Hs.
    assert (Hfin : forall u' n, u_status u' = u_status (uw_wh u 200) ->
              u_size u' = logged_size c (rec_add r n) -> consistent c (u', rec_add r n)).
    { intros u' n E1 E2. split; [exact E2|]. left. cbn [fst snd]. rewrite E1. split; [exact Hst|reflexivity]. }
    destruct k; cbn [step].
    + unfold uw_write, uw_mode.
      destruct (w_nethttp c && body_forbidden (client_status (uw_wh u 200))) eqn:E1; cbn [N.eqb Pos.eqb].
      { apply Hfin; [reflexivity|]. rewrite logged_size_add. destruct (w_head c) eqn:Eh.
        - unfold logged_size in Hs. rewrite Eh in Hs. lia.
        - lia. }
      destruct (w_nethttp c && w_head c) eqn:E2; cbn [N.eqb Pos.eqb].
      { apply Hfin; [reflexivity|]. rewrite logged_size_add.
        apply andb_true_iff in E2 as [_ Eh]. rewrite Eh. unfold logged_size in Hs. rewrite Eh in Hs. lia. }
      assert (Eh : w_head c = false).
      { destruct (head_ok_cases c Hh) as [[Eh En]|Eh]; [rewrite Eh, En in E2; discriminate|exact Eh]. }
      destruct (u_dead (uw_wh u 200)); cbn [N.eqb Pos.eqb].
      { apply Hfin; [reflexivity|]. rewrite logged_size_add, Eh. lia. }
      destruct cut as [j|]; (apply Hfin; [reflexivity|]); rewrite logged_size_add, Eh; cbn; lia.
    + destruct (len =? 0); [split; [exact Hs|exact Hc0]|].
      unfold uw_copy, uw_mode.
      destruct (w_nethttp c && body_forbidden (client_status (uw_wh u 200))) eqn:E1; cbn [N.eqb Pos.eqb].
      { apply Hfin; [reflexivity|]. rewrite logged_size_add. destruct (w_head c) eqn:Eh.
        - unfold logged_size in Hs. rewrite Eh in Hs. lia.
        - lia. }
      destruct (w_nethttp c && w_head c) eqn:E2; cbn [N.eqb Pos.eqb].
      { apply Hfin; [reflexivity|]. rewrite logged_size_add.
        apply andb_true_iff in E2 as [_ Eh]. rewrite Eh. unfold logged_size in Hs. rewrite Eh in Hs. lia. }
      assert (Eh : w_head c = false).
      { destruct (head_ok_cases c Hh) as [[Eh En]|Eh]; [rewrite Eh, En in E2; discriminate|exact Eh]. }
      destruct (u_dead (uw_wh u 200)); cbn [N.eqb Pos.eqb].
      { apply Hfin; [reflexivity|]. rewrite logged_size_add, Eh. lia. }
      destruct cut as [j|]; (apply Hfin; [reflexivity|]); rewrite logged_size_add, Eh; cbn.
      * pose proof (copy_chunk_split j). lia.
      * lia.
Qed.

Lemma run_consistent c : forall ops s,
  head_ok c = true -> final_codes ops = true -> consistent c s -> consistent c (fst (run c s ops)).
Proof.
  induction ops as [|o ops IH]; intros s Hh Hf Hc; [exact Hc|].
  simpl in Hf. apply andb_true_iff in Hf as [Ho Hf].
  assert (Hs : consistent c (step c s o)).
  { apply step_consistent; auto. simpl. rewrite Ho. reflexivity. }
  destruct o as [code|k len se cut|]; simpl; [apply IH; assumption|apply IH; assumption|exact Hc].
Qed.

Lemma final_codes_app a b : final_codes (a ++ b) = final_codes a && final_codes b.
Proof. unfold final_codes. apply forallb_app. Qed.

Lemma error_code_final ret : (400 <=? ret)%Z = true -> informational ret = false.
Proof. intro H. unfold informational. apply Z.leb_le in H. destruct (ret <=? 199)%Z eqn:E; [apply Z.leb_le in E; lia|]. rewrite andb_false_r. reflexivity. Qed.

Lemma err_ops_final tbl ek ret : (400 <=? ret)%Z = true -> final_codes (err_ops tbl ek ret) = true.
Proof. intro H. simpl. rewrite (error_code_final ret H). reflexivity. Qed.

(* whatever the handler does: either no line is written, or the middleware returns (it does not
   panic) a status below 400 (so that the server adds nothing) and every line carries the
   committed status and the accepted byte count *)
Lemma log_serve_lines c cs tbl ek rules path ops ret :
  head_ok c = true -> final_codes ops = true ->
  let '(u', ret', p, lines) := log_serve c cs tbl ek rules path ops ret uw0 return Prop in
  lines = [] \/
  (p = false /\ (400 <=? ret')%Z = false /\
   forall l, In l lines -> snd (fst l) = client_status u' /\ snd l = u_size u').
Proof.
  intros Hh Hf. unfold log_serve.
  destruct (find (fun r => path_matches cs path (ru_scope r)) rules) as [r|].
  - pose proof (run_consistent c ops (uw0, rec0) Hh Hf (consistent_init c)) as Hc.
    destruct (run c (uw0, rec0) ops) as [[u1 r1] p]. cbn [fst] in Hc.
    destruct (400 <=? (if p then 500 else ret))%Z eqn:E.
    + pose proof (run_consistent c (err_ops tbl ek (if p then 500%Z else ret)) (u1, r1) Hh
                    (err_ops_final tbl ek _ E) Hc) as Hc2.
      destruct (run c (u1, r1) (err_ops tbl ek (if p then 500%Z else ret))) as [[u2 r2] p2]. cbn [fst] in *.
      apply consistent_client in Hc2 as [H1 H2]. cbn [fst snd] in *.
      right. split; [reflexivity|]. split; [reflexivity|].
      intros l Hl. apply in_map_iff in Hl as [e [<- _]]. simpl. split; [symmetry; assumption|rewrite H2; reflexivity].
    + apply consistent_client in Hc as [H1 H2]. cbn [fst snd] in *.
      right. split; [reflexivity|]. split; [exact E|].
      intros l Hl. apply in_map_iff in Hl as [e [<- _]]. simpl. split; [symmetry; assumption|rewrite H2; reflexivity].
  - destruct (run c (uw0, rec0) ops) as [[u' r'] p]. left. reflexivity.
Qed.

Lemma logged_exact c cs tbl ek rules path ops ret :
  head_ok c = true -> final_codes ops = true ->
  let '(u', _, _, lines) := log_serve c cs tbl ek rules path ops ret uw0 return Prop in
  forall l, In l lines -> snd (fst l) = client_status u' /\ snd l = u_size u'.
Proof.
  intros Hh Hf. pose proof (log_serve_lines c cs tbl ek rules path ops ret Hh Hf) as H.
  destruct (log_serve c cs tbl ek rules path ops ret uw0) as [[[u' r'] p] lines].
  destruct H as [->|[_ [_ H]]]; [intros l []|exact H].
Qed.

(* ---- directive level: logParse ---------------------------------------------------------------- *)
(* how many lines directive number j of [ds] (numbered from i) owes the request: 1 iff it is the
   j-th and the request is inside its scope and not excepted by its own list *)
Fixpoint dcount (cs : bool) (path : bytes) (j : nat) (ds : list directive) (i : nat) : nat :=
  match ds with
  | [] => 0%nat
  | d :: r => ((if owes cs d path && Nat.eqb i j then 1 else 0) + dcount cs path j r (S i))%nat
  end.

Lemma logged_append_entry cs path j : forall rules sc e,
  idcount j (logged cs path (append_entry rules sc e)) =
  (idcount j (logged cs path rules) +
   (if path_matches cs path sc && should_log cs (n_except e) path && Nat.eqb (n_id e) j then 1 else 0))%nat.
Proof.
  induction rules as [|r rs IH]; intros sc e.
  - simpl. rewrite logged_cons. simpl. unfold logged, matching_entries. simpl.
    destruct (path_matches cs path sc); simpl; [|reflexivity].
    destruct (should_log cs (n_except e) path); simpl; [|reflexivity].
    unfold idcount. simpl. destruct (Nat.eqb (n_id e) j); reflexivity.
  - simpl. destruct (beq (ru_scope r) sc) eqn:E.
    + apply beq_eq in E. subst sc. rewrite !logged_cons. cbn [ru_scope ru_entries].
      destruct (path_matches cs path (ru_scope r)); simpl.
      * rewrite filter_app, !idcount_app. simpl.
        destruct (should_log cs (n_except e) path); simpl.
        -- unfold idcount at 2. simpl. destruct (Nat.eqb (n_id e) j); simpl; lia.
        -- unfold idcount at 2. simpl. lia.
      * lia.
    + rewrite !logged_cons, !idcount_app, IH. lia.
Qed.

Lemma logged_parse_logs cs path j : forall ds i rules,
  idcount j (logged cs path (parse_logs ds i rules)) =
  (idcount j (logged cs path rules) + dcount cs path j ds i)%nat.
Proof.
  induction ds as [|d ds IH]; intros i rules; [simpl; lia|].
  simpl. rewrite IH, logged_append_entry. unfold owes. cbn [n_id n_except]. lia.
Qed.

Lemma dcount_lt cs path j : forall ds i, (j < i)%nat -> dcount cs path j ds i = 0%nat.
Proof.
  induction ds as [|d ds IH]; intros i H; [reflexivity|].
  simpl. assert (E : Nat.eqb i j = false) by (apply Nat.eqb_neq; lia).
  rewrite E, andb_false_r. rewrite IH; [reflexivity|lia].
Qed.

Lemma counts_ok_of_counts cs path : forall ds i ls,
  (forall j, (i <= j)%nat -> count_id j ls = dcount cs path j ds i) ->
  counts_ok cs ds i path ls = true.
Proof.
  induction ds as [|d ds IH]; intros i ls H; [reflexivity|].
  simpl. apply andb_true_iff. split.
  - rewrite (H i (le_n i)). simpl. rewrite Nat.eqb_refl, andb_true_r.
    rewrite (dcount_lt cs path i ds (S i) (le_n (S i))), Nat.add_0_r. apply Nat.eqb_refl.
  - apply IH. intros j Hj. rewrite (H j); [|lia]. simpl.
    assert (E : Nat.eqb i j = false) by (apply Nat.eqb_neq; lia).
    rewrite E, andb_false_r. reflexivity.
Qed.

Lemma one_line_per_log c cs tbl ek ds path ops ret u :
  counts_ok cs ds 0 path (snd (log_serve c cs tbl ek (parse_logs ds 0 []) path ops ret u)) = true.
Proof.
  pose proof (log_serve_lines_shape c cs tbl ek (parse_logs ds 0 []) path ops ret u) as H.
  destruct (log_serve c cs tbl ek (parse_logs ds 0 []) path ops ret u) as [[[u' r'] p] lines].
  destruct H as [[st [sz ->]] _]. cbn [snd].
  apply counts_ok_of_counts. intros j _. rewrite count_id_map, logged_parse_logs. reflexivity.
Qed.

(* ---- the whole site ---------------------------------------------------------------------------- *)
Lemma header_filter_no_panic : forall ops w, no_panic (header_filter w ops) = no_panic ops.
Proof.
  induction ops as [|o ops IH]; intro w; [reflexivity|].
  destruct o as [code|len fail|]; simpl.
  - destruct w; simpl; apply IH.
  - apply IH.
  - reflexivity.
Qed.

Lemma inner_flat_no_panic tbl (haserr hdrw : bool) ops ret :
  haserr = true \/ no_panic ops = true -> no_panic (fst (inner_flat tbl haserr hdrw ops ret)) = true.
Proof.
  intro H. unfold inner_flat.
  assert (Hn : no_panic (fst (if haserr then errors_flat tbl ops ret else (ops, ret))) = true).
  { destruct haserr; [apply errors_flat_no_panic|]. destruct H as [H|H]; [discriminate|exact H]. }
  destruct (if haserr then errors_flat tbl ops ret else (ops, ret)) as [ops1 ret1]. simpl in *.
  destruct hdrw; [rewrite header_filter_no_panic|]; exact Hn.
Qed.

Lemma upto_panic_final : forall ops, final_codes ops = true -> final_codes (fst (upto_panic ops)) = true.
Proof.
  induction ops as [|o ops IH]; intro H; [reflexivity|].
  simpl in H. apply andb_true_iff in H as [Ho H]. specialize (IH H).
  destruct o; simpl; try reflexivity; destruct (upto_panic ops); simpl in *; rewrite ?Ho; exact IH.
Qed.

Lemma errors_flat_final tbl ops ret : final_codes ops = true -> final_codes (fst (errors_flat tbl ops ret)) = true.
Proof.
  intro H. unfold errors_flat. pose proof (upto_panic_final ops H) as Ha.
  destruct (upto_panic ops) as [a p]. simpl in Ha.
  destruct p; [|destruct (400 <=? ret)%Z eqn:E]; cbn [fst]; rewrite ?final_codes_app, ?Ha; [reflexivity| |reflexivity].
  rewrite (err_ops_final tbl 1 ret E). reflexivity.
Qed.

Lemma header_filter_final : forall ops w, final_codes ops = true -> final_codes (header_filter w ops) = true.
Proof.
  induction ops as [|o ops IH]; intros w H; [reflexivity|].
  simpl in H. apply andb_true_iff in H as [Ho H].
  destruct o as [code|len fail|]; simpl.
  - destruct w; simpl; [|rewrite Ho]; apply IH; exact H.
  - apply IH. exact H.
  - apply IH. exact H.
Qed.

Lemma inner_flat_final tbl (haserr hdrw : bool) ops ret :
  final_codes ops = true -> final_codes (fst (inner_flat tbl haserr hdrw ops ret)) = true.
Proof.
  intro H. unfold inner_flat.
  assert (Hn : final_codes (fst (if haserr then errors_flat tbl ops ret else (ops, ret))) = true).
  { destruct haserr; [apply errors_flat_final|]; exact H. }
  destruct (if haserr then errors_flat tbl ops ret else (ops, ret)) as [ops1 ret1]. simpl in *.
  destruct hdrw; [apply header_filter_final|]; exact Hn.
Qed.

Lemma site_run_exact c cs tbl (haserr hdrw : bool) ds path ops ret :
  head_ok c = true -> final_codes ops = true ->
  let '(u', lines) := site_run c cs tbl haserr hdrw ds path ops ret return Prop in
  forall l, In l lines -> snd (fst l) = client_status u' /\ snd l = u_size u'.
Proof.
  intros Hh Hf. unfold site_run.
  pose proof (inner_flat_final tbl haserr hdrw ops ret Hf) as Hf1.
  destruct (inner_flat tbl haserr hdrw ops ret) as [ops1 ret1]. cbn [fst] in Hf1.
  pose proof (log_serve_lines c cs tbl 1 (parse_logs ds 0 []) path ops1 ret1 Hh Hf1) as H.
  destruct (log_serve c cs tbl 1 (parse_logs ds 0 []) path ops1 ret1 uw0) as [[[u ret2] p] lines].
  destruct H as [->|[-> [Hr H]]]; [intros l []|]. rewrite Hr. exact H.
Qed.

(* the lines are what the client is sent, to the byte *)
Lemma site_logged_exact c cs tbl (haserr hdrw : bool) ds path ops ret :
  head_ok c = true -> final_codes ops = true ->
  let '(st, sz, lines) := site_serve c cs tbl haserr hdrw ds path ops ret return Prop in
  forall l, In l lines -> snd (fst l) = st /\ snd l = sz.
Proof.
  intros Hh Hf. unfold site_serve.
  pose proof (site_run_exact c cs tbl haserr hdrw ds path ops ret Hh Hf) as H.
  destruct (site_run c cs tbl haserr hdrw ds path ops ret) as [u' lines]. exact H.
Qed.

Lemma site_lines c cs tbl (haserr hdrw : bool) ds path ops ret :
  let flat := inner_flat tbl haserr hdrw ops ret in
  snd (site_serve c cs tbl haserr hdrw ds path ops ret) =
  snd (log_serve c cs tbl 1 (parse_logs ds 0 []) path (fst flat) (snd flat) uw0).
Proof.
  cbv zeta. unfold site_serve, site_run.
  destruct (inner_flat tbl haserr hdrw ops ret) as [ops1 ret1]. cbn [fst snd].
  destruct (log_serve c cs tbl 1 (parse_logs ds 0 []) path ops1 ret1 uw0) as [[[u r] p] lines].
  reflexivity.
Qed.

Lemma site_one_line_per_log c cs tbl (haserr hdrw : bool) ds path ops ret :
  counts_ok cs ds 0 path (snd (site_serve c cs tbl haserr hdrw ds path ops ret)) = true.
Proof. rewrite site_lines. cbv zeta. apply one_line_per_log. Qed.

(* ---- escaping every brace of a text and expanding gives the text back ----------------------- *)
Fixpoint esc1 (c : N) (w : bytes) : bytes :=
  match w with
  | [] => []
  | x :: r => if x =? c then BSL :: c :: esc1 c r else x :: esc1 c r
  end.

Lemma esc1_head c : c <> BSL -> forall r y t, esc1 c r = y :: t -> y <> c.
Proof.
  intros Hc r y t H. destruct r as [|x r]; [discriminate|]. simpl in H.
  destruct (x =? c) eqn:E.
  - injection H as <- _. intro Hb. apply Hc. symmetry. exact Hb.
  - injection H as <- _. apply N.eqb_neq. exact E.
Qed.

Lemma unesc1_esc1 c : c <> BSL -> forall w, unesc1 c (esc1 c w) = w.
Proof.
  intros Hc. induction w as [|x r IH]; [reflexivity|]. simpl.
  destruct (x =? c) eqn:E.
  - apply N.eqb_eq in E. subst x. rewrite unesc1_cons2. rewrite !N.eqb_refl. simpl. f_equal. exact IH.
  - destruct (esc1 c r) as [|y t] eqn:Er.
    + destruct r as [|x2 r2]; [reflexivity|]. simpl in Er. destruct (x2 =? c); discriminate.
    + rewrite unesc1_cons2.
      pose proof (esc1_head c Hc r y t Er) as Hy. apply N.eqb_neq in Hy. rewrite Hy, andb_false_r.
      f_equal. rewrite <- Er in *. exact IH.
Qed.

Lemma esc_esc1 : forall w, esc w = esc1 LB (esc1 RB w).
Proof.
  induction w as [|x r IH]; [reflexivity|]. simpl.
  destruct (x =? LB) eqn:E1.
  - apply N.eqb_eq in E1. subst x. simpl. rewrite IH. reflexivity.
  - destruct (x =? RB) eqn:E2.
    + apply N.eqb_eq in E2. subst x. simpl. rewrite IH. reflexivity.
    + simpl. rewrite E1, IH. reflexivity.
Qed.

Lemma unescape_esc w : unescape_braces (esc w) = w.
Proof.
  unfold unescape_braces. rewrite esc_esc1.
  rewrite (unesc1_esc1 LB ltac:(discriminate)). apply (unesc1_esc1 RB ltac:(discriminate)).
Qed.

Lemma esc_all_open_escaped : forall w, all_open_escaped (esc w).
Proof.
  induction w as [|x r IH]; intros k Hk.
  - destruct k; discriminate.
  - simpl in Hk. destruct ((x =? LB) || (x =? RB)) eqn:E.
    + destruct k as [|[|k]].
      * simpl in Hk. discriminate.
      * exists 0%nat. simpl. rewrite E. split; reflexivity.
      * simpl in Hk. destruct (IH k Hk) as [j [-> Hj]].
        exists (S (S j)). simpl. rewrite E. split; [reflexivity|exact Hj].
    + destruct k as [|k].
      * simpl in Hk. injection Hk as ->. discriminate.
      * simpl in Hk. destruct (IH k Hk) as [j [-> Hj]].
        exists (S j). simpl. rewrite E. split; [reflexivity|exact Hj].
Qed.

Lemma escaped_text_literal gs w : expand gs (esc w) = Ok w.
Proof.
  destruct (escaped_open_no_placeholder gs (esc w) (esc_all_open_escaped w)) as [H _].
  rewrite H, unescape_esc. reflexivity.
Qed.

(* ------------------------------------------------------------------------------------------ *)
(* D. {size} counts the bytes the writer accepted                                              *)
(* ------------------------------------------------------------------------------------------ *)
(* every op sequence — Write, WriteString, io.Copy / CopyN / ReadFrom-if-offered from sources
   that end or FAIL after any number of bytes, calls cut short by the writer at any byte: the
   bytes the writer accepted are the logged size *)
Lemma size_accepted c ops :
  head_ok c = true -> final_codes ops = true ->
  let '((u, r), _) := run c (uw0, rec0) ops return Prop in
  client_status u = r_status r /\ u_size u = logged_size c r.
Proof.
  intros Hh Hf. pose proof (run_consistent c ops (uw0, rec0) Hh Hf (consistent_init c)) as H.
  destruct (run c (uw0, rec0) ops) as [[u r] p]. cbn [fst] in H.
  apply consistent_client in H. exact H.
Qed.

(* a source that fails is, for the writer and the recorder, a source that ends *)
Lemma step_srcerr_irrelevant c s o : step c s (clear_srcerr o) = step c s o.
Proof. destruct s as [u r]. destruct o as [code|k len se cut|]; try reflexivity. Qed.

Lemma run_srcerr_irrelevant c : forall ops s, run c s (map clear_srcerr ops) = run c s ops.
Proof.
  induction ops as [|o ops IH]; intro s; [reflexivity|].
  destruct o as [code|k len se cut|]; cbn [map clear_srcerr run]; [apply IH| |reflexivity].
  rewrite IH. rewrite <- (step_srcerr_irrelevant c s (OB k len se cut)). reflexivity.
Qed.

(* ------------------------------------------------------------------------------------------ *)
(* E. concurrently served requests do not share placeholder or recorder state                   *)
(* ------------------------------------------------------------------------------------------ *)
Lemma nlook_nupd_same {A} (f : A -> A) k : forall l, nlook k (nupd k f l) = option_map f (nlook k l).
Proof.
  induction l as [|[k' v] l IH]; [reflexivity|]. simpl.
  destruct (Nat.eqb k k') eqn:E; simpl; rewrite E; [reflexivity|exact IH].
Qed.

Lemma nlook_nupd_other {A} (f : A -> A) k k' : k <> k' -> forall l, nlook k' (nupd k f l) = nlook k' l.
Proof.
  intros Hne. induction l as [|[k0 v] l IH]; [reflexivity|]. simpl.
  destruct (Nat.eqb k k0) eqn:E; simpl.
  - apply Nat.eqb_eq in E. subst k0.
    destruct (Nat.eqb k' k) eqn:E2; [apply Nat.eqb_eq in E2; congruence|reflexivity].
  - destruct (Nat.eqb k' k0); [reflexivity|exact IH].
Qed.

(* what the server guarantees by construction: the replacer in a request's context was allocated
   for it (fresh address), is live, and no other request's context holds it *)
Definition wf (w : world) : Prop :=
  (forall i a, nlook i (wd_ctx w) = Some a -> (a < wd_next w)%nat) /\
  (forall i j a, nlook i (wd_ctx w) = Some a -> nlook j (wd_ctx w) = Some a -> i = j) /\
  (forall i a, nlook i (wd_ctx w) = Some a -> exists p, nlook a (wd_heap w) = Some p).

Lemma wf0 : wf world0.
Proof. repeat split; intros; discriminate. Qed.

Lemma world_step_view w j a :
  wf w ->
  wf (world_step w (j, a)) /\
  forall i, view (world_step w (j, a)) i = if Nat.eqb i j then solo_step (view w j) a else view w i.
Proof.
  intros [Hlt [Hinj Hlive]]. unfold world_step.
  destruct (nlook j (wd_ctx w)) as [ad|] eqn:Ej.
  - (* the request is being served: its own object is updated *)
    assert (Hw : wf {| wd_next := wd_next w; wd_heap := nupd ad (preq_step a) (wd_heap w); wd_ctx := wd_ctx w |}).
    { split; [exact Hlt|]. split; [exact Hinj|]. intros i a0 Hi. cbn [wd_ctx wd_heap] in *.
      destruct (Hlive i a0 Hi) as [p Hp]. destruct (Nat.eq_dec ad a0) as [<-|Hne].
      - rewrite nlook_nupd_same, Hp. simpl. eauto.
      - rewrite (nlook_nupd_other _ ad a0 Hne). eauto. }
    assert (Hv : forall i, view {| wd_next := wd_next w; wd_heap := nupd ad (preq_step a) (wd_heap w); wd_ctx := wd_ctx w |} i =
                 if Nat.eqb i j then solo_step (view w j) a else view w i).
    { intro i. unfold view. cbn [wd_ctx wd_heap].
      destruct (Nat.eqb i j) eqn:Eij.
      - apply Nat.eqb_eq in Eij. subst i. rewrite Ej, nlook_nupd_same.
        destruct (Hlive j ad Ej) as [p Hp]. rewrite Hp. reflexivity.
      - destruct (nlook i (wd_ctx w)) as [ad'|] eqn:Ei; [|reflexivity].
        apply nlook_nupd_other. intros ->. apply Nat.eqb_neq in Eij. apply Eij. exact (Hinj i j ad' Ei Ej). }
    destruct a; (split; [exact Hw|exact Hv]).
  - (* not being served *)
    assert (Hnone : view w j = None) by (unfold view; rewrite Ej; reflexivity).
    destruct a as [c|k v|o].
    + (* Server.ServeHTTP: a fresh replacer for this request *)
      split.
      * split; [|split]; cbn [wd_ctx wd_heap wd_next].
        -- intros i a0 Hi. simpl in Hi. destruct (Nat.eqb i j); [injection Hi as <-; lia|].
           specialize (Hlt i a0 Hi). lia.
        -- intros i1 i2 a0 H1 H2. simpl in H1, H2.
           destruct (Nat.eqb i1 j) eqn:E1, (Nat.eqb i2 j) eqn:E2.
           ++ apply Nat.eqb_eq in E1, E2. congruence.
           ++ injection H1 as <-. specialize (Hlt i2 _ H2). lia.
           ++ injection H2 as <-. specialize (Hlt i1 _ H1). lia.
           ++ exact (Hinj i1 i2 a0 H1 H2).
        -- intros i a0 Hi. simpl in Hi. simpl. destruct (Nat.eqb i j).
           ++ injection Hi as <-. rewrite Nat.eqb_refl. eauto.
           ++ specialize (Hlt i a0 Hi). destruct (Hlive i a0 Hi) as [p Hp].
              destruct (Nat.eqb a0 (wd_next w)) eqn:E; [apply Nat.eqb_eq in E; lia|eauto].
      * intro i. unfold view. cbn [wd_ctx wd_heap]. simpl.
        destruct (Nat.eqb i j) eqn:Eij.
        -- rewrite Nat.eqb_refl. fold (view w j). rewrite Hnone. reflexivity.
        -- destruct (nlook i (wd_ctx w)) as [ad'|] eqn:Ei; [|reflexivity].
           specialize (Hlt i ad' Ei).
           destruct (Nat.eqb ad' (wd_next w)) eqn:E; [apply Nat.eqb_eq in E; lia|reflexivity].
    + split; [repeat split; assumption|]. intro i. destruct (Nat.eqb i j) eqn:Eij; [|reflexivity].
      apply Nat.eqb_eq in Eij. subst i. rewrite Hnone. reflexivity.
    + split; [repeat split; assumption|]. intro i. destruct (Nat.eqb i j) eqn:Eij; [|reflexivity].
      apply Nat.eqb_eq in Eij. subst i. rewrite Hnone. reflexivity.
Qed.

Lemma world_run_view : forall sched w, wf w ->
  forall i, view (world_run sched w) i = solo (proj i sched) (view w i).
Proof.
  induction sched as [|[j a] sched IH]; intros w Hw i; [reflexivity|].
  destruct (world_step_view w j a Hw) as [Hw' Hv].
  unfold world_run in *. cbn [fold_left]. rewrite (IH _ Hw' i), Hv.
  unfold proj. cbn [filter fst]. rewrite (Nat.eqb_sym j i).
  destruct (Nat.eqb i j) eqn:Eij; [|reflexivity].
  apply Nat.eqb_eq in Eij. subst j. reflexivity.
Qed.

Lemma requests_do_not_share sched i :
  view (world_run sched world0) i = solo (proj i sched) None.
Proof. apply (world_run_view sched world0 wf0 i). Qed.

Lemma line_depends_on_own_steps sched1 sched2 i fmt base :
  proj i sched1 = proj i sched2 ->
  req_line fmt base (view (world_run sched1 world0) i) = req_line fmt base (view (world_run sched2 world0) i).
Proof. intro H. rewrite !requests_do_not_share, H. reflexivity. Qed.

(* ------------------------------------------------------------------------------------------ *)
(* F. the default vocabulary of the code is the model's dispatch table                          *)
(* ------------------------------------------------------------------------------------------ *)
Lemma vocab_dispatch_computed : vocab_matches_dispatch = true.
Proof. vm_compute. reflexivity. Qed.

Lemma assoc_some_in {A} k : forall (l : list (bytes * A)) v, assoc k l = Some v -> In (k, v) l.
Proof.
  induction l as [|[k' v'] l IH]; intros v H; [discriminate|]. simpl in H.
  destruct (beq k k') eqn:E.
  - apply beq_eq in E. subst k'. injection H as <-. now left.
  - right. apply IH. exact H.
Qed.

Lemma vocabulary_is_dispatch key :
  mem key gen_c20_vocab = true <-> exists h, assoc key dispatch = Some h.
Proof.
  pose proof vocab_dispatch_computed as H. unfold vocab_matches_dispatch in H.
  apply andb_true_iff in H as [H1 H2]. split.
  - intro Hm. unfold mem in Hm. apply existsb_exists in Hm as [x [Hx Ex]]. apply beq_eq in Ex. subst x.
    rewrite forallb_forall in H1. specialize (H1 key Hx).
    destruct (assoc key dispatch) as [h|]; [eauto|discriminate].
  - intros [h Hh]. apply assoc_some_in in Hh. rewrite forallb_forall in H2. exact (H2 (key, h) Hh).
Qed.

Lemma source_failures_lose_nothing c ops :
  head_ok c = true -> final_codes ops = true ->
  run c (uw0, rec0) ops = run c (uw0, rec0) (map clear_srcerr ops) /\
  let '((u, r), _) := run c (uw0, rec0) ops return Prop in u_size u = logged_size c r.
Proof.
  intros Hh Hf. split; [symmetry; apply run_srcerr_irrelevant|].
  pose proof (size_accepted c ops Hh Hf) as H.
  destruct (run c (uw0, rec0) ops) as [[u r] p]. apply H.
Qed.


(* ------------------------------------------------------------------------------------------ *)
(* D. the entry list of a request shares nothing with the rule table                              *)
(* ------------------------------------------------------------------------------------------ *)
Lemma list_max_ge (l : list nat) x : In x l -> (x <= list_max l)%nat.
Proof.
  induction l as [|y l IH]; intros H; [destruct H|]. simpl. destruct H as [<-|H]; [apply Nat.le_max_l|].
  etransitivity; [exact (IH H)|apply Nat.le_max_r].
Qed.
Lemma nlook_in {A} k (l : list (nat * A)) v : nlook k l = Some v -> In k (map fst l).
Proof.
  induction l as [|[k' v'] l IH]; simpl; [discriminate|]. destruct (Nat.eqb k k') eqn:E; intros H.
  - left. symmetry. apply Nat.eqb_eq. exact E.
  - right. exact (IH H).
Qed.
Lemma fresh_addr_fresh (h : aheap) a cells : nlook a h = Some cells -> Nat.eqb a (fresh_addr h) = false.
Proof.
  intros H. apply Nat.eqb_neq. pose proof (list_max_ge _ _ (nlook_in _ _ _ H)). unfold fresh_addr. lia.
Qed.

(* the code as it is: computing the entry list of a request leaves EVERY array that existed - those of the rule
   table, those of the other requests in flight - as it was, and the list reads as the entries of the matching
   rules in rule order *)
Theorem fresh_entry_list_shares_nothing (h : aheap) (ms : list gslice) :
  let '(h', s) := entries_fresh h ms in
  (forall a cells, nlook a h = Some cells -> nlook a h' = Some cells) /\
  (forall t, (exists cells, nlook (sl_arr t) h = Some cells) -> sl_read h' t = sl_read h t) /\
  sl_read h' s = concat (map (sl_read h) ms) /\
  nlook (sl_arr s) h = None.
Proof.
  unfold entries_fresh. split; [|split; [|split]].
  - intros a cells H. simpl. rewrite (fresh_addr_fresh _ _ _ H). exact H.
  - intros t [cells H]. unfold sl_read. simpl. rewrite (fresh_addr_fresh _ _ _ H). reflexivity.
  - unfold sl_read. simpl. rewrite Nat.eqb_refl. apply firstn_all.
  - simpl. destruct (nlook (fresh_addr h) h) as [c|] eqn:E; [|reflexivity].
    pose proof (fresh_addr_fresh _ _ _ E) as F. rewrite Nat.eqb_refl in F. discriminate.
Qed.

(* three logs on / (entries 0 1 2 in an array of capacity 4), one on /a (entry 3), one on /b (entry 4);
   request 1 asks for /a/x, request 2 for /b/y; request 1 has computed its list and written nothing yet when
   request 2 computes its own *)
Definition ew_demo : eworld :=
  {| ew_heap := [(0, [0; 1; 2; 9]); (1, [3]); (2, [4])]%nat; ew_slice := []; ew_logged := [] |}.
Definition ew_sched : list eact :=
  let sh := {| sl_arr := 0; sl_len := 3 |} in
  [EACompute 1 [sh; {| sl_arr := 1; sl_len := 1 |}]; EACompute 2 [sh; {| sl_arr := 2; sl_len := 1 |}];
   EALog 2; EALog 2; EALog 2; EALog 2; EALog 1; EALog 1; EALog 1; EALog 1]%nat.
Lemma entry_list_on_the_rule_slice_refuted :
  logged_of (eworld_run entries_on_rule_slice ew_sched ew_demo) 1 = [0; 1; 2; 4]%nat /\
  logged_of (eworld_run entries_on_rule_slice ew_sched ew_demo) 2 = [0; 1; 2; 4]%nat /\
  logged_of (eworld_run entries_fresh ew_sched ew_demo) 1 = [0; 1; 2; 3]%nat /\
  logged_of (eworld_run entries_fresh ew_sched ew_demo) 2 = [0; 1; 2; 4]%nat.
Proof. vm_compute. repeat split; reflexivity. Qed.

(* ------------------------------------------------------------------------------------------ *)
(* E. the scan as a decomposition of the format string (deepening, round 6)                      *)
(* ------------------------------------------------------------------------------------------ *)
Lemma firstn_S_last {A} (l : list A) : forall n x, nth_error l n = Some x -> firstn (S n) l = firstn n l ++ [x].
Proof.
  induction l as [|a l IH]; intros [|n] x H; try discriminate.
  - simpl in H. injection H as ->. reflexivity.
  - simpl in H. change (a :: firstn (S n) l = a :: (firstn n l ++ [x])). f_equal. exact (IH n x H).
Qed.

Lemma skipn_add {A} : forall y (l : list A) x, skipn x (skipn y l) = skipn (y + x) l.
Proof.
  induction y as [|y IH]; intros l x; [reflexivity|].
  destruct l as [|a l]; [simpl; apply skipn_nil|]. simpl. apply IH.
Qed.

(* one round of the outer loop splits the unscanned text into (raw prefix) ++ (raw placeholder)
   ++ rest, the placeholder being "{" ... "}"; the prefix goes to the output unescaped (minus the
   TrimPrefix quirk), the placeholder unescaped to getSubstitution, and ONLY [rest] is scanned again *)
Lemma scan_step_decomp s pre key rest :
  scan_step s = Ok (Some (pre, key, rest)) ->
  exists a m, s = a ++ (LB :: m ++ [RB]) ++ rest /\
              pre = trim_prefix_bsl (unescape_braces a) /\ key = unescape_braces (LB :: m ++ [RB]).
Proof.
  unfold scan_step.
  destruct (find_unescaped_ok (S (length s)) LB s 0%nat) as [st [Est Hst]]; [discriminate|lia|lia|].
  rewrite Est. cbn [rbind].
  destruct st as [i0|]; [|discriminate].
  destruct (Hst i0 eq_refl) as [[_ Hi0] [Hn0 _]].
  ok_from s i0. set (sp := skipn i0 s).
  assert (Hsp : length sp = (length s - i0)%nat) by apply skipn_length.
  destruct (find_unescaped_ok (S (length sp)) RB sp 0%nat) as [en [Een Hen]]; [discriminate|lia|lia|].
  rewrite Een. cbn [rbind].
  destruct en as [e|]; [|discriminate].
  destruct (Hen e eq_refl) as [[_ He] [Hne _]].
  assert (H0 : nth_error sp 0 = Some LB) by (unfold sp; rewrite nth_error_skipn, Nat.add_0_r; exact Hn0).
  assert (He0 : e <> 0%nat) by (intros ->; rewrite H0 in Hne; discriminate).
  ok_slice s i0 (i0 + e + 1)%nat. ok_slice s 0%nat i0. ok_from s (i0 + e + 1)%nat.
  intro H. injection H as <- <- <-.
  replace (i0 + e + 1 - i0)%nat with (S e) by lia. fold sp.
  rewrite Nat.sub_0_r. change (skipn 0 s) with s.
  destruct sp as [|c sp'] eqn:Esp; [discriminate|]. simpl in H0. injection H0 as ->.
  destruct e as [|e']; [congruence|]. simpl in Hne.
  exists (firstn i0 s), (firstn e' sp'). split; [|split; [reflexivity|]].
  - rewrite <- (firstn_S_last sp' e' RB Hne).
    change (LB :: firstn (S e') sp') with (firstn (S (S e')) (LB :: sp')).
    replace (skipn (i0 + S e' + 1) s) with (skipn (S (S e')) (LB :: sp')).
    + rewrite firstn_skipn. rewrite <- Esp. unfold sp. symmetry. apply firstn_skipn.
    + rewrite <- Esp. unfold sp. rewrite skipn_add. f_equal. lia.
  - change (firstn (S (S e')) (LB :: sp')) with (LB :: firstn (S e') sp').
    rewrite (firstn_S_last sp' e' RB Hne). reflexivity.
Qed.

Lemma index_from_min c : forall s i k, index_from [c] s i = Some k ->
  forall j, (j < k - i)%nat -> nth_error s j <> Some c.
Proof.
  induction s as [|x s IH]; intros i k H j Hj; simpl in H; [discriminate|].
  destruct (x =? c) eqn:E; simpl in H.
  - injection H as <-. lia.
  - destruct j as [|j']; simpl.
    + intro Hx. injection Hx as ->. rewrite N.eqb_refl in E. discriminate.
    + apply (IH (S i) k H). pose proof (index_from_hit c s (S i) k H) as [Hle _]. lia.
Qed.
Lemma index_from_none c : forall s i, index_from [c] s i = None -> forall j, nth_error s j <> Some c.
Proof.
  induction s as [|x s IH]; intros i H j; simpl in H.
  - destruct j; discriminate.
  - destruct (x =? c) eqn:E; simpl in H; [discriminate|].
    destruct j as [|j']; simpl.
    + intro Hx. injection Hx as ->. rewrite N.eqb_refl in E. discriminate.
    + apply (IH (S i) H).
Qed.

Definition escaped_at (s : bytes) (j : nat) : Prop := exists j', j = S j' /\ nth_error s j' = Some BSL.

Lemma find_unescaped_min fuel : forall c s off r,
  c <> BSL -> (off <= length s)%nat ->
  (off = 0%nat \/ exists y, nth_error s (off - 1) = Some y /\ y <> BSL) ->
  find_unescaped fuel c s off = Ok r ->
  forall j, (off <= j)%nat -> (match r with Some k => (j < k)%nat | None => True end) ->
            nth_error s j = Some c -> escaped_at s j.
Proof.
  induction fuel as [|fuel IH]; intros c s off r Hc Hoff Hinv H j Hj Hlt Hn; [discriminate|].
  simpl in H. rewrite (slice_from_ok s off Hoff) in H. cbn [rbind] in H.
  destruct (index_of [c] (skipn off s)) as [i|] eqn:Ei.
  2:{ exfalso. apply (index_from_none c _ 0%nat Ei (j - off)%nat).
      rewrite nth_error_skipn. replace (off + (j - off))%nat with j by lia. exact Hn. }
  pose proof (index_of_hit _ _ _ Ei) as Hhit. rewrite nth_error_skipn in Hhit.
  pose proof (index_from_min c _ 0%nat i Ei) as Hmin.
  assert (Hno : forall j0, (off <= j0 < off + i)%nat -> nth_error s j0 <> Some c).
  { intros j0 Hj0. specialize (Hmin (j0 - off)%nat). rewrite nth_error_skipn in Hmin.
    replace (off + (j0 - off))%nat with j0 in Hmin by lia. apply Hmin. lia. }
  pose proof (index_of_bound _ _ _ Ei) as Hb. rewrite skipn_length in Hb. simpl in Hb.
  destruct i as [|i'].
  - injection H as <-. lia.
  - destruct (idx_ok (skipn off s) i') as [v Ev]; [rewrite skipn_length; lia|].
    rewrite Ev in H. cbn [rbind] in H.
    apply idx_Ok_nth in Ev. rewrite nth_error_skipn in Ev.
    destruct (negb (v =? BSL)) eqn:Eb.
    + injection H as <-. exfalso. apply (Hno j); [lia|exact Hn].
    + apply negb_false_iff, N.eqb_eq in Eb. subst v.
      destruct (Nat.lt_ge_cases j (off + S i')) as [Hlt1|Hge1]; [exfalso; apply (Hno j); [lia|exact Hn]|].
      destruct (Nat.eq_dec j (off + S i')) as [->|Hne].
      * exists (off + i')%nat. split; [lia|exact Ev].
      * apply (IH c s (off + S i' + 1)%nat r Hc); auto; try lia.
        right. exists c. split; [|exact Hc].
        replace (off + S i' + 1 - 1)%nat with (off + S i')%nat by lia. exact Hhit.
Qed.

Lemma nth_error_firstn_lt {A} (l : list A) : forall n j, (j < n)%nat -> nth_error (firstn n l) j = nth_error l j.
Proof.
  induction l as [|a l IH]; intros [|n] [|j] H; try lia; try reflexivity.
  simpl. apply IH. lia.
Qed.
Lemma nth_error_firstn_some {A} (l : list A) n j x : nth_error (firstn n l) j = Some x -> (j < n)%nat.
Proof.
  intro H. assert (Hl : (j < length (firstn n l))%nat) by (apply nth_error_Some; congruence).
  rewrite firstn_length in Hl. lia.
Qed.

(* the placeholder found by one round is the LEFTMOST complete unescaped one: every opening brace
   of the raw prefix is escaped, and every closing brace inside the placeholder before its last
   character is escaped *)
Definition first_close (p : bytes) : Prop :=
  forall j, (S j < length p)%nat -> nth_error p j = Some RB -> escaped_at p j.

Lemma scan_step_decomp_min s pre key rest :
  scan_step s = Ok (Some (pre, key, rest)) ->
  exists a m, s = a ++ (LB :: m ++ [RB]) ++ rest /\
              pre = trim_prefix_bsl (unescape_braces a) /\ key = unescape_braces (LB :: m ++ [RB]) /\
              all_open_escaped a /\ first_close (LB :: m ++ [RB]).
Proof.
  unfold scan_step.
  destruct (find_unescaped_ok (S (length s)) LB s 0%nat) as [st [Est Hst]]; [discriminate|lia|lia|].
  pose proof (find_unescaped_min (S (length s)) LB s 0%nat st ltac:(discriminate) ltac:(lia) (or_introl eq_refl) Est) as HminL.
  rewrite Est. cbn [rbind].
  destruct st as [i0|]; [|discriminate].
  destruct (Hst i0 eq_refl) as [[_ Hi0] [Hn0 _]].
  ok_from s i0. set (sp := skipn i0 s).
  assert (Hsp : length sp = (length s - i0)%nat) by apply skipn_length.
  destruct (find_unescaped_ok (S (length sp)) RB sp 0%nat) as [en [Een Hen]]; [discriminate|lia|lia|].
  pose proof (find_unescaped_min (S (length sp)) RB sp 0%nat en ltac:(discriminate) ltac:(lia) (or_introl eq_refl) Een) as HminR.
  rewrite Een. cbn [rbind].
  destruct en as [e|]; [|discriminate].
  destruct (Hen e eq_refl) as [[_ He] [Hne _]].
  assert (H0 : nth_error sp 0 = Some LB) by (unfold sp; rewrite nth_error_skipn, Nat.add_0_r; exact Hn0).
  assert (He0 : e <> 0%nat) by (intros ->; rewrite H0 in Hne; discriminate).
  ok_slice s i0 (i0 + e + 1)%nat. ok_slice s 0%nat i0. ok_from s (i0 + e + 1)%nat.
  intro H. injection H as <- <- <-.
  replace (i0 + e + 1 - i0)%nat with (S e) by lia. fold sp.
  rewrite Nat.sub_0_r. change (skipn 0 s) with s.
  assert (Hopen : all_open_escaped (firstn i0 s)).
  { intros k Hk. pose proof (nth_error_firstn_some _ _ _ _ Hk) as Hlt.
    rewrite (nth_error_firstn_lt s i0 k Hlt) in Hk.
    destruct (HminL k ltac:(lia) Hlt Hk) as [j' [-> Hj']]. exists j'. split; [reflexivity|].
    rewrite nth_error_firstn_lt; [exact Hj'|lia]. }
  assert (Hclose : first_close (firstn (S e) sp)).
  { intros j Hj Hn. rewrite firstn_length in Hj.
    assert (Hje : (j < e)%nat) by lia.
    rewrite (nth_error_firstn_lt sp (S e) j ltac:(lia)) in Hn.
    destruct (HminR j ltac:(lia) Hje Hn) as [j' [-> Hj']]. exists j'. split; [reflexivity|].
    rewrite nth_error_firstn_lt; [exact Hj'|lia]. }
  destruct sp as [|c sp'] eqn:Esp; [discriminate|]. simpl in H0. injection H0 as ->.
  destruct e as [|e']; [congruence|]. simpl in Hne.
  assert (Eph : firstn (S (S e')) (LB :: sp') = LB :: firstn e' sp' ++ [RB]).
  { change (firstn (S (S e')) (LB :: sp')) with (LB :: firstn (S e') sp').
    rewrite (firstn_S_last sp' e' RB Hne). reflexivity. }
  exists (firstn i0 s), (firstn e' sp'). split; [|split; [reflexivity|split; [|split]]].
  - rewrite <- Eph.
    replace (skipn (i0 + S e' + 1) s) with (skipn (S (S e')) (LB :: sp')).
    + rewrite firstn_skipn. rewrite <- Esp. unfold sp. symmetry. apply firstn_skipn.
    + rewrite <- Esp. unfold sp. rewrite skipn_add. f_equal. lia.
  - rewrite Eph. reflexivity.
  - exact Hopen.
  - rewrite <- Eph. exact Hclose.
Qed.

(* what is left when the scan stops: either no unescaped opening brace at all, or a last
   unescaped opening brace after which no unescaped closing brace follows (unpaired placeholder) *)
Definition unpaired_tail (s : bytes) : Prop :=
  all_open_escaped s \/
  exists a r, s = a ++ LB :: r /\ all_open_escaped a /\
              forall j, nth_error (LB :: r) j = Some RB -> escaped_at (LB :: r) j.

Lemma scan_none_tail s : scan_step s = Ok None -> unpaired_tail s.
Proof.
  unfold scan_step.
  destruct (find_unescaped_ok (S (length s)) LB s 0%nat) as [st [Est Hst]]; [discriminate|lia|lia|].
  pose proof (find_unescaped_min (S (length s)) LB s 0%nat st ltac:(discriminate) ltac:(lia) (or_introl eq_refl) Est) as HminL.
  rewrite Est. cbn [rbind].
  destruct st as [i0|].
  2:{ intros _. left. intros k Hk. destruct (HminL k ltac:(lia) I Hk) as [j' [-> Hj']]. exists j'. split; auto. }
  destruct (Hst i0 eq_refl) as [[_ Hi0] [Hn0 _]].
  ok_from s i0. set (sp := skipn i0 s).
  assert (Hsp : length sp = (length s - i0)%nat) by apply skipn_length.
  destruct (find_unescaped_ok (S (length sp)) RB sp 0%nat) as [en [Een Hen]]; [discriminate|lia|lia|].
  pose proof (find_unescaped_min (S (length sp)) RB sp 0%nat en ltac:(discriminate) ltac:(lia) (or_introl eq_refl) Een) as HminR.
  rewrite Een. cbn [rbind].
  destruct en as [e|].
  { destruct (Hen e eq_refl) as [[_ He] _].
    ok_slice s i0 (i0 + e + 1)%nat. ok_slice s 0%nat i0. ok_from s (i0 + e + 1)%nat. discriminate. }
  intros _. right.
  assert (H0 : nth_error sp 0 = Some LB) by (unfold sp; rewrite nth_error_skipn, Nat.add_0_r; exact Hn0).
  destruct sp as [|c r] eqn:Esp; [discriminate|]. simpl in H0. injection H0 as ->.
  exists (firstn i0 s), r. split; [|split].
  - rewrite <- Esp. unfold sp. symmetry. apply firstn_skipn.
  - intros k Hk. pose proof (nth_error_firstn_some _ _ _ _ Hk) as Hlt.
    rewrite (nth_error_firstn_lt s i0 k Hlt) in Hk.
    destruct (HminL k ltac:(lia) Hlt Hk) as [j' [-> Hj']]. exists j'. split; [reflexivity|].
    rewrite nth_error_firstn_lt; [exact Hj'|lia].
  - intros j Hj. apply (HminR j); [lia|exact I|exact Hj].
Qed.

(* the pieces of a format: (raw literal, raw placeholder) pairs followed by a raw tail *)
Definition pieces_cat (ps : list (bytes * bytes)) : bytes := concat (map (fun p => fst p ++ snd p) ps).
Definition pieces_template (ps : list (bytes * bytes)) (tail : bytes) : list seg :=
  flat_map (fun p => [Lit (trim_prefix_bsl (unescape_braces (fst p))); Ph (unescape_braces (snd p))]) ps
  ++ [Lit (unescape_braces tail)].
Definition pieces_out (gs : bytes -> bytes) (ps : list (bytes * bytes)) (tail : bytes) : bytes :=
  concat (map (fun p => trim_prefix_bsl (unescape_braces (fst p)) ++ gs (unescape_braces (snd p))) ps)
  ++ unescape_braces tail.
Definition braced (p : bytes) : Prop := exists m, p = LB :: m ++ [RB].
(* a piece as the scan cuts it: the literal has no unescaped opening brace, the placeholder is
   "{" ... "}" and its last character is its first unescaped closing brace *)
Definition leftmost_piece (p : bytes * bytes) : Prop :=
  all_open_escaped (fst p) /\ braced (snd p) /\ first_close (snd p).

Lemma template_loop_decomp fuel : forall s, (length s < fuel)%nat ->
  exists ps tail, s = pieces_cat ps ++ tail /\ Forall leftmost_piece ps /\
                  scan_step tail = Ok None /\
                  template_loop fuel s = Ok (pieces_template ps tail).
Proof.
  induction fuel as [|fuel IH]; intros s Hf; [lia|]. cbn [template_loop].
  destruct (scan_step_ok s) as [st [Est Hst]]. rewrite Est. cbn [rbind].
  destruct st as [[[pre key] rest]|].
  - destruct (Hst pre key rest eq_refl) as [Hlen _].
    destruct (scan_step_decomp_min s pre key rest Est) as [a [m [Es [Epre [Ekey [Hop Hcl]]]]]].
    destruct (IH rest) as [ps [tail [Er [Hb [Htail Et]]]]]; [lia|]. rewrite Et. cbn [rbind].
    exists ((a, LB :: m ++ [RB]) :: ps), tail. repeat split.
    + unfold pieces_cat. cbn [map concat fst snd]. fold (pieces_cat ps).
      rewrite Es at 1. rewrite Er at 1. repeat (rewrite <- ?app_assoc; cbn [app]). reflexivity.
    + constructor; [split; [exact Hop|split; [exists m; reflexivity|exact Hcl]]|exact Hb].
    + exact Htail.
    + unfold pieces_template. cbn [flat_map fst snd app]. rewrite <- Epre, <- Ekey. reflexivity.
  - exists [], s. repeat split; auto.
Qed.

Lemma pieces_render gs ps tail : render gs (pieces_template ps tail) = pieces_out gs ps tail.
Proof.
  unfold pieces_template, pieces_out. rewrite render_app. f_equal.
  - induction ps as [|p ps IH]; [reflexivity|].
    cbn [flat_map map concat]. rewrite render_app, IH. unfold render. simpl.
    rewrite app_nil_r, <- app_assoc. reflexivity.
  - unfold render. simpl. apply app_nil_r.
Qed.

(* THE theorem about Replace over all strings: every format is, uniquely from left to right,
   literal_1 placeholder_1 ... literal_n placeholder_n tail; the output is the concatenation, in
   that order, of each literal with its brace escapes removed and of the VALUE of each
   placeholder, each looked up exactly once and inserted as it is (gs is arbitrary: a value that
   begins with a backslash, contains braces, escapes or whole placeholders is not trimmed,
   unescaped or scanned), followed by the unescaped tail, in which no complete unescaped
   placeholder is left.  Literals may be empty (adjacent placeholders, a placeholder at
   position 0). *)
Lemma replace_scan_decomposition gs fmt :
  exists ps tail,
    fmt = pieces_cat ps ++ tail /\ Forall leftmost_piece ps /\
    (has_brace fmt = true -> scan_step tail = Ok None) /\ unpaired_tail tail /\
    template fmt = Ok (pieces_template ps tail) /\
    expand gs fmt = Ok (pieces_out gs ps tail).
Proof.
  destruct (has_brace fmt) eqn:Eb.
  - destruct (template_loop_decomp (S (length fmt)) fmt) as [ps [tail [Es [Hb [Ht Et]]]]]; [lia|].
    exists ps, tail. split; [exact Es|split; [exact Hb|split; [intros _; exact Ht|split; [exact (scan_none_tail tail Ht)|split]]]].
    + unfold template. rewrite Eb. exact Et.
    + rewrite expand_factorises. unfold template. rewrite Eb. cbn [negb]. rewrite Et.
      rewrite pieces_render. reflexivity.
  - exists [], fmt. split; [reflexivity|split; [constructor|split; [discriminate|split; [|split]]]].
    + left. intros k Hk. exfalso. apply (proj1 (has_brace_false fmt Eb)). eapply nth_error_In; exact Hk.
    + unfold template. rewrite Eb. cbn [negb]. unfold pieces_template. cbn [flat_map app].
      rewrite (unescape_no_brace fmt Eb). reflexivity.
    + unfold expand. rewrite Eb. cbn [negb]. unfold pieces_out. cbn [map concat app].
      rewrite (unescape_no_brace fmt Eb). reflexivity.
Qed.

(* ------------------------------------------------------------------------------------------ *)
(* F. logParse over several log directives: nothing is carried from one directive to the next   *)
(* ------------------------------------------------------------------------------------------ *)
Lemma log_parse_loop_map : forall ds es,
  log_parse_loop false pstate0 ds = Some es <-> map parse_dir ds = map Some es.
Proof.
  induction ds as [|d ds IH]; intros es; cbn [log_parse_loop map].
  - split; intro H.
    + injection H as <-. reflexivity.
    + destruct es; [reflexivity|discriminate].
  - unfold parse_dir at 1. destruct (parse_dir_from pstate0 d) as [st'|]; cbn [option_map].
    + destruct (log_parse_loop false pstate0 ds) as [es0|] eqn:E.
      * split; intro H.
        -- injection H as <-. cbn [map]. f_equal. apply (proj1 (IH es0)). reflexivity.
        -- destruct es as [|e es]; [discriminate|]. cbn [map] in H. injection H as H1 H2.
           apply (proj2 (IH es)) in H2. injection H2 as ->. rewrite H1. reflexivity.
      * split; intro H; [discriminate|].
        destruct es as [|e es]; [discriminate|]. cbn [map] in H. injection H as H1 H2.
        apply (proj2 (IH es)) in H2. discriminate.
    + split; intro H; [discriminate|]. destruct es; discriminate.
Qed.

(* every parsed entry - scope, output, format, except list - is what ITS directive means when it
   is read alone, whatever stands before or after it in the file *)
Lemma log_parse_each_its_own ds es :
  log_parse ds = Some es <-> map parse_dir ds = map Some es.
Proof. apply log_parse_loop_map. Qed.

Lemma log_parse_nth ds es i d :
  log_parse ds = Some es -> nth_error ds i = Some d ->
  exists e, nth_error es i = Some e /\ parse_dir d = Some e.
Proof.
  intros H Hd. apply log_parse_each_its_own in H.
  pose proof (map_nth_error parse_dir i ds Hd) as H1. rewrite H in H1.
  rewrite nth_error_map in H1. destruct (nth_error es i) as [e|]; [|discriminate].
  cbn [option_map] in H1. injection H1 as H1. exists e. split; [reflexivity|symmetry; exact H1].
Qed.

(* the file read in the opposite order gives the same entries in the opposite order; more
   generally a concatenation parses piecewise *)
Lemma log_parse_rev ds es : log_parse ds = Some es -> log_parse (rev ds) = Some (rev es).
Proof.
  intro H. apply log_parse_each_its_own in H. apply log_parse_each_its_own.
  rewrite !map_rev, H. reflexivity.
Qed.
Lemma log_parse_app ds1 ds2 es1 es2 :
  log_parse ds1 = Some es1 -> log_parse ds2 = Some es2 -> log_parse (ds1 ++ ds2) = Some (es1 ++ es2).
Proof.
  intros H1 H2. apply log_parse_each_its_own in H1, H2. apply log_parse_each_its_own.
  rewrite !map_app, H1, H2. reflexivity.
Qed.

(* hence, for a site written as raw directives: each configured log gets exactly one line iff
   the request is in the scope and not excepted by the except list written in ITS OWN block *)
Lemma raw_one_line_per_log c cs tbl (haserr hdrw : bool) ds es path ops ret :
  log_parse ds = Some es ->
  counts_ok cs (map dir_of es) 0 path (snd (site_serve c cs tbl haserr hdrw (map dir_of es) path ops ret)) = true /\
  map (fun d => option_map dir_of (parse_dir d)) ds = map (fun e => Some (dir_of e)) es.
Proof.
  intro H. split; [apply site_one_line_per_log|].
  apply log_parse_each_its_own in H.
  rewrite <- (map_map parse_dir (option_map dir_of)), H, map_map. reflexivity.
Qed.

(* the variant with the block variables declared before the loop: a directive inherits the
   except list and the format of the one before it *)
Local Open Scope string_scope.
Definition carried_demo : list rawdir :=
  [ {| rd_args := [bs "/a"; bs "a.log"; bs "{status}"]; rd_block := [(bs "except", [bs "/a/x"])] |};
    {| rd_args := [bs "/"; bs "b.log"]; rd_block := [] |} ].
Lemma log_parse_carried_differs :
  exists ds es es', log_parse ds = Some es /\ log_parse (rev ds) = Some (rev es) /\
    log_parse_carried ds = Some es' /\
    map pe_except es = [[bs "/a/x"]; []] /\ map pe_except es' = [[bs "/a/x"]; [bs "/a/x"]] /\
    map pe_format es = [bs "{status}"; lit_default_format] /\ map pe_format es' = [bs "{status}"; bs "{status}"].
Proof. exists carried_demo. eexists. eexists. vm_compute. repeat split; reflexivity. Qed.
