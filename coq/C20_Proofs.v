(* C20 — proofs. *)
Require Import V.Lib V.GoPath V.C19_Model V.C19_Proofs V.Gen_C20 V.C20_Model.
Open Scope N_scope.
