(* C15 — byte-string layer: reflection lemmas (prefix/suffix/membership as list equations), the full
   characterisation of the net.SplitHostPort model, strings.Trim, and what the redirect handler
   drops from a Host header, for EVERY header value.  Stdlib + Lia only. *)
Require Import V.Lib V.GoPath V.Gen_C15 V.C15_Model V.C15_Proofs.
From Coq Require Import Lia.
Open Scope N_scope.

(* ------------------------------------------------------------------ reflection *)
Lemma contains_byte_iff c s : contains_byte c s = true <-> In c s.
Proof.
  unfold contains_byte. rewrite existsb_exists. split.
  - intros (x & Hx & E). apply N.eqb_eq in E. subst x. exact Hx.
  - intros H. exists c. split; [exact H|apply N.eqb_refl].
Qed.

Lemma contains_byte_false_iff c s : contains_byte c s = false <-> ~ In c s.
Proof.
  rewrite <- contains_byte_iff. destruct (contains_byte c s).
  - split; [discriminate|intros H; exfalso; apply H; reflexivity].
  - split; [intros _ H; discriminate H|reflexivity].
Qed.

Lemma has_prefix_iff : forall p s, has_prefix s p = true <-> exists r, s = p ++ r.
Proof.
  induction p as [|y p IH]; intros s.
  - split; [intros _; exists s; reflexivity|intros _; destruct s; reflexivity].
  - destruct s as [|x s]; cbn [has_prefix].
    + split; [discriminate|intros (r & H); discriminate].
    + rewrite andb_true_iff, N.eqb_eq, IH. split.
      * intros (-> & r & ->). exists r. reflexivity.
      * intros (r & H). injection H as -> ->. split; [reflexivity|exists r; reflexivity].
Qed.

Lemma has_suffix_iff p s : has_suffix s p = true <-> exists q, s = q ++ p.
Proof.
  unfold has_suffix. rewrite has_prefix_iff. split.
  - intros (r & H). exists (rev r). apply (f_equal (@rev N)) in H. rewrite rev_involutive, rev_app_distr, rev_involutive in H. exact H.
  - intros (q & ->). exists (rev q). apply rev_app_distr.
Qed.

Lemma has_suffix_false_iff p s : has_suffix s p = false <-> forall q, s <> q ++ p.
Proof.
  split.
  - intros H q E. assert (T : has_suffix s p = true) by (apply has_suffix_iff; exists q; exact E). congruence.
  - intros H. destruct (has_suffix s p) eqn:E; [|reflexivity]. apply has_suffix_iff in E as (q & E). exfalso. exact (H q E).
Qed.

Lemma has_prefix_false_iff p s : has_prefix s p = false <-> forall r, s <> p ++ r.
Proof.
  split.
  - intros H r E. assert (T : has_prefix s p = true) by (apply has_prefix_iff; exists r; exact E). congruence.
  - intros H. destruct (has_prefix s p) eqn:E; [|reflexivity]. apply has_prefix_iff in E as (r & E). exfalso. exact (H r E).
Qed.

Lemma existsb_false_iff {A} (f : A -> bool) l : existsb f l = false <-> forall x, In x l -> f x = false.
Proof.
  induction l as [|y l IH]; simpl.
  - split; [intros _ x []|reflexivity].
  - rewrite orb_false_iff, IH. split.
    + intros [Hy Hl] x [<-|Hx]; auto.
    + intros H. split; [apply H; left; reflexivity|intros x Hx; apply H; right; exact Hx].
Qed.

Lemma contains_any_false_iff s set : contains_any s set = false <-> forall c, In c s -> ~ In c set.
Proof.
  unfold contains_any. rewrite existsb_false_iff. split; intros H c Hc.
  - apply contains_byte_false_iff. apply H. exact Hc.
  - apply contains_byte_false_iff. apply H. exact Hc.
Qed.

Lemma plain_iff s : plain s <-> ~ In COLON s /\ ~ In LBR s /\ ~ In RBR s.
Proof.
  unfold plain. split.
  - intros H. repeat split; intros Hc; destruct (H _ Hc) as (H1 & H2 & H3); congruence.
  - intros (H1 & H2 & H3) c Hc. repeat split; intros ->; contradiction.
Qed.

Lemma nobr_iff s : nobr s <-> ~ In LBR s /\ ~ In RBR s.
Proof.
  unfold nobr. split.
  - intros H. split; intros Hc; destruct (H _ Hc) as (H1 & H2); congruence.
  - intros (H1 & H2) c Hc. split; intros ->; contradiction.
Qed.

(* ------------------------------------------------------------------ index decompositions *)
Lemma last_index_none_contains c s : last_index_byte c s = None -> contains_byte c s = false.
Proof.
  induction s as [|x s IH]; [reflexivity|]. cbn [last_index_byte contains_byte existsb].
  destruct (last_index_byte c s) as [i|]; [discriminate|].
  destruct (x =? c) eqn:E; [discriminate|]. intros _.
  rewrite N.eqb_sym, E. simpl. apply IH. reflexivity.
Qed.

Lemma last_index_some c s : forall i, last_index_byte c s = Some i ->
  exists A P, s = A ++ c :: P /\ length A = i /\ contains_byte c P = false.
Proof.
  induction s as [|x s IH]; intros i; cbn [last_index_byte]; [discriminate|].
  destruct (last_index_byte c s) as [j|] eqn:E.
  - intros H. injection H as <-. destruct (IH j eq_refl) as (A & P & -> & HA & HP).
    exists (x :: A), P. split; [reflexivity|]. split; [simpl; congruence|exact HP].
  - destruct (x =? c) eqn:Ex; [|discriminate]. intros H. injection H as <-.
    apply N.eqb_eq in Ex. subst x. exists [], s. split; [reflexivity|]. split; [reflexivity|].
    apply last_index_none_contains. exact E.
Qed.

Lemma index_some c s : forall e, index_byte c s = Some e ->
  exists B R, s = B ++ c :: R /\ length B = e /\ contains_byte c B = false.
Proof.
  induction s as [|x s IH]; intros e; cbn [index_byte]; [discriminate|].
  destruct (x =? c) eqn:Ex.
  - intros H. injection H as <-. apply N.eqb_eq in Ex. subst x. exists [], s. auto.
  - destruct (index_byte c s) as [j|]; [|discriminate]. cbn [option_map]. intros H. injection H as <-.
    destruct (IH j eq_refl) as (B & R & -> & HB & HR). exists (x :: B), R.
    split; [reflexivity|]. split; [simpl; congruence|].
    unfold contains_byte in *. cbn [existsb]. rewrite N.eqb_sym, Ex. exact HR.
Qed.

Lemma app_eq_len {A} (a b c d : list A) : a ++ b = c ++ d -> length a = length c -> a = c /\ b = d.
Proof.
  revert c. induction a as [|x a IH]; intros [|y c] H L; try discriminate L.
  - auto.
  - simpl in H. injection H as -> H. simpl in L. destruct (IH c H) as [-> ->]; [lia|]. auto.
Qed.

(* ------------------------------------------------------------------ net.SplitHostPort, characterised *)
(* host:port with a host free of colons and brackets, or [host]:port with a host free of brackets;
   the port is free of colons and brackets *)
Definition splits (a h p : bytes) : Prop :=
  (plain h /\ plain p /\ a = h ++ COLON :: p) \/
  (nobr h /\ plain p /\ a = LBR :: h ++ RBR :: COLON :: p).

Lemma splits_complete a h p : splits a h p -> split_host_port a = Some (h, p).
Proof.
  intros [(Hh & Hp & ->)|(Hh & Hp & ->)].
  - apply split_host_port_simple; assumption.
  - pose proof (split_host_port_bracket h p Hh Hp) as H.
    replace ((LBR :: h ++ [RBR]) ++ COLON :: p) with (LBR :: h ++ RBR :: COLON :: p) in H
      by (simpl; rewrite <- app_assoc; reflexivity).
    exact H.
Qed.

Lemma splits_sound a h p : split_host_port a = Some (h, p) -> splits a h p.
Proof.
  unfold split_host_port.
  destruct (last_index_byte COLON a) as [i|] eqn:Ei; [|discriminate].
  destruct (last_index_some _ _ _ Ei) as (A & P & Ea & HA & HP).
  destruct a as [|c0 tl0]; [discriminate|].
  destruct (c0 =? LBR) eqn:E0.
  - apply N.eqb_eq in E0. subst c0.
    destruct (index_byte RBR (LBR :: tl0)) as [e|] eqn:Ee; [|discriminate].
    destruct (index_some _ _ _ Ee) as (B & R & Eb & HB & HBc).
    destruct (Nat.eqb (S e) (length (LBR :: tl0))); [discriminate|].
    destruct (Nat.eqb (S e) i) eqn:Esi; [|discriminate]. apply Nat.eqb_eq in Esi.
    destruct (contains_byte LBR tl0) eqn:CL; [discriminate|].
    destruct (contains_byte RBR (skipn (S e) (LBR :: tl0))) eqn:CR; [discriminate|].
    intros H. injection H as <- <-.
    (* B is "[" ++ host *)
    destruct B as [|b0 H0].
    { simpl in Eb. injection Eb as Eb _. discriminate Eb. }
    simpl in Eb. injection Eb as <- Etl.
    (* A = B ++ "]" and R = ":" ++ P *)
    assert (EA : A ++ COLON :: P = ((LBR :: H0) ++ [RBR]) ++ R).
    { rewrite <- Ea. simpl. rewrite Etl, <- app_assoc. reflexivity. }
    apply app_eq_len in EA as [-> ER].
    2:{ rewrite app_length. simpl in *. lia. }
    subst R. subst tl0.
    right.
    assert (He1 : (e - 1)%nat = length H0) by (simpl in HB; lia).
    rewrite He1, firstn_app_exact.
    assert (SK : skipn (S i) (LBR :: H0 ++ RBR :: COLON :: P) = P).
    { rewrite <- Esi. simpl in HB. rewrite <- HB.
      change (LBR :: H0 ++ RBR :: COLON :: P) with ((LBR :: H0) ++ RBR :: COLON :: P).
      replace (S (S (S (length H0)))) with (S (length ((LBR :: H0) ++ [RBR]))) by (rewrite app_length; simpl; lia).
      replace ((LBR :: H0) ++ RBR :: COLON :: P) with (((LBR :: H0) ++ [RBR]) ++ COLON :: P)
        by (rewrite <- app_assoc; reflexivity).
      apply skipn_app_cons. }
    cbn [skipn] in SK. rewrite SK.
    assert (SK2 : skipn (S e) (LBR :: H0 ++ RBR :: COLON :: P) = COLON :: P).
    { simpl in HB. rewrite <- HB. cbn [skipn]. apply skipn_app_cons. }
    rewrite SK2 in CR.
    rewrite contains_byte_app in CL. apply orb_false_iff in CL as [CL1 CL2].
    unfold contains_byte in CL2, CR, HBc. cbn [existsb] in CL2, CR, HBc.
    apply orb_false_iff in CL2 as [_ CL2]. apply orb_false_iff in CL2 as [_ CL2].
    apply orb_false_iff in CR as [_ CR]. apply orb_false_iff in HBc as [_ HBc].
    split; [|split; [|reflexivity]].
    + apply nobr_iff. split; apply contains_byte_false_iff; assumption.
    + apply plain_iff. repeat split; apply contains_byte_false_iff; assumption.
  - destruct (contains_byte COLON (firstn i (c0 :: tl0))) eqn:CC; [discriminate|].
    destruct (contains_byte LBR (c0 :: tl0)) eqn:CL; [discriminate|].
    destruct (contains_byte RBR (c0 :: tl0)) eqn:CR; [discriminate|].
    intros H. injection H as <- <-.
    change (skipn i tl0) with (skipn (S i) (c0 :: tl0)).
    rewrite Ea in CC, CL, CR |- *. subst i. rewrite firstn_app_exact in CC |- *. rewrite skipn_app_cons.
    rewrite contains_byte_app in CL, CR. apply orb_false_iff in CL as [CL1 CL2]. apply orb_false_iff in CR as [CR1 CR2].
    unfold contains_byte in CL2, CR2. cbn [existsb] in CL2, CR2.
    apply orb_false_iff in CL2 as [_ CL2]. apply orb_false_iff in CR2 as [_ CR2].
    left. split; [|split; [|reflexivity]]; apply plain_iff; repeat split; apply contains_byte_false_iff; assumption.
Qed.

Lemma split_host_port_spec a h p : split_host_port a = Some (h, p) <-> splits a h p.
Proof. split; [apply splits_sound|apply splits_complete]. Qed.

Lemma split_host_port_none_iff a : split_host_port a = None <-> forall h p, ~ splits a h p.
Proof.
  split.
  - intros H h p S. apply splits_complete in S. congruence.
  - intros H. destruct (split_host_port a) as [[h p]|] eqn:E; [|reflexivity].
    exfalso. apply (H h p). apply splits_sound. exact E.
Qed.

(* ------------------------------------------------------------------ strings.Trim *)
Definition all_in (set s : bytes) : Prop := forall c, In c s -> In c set.

Lemma trim_left_spec set s :
  exists l, s = l ++ trim_left set s /\ all_in set l /\
            (forall c r, trim_left set s = c :: r -> ~ In c set).
Proof.
  induction s as [|x s IH]; cbn [trim_left].
  - exists []. split; [reflexivity|]. split; [intros c []|discriminate].
  - destruct (contains_byte x set) eqn:E.
    + destruct IH as (l & Hs & Hl & Hh). exists (x :: l). split; [simpl; congruence|].
      split; [|exact Hh]. intros c [<-|Hc]; [apply contains_byte_iff; exact E|auto].
    + exists []. split; [reflexivity|]. split; [intros c []|].
      intros c r H. injection H as <- <-. apply contains_byte_false_iff. exact E.
Qed.

Lemma trim_left_stops set c r : ~ In c set -> trim_left set (c :: r) = c :: r.
Proof. intros H. cbn [trim_left]. apply contains_byte_false_iff in H. rewrite H. reflexivity. Qed.

Lemma trim_left_skips set l s : all_in set l -> trim_left set (l ++ s) = trim_left set s.
Proof.
  induction l as [|x l IH]; intros H; [reflexivity|]. cbn [app trim_left].
  assert (Hx : contains_byte x set = true) by (apply contains_byte_iff; apply H; left; reflexivity).
  rewrite Hx. apply IH. intros c Hc. apply H. right. exact Hc.
Qed.

Lemma all_in_rev set l : all_in set l -> all_in set (rev l).
Proof. intros H c Hc. apply H. apply in_rev. exact Hc. Qed.

(* l ++ m ++ r with l, r inside the cutset and m starting and ending outside it trims to m *)
Lemma trim_of_shape set l m r a b m' :
  all_in set l -> all_in set r -> m = a :: m' -> (exists m'', m = m'' ++ [b]) -> ~ In a set -> ~ In b set ->
  trim set (l ++ m ++ r) = m.
Proof.
  intros Hl Hr Em (m'' & Em2) Ha Hb. unfold trim.
  rewrite (trim_left_skips set l _ Hl). rewrite Em at 1. cbn [app]. rewrite (trim_left_stops set a _ Ha).
  change (a :: m' ++ r) with ((a :: m') ++ r). rewrite <- Em.
  rewrite rev_app_distr. rewrite (trim_left_skips set (rev r) _ (all_in_rev _ _ Hr)).
  rewrite Em2, rev_app_distr. cbn [rev app]. rewrite (trim_left_stops set b _ Hb).
  change (b :: rev m'') with ([b] ++ rev m''). rewrite <- (rev_involutive [b]) at 1.
  rewrite <- rev_app_distr. apply rev_involutive.
Qed.

(* every string is l ++ trim ++ r with l and r inside the cutset *)
Lemma trim_spec set s :
  exists l r, s = l ++ trim set s ++ r /\ all_in set l /\ all_in set r.
Proof.
  unfold trim.
  destruct (trim_left_spec set s) as (l & Hs & Hl & _).
  destruct (trim_left_spec set (rev (trim_left set s))) as (r' & Hr & Hr' & _).
  exists l, (rev r'). split; [|split; [exact Hl|apply all_in_rev; exact Hr']].
  rewrite Hs at 1. f_equal.
  apply (f_equal (@rev N)) in Hr. rewrite rev_involutive, rev_app_distr in Hr. exact Hr.
Qed.

Lemma trim_id set s : (forall c, In c s -> ~ In c set) -> trim set s = s.
Proof.
  intros H. unfold trim.
  assert (T : forall t, (forall c, In c t -> ~ In c set) -> trim_left set t = t).
  { intros [|c t] Ht; [reflexivity|]. apply trim_left_stops. apply Ht. left. reflexivity. }
  rewrite (T s H). rewrite T; [apply rev_involutive|]. intros c Hc. apply H. apply in_rev. exact Hc.
Qed.

(* ------------------------------------------------------------------ the Host header the redirect keeps *)
(* what requestHost is, as a relation on byte strings: the header minus ":port" when the header is
   host:port or [host]:port, the header itself otherwise *)
Definition kept_host (hh x : bytes) : Prop :=
  (exists h p, plain h /\ plain p /\ hh = h ++ COLON :: p /\ x = h) \/
  (exists h p, nobr h /\ plain p /\ hh = LBR :: h ++ RBR :: COLON :: p /\ x = LBR :: h ++ [RBR]) \/
  ((forall h p, ~ splits hh h p) /\ x = hh).

Lemma strip_port_go_kept hh : kept_host hh (strip_port_go hh).
Proof.
  unfold strip_port_go. destruct (split_host_port hh) as [[h p]|] eqn:E.
  - apply splits_sound in E. destruct E as [(Hh & Hp & ->)|(Hh & Hp & ->)].
    + left. exists h, p. rewrite has_suffix_app_self.
      replace (length (h ++ COLON :: p) - S (length p))%nat with (length h) by (rewrite app_length; simpl; lia).
      rewrite firstn_app_exact. auto.
    + right. left. exists h, p.
      replace (LBR :: h ++ RBR :: COLON :: p) with ((LBR :: h ++ [RBR]) ++ COLON :: p)
        by (simpl; rewrite <- app_assoc; reflexivity).
      rewrite has_suffix_app_self.
      replace (length ((LBR :: h ++ [RBR]) ++ COLON :: p) - S (length p))%nat with (length (LBR :: h ++ [RBR]))
        by (rewrite app_length; simpl; lia).
      rewrite firstn_app_exact. auto.
  - right. right. split; [apply split_host_port_none_iff; exact E|reflexivity].
Qed.

Lemma kept_host_functional hh x y : kept_host hh x -> kept_host hh y -> x = y.
Proof.
  assert (K : forall z, kept_host hh z -> z = strip_port_go hh).
  { intros z Hz. unfold strip_port_go.
    destruct Hz as [(h & p & Hh & Hp & -> & ->)|[(h & p & Hh & Hp & -> & ->)|(Hn & ->)]].
    - rewrite (splits_complete _ h p) by (left; auto). rewrite has_suffix_app_self.
      replace (length (h ++ COLON :: p) - S (length p))%nat with (length h) by (rewrite app_length; simpl; lia).
      rewrite firstn_app_exact. reflexivity.
    - rewrite (splits_complete _ h p) by (right; auto).
      replace (LBR :: h ++ RBR :: COLON :: p) with ((LBR :: h ++ [RBR]) ++ COLON :: p)
        by (simpl; rewrite <- app_assoc; reflexivity).
      rewrite has_suffix_app_self.
      replace (length ((LBR :: h ++ [RBR]) ++ COLON :: p) - S (length p))%nat with (length (LBR :: h ++ [RBR]))
        by (rewrite app_length; simpl; lia).
      rewrite firstn_app_exact. reflexivity.
    - apply split_host_port_none_iff in Hn. rewrite Hn. reflexivity. }
  intros Hx Hy. rewrite (K x Hx), (K y Hy). reflexivity.
Qed.

(* the response, for EVERY Host header value, redirect port and request URI *)
Lemma redir_response_total rport hh uri :
  exists x, kept_host hh x /\
    redir_response rport hh uri =
      (301, hex_escape_non_ascii (bs "https://" ++ x ++ port_part rport ++ uri), bs "close").
Proof.
  exists (strip_port_go hh). split; [apply strip_port_go_kept|]. reflexivity.
Qed.

(* a request without Host header (HTTP/1.0): nothing to keep *)
Lemma kept_host_empty x : kept_host [] x -> x = [].
Proof.
  intros [(h & p & _ & _ & E & _)|[(h & p & _ & _ & E & _)|(_ & ->)]]; [| |reflexivity].
  - destruct h; discriminate E.
  - discriminate E.
Qed.

Lemma redir_response_no_host rport uri :
  redir_response rport [] uri = (301, hex_escape_non_ascii (bs "https://" ++ port_part rport ++ uri), bs "close").
Proof. reflexivity. Qed.
