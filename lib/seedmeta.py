#!/usr/bin/env python3
"""fill seeded/<id>/meta.json from NOTES.md sections + confirm results + detect_*.json (what our checks reported)"""
import json, glob, os, re
ROOT = os.path.dirname(os.path.dirname(os.path.abspath(__file__)))
def sections(txt):
    out, cur = {}, None
    for line in txt.splitlines():
        m = re.match(r"^(#{1,2}) (.*)", line)
        if m:
            cur = m.group(2).strip(); out[cur] = []
        elif cur is not None:
            out[cur].append(line)
    return {k: "\n".join(v).strip() for k, v in out.items()}
def pick(sec, *keys):
    for k, v in sec.items():
        if any(x in k.lower() for x in keys):
            return v
    return ""
rows = []
for d in sorted(glob.glob(os.path.join(ROOT, "seeded", "C*-*"))):
    mp = os.path.join(d, "meta.json")
    meta = json.load(open(mp)) if os.path.exists(mp) else {}
    notes = open(os.path.join(d, "NOTES.md")).read() if os.path.exists(os.path.join(d, "NOTES.md")) else ""
    sec = sections(notes)
    title = notes.splitlines()[0].lstrip("# ").strip() if notes else ""
    meta["title"] = title
    meta["change"] = pick(sec, "change")[:1500]
    meta["breaks"] = ("property %s — " % meta.get("property", os.path.basename(d)[:3])) + pick(sec, "clause")[:1500]
    meta["needs_to_manifest"] = pick(sec, "manifest")[:1500]
    meta["what_was_run"] = pick(sec, "command", "demo")[:1500]
    det = {}
    for f in sorted(glob.glob(os.path.join(d, "detect_*.json"))):
        r = json.load(open(f))
        det[r["tier"]] = {"detected": r["detected"], "exit": r["exit"], "violations": r["violations"],
                          "concrete_replay": r["with_concrete_replay"], "patch_applies": r["patch_applies"], "wall_s": r["wall_s"]}
    if os.path.exists(os.path.join(d, "SUPERSEDED.md")):
        meta["superseded"] = open(os.path.join(d, "SUPERSEDED.md")).read().strip()
    if det:
        meta["detected_by_check"] = det
    json.dump(meta, open(mp, "w"), indent=1)
    q = det.get("quick"); t = det.get("thorough")
    def cell(x):
        if not x: return "not run"
        if not x["patch_applies"]: return "patch no longer applies"
        return ("DETECTED" + (" (concrete replay)" if x["concrete_replay"] else " (no-failing-input-found)")) if x["detected"] else "missed"
    rows.append("| %s | %s | %s | %s |" % (os.path.basename(d), title.split("—")[-1].strip()[:110], cell(q), cell(t)))
open(os.path.join(ROOT, "seeded", "MATRIX.md"), "w").write(
    "# Seeded changes vs checks\n\nEach row: a change to tmpim/casket written by an independent sub-agent from the property text only, confirmed in a scratch worktree "
    "(builds, existing tests pass, its demonstration fails with the change and passes without), then run through `lib/trymut.sh` (the property's check against a scratch worktree with the patch applied).\n\n"
    "| seeded | what it does | ./check quick | ./check thorough |\n|---|---|---|---|\n" + "\n".join(rows) + "\n")
print("\n".join(rows))
