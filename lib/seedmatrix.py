#!/usr/bin/env python3
"""run every seeded change (seeded/<ID>-mN/patch.diff) against the check of its property in a scratch
worktree of /repo (lib/trymut.sh) and record what the check reported.
usage: lib/seedmatrix.py [tier] [ID-mN ...]   -> seeded/<ID>-mN/detect_<tier>.json + seeded/MATRIX.md"""
import sys, os, json, glob, subprocess, re, time
ROOT = os.path.dirname(os.path.dirname(os.path.abspath(__file__)))
tier = "quick"; only = []
for a in sys.argv[1:]:
    if a in ("quick", "thorough"): tier = a
    else: only.append(a)
props = {os.path.basename(f)[:-5]: json.load(open(f)) for f in glob.glob(os.path.join(ROOT, "lib/props.d/*.json"))}
claimed = {p for p, s in props.items() if not s.get("not_applicable")}
for d in sorted(glob.glob(os.path.join(ROOT, "seeded", "C*-*"))):
    sid = os.path.basename(d); pid = sid.split("-")[0]
    if only and sid not in only: continue
    if pid not in claimed: continue
    if not os.path.exists(os.path.join(d, "patch.diff")): continue   # superseded (see SUPERSEDED.md)
    t0 = time.time()
    p = subprocess.run(["sh", "lib/trymut.sh", os.path.join(d, "patch.diff"), pid, tier], cwd=ROOT,
                       stdout=subprocess.PIPE, stderr=subprocess.STDOUT, text=True)
    out = p.stdout
    m = re.search(r"exit=(\d+)", out)
    viol = [l for l in out.splitlines() if l.startswith("VIOLATION")]
    res = {"seeded": sid, "tier": tier, "exit": int(m.group(1)) if m else None, "violations": viol,
           "summary": [l for l in out.splitlines() if re.match(r"C\d+ (quick|thorough):", l)],
           "patch_applies": "PATCH DOES NOT APPLY" not in out, "wall_s": round(time.time() - t0, 1),
           "detected": bool(viol) and (m and m.group(1) == "1"),
           "with_concrete_replay": any("no-failing-input-found" not in v for v in viol),
           "tail": out[-1500:] if not viol else ""}
    json.dump(res, open(os.path.join(d, "detect_%s.json" % tier), "w"), indent=1)
    print(sid, tier, "exit", res["exit"], "DETECTED" if res["detected"] else "missed", "(concrete)" if res["with_concrete_replay"] else "", flush=True)
