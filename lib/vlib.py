import sys, os, json, subprocess, time, re, glob, shutil, fcntl, concurrent.futures as cf

ROOT = os.path.dirname(os.path.dirname(os.path.abspath(__file__)))
COQ = os.path.join(ROOT, "coq")
HARN = os.path.join(ROOT, "harness")
BIN = os.path.join(ROOT, "bin", "harness")
REPO = os.environ.get("VERIF_REPO", "/repo")

GOENV = dict(os.environ, GOFLAGS="-mod=mod", GOPROXY="off", GOSUMDB="off", GOTOOLCHAIN="local",
             CGO_ENABLED="0")

FORBIDDEN = re.compile(r"\b(Admitted|admit|Axiom|Axioms|Parameter|Parameters|Conjecture|Conjectures|"
                       r"Unset\s+Guard|bypass_check|type-in-type|impredicative-set|Admit\s+Obligations|native_compute)\b")
# axioms of the standard library that theorems may depend on (none expected; named in DESIGN §6)
ALLOWED_AXIOMS = {"functional_extensionality_dep", "JMeq_eq", "Eq_rect_eq.eq_rect_eq",
                  "proof_irrelevance", "classic"}

def log(*a):
    print(*a, file=sys.stderr, flush=True)

def sh(cmd, cwd=None, env=None, timeout=None, capture=True):
    p = subprocess.run(cmd, cwd=cwd, env=env, timeout=timeout, shell=isinstance(cmd, str),
                       stdout=subprocess.PIPE if capture else None,
                       stderr=subprocess.STDOUT if capture else None, text=True)
    return p.returncode, (p.stdout or "")

class Lock:
    def __init__(self, name):
        os.makedirs(os.path.join(ROOT, "run"), exist_ok=True)
        self.path = os.path.join(ROOT, "run", name + ".lock")
    def __enter__(self):
        self.f = open(self.path, "w")
        fcntl.flock(self.f, fcntl.LOCK_EX)
    def __exit__(self, *a):
        fcntl.flock(self.f, fcntl.LOCK_UN)
        self.f.close()

def build_harness():
    """go build the harness against the repo working tree (default /repo; VERIF_REPO overrides, for
    self-tests against scratch worktrees) with the verif tag."""
    with Lock("gobuild"):
        shutil.copyfile(os.path.join(REPO, "go.sum"), os.path.join(HARN, "go.sum"))
        cmd = ["go", "build", "-tags", "verif", "-o", BIN]
        if os.path.realpath(REPO) != "/repo":
            mod = open(os.path.join(HARN, "go.mod")).read().replace("=> /repo", "=> " + os.path.realpath(REPO))
            open(os.path.join(HARN, "go_alt.mod"), "w").write(mod)
            shutil.copyfile(os.path.join(REPO, "go.sum"), os.path.join(HARN, "go_alt.sum"))
            cmd += ["-modfile=go_alt.mod"]
        rc, out = sh(cmd + ["."], cwd=HARN, env=GOENV, timeout=900)
    return rc, out

def run_translator():
    """regenerate coq/Gen_*.v from /repo sources; files are only rewritten when they change."""
    with Lock("coq"):
        rc, out = sh([BIN, "gen", "-repo", REPO, "-out", COQ], timeout=300, env=dict(GOENV, VERIF_ROOT=ROOT, VERIF_REPO=REPO))
        # a regenerated Gen_C11.v still contains the obligations lia cannot prove: take them out again (they are
        # reported by ./check C11), so that the file compiles for whoever builds the whole project next
        g = os.path.join(COQ, "Gen_C11.v")
        if rc == 0 and os.path.exists(g) and "c11_all_obligations" not in open(g).read() and os.path.exists(os.path.join(COQ, "Lib.vo")):
            import c11
            c11.prove_obligations(COQ)
    return rc, out

def coq_files():
    with open(os.path.join(COQ, "_CoqProject")) as f:
        return [l.strip() for l in f if l.strip().endswith(".v")]

def make_target(target, jobs=16, timeout=3000):
    with Lock("coq"):
        gen_coqproject()
        if not os.path.exists(os.path.join(COQ, "Makefile")) or \
           os.path.getmtime(os.path.join(COQ, "Makefile")) < os.path.getmtime(os.path.join(COQ, "_CoqProject")):
            sh(["coq_makefile", "-f", "_CoqProject", "-o", "Makefile"], cwd=COQ)
        cmd = ["make", "-j%d" % jobs, target]
        rc, out = sh(["timeout", str(timeout)] + cmd, cwd=COQ)
    return rc, out, " ".join(cmd)

def grep_forbidden(files):
    bad = []
    for f in files:
        p = os.path.join(COQ, f)
        if not os.path.exists(p):
            continue
        txt = open(p).read()
        # strip comments (non-nested is enough for our sources; nested handled by loop)
        prev = None
        while prev != txt:
            prev = txt
            txt = re.sub(r"\(\*[^*(]*(?:\*(?!\))[^*(]*|\((?!\*)[^*(]*)*\*\)", " ", txt)
        for m in FORBIDDEN.finditer(txt):
            bad.append("%s: %s" % (f, m.group(0)))
    return bad

def theorem_names(props_file):
    txt = open(os.path.join(COQ, props_file)).read()
    return re.findall(r"^\s*Theorem\s+([A-Za-z0-9_']+)", txt, re.M)

def print_assumptions(pid, props_mod, names, rundir):
    """compile a tiny file that re-prints the assumptions of every property theorem"""
    src = "Require Import V.%s.\n" % props_mod + "".join(
        'Goal True. idtac "@@%s". Abort.\nPrint Assumptions %s.\n' % (n, n) for n in names)
    path = os.path.join(rundir, "Assump_%s.v" % pid)
    open(path, "w").write(src)
    rc, out = sh(["timeout", "600", "coqc", "-Q", COQ, "V", path], cwd=rundir)
    res = {}
    cur = None
    for line in out.splitlines():
        if line.startswith("@@"):
            cur = line[2:].strip(); res[cur] = []
        elif cur is not None and line.strip():
            res[cur].append(line.strip())
    return rc, out, res

def deps_of(vfile):
    """transitive V.* dependencies of a .v file inside coq/ (by Require lines)"""
    seen, todo = [], [vfile]
    while todo:
        f = todo.pop()
        if f in seen or not os.path.exists(os.path.join(COQ, f)):
            continue
        seen.append(f)
        txt = open(os.path.join(COQ, f)).read()
        for m in re.finditer(r"V\.([A-Za-z0-9_]+)", txt):
            todo.append(m.group(1) + ".v")
    return seen

def run_coq_cases(rundir, jobs=16, per_file_timeout=1500):
    """coqc every cases_*.v in parallel; returns list of (global_index, code), errors"""
    files = sorted(glob.glob(os.path.join(rundir, "cases_*.v")))
    meta = json.load(open(os.path.join(rundir, "meta.json")))
    shard = meta["shard"]
    def one(path):
        k = int(re.search(r"cases_(\d+)\.v$", path).group(1))
        rc, out = sh(["timeout", str(per_file_timeout), "coqc", "-Q", COQ, "V", path], cwd=rundir)
        if rc != 0:
            return k, None, out
        m = re.search(r"R\s*=\s*(.*?)\n\s*:\s*list", out, re.S)
        if not m:
            return k, None, out
        pairs = re.findall(r"\(\s*(\d+)(?:%N)?\s*,\s*(\d+)(?:%N)?\s*\)", m.group(1))
        return k, [(k * shard + int(i), int(v)) for i, v in pairs], out
    bad, errors = [], []
    with cf.ThreadPoolExecutor(max_workers=jobs) as ex:
        for k, pairs, out in ex.map(one, files):
            if pairs is None:
                errors.append("cases_%03d.v: %s" % (k, out[-2000:]))
            else:
                bad.extend(pairs)
    for f in glob.glob(os.path.join(rundir, "cases_*.vo")) + glob.glob(os.path.join(rundir, "cases_*.glob")) + \
            glob.glob(os.path.join(rundir, ".cases_*.aux")) + glob.glob(os.path.join(rundir, "cases_*.vok")) + \
            glob.glob(os.path.join(rundir, "cases_*.vos")):
        try: os.remove(f)
        except OSError: pass
    return sorted(bad), errors, len(files)

def load_cases(rundir):
    recs = []
    with open(os.path.join(rundir, "cases.jsonl")) as f:
        for line in f:
            recs.append(json.loads(line))
    return recs

def load_known():
    p = os.path.join(ROOT, "known_findings.json")
    if not os.path.exists(p):
        return []
    return json.load(open(p)).get("findings", [])

# ---------------------------------------------------------------------------------------------
def load_props():
    d = {}
    for f in sorted(glob.glob(os.path.join(ROOT, "lib", "props.d", "*.json"))):
        d[os.path.basename(f)[:-5]] = json.load(open(f))
    return d
PROPS = load_props()

def gen_coqproject():
    """_CoqProject lists every coq/*.v (coqdep orders them); rewritten only when the set changes"""
    files = sorted(os.path.basename(f) for f in glob.glob(os.path.join(COQ, "*.v")))
    txt = "-Q . V\n-arg -w -arg -notation-overridden,-deprecated-hint-without-locality,-deprecated-instance-without-locality\n" + "\n".join(files) + "\n"
    p = os.path.join(COQ, "_CoqProject")
    if not os.path.exists(p) or open(p).read() != txt:
        open(p, "w").write(txt)

def main(argv):
    if not argv:
        print(__doc__); return 2
    pid = argv[0].upper()
    tier = os.environ.get("VERIF_TIER", "quick")
    replay = None
    i = 1
    while i < len(argv):
        if argv[i] in ("quick", "thorough"):
            tier = argv[i]
        elif argv[i] == "--replay":
            replay = os.path.abspath(argv[i + 1]); i += 1
        i += 1
    seed = int(os.environ.get("VERIF_SEED", "1"))
    if pid not in PROPS:
        log("unknown property", pid); return 2
    spec = PROPS[pid]
    t0 = time.time()
    rundir = os.path.join(ROOT, "run", pid + ("_replay" if replay else ""))
    shutil.rmtree(rundir, ignore_errors=True)
    os.makedirs(rundir)
    os.makedirs(os.path.join(ROOT, "replay"), exist_ok=True)
    if not replay:
        for f in glob.glob(os.path.join(ROOT, "replay", pid + "_*.json")):
            os.remove(f)
    os.makedirs(os.path.join(ROOT, "evidence"), exist_ok=True)

    violations = []   # dicts: {kind, sig, what, replay}
    notes = []

    # 1. harness build against the current tree
    rc, out = build_harness()
    if rc != 0:
        log(out)
        log("ERROR: harness does not build against /repo's working tree (check error, not a verdict)")
        return 2

    # 2. translator + proof gate
    gen_note = ""
    gen_failed = None
    if spec.get("uses_gen"):
        rc, out = run_translator()
        gen_note = out.strip()
        if rc != 0:
            # A table the translator reads could not be found in the current source (the code was
            # restructured). The previously generated file stays in place, the check goes on with it:
            # if the implementation still satisfies everything explored, the lost tie is reported as
            # a violation without a failing input; a failing input found below takes precedence.
            log(out); log("translator could not regenerate every Gen_*.v from the current source")
            gen_failed = out.strip()
    # C11: regenerated index obligations — unprovable ones are taken out (and reported below)
    ob_failing, ob_total, ob_pinned = [], 0, []
    if pid == "C11":
        import c11
        with Lock("coq"):
            failing_ids, err = c11.prove_obligations(COQ)
        if err:
            log(err); log("ERROR: Gen_C11.v could not be processed"); return 2
        meta_obs = {o["id"]: o for o in json.load(open(os.path.join(ROOT, "run", "c11_obligations.json")))}
        pins = json.load(open(os.path.join(ROOT, "lib", "c11_pins.json")))["pins"]
        pinset = {(p["file"], p["func"], p["func_hash"], p["expr"]) for p in pins}
        ob_total = len(meta_obs)
        for fid in failing_ids:
            o = meta_obs[fid]
            if (o["file"], o["func"], o["func_hash"], o["expr"]) in pinset:
                ob_pinned.append(o)
            else:
                ob_failing.append(o)
    props_file = spec["props"] + ".v"
    rc, mk_out, mk_cmd = make_target(spec["props"] + ".vo")
    proof_ok = (rc == 0)
    failing_file = None
    if not proof_ok:
        m = re.search(r'File "\./([^"]+)", line (\d+)', mk_out)
        failing_file = "%s:%s" % (m.group(1), m.group(2)) if m else "unknown"
        log(mk_out[-3000:])
    # model must be built even if a proof file broke (models are separate files)
    model_rc, model_out, _ = make_target(spec["model"] + ".vo")
    if model_rc != 0:
        log(model_out[-3000:])
        log("ERROR: model file does not compile"); return 2
    names = theorem_names(props_file)
    deps = deps_of(props_file)
    forb = grep_forbidden(deps)
    assum = {}
    bad_assum = []
    if proof_ok:
        rc, aout, assum = print_assumptions(pid, spec["props"], names, rundir)
        if rc != 0:
            proof_ok = False; failing_file = "Print Assumptions"; log(aout[-2000:])
        for n in names:
            lines = assum.get(n, [])
            if lines == ["Closed under the global context"]:
                continue
            ax = [l for l in lines if ":" in l and not l.startswith("Axioms")]
            axn = [l.split(":")[0].strip() for l in ax]
            if not lines or any(a not in ALLOWED_AXIOMS for a in axn):
                bad_assum.append("%s: %s" % (n, " | ".join(lines) or "no output"))
    # thorough tier: independent re-check of the compiled theorems (and everything they depend on) with coqchk
    coqchk = None
    if tier == "thorough" and proof_ok and not replay:
        with Lock("coq"):
            rc, cout = sh(["timeout", "2400", "coqchk", "-silent", "-o", "-Q", COQ, "V", "V." + spec["props"]], cwd=COQ)
        sect = re.search(r"\* Axioms:(.*?)\n\s*\n\* Constants/Inductives relying on type-in-type:(.*?)\n\s*\n\* Constants/Inductives relying on unsafe \(co\)fixpoints:(.*?)\n\s*\n\* Inductives whose positivity is assumed:(.*?)\n", cout + "\n", re.S)
        ax = [l.strip() for l in (sect.group(1).splitlines() if sect else []) if l.strip() and l.strip() != "<none>"]
        ours = [a for a in ax if not a.startswith("Coq.")]
        coqchk = {"cmd": "coqchk -silent -o -Q coq V V." + spec["props"], "exit": rc,
                  "axioms_of_loaded_libraries": ax, "axioms_outside_stdlib": ours,
                  "type_in_type": sect.group(2).strip() if sect else "?", "unsafe_fixpoints": sect.group(3).strip() if sect else "?",
                  "assumed_positivity": sect.group(4).strip() if sect else "?"}
        if rc != 0 or not sect or ours or any(coqchk[k] != "<none>" for k in ("type_in_type", "unsafe_fixpoints", "assumed_positivity")):
            proof_ok = False; failing_file = "coqchk"; log(cout[-2000:])
    obligations = len(names) + int(spec.get("extra_obligations", 0)) + ob_total
    discharged = obligations if (proof_ok and not forb and not bad_assum) else 0
    if discharged:
        discharged -= len(ob_failing)

    # 2b. the Go-stdlib models used by this property's model are re-validated against Go
    lib_cases = 0
    if spec.get("lib") and not replay:
        libdir = os.path.join(ROOT, "run", pid + "_lib")
        shutil.rmtree(libdir, ignore_errors=True); os.makedirs(libdir)
        make_target("GoLib_Cases.vo")
        rc, lout = sh([BIN, "lib", "-seed", str(seed), "-tier", tier, "-out", libdir], cwd=libdir)
        if rc != 0:
            log(lout[-2000:]); log("ERROR: LIB harness failed"); return 2
        lbad, lerr, _ = run_coq_cases(libdir)
        if lerr or lbad:
            log("ERROR: the Coq models of Go stdlib functions disagree with Go (model defect, not a verdict):", lerr, lbad[:10])
            return 2
        lib_cases = json.load(open(os.path.join(libdir, "meta.json")))["evaluations"]
        shutil.rmtree(libdir, ignore_errors=True)

    # 3. implementation run  +  4. kernel evaluation of model + spec
    known = [k for k in load_known() if k["property"] == pid]
    open_sigs = {k["sig"]: k for k in known if k.get("status") == "open"}
    def run_impl(rd):
        cmd = [BIN, pid.lower(), "-seed", str(seed), "-tier", tier, "-out", rd]
        if replay:
            cmd += ["-replay", replay]
        else:
            cmd += ["-corpus", os.path.join(ROOT, "corpus", pid)]
        env = dict(GOENV, VERIF_REPO=REPO, VERIF_ROOT=ROOT)
        rc, hout = sh(["timeout", str(spec.get("harness_timeout", 3000))] + cmd, env=env, cwd=rd)
        if rc != 0:
            log(hout[-4000:]); log("ERROR: harness run failed (rc=%d)" % rc); return None
        meta = json.load(open(os.path.join(rd, "meta.json")))
        recs = load_cases(rd)
        bad, errors, nfiles = run_coq_cases(rd)
        if errors:
            for e in errors: log(e)
            log("ERROR: case files did not evaluate"); return None
        # cases that would be reported: everything failing except the recorded open findings
        sus = sorted({i for i, v in bad if not ((v & 2) and recs[i]["sig"] in open_sigs)} |
                     {i for i in (meta.get("direct_violations") or []) if recs[i]["sig"] not in open_sigs})
        return meta, recs, bad, nfiles, sus
    r1 = run_impl(rundir)
    if r1 is None:
        return 2
    meta, recs, bad, nfiles, sus = r1
    unstable = None
    if sus and not replay and not os.environ.get("VERIF_NO_CONFIRM"):
        # Before anything is reported the identical run (same seed, same inputs, same order, fresh
        # process) is repeated once. Several cases drive real sockets and goroutines; on a heavily
        # loaded machine one of them can time out. If the repetition has no reportable failure at all,
        # the first run's failures are recorded as unstable (inputs kept in replay/<id>_unstable.json)
        # and not reported; if it has any, the first run is reported in full as it stands.
        rd2 = rundir + "_confirm"
        shutil.rmtree(rd2, ignore_errors=True); os.makedirs(rd2)
        r2 = run_impl(rd2)
        if r2 is not None and not r2[4]:
            unstable = [{"index": i, "input": recs[i]["input"], "obs": recs[i]["obs"], "sig": recs[i]["sig"]} for i in sus[:20]]
            json.dump({"property": pid, "kind": "failed once, passed on the identical repeated run (not reported)",
                       "count": len(sus), "cases": unstable},
                      open(os.path.join(ROOT, "replay", pid + "_unstable.json"), "w"), indent=1)
            notes.append("%d case(s) failed in the first run and none in the identical repeated run: recorded as unstable in replay/%s_unstable.json, not reported" % (len(sus), pid))
            log("UNSTABLE: property=%s %d case(s) failed once and passed on the identical repeated run" % (pid, len(sus)))
            meta, recs, bad, nfiles, sus = r2
        elif r2 is not None:
            notes.append("failures confirmed by the identical repeated run (%d reportable cases there, %d in the first run)" % (len(r2[4]), len(sus)))
        shutil.rmtree(rd2, ignore_errors=True)

    # 5. classify
    def write_replay(name, payload):
        path = os.path.join(ROOT, "replay", name)
        json.dump(payload, open(path, "w"), indent=1)
        return path
    spec_fail = [(i, v) for i, v in bad if v & 2]
    mismatch = [(i, v) for i, v in bad if v == 1]
    direct = meta.get("direct_violations") or []
    groups = {}
    for i, v in spec_fail:
        groups.setdefault(("spec", recs[i]["sig"]), []).append(i)
    for i in direct:
        groups.setdefault(("direct", recs[i]["sig"]), []).append(i)
    known_hits = []
    for (kind, sig), idxs in sorted(groups.items()):
        payload = {"property": pid, "kind": "property violated on the implementation (%s oracle)" % kind,
                   "sig": sig, "count": len(idxs),
                   "cases": [{"input": recs[i]["input"], "obs": recs[i]["obs"], "direct": recs[i].get("direct", "")}
                             for i in sorted(idxs, key=lambda j: len(json.dumps(recs[j]["input"])))[:5]]}
        if sig in open_sigs:
            known_hits.append((sig, open_sigs[sig], len(idxs)))
            continue
        path = write_replay("%s_%s.json" % (pid, re.sub(r"[^A-Za-z0-9_.-]+", "_", sig)), payload)
        violations.append({"line": "VIOLATION property=%s replay=%s" % (pid, path), "sig": sig})
    # C11: an index obligation that no longer proves — look for a panicking configuration of that
    # directive among this run's cases; if none, the obligation itself is the (unlocated) violation
    for o in ob_failing:
        ddir = os.path.dirname(o["file"])
        hit = [g for g in groups if g[1].startswith("conf:") and ":panic:" in g[1] and
               any(k for k, v in {"tls": "caskettls", "on": "onevent"}.items() if v == ddir and g[1].startswith("conf:%s:" % k))
               or (g[1].startswith("conf:") and ":panic:" in g[1] and ("caskethttp/" + g[1].split(":")[1]) == ddir)]
        if hit:
            notes.append("obligation %s (%s:%d %s) unprovable; a panicking configuration of that directive was found (%s)" % (o["id"], o["file"], o["line"], o["expr"], hit[0][1]))
            continue
        payload = {"property": pid, "kind": "proof obligation no longer checks",
                   "no_longer_checks": "index obligation %s in coq/Gen_C11.v: %s:%d in %s: `%s` is not shown to be within bounds by the guards in scope" % (o["id"], o["file"], o["line"], o["func"], o["expr"]),
                   "lemma": o["lemma"]}
        path = write_replay("%s_%s.json" % (pid, o["id"]), payload)
        violations.append({"line": "VIOLATION property=%s replay=%s no-failing-input-found" % (pid, path), "sig": o["id"]})
    if mismatch and not violations:
        # correspondence broken but the implementation satisfied the spec oracle everywhere
        idxs = [i for i, _ in mismatch]
        payload = {"property": pid, "kind": "correspondence broken: model and implementation disagree; "
                   "no explored case violates the executable spec",
                   "no_longer_checks": "correspondence %s.judge (model %s.v vs implementation)" % (spec["model"], spec["model"]),
                   "count": len(idxs),
                   "cases": [{"input": recs[i]["input"], "obs": recs[i]["obs"]} for i in idxs[:5]]}
        path = write_replay("%s_correspondence.json" % pid, payload)
        violations.append({"line": "VIOLATION property=%s replay=%s no-failing-input-found" % (pid, path), "sig": "correspondence"})
    elif mismatch:
        notes.append("%d model/implementation disagreements besides the violations" % len(mismatch))
    if gen_failed and not violations:
        payload = {"property": pid, "kind": "tie to the source lost: the translator cannot regenerate its tables from the current tree",
                   "no_longer_checks": "translator (harness gen): " + gen_failed[-1500:],
                   "note": "the check ran with the previously generated coq/Gen_*.v; no explored case violates the executable spec"}
        path = write_replay("%s_translator.json" % pid, payload)
        violations.append({"line": "VIOLATION property=%s replay=%s no-failing-input-found" % (pid, path), "sig": "translator"})
    elif gen_failed:
        notes.append("translator could not regenerate every table: " + gen_failed[-300:])
    if not (proof_ok and not forb and not bad_assum):
        why = {"failing": failing_file, "forbidden_tokens": forb, "bad_assumptions": bad_assum,
               "make_tail": mk_out[-1500:]}
        if not violations:
            payload = {"property": pid, "kind": "proof obligation no longer checks",
                       "no_longer_checks": "theorems of %s (%s)" % (props_file, failing_file), "detail": why}
            path = write_replay("%s_proof.json" % pid, payload)
            violations.append({"line": "VIOLATION property=%s replay=%s no-failing-input-found" % (pid, path), "sig": "proof"})
        else:
            notes.append("proof gate also failed: %s" % json.dumps(why)[:500])

    # 6. evidence
    samples = []
    step = max(1, len(recs) // 6)
    for r in recs[::step][:6]:
        samples.append({"input": r["input"], "obs": r["obs"]})
    ev = {
        "property_id": pid, "tier": tier, "seed": seed, "level": "proof",
        "coverage": {
            "obligations": obligations, "discharged": discharged,
            "checker_cmd": "cd coq && %s   (coqc 8.16.1 full .vo build) ; Print Assumptions on %d theorems ; coqc on %d generated case files" % (mk_cmd, len(names), nfiles),
            "trusted_base": spec.get("trusted_base", []),
            "theorems": names,
            "assumptions_reported": {n: assum.get(n, []) for n in names},
            "partial_or_refuted_theorems": [n for n in names if n.endswith("_partial") or n.endswith("_refuted")],
            "evaluations": meta["evaluations"], "distinct_nontrivial": meta["distinct_nontrivial"],
            "rule": meta["rule"], "samples": samples,
            "traces_validated_against_impl": meta["evaluations"],
            "model_impl_disagreements": len(mismatch), "spec_oracle_failures": len(spec_fail),
            "direct_violations": len(direct),
            "corpus_cases": meta.get("corpus_cases", 0),
            "go_stdlib_model_cases_validated": lib_cases,
            "input_distribution": meta.get("histogram", {}),
            "known_findings_seen": [{"sig": s, "count": n} for s, _, n in known_hits],
            "translator": gen_note, "notes": notes,
            "index_obligations": {"total": ob_total, "unprovable": [o["id"] for o in ob_failing],
                                  "pinned": [{"id": o["id"], "site": "%s:%d %s" % (o["file"], o["line"], o["expr"])} for o in ob_pinned]},
            "replay_mode": bool(replay),
            "unstable_cases_not_reported": unstable or [],
            "coqchk": coqchk,
        },
        "assumptions": spec.get("assumptions", []),
        "wall_s": round(time.time() - t0, 2),
        "violations": len(violations),
    }
    if not replay and os.path.realpath(REPO) == "/repo":
        json.dump(ev, open(os.path.join(ROOT, "evidence", pid + ".json"), "w"), indent=1)
    for sig, k, n in known_hits:
        print("KNOWN-FINDING: property=%s %s (%d cases this run; %s)" % (pid, k["what"], n, k["id"]))
    for v in violations:
        print(v["line"])
    print("%s %s: %d cases, %d theorems %s, %d disagreements, %d spec failures, %.1fs" % (
        pid, tier, meta["evaluations"], len(names), "checked" if discharged else "NOT CHECKED",
        len(mismatch), len(spec_fail), time.time() - t0))
    return 1 if violations else 0
