#!/usr/bin/env python3
"""merge known_findings.d/*.json (written by per-property builders) into known_findings.json"""
import json, glob, os
ROOT = os.path.dirname(os.path.dirname(os.path.abspath(__file__)))
k = json.load(open(os.path.join(ROOT, "known_findings.json")))
have = {(f["property"], f["sig"]) for f in k["findings"]}
n = 0
for p in sorted(glob.glob(os.path.join(ROOT, "known_findings.d", "*.json"))):
    for f in json.load(open(p))["findings"]:
        if (f["property"], f["sig"]) not in have:
            k["findings"].append(f); have.add((f["property"], f["sig"])); n += 1
json.dump(k, open(os.path.join(ROOT, "known_findings.json"), "w"), indent=1)
print("merged", n, "entries")
