#!/usr/bin/env python3
"""merge known_findings.d/*.json (maintained per property) into known_findings.json: an entry of a .d file
replaces the entry with the same (property, sig); new ones are appended. Optional args old=new rewrite commit
hashes inside "fixed" fields of both (used when fix commits are cherry-picked into /repo)."""
import json, glob, os, sys
ROOT = os.path.dirname(os.path.dirname(os.path.abspath(__file__)))
remap = dict(a.split("=") for a in sys.argv[1:] if "=" in a)
def fixhash(f):
    if "fixed" in f:
        for o, n in remap.items():
            f["fixed"] = f["fixed"].replace(o, n)
    return f
k = json.load(open(os.path.join(ROOT, "known_findings.json")))
idx = {(f["property"], f["sig"]): i for i, f in enumerate(k["findings"])}
n = u = 0
for p in sorted(glob.glob(os.path.join(ROOT, "known_findings.d", "*.json"))):
    d = json.load(open(p))
    for f in d["findings"]:
        fixhash(f)
        key = (f["property"], f["sig"])
        if key in idx:
            if k["findings"][idx[key]] != f:
                k["findings"][idx[key]] = f; u += 1
        else:
            idx[key] = len(k["findings"]); k["findings"].append(f); n += 1
    json.dump(d, open(p, "w"), indent=1)
for f in k["findings"]:
    fixhash(f)
json.dump(k, open(os.path.join(ROOT, "known_findings.json"), "w"), indent=1)
print("merged: %d new, %d updated" % (n, u))
