#!/usr/bin/env python3
"""confirm a seeded change in a scratch worktree and store it under /verif/seeded/<PID>-<m>/.
usage: confirm_mut.py <PID> <m> <outdir> [--patch FILE] [--full]
 1. worktree of /repo HEAD under /tmp; demo placed; demo passes WITHOUT the change
 2. change applied; builds; demo FAILS; existing tests of touched packages (or ./... with --full) pass
 3. files copied to seeded/, worktree removed
"""
import sys, os, re, subprocess, json, shutil, time
pid, m, outdir = sys.argv[1:4]
patch = os.path.join(outdir, "patch.diff")
full = "--full" in sys.argv
if "--patch" in sys.argv:
    patch = sys.argv[sys.argv.index("--patch") + 1]
env = dict(os.environ, GOFLAGS="-mod=mod", GOPROXY="off", GOSUMDB="off", GOTOOLCHAIN="local")
wt = "/var/tmp/verif-confirm-%s-%s" % (pid, m)
def sh(cmd, cwd=wt, timeout=1800):
    p = subprocess.run(cmd, cwd=cwd, shell=True, env=env, stdout=subprocess.PIPE, stderr=subprocess.STDOUT, text=True, timeout=timeout)
    return p.returncode, p.stdout
subprocess.run("git -C /repo worktree remove --force %s 2>/dev/null; git -C /repo worktree add -q --detach %s HEAD" % (wt, wt), shell=True, check=True)
res = {"property": pid, "mutation": m, "repo_head": subprocess.check_output("git -C /repo log --format=%h -1", shell=True, text=True).strip()}
try:
    demo = open(os.path.join(outdir, "demo_test.go")).read()
    first = demo.splitlines()[0]
    mm = re.search(r"[Pp]lace at:?\s*(\S+)", first)
    place = mm.group(1).rstrip(";")
    mr = re.search(r"go test [^;]*", first)
    runcmd = mr.group(0).strip()
    os.makedirs(os.path.dirname(os.path.join(wt, place)), exist_ok=True)
    open(os.path.join(wt, place), "w").write(demo)
    rc0, out0 = sh(runcmd)
    res["demo_without_change"] = "PASS" if rc0 == 0 else "FAIL"
    rc, out = sh("git apply %s" % patch)
    if rc != 0:
        res["error"] = "patch does not apply: " + out[-300:]
    else:
        rcb, outb = sh("go build ./...")
        res["build_with_change"] = "OK" if rcb == 0 else "FAIL"
        rc1, out1 = sh(runcmd)
        res["demo_with_change"] = "PASS" if rc1 == 0 else "FAIL"
        res["demo_fail_tail"] = out1[-600:]
        os.remove(os.path.join(wt, place))
        files = subprocess.check_output("git diff --name-only", cwd=wt, shell=True, text=True).split()
        pkgs = sorted({"./" + os.path.dirname(f) + "/..." for f in files})
        tcmd = "go test -vet=off -count=1 ./..." if full else "go test -vet=off -count=1 " + " ".join(pkgs)
        rct, outt = sh(tcmd, timeout=3000)
        res["existing_tests_cmd"] = tcmd
        res["existing_tests_with_change"] = "PASS" if rct == 0 else "FAIL"
        if rct != 0:
            res["existing_tests_tail"] = outt[-800:]
        res["demo_cmd"] = runcmd
        res["demo_path"] = place
finally:
    subprocess.run("git -C /repo worktree remove --force %s" % wt, shell=True)
ok = res.get("demo_without_change") == "PASS" and res.get("demo_with_change") == "FAIL" and \
     res.get("existing_tests_with_change") == "PASS" and res.get("build_with_change") == "OK"
res["confirmed"] = ok
if ok:
    dst = "/verif/seeded/%s-%s" % (pid, m)
    os.makedirs(dst, exist_ok=True)
    shutil.copyfile(patch, os.path.join(dst, "patch.diff"))
    shutil.copyfile(os.path.join(outdir, "demo_test.go"), os.path.join(dst, "demo_test.go"))
    if os.path.exists(os.path.join(outdir, "NOTES.md")):
        shutil.copyfile(os.path.join(outdir, "NOTES.md"), os.path.join(dst, "NOTES.md"))
    meta = {"property": pid, "id": "%s-%s" % (pid, m), "breaks": "see NOTES.md", "confirmed_by": res,
            "needs_to_manifest": "see NOTES.md (Condition/Trigger section)"}
    json.dump(meta, open(os.path.join(dst, "meta.json"), "w"), indent=1)
print(json.dumps(res, indent=1))
