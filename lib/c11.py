"""C11 helper: compile coq/Gen_C11.v; obligations that lia cannot prove are taken out one by one
(their statements are kept in a comment) until the file compiles; returns the failing ids."""
import re, os, subprocess, json

def add_aggregate(path):
    """append the conjunction of all surviving obligations and its proof (stated as ONE theorem in C11_Props.v)"""
    txt = open(path).read()
    if "c11_all_obligations" in txt:
        return
    lem = re.findall(r"^Lemma (ob_\S+) : (.*)\.$", txt, re.M)
    stmts = " /\\\n  ".join("(%s)" % s for _, s in lem)
    proof = "I"
    for n, _ in reversed(lem):
        proof = "(conj %s %s)" % (n, proof)
    txt += "\n(* conjunction of the %d obligations above that lia proves (added by lib/c11.py) *)\n" % len(lem)
    txt += "Definition c11_all_obligations : Prop :=\n  %s%sTrue.\n" % (stmts, " /\\\n  " if lem else "")
    txt += "Lemma c11_all_obligations_hold : c11_all_obligations.\nProof. exact %s. Qed.\n" % proof
    open(path, "w").write(txt)

def prove_obligations(coqdir, timeout=600):
    path = os.path.join(coqdir, "Gen_C11.v")
    failing = []
    for _ in range(200):
        p = subprocess.run(["timeout", str(timeout), "coqc", "-Q", coqdir, "V", path], stdout=subprocess.PIPE,
                           stderr=subprocess.STDOUT, text=True, cwd=coqdir)
        if p.returncode == 0:
            add_aggregate(path)
            # every obligation taken out so far (by this call or an earlier one on the same generated text)
            removed = re.findall(r"UNPROVED by lia, removed: Lemma (\S+)", open(path).read())
            return removed, None
        m = re.search(r'line (\d+), characters', p.stdout)
        if not m:
            return failing, p.stdout[-2000:]
        line = int(m.group(1))
        lines = open(path).read().split("\n")
        # find the lemma that contains this line
        start = line - 1
        while start >= 0 and not lines[start].startswith("Lemma "):
            start -= 1
        end = line - 1
        while end < len(lines) and "Qed." not in lines[end]:
            end += 1
        if start < 0:
            return failing, p.stdout[-2000:]
        name = re.match(r"Lemma (\S+)", lines[start]).group(1)
        failing.append(name)
        stmt = " ".join(lines[start:end + 1]).replace("(*", "( *").replace("*)", "* )")
        lines[start:end + 1] = ["(* UNPROVED by lia, removed: " + stmt + " *)"]
        open(path, "w").write("\n".join(lines))
    return failing, "too many failing obligations"

if __name__ == "__main__":
    import sys
    f, err = prove_obligations(sys.argv[1])
    print(json.dumps({"failing": f, "error": err}, indent=1))
