"""C11 helper: compile coq/Gen_C11.v. One probe run of coqc tells which obligations lia proves; the ones it
cannot prove are taken out (their statements are kept in a comment) and returned; the rest is compiled and the
conjunction of the surviving obligations is appended as ONE statement (c11_all_obligations)."""
import re, os, subprocess, json

LEMMA = re.compile(r"^Lemma (ob_\S+) : (.*)\.\nProof\. (.*) Qed\.$", re.M)

def add_aggregate(path):
    """append the conjunction of all surviving obligations and its proof (stated as ONE theorem in C11_Props.v)"""
    txt = open(path).read()
    if "c11_all_obligations" in txt:
        return
    lem = re.findall(r"^Lemma (ob_\S+) : (.*)\.$", txt, re.M)
    stmts = " /\\\n  ".join("(%s)" % s for _, s in lem)
    proof = "I"
    for n, _ in reversed(lem):
        proof = "(conj %s %s)" % (n, proof)
    txt += "\n(* conjunction of the %d obligations above that lia proves (added by lib/c11.py) *)\n" % len(lem)
    txt += "Definition c11_all_obligations : Prop :=\n  %s%sTrue.\n" % (stmts, " /\\\n  " if lem else "")
    txt += "Lemma c11_all_obligations_hold : c11_all_obligations.\nProof. exact %s. Qed.\n" % proof
    txt += "Definition c11_proved_count : nat := %d%%nat.\n" % len(lem)
    open(path, "w").write(txt)

def coqc(coqdir, path, timeout):
    return subprocess.run(["timeout", str(timeout), "coqc", "-Q", coqdir, "V", path], stdout=subprocess.PIPE,
                          stderr=subprocess.STDOUT, text=True, cwd=coqdir)

def take_out(txt, names):
    """replace the named lemmas by a comment that keeps their statement"""
    def rep(m):
        if m.group(1) not in names:
            return m.group(0)
        stmt = ("Lemma %s : %s. Proof. %s Qed." % (m.group(1), m.group(2), m.group(3))).replace("(*", "( *").replace("*)", "* )")
        return "(* UNPROVED by lia, removed: " + stmt + " *)"
    return LEMMA.sub(rep, txt)

def probe(coqdir, txt, timeout):
    """one coqc run over a scratch file in which every obligation is a Goal that reports whether its own proof
    script closes it (30 s per obligation); returns the set of unproved names, or None when the probe could not run"""
    head = txt[:LEMMA.search(txt).start()] if LEMMA.search(txt) else txt
    out = [head]
    names = []
    for m in LEMMA.finditer(txt):
        name, stmt, script = m.group(1), m.group(2), m.group(3).strip()
        script = script.rstrip(".")
        names.append(name)
        out.append('Goal %s.\nProof. first [ assert_succeeds (solve [timeout 30 (%s)]); idtac "C11PROVED %s" | idtac "C11UNPROVED %s" ]. Abort.'
                   % (stmt, script, name, name))
    # the scratch file lives outside coq/ (every coq/*.v belongs to the project)
    pdir = os.path.join(os.path.dirname(os.path.abspath(coqdir)), "run")
    if not os.path.isdir(pdir):
        pdir = coqdir
    ppath = os.path.join(pdir, "c11_probe_%d.v" % os.getpid())
    open(ppath, "w").write("\n".join(out) + "\n")
    try:
        p = coqc(coqdir, ppath, timeout)
    finally:
        stem = ppath[:-2]
        for f in (stem + ".v", stem + ".vo", stem + ".vok", stem + ".vos", stem + ".glob",
                  os.path.join(pdir, "." + os.path.basename(stem) + ".aux")):
            try:
                os.remove(f)
            except OSError:
                pass
    if p.returncode != 0:
        return None
    proved = set(re.findall(r"C11PROVED (\S+)", p.stdout))
    unproved = set(re.findall(r"C11UNPROVED (\S+)", p.stdout))
    if proved | unproved != set(names):
        return None
    return unproved

def prove_obligations(coqdir, timeout=600):
    path = os.path.join(coqdir, "Gen_C11.v")
    txt = open(path).read()
    if "c11_all_obligations" not in txt and LEMMA.search(txt):
        bad = probe(coqdir, txt, timeout)
        if bad:
            open(path, "w").write(take_out(txt, bad))
    failing = []
    # the file must now compile; should an obligation still fail (probe unavailable), take them out one by one
    for _ in range(400):
        p = coqc(coqdir, path, timeout)
        if p.returncode == 0:
            add_aggregate(path)
            # every obligation taken out so far (by this call or an earlier one on the same generated text)
            removed = re.findall(r"UNPROVED by lia, removed: Lemma (\S+)", open(path).read())
            return removed, None
        m = re.search(r'line (\d+), characters', p.stdout)
        if not m:
            return failing, p.stdout[-2000:]
        line = int(m.group(1))
        lines = open(path).read().split("\n")
        # find the lemma that contains this line
        start = line - 1
        while start >= 0 and not lines[start].startswith("Lemma "):
            start -= 1
        end = line - 1
        while end < len(lines) and "Qed." not in lines[end]:
            end += 1
        if start < 0:
            return failing, p.stdout[-2000:]
        name = re.match(r"Lemma (\S+)", lines[start]).group(1)
        failing.append(name)
        stmt = " ".join(lines[start:end + 1]).replace("(*", "( *").replace("*)", "* )")
        lines[start:end + 1] = ["(* UNPROVED by lia, removed: " + stmt + " *)"]
        open(path, "w").write("\n".join(lines))
    return failing, "too many failing obligations"

if __name__ == "__main__":
    import sys
    f, err = prove_obligations(sys.argv[1])
    print(json.dumps({"failing": f, "error": err}, indent=1))
