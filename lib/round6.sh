#!/bin/sh
# usage: lib/round6.sh <ID> — confirm the round-6 seeded changes (m11, m12) of one property delivered in
# /var/tmp/mut-<ID>-out and run the property's quick check against each (serialised by a lock: bin/harness is shared)
ID="$1"; cd "$(dirname "$0")/.."
export GOFLAGS=-mod=mod GOPROXY=off GOSUMDB=off GOTOOLCHAIN=local
for m in m11 m12; do
  [ -f /var/tmp/mut-$ID-out/$m/patch.diff ] || continue
  python3 lib/confirm_mut.py $ID $m /var/tmp/mut-$ID-out/$m --full > /var/tmp/verif-r6-$ID-$m.confirm 2>&1 &
done
wait
for m in m11 m12; do
  [ -f seeded/$ID-$m/patch.diff ] || continue
  flock /var/tmp/verif-trymut.lock python3 lib/seedmatrix.py quick $ID-$m > /var/tmp/verif-r6-$ID-$m.detect 2>&1
done
echo "done $ID: $(cat /var/tmp/verif-r6-$ID-m1*.detect 2>/dev/null | tr '\n' ';')"
