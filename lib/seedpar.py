#!/usr/bin/env python3
"""run lib/seedmatrix.py for many seeded changes in parallel lanes: /verif plus scratch worktrees of /verif
(/var/tmp/vq-N, each with its own bin/harness and run/), since one tree can run only one check at a time.
usage: lib/seedpar.py <tier> <sid> ...   (results copied back to /verif/seeded/<sid>/detect_<tier>.json)"""
import sys, os, subprocess, threading, queue, shutil, glob
tier = sys.argv[1]; sids = sys.argv[2:]
lanes = os.environ.get("LANES", "").split() or ["/verif"] + sorted(glob.glob("/var/tmp/vq-*"))
q = queue.Queue()
for s in sids: q.put(s)
def work(lane):
    while True:
        try: sid = q.get_nowait()
        except queue.Empty: return
        if lane != "/verif":
            dst = os.path.join(lane, "seeded", sid)
            shutil.rmtree(dst, ignore_errors=True); shutil.copytree(os.path.join("/verif/seeded", sid), dst)
        cmd = ["python3", "lib/seedmatrix.py", tier, sid]
        if lane == "/verif": cmd = ["flock", "/var/tmp/verif-trymut.lock"] + cmd
        p = subprocess.run(cmd, cwd=lane, stdout=subprocess.PIPE, stderr=subprocess.STDOUT, text=True)
        if lane != "/verif":
            f = os.path.join(lane, "seeded", sid, "detect_%s.json" % tier)
            if os.path.exists(f): shutil.copy(f, os.path.join("/verif/seeded", sid))
        print(lane, p.stdout.strip().splitlines()[-1] if p.stdout.strip() else "no output", flush=True)
ts = [threading.Thread(target=work, args=(l,)) for l in lanes]
[t.start() for t in ts]; [t.join() for t in ts]
