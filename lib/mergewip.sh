#!/bin/sh
# usage: lib/mergewip.sh <branch> ... — merge sub-agent branches into main: regenerated / rewritten files (Gen_*, seeded/,
# evidence/) keep ours, known_findings.json is rebuilt from known_findings.d by lib/merge_findings.py
cd "$(dirname "$0")/.."
for b in "$@"; do
  echo "== $b"
  git merge --no-edit "$b" 2>&1 | grep -i 'conflict\|Merge made\|files changed\|Already'
  for f in $(git status --short | grep -E '^(UU|AA) ' | awk '{print $2}'); do
    case $f in
      coq/Gen_*|seeded/*|evidence/*) git checkout --ours "$f"; git add "$f";;
      known_findings.json) git checkout --ours "$f"; python3 lib/merge_findings.py; git add known_findings.json known_findings.d;;
      *) echo "UNRESOLVED $f";;
    esac
  done
  git status --short | grep -qE '^(UU|AA) ' || git commit -q --no-edit 2>/dev/null
done
python3 lib/merge_findings.py; git add known_findings.json known_findings.d; git commit -q -m "known_findings.json rebuilt from known_findings.d" 2>/dev/null
git log --oneline -1 | cut -c1-80
