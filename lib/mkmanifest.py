#!/usr/bin/env python3
"""regenerate MANIFEST.json from lib/props.json (single source of truth for the claimed checks)"""
import json, os
ROOT = os.path.dirname(os.path.dirname(os.path.abspath(__file__)))
import glob
props = {os.path.basename(f)[:-5]: json.load(open(f)) for f in glob.glob(os.path.join(ROOT, "lib", "props.d", "*.json"))}
allids = [json.loads(l)["id"] for l in open(os.path.join(ROOT, "properties.jsonl"))]
hooks = [l.strip() for l in open(os.path.join(ROOT, "MANIFEST.hooks")) if l.strip() and not l.startswith("#")] \
    if os.path.exists(os.path.join(ROOT, "MANIFEST.hooks")) else []
checks, na = [], []
for pid in allids:
    s = props.get(pid)
    if not s or s.get("not_applicable"):
        na.append({"property_id": pid, "reason": (s or {}).get("not_applicable", "not claimed yet: model and correspondence for this property are not built in this revision (see DESIGN.md §4)")})
        continue
    checks.append({
        "property_id": pid,
        "quick_cmd": "./check %s quick" % pid,
        "thorough_cmd": "./check %s thorough" % pid,
        "evidence_file": "evidence/%s.json" % pid,
        "replay_cmd_template": "./check %s --replay {path}" % pid,
        "engine": "coq-proof+correspondence",
        "level_claimed": {"category": "proof", "text": s["level_text"], "design_ref": s.get("design_ref", "DESIGN.md §4 " + pid)},
        "level_note": s["level_note"],
        "technique": s.get("technique", "machine-checked proof in Coq 8.16.1 over an executable model, tied to the Go code by a kernel-evaluated correspondence check"),
    })
m = {
    "version": 1,
    "setup_cmd": "./setup.sh",
    "hooks": {
        "guard": "verif (Go build tag)",
        "enable": "go build -tags verif (the harness module in /verif/harness replaces github.com/tmpim/casket by /repo)",
        "baseline_off_cmd": "cd /repo && GOFLAGS=-mod=mod GOPROXY=off GOSUMDB=off GOTOOLCHAIN=local go test -json -vet=off -count=1 -timeout 25m ./...",
        "source_commits": hooks,
        "add_only": True,
    },
    "engines": [{"name": "coq-proof+correspondence", "path": "check", "serves_properties": [c["property_id"] for c in checks],
                 "kind_free_text": "Coq 8.16.1 theorems over executable Gallina models (coq/Cxx_{Model,Proofs,Props}.v); Go harness runs the real code on generated cases and the Coq kernel (vm_compute) evaluates model and executable spec on the same cases; translator regenerates coq/Gen_*.v from the Go sources"}],
    "checks": checks,
    "not_applicable": na,
    "notes": "Every check rebuilds the harness from /repo's working tree. Exit 2 = the check itself could not run (build error), never a verdict. known_findings.json lists recorded genuine defects.",
}
json.dump(m, open(os.path.join(ROOT, "MANIFEST.json"), "w"), indent=1)
print("MANIFEST.json: %d checks, %d not claimed" % (len(checks), len(na)))
