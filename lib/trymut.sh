#!/bin/sh
# usage: lib/trymut.sh <patch.diff> <ID> [tier] — run a check against a scratch worktree of /repo HEAD
# with the seeded change applied (VERIF_REPO); /repo itself is not touched.
P="$(realpath "$1")"; ID="$2"; TIER="${3:-quick}"
WT="/var/tmp/verif-trymut-$$"
git -C /repo worktree add -q --detach "$WT" HEAD || exit 3
for f in $(git -C /repo status --short | awk '$1=="??"{print $2}' | grep verif_export); do cp "/repo/$f" "$WT/$f"; done
if ! git -C "$WT" apply "$P" 2>/dev/null; then echo "PATCH DOES NOT APPLY: $P"; git -C /repo worktree remove --force "$WT"; exit 3; fi
VERIF_REPO="$WT" ./check "$ID" "$TIER"; rc=$?
git -C /repo worktree remove --force "$WT"
echo "exit=$rc"
