#!/bin/sh
# usage: lib/trymut.sh <patch.diff> <ID> [tier]   — apply a seeded change to /repo, run the check, undo.
P="$(realpath "$1")"; ID="$2"; TIER="${3:-quick}"
if ! git -C /repo apply --check "$P" 2>/dev/null; then echo "PATCH DOES NOT APPLY: $P"; exit 3; fi
git -C /repo apply "$P"
./check "$ID" "$TIER"; rc=$?
git -C /repo apply -R "$P" || echo "WARNING: could not revert $P"
echo "exit=$rc"
