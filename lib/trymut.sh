#!/bin/sh
# usage: lib/trymut.sh <patch.diff> <ID> [tier]   — apply a seeded change to /repo, run the check, undo.
P="$1"; ID="$2"; TIER="${3:-quick}"
if ! git -C /repo apply --check "$P" 2>/dev/null; then echo "PATCH DOES NOT APPLY: $P"; exit 3; fi
git -C /repo apply "$P"
./check "$ID" "$TIER"; rc=$?
git -C /repo checkout -- . ; git -C /repo clean -fdq
echo "exit=$rc"
