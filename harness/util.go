package main

import (
	"crypto/sha256"
	"encoding/hex"
	"fmt"
	"strings"
)

// Rand is splitmix64: every random choice of a run derives from one seed.
type Rand struct{ s uint64 }

func NewRand(seed uint64) *Rand { return &Rand{s: seed*0x9E3779B97F4A7C15 + 0x1234567} }
func (r *Rand) U64() uint64 {
	r.s += 0x9E3779B97F4A7C15
	z := r.s
	z = (z ^ (z >> 30)) * 0xBF58476D1CE4E5B9
	z = (z ^ (z >> 27)) * 0x94D049BB133111EB
	return z ^ (z >> 31)
}
func (r *Rand) Intn(n int) int {
	if n <= 0 {
		return 0
	}
	return int(r.U64() % uint64(n))
}
func (r *Rand) Bool() bool         { return r.U64()&1 == 1 }
func (r *Rand) Chance(p int) bool  { return r.Intn(100) < p }
func (r *Rand) Range(lo, hi int) int { return lo + r.Intn(hi-lo+1) }
func (r *Rand) Pick(xs []string) string { return xs[r.Intn(len(xs))] }
func (r *Rand) Perm(n int) []int {
	p := make([]int, n)
	for i := range p {
		p[i] = i
	}
	for i := n - 1; i > 0; i-- {
		j := r.Intn(i + 1)
		p[i], p[j] = p[j], p[i]
	}
	return p
}

func hashKey(s string) string {
	h := sha256.Sum256([]byte(s))
	return hex.EncodeToString(h[:8])
}

// ---- Coq term emitters ----
func cBool(b bool) string {
	if b {
		return "true"
	}
	return "false"
}
func cN(n uint64) string   { return fmt.Sprintf("%d%%N", n) }
func cNat(n int) string    { return fmt.Sprintf("%d%%nat", n) }
func cZ(n int64) string {
	if n < 0 {
		return fmt.Sprintf("(%d)%%Z", n)
	}
	return fmt.Sprintf("%d%%Z", n)
}
func cBytes(b []byte) string { return "(hex \"" + hex.EncodeToString(b) + "\")" }
func cStr(s string) string   { return cBytes([]byte(s)) }
func cList(items []string) string {
	return "[" + strings.Join(items, "; ") + "]"
}
func cNatList(xs []int) string {
	it := make([]string, len(xs))
	for i, x := range xs {
		it[i] = cNat(x)
	}
	return cList(it)
}
func cZList(xs []int64) string {
	it := make([]string, len(xs))
	for i, x := range xs {
		it[i] = cZ(x)
	}
	return cList(it)
}
func cNList(xs []uint64) string {
	it := make([]string, len(xs))
	for i, x := range xs {
		it[i] = cN(x)
	}
	return cList(it)
}
func cStrList(xs []string) string {
	it := make([]string, len(xs))
	for i, x := range xs {
		it[i] = cStr(x)
	}
	return cList(it)
}
func cPair(a, b string) string { return "(" + a + ", " + b + ")" }
func cApp(f string, args ...string) string {
	return "(" + f + " " + strings.Join(args, " ") + ")"
}
func cOpt(s *string) string {
	if s == nil {
		return "None"
	}
	return "(Some " + *s + ")"
}
