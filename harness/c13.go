package main

// C13 — FastCGI requests and responses cross the wire intact.
//
// Three kinds of cases, all running casket's real code:
//   wire  : FCGIClient.Do over an in-memory connection (hook VerifNewClient); the raw bytes it
//           wrote are handed to Coq, where a reference responder decodes them.
//   demux : the io.Reader returned by Do is read with scripted buffer sizes over a scripted
//           responder byte stream delivered in scripted segments; delivered bytes, error class
//           and the diverted stderr (hook VerifStderr) are observed.
//   child : the same handler against Go's own net/http/fcgi responder (an independent
//           standard-conforming peer): what that responder understood and what the client got back.
//   serve : the fastcgi directive's real setup + Handler.ServeHTTP on a real directory tree
//           against a byte-level loopback responder that captures the request bytes and
//           replies with a scripted framing; outcome, received bytes and the client-side
//           response (status, headers, body, logged stderr) are observed.

import (
	"bufio"
	"bytes"
	"context"
	"crypto/tls"
	"encoding/hex"
	"encoding/json"
	"fmt"
	"io"
	"net"
	"net/http"
	"net/http/fcgi"
	"net/http/httptest"
	"net/url"
	"os"
	"path"
	"path/filepath"
	"runtime"
	"runtime/debug"
	"sort"
	"strconv"
	"strings"
	"sync"
	"time"

	"github.com/tmpim/casket"
	_ "github.com/tmpim/casket/caskethttp"
	"github.com/tmpim/casket/caskethttp/fastcgi"
	"github.com/tmpim/casket/caskethttp/httpserver"
)

// ---------- compact byte strings ----------
type c13Seg struct {
	H string `json:"h,omitempty"` // hex literal
	G []int  `json:"g,omitempty"` // [start, n]: bytes (start+i) mod 251
	Z []int  `json:"z,omitempty"` // [byte, n]
}
type c13S []c13Seg

func c13Pat(start, n int) []byte {
	b := make([]byte, n)
	c := start % 251
	for i := range b {
		b[i] = byte(c)
		c++
		if c == 251 {
			c = 0
		}
	}
	return b
}

func c13Expand(s c13S) []byte {
	var out []byte
	for _, g := range s {
		switch {
		case len(g.G) == 2:
			out = append(out, c13Pat(g.G[0], g.G[1])...)
		case len(g.Z) == 2:
			out = append(out, bytes.Repeat([]byte{byte(g.Z[0])}, g.Z[1])...)
		default:
			b, _ := hex.DecodeString(g.H)
			out = append(out, b...)
		}
	}
	return out
}

// c13Compress is lossless (checked): long counting / constant runs become SG / SZ segments.
func c13Compress(b []byte) c13S {
	var out c13S
	var lit []byte
	flush := func() { // literals in pieces of at most 512 bytes (a long string literal is deep to parse)
		for len(lit) > 0 {
			n := len(lit)
			if n > 512 {
				n = 512
			}
			out = append(out, c13Seg{H: hex.EncodeToString(lit[:n])})
			lit = lit[n:]
		}
		lit = nil
	}
	const minRun = 48
	i := 0
	for i < len(b) {
		j := i
		for j+1 < len(b) && b[j] < 251 && ((b[j] < 250 && b[j+1] == b[j]+1) || (b[j] == 250 && b[j+1] == 0)) {
			j++
		}
		k := i
		for k+1 < len(b) && b[k+1] == b[i] {
			k++
		}
		switch {
		case j-i+1 >= minRun && j >= k && b[j] < 251:
			flush()
			out = append(out, c13Seg{G: []int{int(b[i]), j - i + 1}})
			i = j + 1
		case k-i+1 >= minRun:
			flush()
			out = append(out, c13Seg{Z: []int{int(b[i]), k - i + 1}})
			i = k + 1
		default:
			lit = append(lit, b[i])
			i++
		}
	}
	flush()
	if !bytes.Equal(c13Expand(out), b) {
		panic("c13Compress: not lossless")
	}
	return out
}

func c13Term(s c13S) string {
	it := make([]string, 0, len(s))
	for _, g := range s {
		switch {
		case len(g.G) == 2:
			it = append(it, fmt.Sprintf("SG %d%%N %d%%N", g.G[0], g.G[1]))
		case len(g.Z) == 2:
			it = append(it, fmt.Sprintf("SZ %d%%N %d%%N", g.Z[0], g.Z[1]))
		default:
			it = append(it, "SL (hex \""+g.H+"\")")
		}
	}
	return cList(it)
}
func c13BytesTerm(b []byte) string { return c13Term(c13Compress(b)) }

// c13Str is cStr for strings that may be long: long ones are written as (expand [...]) so that
// no huge literal has to be parsed.
func c13Str(s string) string {
	if len(s) <= 256 {
		return cStr(s)
	}
	return "(expand " + c13BytesTerm([]byte(s)) + ")"
}
func c13StrList(xs []string) string {
	it := make([]string, len(xs))
	for i, x := range xs {
		it[i] = c13Str(x)
	}
	return cList(it)
}

// ---------- inputs ----------
type c13KV struct {
	K c13S `json:"k"`
	V c13S `json:"v"`
}
type c13Rec struct {
	Ty  int  `json:"ty"`
	C   c13S `json:"c"`
	Pad int  `json:"pad,omitempty"`
	N   int  `json:"n,omitempty"` // > 1: a run of N identical records
}
type c13Rule struct {
	Path   string      `json:"path"`
	Preset bool        `json:"preset,omitempty"`
	PName  *string     `json:"pname,omitempty"` // preset name as written (overrides Preset; may be unknown or empty)
	Items  [][]string  `json:"items,omitempty"` // the block's sub-directives in the order written (name, args...); replaces Ext..Env
	Ext    *string     `json:"ext,omitempty"`
	Split  *string     `json:"split,omitempty"`
	Index  []string    `json:"index,omitempty"`
	Except []string    `json:"except,omitempty"`
	Env    [][2]string `json:"env,omitempty"`
}
type c13Stream struct {
	Recs []c13Rec `json:"recs"`
	Tail c13S     `json:"tail,omitempty"`
}
type c13In struct {
	Kind string `json:"kind"` // wire | demux | serve | child | overlap | together
	// overlap: reader i reads stream i; Sched = [reader, buffer size] of every Read call, in order
	Streams []c13Stream `json:"streams,omitempty"`
	Sched   [][2]int    `json:"sched,omitempty"`
	// together: request i+1 is served completely during the At[i]-th body write of request i
	Subs []*c13In `json:"subs,omitempty"`
	At   []int    `json:"at,omitempty"`
	// after: Subs = [A, B]; request A fails part-way (Fail: "reader" = its body reader returns an error
	// after K bytes, "limit" = the body is cut by http.MaxBytesReader at K bytes (the limits directive:
	// 413), "backend" = its responder resets the connection while the body is being sent), then
	// request B is served and judged like a serve case of its own
	Fail string `json:"fail,omitempty"`
	K    int    `json:"k,omitempty"`
	// wire
	Pairs   []c13KV `json:"pairs,omitempty"`
	HasBody bool    `json:"hasbody,omitempty"`
	Body    c13S    `json:"body,omitempty"`
	Script  []int   `json:"script,omitempty"` // read sizes of the body reader
	WT      bool    `json:"wt,omitempty"`     // the body reader implements io.WriterTo (bytes.Reader)
	// demux (and the responder's reply in serve)
	Recs   []c13Rec `json:"recs,omitempty"`
	Tail   c13S     `json:"tail,omitempty"`
	Sizes  []int    `json:"sizes,omitempty"`  // caller buffer sizes
	Chunks []int    `json:"chunks,omitempty"` // segmentation of the connection's reads
	// serve
	CS      bool        `json:"cs,omitempty"`
	Rules   []c13Rule   `json:"rules,omitempty"`
	Path    string      `json:"path,omitempty"`
	Method  string      `json:"method,omitempty"`
	Query   string      `json:"query,omitempty"`
	Host    string      `json:"host,omitempty"`
	Remote  string      `json:"remote,omitempty"`
	Proto   string      `json:"proto,omitempty"`
	Prefix  string      `json:"prefix,omitempty"`
	User    string      `json:"user,omitempty"`
	Headers [][]string  `json:"headers,omitempty"` // name, values...
	CL      int64       `json:"cl,omitempty"`      // -1 = unknown length
	TLS     []int       `json:"tls,omitempty"`     // [version, cipher suite]: the request arrived over TLS (no client certificate)
	Fields  [][2]string `json:"fields,omitempty"`  // responder's header fields
	RBody   c13S        `json:"rbody,omitempty"`
	// head: the same responder output under a second framing / connection segmentation; Conf: the output
	// is the rendering of Fields with line end Eol followed by RBody
	Recs2   []c13Rec `json:"recs2,omitempty"`
	Chunks2 []int    `json:"chunks2,omitempty"`
	Conf    bool     `json:"conf,omitempty"`
	Eol     string   `json:"eol,omitempty"`
}

// ---------- in-memory connection ----------
type c13Conn struct {
	w      bytes.Buffer
	r      []byte
	chunks []int
}

func (m *c13Conn) Write(p []byte) (int, error) { return m.w.Write(p) }
func (m *c13Conn) Read(p []byte) (int, error) {
	if len(p) == 0 {
		return 0, nil
	}
	if len(m.r) == 0 {
		return 0, io.EOF
	}
	c := len(p)
	if len(m.chunks) > 0 {
		if m.chunks[0] > 0 && m.chunks[0] < c {
			c = m.chunks[0]
		}
		m.chunks = m.chunks[1:]
	}
	if c > len(m.r) {
		c = len(m.r)
	}
	copy(p, m.r[:c])
	m.r = m.r[c:]
	return c, nil
}
func (m *c13Conn) Close() error { return nil }

func c13EncRec(r c13Rec) []byte {
	c := c13Expand(r.C)
	out := []byte{1, byte(r.Ty), 0, 1, byte(len(c) >> 8), byte(len(c)), byte(r.Pad), 0}
	out = append(out, c...)
	out = append(out, bytes.Repeat([]byte{0xAA}, r.Pad)...)
	if r.N > 1 {
		out = bytes.Repeat(out, r.N)
	}
	return out
}

// c13NRecs counts the records of a framing (runs expanded).
func c13NRecs(recs []c13Rec) int {
	n := 0
	for _, r := range recs {
		if r.N > 1 {
			n += r.N
		} else {
			n++
		}
	}
	return n
}

// c13RecsTerm: a plain list, or list segments and (repeat r n) runs joined by ++
func c13RecsTerm(recs []c13Rec) string {
	one := func(r c13Rec) string {
		return "(" + cN(uint64(r.Ty)) + ", " + c13Term(r.C) + ", " + cN(uint64(r.Pad)) + ")"
	}
	var parts, cur []string
	flush := func() {
		if len(cur) > 0 {
			parts = append(parts, cList(cur))
			cur = nil
		}
	}
	for _, r := range recs {
		if r.N > 1 {
			flush()
			parts = append(parts, fmt.Sprintf("(repeat %s %d%%nat)", one(r), r.N))
		} else {
			cur = append(cur, one(r))
		}
	}
	flush()
	switch len(parts) {
	case 0:
		return cList(nil)
	case 1:
		return parts[0]
	}
	return "(" + strings.Join(parts, " ++ ") + ")"
}
func c13ErrCode(err error) int {
	switch {
	case err == nil:
		return 0
	case err == io.EOF:
		return 1
	case err == io.ErrUnexpectedEOF:
		return 2
	case strings.Contains(err.Error(), "invalid header version"):
		return 3
	}
	return 4
}

func c13PairLen(n int) int {
	if n > 127 {
		return 4
	}
	return 1
}

// c13BodyReader: a reader with scripted read sizes, or (WT) one that implements io.WriterTo as
// io.NopCloser(bytes.NewReader(..)) does — io.Copy then hands the whole body to Write at once.
func c13BodyReader(in *c13In, body []byte) io.ReadCloser {
	if in.WT {
		return io.NopCloser(bytes.NewReader(append([]byte(nil), body...)))
	}
	return &scriptReader{data: append([]byte(nil), body...), script: append([]int(nil), in.Script...), eofd: len(in.Script)%2 == 1}
}

// ---------- wire ----------
func c13RunWire(in *c13In) (res Result) {
	params := map[string]string{}
	var pt []string
	truncFits, nofit := false, false
	for _, kv := range in.Pairs {
		k, v := c13Expand(kv.K), c13Expand(kv.V)
		params[string(k)] = string(v)
		pt = append(pt, cPair(c13Term(kv.K), c13Term(kv.V)))
		enc := c13PairLen(len(k)) + c13PairLen(len(v)) + len(k) + len(v)
		if enc <= 65500 && 8+len(k)+len(v) > 65500 {
			truncFits = true
		}
		if enc > 65500 {
			nofit = true
		}
	}
	body := c13Expand(in.Body)
	mc := &c13Conn{}
	cl := fastcgi.VerifNewClient(mc)
	panicked := false
	func() {
		defer func() {
			if e := recover(); e != nil {
				panicked = true
			}
		}()
		var rd io.Reader
		if in.HasBody {
			rd = c13BodyReader(in, body)
		}
		cl.Do(params, rd)
	}()
	wire := mc.w.Bytes()
	sig := "wire:plain"
	switch {
	case truncFits:
		sig = "wire:pair-fits-one-record-but-8+k+v-exceeds-65500"
	case nofit:
		sig = "wire:pair-exceeds-one-record"
	}
	class := fmt.Sprintf("wire:pairs%s:body%s", c13Bucket(len(in.Pairs)), c13Bucket(len(body)))
	return Result{
		Term: cApp("CWire", cList(pt), cBool(in.HasBody), c13Term(in.Body), c13BytesTerm(wire), cBool(panicked)),
		Obs:  map[string]interface{}{"wire_len": len(wire), "panicked": panicked},
		Sig:  sig, Nontrivial: len(in.Pairs) > 0 || len(body) > 0, Class: class,
	}
}

func c13Bucket(n int) string {
	switch {
	case n == 0:
		return "0"
	case n < 128:
		return "<128"
	case n < 65500:
		return "<65500"
	case n == 65500:
		return "=65500"
	}
	return ">65500"
}

// ---------- demux ----------
func c13RunDemux(in *c13In) Result {
	var wire []byte
	conforming := true
	for _, r := range in.Recs {
		wire = append(wire, c13EncRec(r)...)
		if r.Ty != 3 && r.Ty != 6 && r.Ty != 7 {
			conforming = false
		}
	}
	tail := c13Expand(in.Tail)
	wire = append(wire, tail...)
	mc := &c13Conn{r: wire, chunks: append([]int(nil), in.Chunks...)}
	cl := fastcgi.VerifNewClient(mc)
	var got []byte
	var reads []uint64 // n of every Read call
	code := 0
	direct := ""
	func() {
		defer func() {
			if e := recover(); e != nil {
				direct = fmt.Sprint("panic in streamReader.Read: ", e)
			}
		}()
		rd, err := cl.Do(map[string]string{}, nil)
		if err != nil {
			direct = "Do failed: " + err.Error()
			return
		}
		for _, m := range in.Sizes {
			p := make([]byte, m)
			n, err := rd.Read(p)
			reads = append(reads, uint64(n))
			got = append(got, p[:n]...)
			if err != nil {
				code = c13ErrCode(err)
				break
			}
		}
	}()
	stderr := fastcgi.VerifStderr(cl)
	sizes := make([]uint64, len(in.Sizes))
	for i, s := range in.Sizes {
		sizes[i] = uint64(s)
	}
	sig := "demux:conforming"
	if !conforming || len(tail) > 0 {
		sig = "demux:malformed"
	}
	return Result{
		Term: cApp("CDemux", c13RecsTerm(in.Recs), c13Term(in.Tail), cNList(sizes), c13BytesTerm(got), cN(uint64(code)), c13BytesTerm(stderr), cNList(reads)),
		Obs:  map[string]interface{}{"delivered": len(got), "err": code, "stderr": len(stderr), "reads": len(reads), "longest_run_of_empty_reads": c13EmptyRun(in.Sizes, reads, code)},
		Sig:  sig, Direct: direct, Nontrivial: c13NRecs(in.Recs) > 1, Class: fmt.Sprintf("%s:err%d", sig, code),
	}
}

// c13EmptyRun: longest run of consecutive Read calls (len(p) > 0) that returned (0, nil) — for the log only
func c13EmptyRun(sizes []int, reads []uint64, code int) int {
	best, cur := 0, 0
	for i, n := range reads {
		last := i == len(reads)-1
		switch {
		case sizes[i] == 0:
		case n == 0 && !(last && code != 0):
			cur++
			if cur > best {
				best = cur
			}
		default:
			cur = 0
		}
	}
	return best
}

// ---------- serve ----------
var c13OSEnv = [][2]string{{"C13_SET", "from the environment"}, {"C13_EMPTY", ""}}

var c13Files = []string{
	"index.php", "a.php", "B.PHP", "app/index.php", "app/x.php", "app/Y.PhP", "app/info.php",
	"app/static.txt", "app/noidx/readme.md", "app/sub/index.html", "app/sub/home.php",
	"app/dir.php/inner.txt", "app/sp ace.php", "other/z.php", "app/ȺȺ.php", "app/ünï.php",
	// scripts of other responders (sites with several fastcgi rules)
	"cgi/tool.pl", "cgi/TOOL2.PL", "cgi/run.cgi", "cgi/index.pl", "cgi/readme.txt", "cgi/lib/x.py", "cgi/lib/index.py", "app/t.pl", "app/job.cgi",
	"cgi/tool.pl.d/notes.txt",
	// scripts with extensions a block gives next to (instead of) the preset's
	"app/info.php5", "app/index.php5", "index.php5", "app/legacy.phtml", "app/home.phtml", "app/sub/index.phtml", "app/main.pl",
}

type c13Responder struct {
	ln   net.Listener
	mu   sync.Mutex
	seq  int
	resp []byte
	got  chan c13Capture
}
type c13Capture struct {
	seq int
	raw []byte
}

var (
	c13Once sync.Once
	c13Root string
	c13Srv  *c13Responder
	c13Srvs []*c13Responder // one responder per nesting level of overlapping requests (level 0 = c13Srv)
)

func c13ResponderAt(level int) *c13Responder {
	for len(c13Srvs) <= level {
		ln, err := net.Listen("tcp", "127.0.0.1:0")
		if err != nil {
			panic(err)
		}
		s := &c13Responder{ln: ln, got: make(chan c13Capture, 64)}
		go s.loop()
		c13Srvs = append(c13Srvs, s)
	}
	return c13Srvs[level]
}

func c13Setup() {
	c13Once.Do(func() {
		wd, _ := os.Getwd()
		base := filepath.Join(wd, "c13fs")
		os.RemoveAll(base)
		c13Root = filepath.Join(base, "root")
		for _, f := range c13Files {
			p := filepath.Join(c13Root, filepath.FromSlash(f))
			os.MkdirAll(filepath.Dir(p), 0o755)
			os.WriteFile(p, []byte("<?php /* source text that must never be served */ ?>"), 0o644)
		}
		ln, err := net.Listen("tcp", "127.0.0.1:0")
		if err != nil {
			panic(err)
		}
		for _, kv := range c13OSEnv {
			os.Setenv(kv[0], kv[1])
		}
		os.Unsetenv("C13_UNSET")
		c13Srv = &c13Responder{ln: ln, got: make(chan c13Capture, 64)}
		c13Srvs = []*c13Responder{c13Srv}
		go c13Srv.loop()
		casket.Quiet = true
	})
}

func (s *c13Responder) loop() {
	for {
		cn, err := s.ln.Accept()
		if err != nil {
			return
		}
		go s.handle(cn)
	}
}

// handle reads one complete request (up to the empty stdin record), replies with the scripted
// bytes, half-closes, and captures everything the client sent until it closes.
func (s *c13Responder) handle(cn net.Conn) {
	defer cn.Close()
	s.mu.Lock()
	seq, resp := s.seq, s.resp
	s.mu.Unlock()
	cn.SetDeadline(time.Now().Add(1200 * time.Millisecond))
	br := bufio.NewReaderSize(cn, 1<<16)
	var raw []byte
	for done := false; !done; {
		hdr := make([]byte, 8)
		n, err := io.ReadFull(br, hdr)
		raw = append(raw, hdr[:n]...)
		if err != nil {
			break
		}
		cl := int(hdr[4])<<8 | int(hdr[5])
		c := make([]byte, cl+int(hdr[6]))
		n, err = io.ReadFull(br, c)
		raw = append(raw, c[:n]...)
		if err != nil {
			break
		}
		if hdr[1] == 5 && cl == 0 {
			done = true
		}
	}
	cn.Write(resp)
	if tc, ok := cn.(*net.TCPConn); ok {
		tc.CloseWrite()
	}
	extra, _ := io.ReadAll(br)
	raw = append(raw, extra...)
	s.got <- c13Capture{seq, raw}
}

func c13Quote(s string) string {
	return "\"" + strings.ReplaceAll(s, "\"", "\\\"") + "\""
}

func c13RuleTerm(r fastcgi.Rule) string {
	var env []string
	for _, e := range r.EnvVars {
		env = append(env, cPair(cStr(e[0]), cStr(e[1])))
	}
	return fmt.Sprintf("{| r_path := %s; r_ext := %s; r_split := %s; r_index := %s; r_except := %s; r_env := %s; r_root := %s |}",
		cStr(r.Path), cStr(r.Ext), cStr(r.SplitPath), cStrList(r.IndexFiles), cStrList(r.IgnoredSubPaths), cList(env), cStr(r.Root))
}

func c13HdrTerm(h map[string][]string) string {
	keys := make([]string, 0, len(h))
	for k := range h {
		keys = append(keys, k)
	}
	sort.Strings(keys)
	it := make([]string, len(keys))
	for i, k := range keys {
		it[i] = cPair(cStr(k), c13StrList(h[k]))
	}
	return cList(it)
}

// c13Block: the rule's block as an ordered list of sub-directives (name, args...), exactly as rendered
func c13Block(ru c13Rule, i int) [][]string {
	var items [][]string
	if ru.Items != nil {
		items = append(items, ru.Items...)
	} else {
		if ru.Ext != nil {
			items = append(items, []string{"ext", *ru.Ext})
		}
		if ru.Split != nil {
			items = append(items, []string{"split", *ru.Split})
		}
		if len(ru.Index) > 0 {
			items = append(items, append([]string{"index"}, ru.Index...))
		}
		if len(ru.Except) > 0 {
			items = append(items, append([]string{"except"}, ru.Except...))
		}
	}
	items = append(items, []string{"env", "VERIF_RULE", strconv.Itoa(i)})
	if ru.Items == nil {
		for _, e := range ru.Env {
			items = append(items, []string{"env", e[0], e[1]})
		}
	}
	return append(items, []string{"read_timeout", "5s"}, []string{"send_timeout", "5s"}, []string{"connect_timeout", "5s"})
}

func c13PresetName(ru c13Rule) (string, bool) {
	if ru.PName != nil {
		return *ru.PName, true
	}
	return "php", ru.Preset
}

func c13ItemTerm(it []string) string {
	switch {
	case it[0] == "ext" && len(it) == 2:
		return cApp("IExt", cStr(it[1]))
	case it[0] == "split" && len(it) == 2:
		return cApp("ISplit", cStr(it[1]))
	case it[0] == "root" && len(it) == 2:
		return cApp("IRoot", cStr(it[1]))
	case it[0] == "index" && len(it) >= 2:
		return cApp("IIndex", cStrList(it[1:]))
	case it[0] == "except" && len(it) >= 2:
		return cApp("IExcept", cStrList(it[1:]))
	case it[0] == "env" && len(it) >= 3:
		return cApp("IEnv", cStr(it[1]), cStr(it[2]))
	}
	return "IOther"
}

// c13CfgTerm: the directive as written (what the model of fastcgiParse and the spec read)
func c13CfgTerm(ru c13Rule, i int) string {
	pre := "None"
	if n, ok := c13PresetName(ru); ok {
		pre = "(Some " + cStr(n) + ")"
	}
	var its []string
	for _, it := range c13Block(ru, i) {
		its = append(its, c13ItemTerm(it))
	}
	return fmt.Sprintf("{| c_path := %s; c_preset := %s; c_items := %s |}", cStr(ru.Path), pre, cList(its))
}

// c13DeclaredRule: what the configuration says, computed on the Go side only for the input class (Sig)
// and the oracle tables: a block setting wins over the preset's, the last one given wins
func c13DeclaredRule(ru c13Rule, i int) fastcgi.Rule {
	var d fastcgi.Rule
	d.Path = ru.Path
	if n, ok := c13PresetName(ru); ok && n == "php" {
		d.Ext, d.SplitPath, d.IndexFiles = ".php", ".php", []string{"index.php"}
	}
	for _, it := range c13Block(ru, i) {
		switch {
		case it[0] == "ext" && len(it) == 2:
			d.Ext = it[1]
		case it[0] == "split" && len(it) == 2:
			d.SplitPath = it[1]
		case it[0] == "index" && len(it) >= 2:
			d.IndexFiles = it[1:]
		case it[0] == "except" && len(it) >= 2:
			d.IgnoredSubPaths = it[1:]
		}
	}
	return d
}

// c13HookWriter: the client connection of a request; during its At-th body write another request
// is served completely (a deterministic stand-in for a second client handled while this response
// is in flight).  It does not implement io.ReaderFrom: the handler's copy loop is really used.
type c13HookWriter struct {
	rec    *httptest.ResponseRecorder
	at     int
	writes int
	during func()
}

func (w *c13HookWriter) Header() http.Header { return w.rec.Header() }
func (w *c13HookWriter) WriteHeader(c int)   { w.rec.WriteHeader(c) }
func (w *c13HookWriter) Write(p []byte) (int, error) {
	n, err := w.rec.Write(p)
	w.writes++
	if w.writes == w.at && w.during != nil {
		d := w.during
		w.during = nil
		d()
	}
	return n, err
}

func c13RunServe(in *c13In) Result { return c13ServeOne(in, 0, 0, nil) }

// ---------- after: a request that fails part-way, then another one ----------
// c13Fail is set while request A of an `after` case runs through c13ServeOne.
var c13Fail struct {
	kind string
	k    int
}
var c13BadLn net.Listener

// c13BadBackend: a FastCGI "responder" that resets every connection as soon as it is accepted.
func c13BadBackend() string {
	if c13BadLn == nil {
		ln, err := net.Listen("tcp", "127.0.0.1:0")
		if err != nil {
			panic(err)
		}
		c13BadLn = ln
		go func() {
			for {
				cn, err := ln.Accept()
				if err != nil {
					return
				}
				if tc, ok := cn.(*net.TCPConn); ok {
					tc.SetLinger(0)
				}
				cn.Close()
			}
		}()
	}
	return c13BadLn.Addr().String()
}

// c13FailingBody: the first k bytes of the body, then a read error that is not io.EOF
type c13FailingBody struct {
	r     io.Reader
	left  int
	pause bool // yield on every read (lets the resetting backend run on the single P)
}

func (b *c13FailingBody) Read(p []byte) (int, error) {
	if b.pause {
		time.Sleep(2 * time.Millisecond)
		return b.r.Read(p)
	}
	if b.left <= 0 {
		return 0, fmt.Errorf("c13: connection reset by the uploading client")
	}
	if len(p) > b.left {
		p = p[:b.left]
	}
	n, err := b.r.Read(p)
	b.left -= n
	if err == io.EOF {
		err = nil
	}
	return n, err
}
func (b *c13FailingBody) Close() error { return nil }

func c13WrapFailing(rc io.ReadCloser) io.ReadCloser {
	switch c13Fail.kind {
	case "reader":
		return &c13FailingBody{r: rc, left: c13Fail.k}
	case "limit":
		return http.MaxBytesReader(nil, rc, int64(c13Fail.k))
	case "backend":
		return &c13FailingBody{r: rc, pause: true}
	}
	return rc
}

func c13RunAfter(in *c13In) Result {
	defer c13PinOneP()()
	if len(in.Subs) != 2 {
		panic("after: two requests expected")
	}
	c13Fail.kind, c13Fail.k = in.Fail, in.K
	ra := c13ServeOne(in.Subs[0], 1, 0, nil)
	c13Fail.kind, c13Fail.k = "", 0
	rb := c13ServeOne(in.Subs[1], 0, 0, nil)
	sig := rb.Sig
	if sig == "serve:plain" {
		sig = "serve:after-a-request-that-failed-part-way"
	}
	outA, outB := "?", "?"
	if m, ok := ra.Obs.(map[string]interface{}); ok {
		outA = fmt.Sprint(m["outcome"], "/", m["status"])
	}
	if m, ok := rb.Obs.(map[string]interface{}); ok {
		outB = fmt.Sprint(m["outcome"])
	}
	return Result{Term: rb.Term, Obs: map[string]interface{}{"failed_request": ra.Obs, "request": rb.Obs}, Sig: sig, Direct: rb.Direct,
		Nontrivial: outB == "dispatched", Class: fmt.Sprintf("after:%s:A=%s:B=%s", in.Fail, outA, outB)}
}

// c13ServeOne runs one serve case against the responder of the given level; `during` (if any) is
// called inside the at-th body write of the response.
func c13ServeOne(in *c13In, level, at int, during func()) Result {
	c13Setup()
	srv := c13ResponderAt(level)
	fail := func(msg string) Result {
		return Result{Term: "(CDemux [] [] [] [] 0%N [] [])", Obs: msg, Class: "serve:setup-error", Sig: "serve:setup-error", Direct: msg}
	}
	// --- the directive's real setup ---
	var sb strings.Builder
	var cfgT []string
	var declared []fastcgi.Rule
	presetBlock, unknownPreset := false, false
	for i, ru := range in.Rules {
		backend := srv.ln.Addr().String()
		if c13Fail.kind == "backend" {
			backend = c13BadBackend()
		}
		fmt.Fprintf(&sb, "fastcgi %s %s", c13Quote(ru.Path), backend)
		if n, ok := c13PresetName(ru); ok {
			sb.WriteString(" " + c13Quote(n))
			if n != "php" {
				unknownPreset = true
			}
			if ru.Items != nil {
				presetBlock = true
			}
		}
		sb.WriteString(" {\n")
		for _, it := range c13Block(ru, i) {
			sb.WriteString("  " + it[0])
			for _, a := range it[1:] {
				sb.WriteString(" " + c13Quote(a))
			}
			sb.WriteString("\n")
		}
		sb.WriteString("}\n")
		cfgT = append(cfgT, c13CfgTerm(ru, i))
		declared = append(declared, c13DeclaredRule(ru, i))
	}
	ctl := casket.NewTestController("http", sb.String())
	cfg := httpserver.GetConfig(ctl)
	cfg.Root = c13Root
	cfg.Addr = httpserver.Address{Original: "site.test:8080", Host: "site.test", Port: "8080"}
	action, err := casket.DirectiveAction("http", "fastcgi")
	if err != nil {
		return fail("no fastcgi directive: " + err.Error())
	}
	var fh fastcgi.Handler
	setupErr := action(ctl)
	if setupErr != nil && !unknownPreset {
		return fail("fastcgi setup error: " + setupErr.Error() + " for " + sb.String())
	}
	nextCalled := false
	if setupErr == nil {
		next := handlerFunc(func(w http.ResponseWriter, r *http.Request) (int, error) {
			nextCalled = true
			return 0, nil
		})
		h := compile(cfg.Middleware(), next)
		var ok bool
		if fh, ok = h.(fastcgi.Handler); !ok {
			return fail("middleware is not a fastcgi.Handler")
		}
	}
	// --- oracle tables for the file system ---
	cands := map[string]bool{}
	for _, b := range []string{in.Path, strings.TrimRight(in.Path, " .")} {
		cands[b] = true
		fp := b
		if fp == "" {
			fp = "/"
		}
		for _, rl := range [][]fastcgi.Rule{fh.Rules, declared} {
			for _, ru := range rl {
				for _, ix := range ru.IndexFiles {
					cands[path.Join(fp, ix)] = true
				}
			}
		}
		cands[path.Join(fp, "index.php")] = true
	}
	var ck []string
	for k := range cands {
		ck = append(ck, k)
	}
	sort.Strings(ck)
	var statT, openT []string
	for _, k := range ck {
		_, e1 := os.Stat(c13Root + k)
		statT = append(statT, cPair(cStr(k), cBool(e1 == nil)))
		f, e2 := http.Dir(c13Root).Open(k)
		if e2 == nil {
			f.Close()
		}
		openT = append(openT, cPair(cStr(k), cBool(e2 == nil)))
	}
	// --- the request ---
	body := c13Expand(in.Body)
	hdr := http.Header{}
	var hnames []string
	for _, hv := range in.Headers {
		if len(hv) < 1 {
			continue
		}
		if _, dup := hdr[hv[0]]; !dup {
			hnames = append(hnames, hv[0])
		}
		hdr[hv[0]] = append(hdr[hv[0]], hv[1:]...)
	}
	u := &url.URL{Path: in.Path, RawQuery: in.Query}
	req := &http.Request{Method: in.Method, URL: u, Proto: in.Proto, ProtoMajor: 1, ProtoMinor: 1, Header: hdr,
		Host: in.Host, RemoteAddr: in.Remote, ContentLength: in.CL,
		Body: c13WrapFailing(c13BodyReader(in, body))}
	qtls := "None"
	if len(in.TLS) == 2 {
		req.TLS = &tls.ConnectionState{Version: uint16(in.TLS[0]), CipherSuite: uint16(in.TLS[1]), HandshakeComplete: true}
		qtls = "(Some " + cPair(cN(uint64(in.TLS[0])), cN(uint64(in.TLS[1]))) + ")"
	}
	ctx := context.WithValue(context.Background(), httpserver.OriginalURLCtxKey, *u)
	ctx = context.WithValue(ctx, casket.CtxKey("path_prefix"), in.Prefix)
	if in.User != "" {
		ctx = context.WithValue(ctx, httpserver.RemoteUserCtxKey, in.User)
	}
	req = req.WithContext(ctx)
	// --- the responder's reply ---
	var reply []byte
	for _, r := range in.Recs {
		reply = append(reply, c13EncRec(r)...)
	}
	reply = append(reply, c13Expand(in.Tail)...)
	srv.mu.Lock()
	srv.seq++
	seq := srv.seq
	srv.resp = reply
	srv.mu.Unlock()

	rec := httptest.NewRecorder()
	var w http.ResponseWriter = rec
	if during != nil {
		w = &c13HookWriter{rec: rec, at: at, during: during}
	}
	status, panicked := 0, ""
	var herr error
	if setupErr == nil {
		httpserver.CaseSensitivePath = in.CS
		func() {
			defer func() {
				httpserver.CaseSensitivePath = false
				if e := recover(); e != nil {
					panicked = fmt.Sprint(e)
				}
			}()
			status, herr = fh.ServeHTTP(w, req)
		}()
	}
	overlapped := false
	if hw, ok := w.(*c13HookWriter); ok {
		overlapped = hw.during == nil
		if hw.during != nil { // the response had fewer body writes: serve the other one afterwards
			d := hw.during
			hw.during = nil
			d()
		}
	}
	// --- what the responder got (if it was contacted) ---
	var raw []byte
	contacted := false
	wait := 2 * time.Millisecond
	if setupErr == nil && panicked == "" && !nextCalled && status != 500 {
		wait = 3 * time.Second
	}
	if c13Fail.kind == "backend" {
		wait = 2 * time.Millisecond
	}
	deadline := time.After(wait)
poll:
	for {
		select {
		case c := <-srv.got:
			if c.seq == seq {
				raw, contacted = c.raw, true
				break poll
			}
		case <-deadline:
			break poll
		}
	}
	// --- terms ---
	var rules []string
	for _, ru := range fh.Rules {
		rules = append(rules, c13RuleTerm(ru))
	}
	var qh []string
	for _, n := range hnames {
		qh = append(qh, cPair(cStr(n), c13StrList(hdr[n])))
	}
	// what the replacer of the configured env values sees (stdlib parsing results are inputs of the model)
	var cookies, qargs, osenv []string
	for _, ck := range (&http.Request{Header: hdr}).Cookies() {
		cookies = append(cookies, cPair(cStr(ck.Name), cStr(ck.Value)))
	}
	qv := u.Query()
	var qkeys []string
	for k := range qv {
		qkeys = append(qkeys, k)
	}
	sort.Strings(qkeys)
	for _, k := range qkeys {
		qargs = append(qargs, cPair(cStr(k), cStr(qv.Get(k))))
	}
	for _, kv := range c13OSEnv {
		osenv = append(osenv, cPair(cStr(kv[0]), cStr(kv[1])))
	}
	hp := func(s string) string {
		h, p, err := net.SplitHostPort(s)
		if err != nil {
			return "None"
		}
		return "(Some " + cPair(cStr(h), cStr(p)) + ")"
	}
	q := fmt.Sprintf("{| q_method := %s; q_path := %s; q_query := %s; q_requri := %s; q_host := %s; q_remote := %s; q_proto := %s; q_headers := %s; q_prefix := %s; q_user := %s; q_cl := %s; "+
		"q_cookies := %s; q_qargs := %s; q_osenv := %s; q_host_hp := %s; q_remote_hp := %s; q_tls := %s |}",
		cStr(in.Method), cStr(in.Path), cStr(in.Query), cStr(u.RequestURI()), cStr(in.Host), cStr(in.Remote), cStr(in.Proto),
		cList(qh), cStr(in.Prefix), cStr(in.User), cZ(in.CL),
		cList(cookies), cList(qargs), cList(osenv), hp(in.Host), hp(in.Remote), qtls)
	sv := fmt.Sprintf("{| sv_name := %s; sv_port := %s; sv_software := %s; sv_version := %s |}",
		cStr(fh.ServerName), cStr(fh.ServerPort), cStr(fh.SoftwareName), cStr(fh.SoftwareVersion))
	var fields []string
	for _, f := range in.Fields {
		fields = append(fields, cPair(cStr(f[0]), c13Str(f[1])))
	}
	rs := fmt.Sprintf("{| rs_fields := %s; rs_body := %s; rs_recs := %s |}", cList(fields), c13Term(in.RBody), c13RecsTerm(in.Recs))
	var obs, outcome string
	obsJ := map[string]interface{}{"status": status}
	if during != nil {
		obsJ["next_request_served_during_body_write"] = overlapped
		if overlapped {
			obsJ["next_request_served_during_body_write_no"] = at
		}
	}
	var parsed []map[string]interface{}
	for _, ru := range fh.Rules {
		parsed = append(parsed, map[string]interface{}{"path": ru.Path, "ext": ru.Ext, "split": ru.SplitPath, "index": ru.IndexFiles, "except": ru.IgnoredSubPaths, "root": ru.Root})
	}
	if presetBlock {
		obsJ["casketfile"], obsJ["parsed_rules"] = sb.String(), parsed
	}
	switch {
	case setupErr != nil:
		obs, outcome = "SSetupError", "setup-refused"
		obsJ["setup_error"], obsJ["casketfile"] = setupErr.Error(), sb.String()
	case panicked != "":
		obs, outcome = "SPanic", "panic"
		obsJ["panic"] = panicked
	case contacted:
		logerr := "None"
		if le, ok := herr.(fastcgi.LogError); ok {
			logerr = "(Some " + c13Str(string(le)) + ")"
			obsJ["logged"] = string(le)
		} else if herr != nil {
			obsJ["error"] = herr.Error()
		}
		obs = cApp("SDispatched", c13BytesTerm(raw), cN(uint64(status)), logerr, cN(uint64(rec.Code)), c13HdrTerm(rec.Header()), c13BytesTerm(rec.Body.Bytes()))
		outcome = "dispatched"
		obsJ["client_status"], obsJ["client_body_len"], obsJ["responder_got_bytes"] = rec.Code, rec.Body.Len(), len(raw)
		if want := c13Expand(in.RBody); during != nil || level > 0 {
			obsJ["client_body_first_difference"] = c13FirstDiff(rec.Body.Bytes(), want)
		}
	case nextCalled:
		obs, outcome = "SNext", "next"
	default:
		obs, outcome = cApp("SStatus", cN(uint64(status))), fmt.Sprintf("status%d", status)
		if herr != nil {
			obsJ["error"] = herr.Error()
		}
	}
	obsJ["outcome"] = outcome
	// --- input class for known findings (computed from the configuration as written) ---
	sig := "serve:plain"
	fp := strings.TrimRight(in.Path, " .")
	switch {
	case len(strings.ToLower(fp)) != len(fp):
		sig = "serve:path-changes-length-when-lowercased"
	case fp == "":
		sig = "serve:empty-path-after-trim"
	case in.CS && c13CaseOnlySplit(declared, fp):
		sig = "serve:case-sensitive-paths-and-split-differs-in-case"
	case c13BoundaryHeader(hdr):
		sig = "serve:pair-fits-one-record-but-8+k+v-exceeds-65500"
	case c13LaterRuleClaims(declared, in.Path):
		sig = "serve:several-rules:earlier-rule-cannot-split"
	case unknownPreset:
		sig = "serve:unknown-preset"
	case presetBlock:
		sig = "serve:preset-with-block"
	}
	term := cApp("CServe", cBool(in.CS), sv, cStr(c13Root), cList(cfgT), cList(rules), cList(statT), cList(openT), q, c13Term(in.Body), rs, obs)
	class := "serve:" + outcome + ":" + in.Method
	if presetBlock || unknownPreset {
		class = "serve:preset+block:" + outcome
	}
	return Result{Term: term, Obs: obsJ, Sig: sig, Nontrivial: outcome == "dispatched" || outcome == "next" || outcome == "setup-refused",
		Class: class}
}

// c13FirstDiff: -1 if equal, else the first offset at which got differs from want (or the shorter length)
func c13FirstDiff(got, want []byte) int {
	n := len(got)
	if len(want) < n {
		n = len(want)
	}
	for i := 0; i < n; i++ {
		if got[i] != want[i] {
			return i
		}
	}
	if len(got) != len(want) {
		return n
	}
	return -1
}

// ---------- together: serve cases whose runs overlap in time ----------
// pinOneP: with one P and no GC a sync.Pool is LIFO (what one goroutine puts back is what the next
// Get on that P returns), so a buffer shared through a pool between two responses is really handed
// from one to the other; without sharing nothing changes.
func c13PinOneP() func() {
	procs := runtime.GOMAXPROCS(1)
	gc := debug.SetGCPercent(-1)
	return func() {
		debug.SetGCPercent(gc)
		runtime.GOMAXPROCS(procs)
	}
}

func c13RunTogether(in *c13In) Result {
	defer c13PinOneP()()
	n := len(in.Subs)
	results := make([]Result, n)
	var run func(i int) Result
	run = func(i int) Result {
		if i+1 >= n {
			return c13ServeOne(in.Subs[i], i, 0, nil)
		}
		at := 1
		if i < len(in.At) && in.At[i] > 0 {
			at = in.At[i]
		}
		return c13ServeOne(in.Subs[i], i, at, func() { results[i+1] = run(i + 1) })
	}
	if n > 0 {
		results[0] = run(0)
	}
	var terms []string
	var obs []interface{}
	direct := ""
	nontrivial := n > 1
	for i, r := range results {
		terms = append(terms, r.Term)
		obs = append(obs, r.Obs)
		if r.Direct != "" && direct == "" {
			direct = fmt.Sprintf("request %d: %s", i, r.Direct)
		}
		if m, ok := r.Obs.(map[string]interface{}); !ok || m["outcome"] != "dispatched" {
			nontrivial = false
		}
	}
	return Result{Term: cApp("CTogether", cList(terms)), Obs: obs, Sig: "serve:overlapping-responses", Direct: direct,
		Nontrivial: nontrivial, Class: fmt.Sprintf("together:%d", n)}
}

// ---------- overlap: several streamReaders read by one schedule ----------
func c13RunOverlap(in *c13In) Result {
	defer c13PinOneP()()
	n := len(in.Streams)
	type rd struct {
		cl    *fastcgi.FCGIClient
		r     io.Reader
		got   []byte
		reads []uint64
		code  int
		done  bool
	}
	rds := make([]*rd, n)
	direct := ""
	for i, st := range in.Streams {
		var wire []byte
		for _, r := range st.Recs {
			wire = append(wire, c13EncRec(r)...)
		}
		wire = append(wire, c13Expand(st.Tail)...)
		cl := fastcgi.VerifNewClient(&c13Conn{r: wire})
		r, err := cl.Do(map[string]string{}, nil)
		if err != nil {
			direct = "Do failed: " + err.Error()
		}
		rds[i] = &rd{cl: cl, r: r}
	}
	var sched []string
	func() {
		defer func() {
			if e := recover(); e != nil {
				direct = fmt.Sprint("panic in streamReader.Read: ", e)
			}
		}()
		for _, sm := range in.Sched {
			i, m := sm[0], sm[1]
			if i < 0 || i >= n || rds[i].r == nil {
				continue
			}
			sched = append(sched, cPair(cN(uint64(i)), cN(uint64(m))))
			x := rds[i]
			if x.done {
				continue
			}
			p := make([]byte, m)
			k, err := x.r.Read(p)
			x.reads = append(x.reads, uint64(k))
			x.got = append(x.got, p[:k]...)
			if err != nil {
				x.code, x.done = c13ErrCode(err), true
			}
		}
	}()
	var sts, obs []string
	var obsJ []map[string]interface{}
	for i, st := range in.Streams {
		sts = append(sts, cPair(c13RecsTerm(st.Recs), c13Term(st.Tail)))
		x := rds[i]
		stderr := fastcgi.VerifStderr(x.cl)
		obs = append(obs, "("+c13BytesTerm(x.got)+", "+cN(uint64(x.code))+", "+c13BytesTerm(stderr)+", "+cNList(x.reads)+")")
		var want []byte
		for _, r := range st.Recs {
			if r.Ty == 3 {
				break
			}
			if r.Ty == 6 {
				for k := 0; k < 1 || k < r.N; k++ {
					want = append(want, c13Expand(r.C)...)
				}
			}
		}
		d := c13FirstDiff(x.got, want)
		if d >= len(x.got) { // only a prefix was read
			d = -1
		}
		obsJ = append(obsJ, map[string]interface{}{"delivered": len(x.got), "err": x.code, "stderr": len(stderr), "reads": len(x.reads), "first_difference_from_own_output": d})
	}
	return Result{Term: cApp("COverlap", cList(sts), cList(sched), cList(obs)), Obs: obsJ, Sig: "demux:overlapping-responses", Direct: direct,
		Nontrivial: n > 1, Class: fmt.Sprintf("overlap:%d", n)}
}

// an earlier rule matches the path but its split string does not occur in it, and a later rule matches the path too
func c13LaterRuleClaims(rules []fastcgi.Rule, p string) bool {
	fp := strings.ToLower(strings.TrimRight(p, " ."))
	for i, r := range rules {
		if !httpserver.Path(p).Matches(r.Path) || strings.Contains(fp, strings.ToLower(r.SplitPath)) {
			continue
		}
		for _, l := range rules[i+1:] {
			if httpserver.Path(p).Matches(l.Path) {
				return true
			}
		}
	}
	return false
}

// the split string occurs in the path only with different letter case
func c13CaseOnlySplit(rules []fastcgi.Rule, fp string) bool {
	for _, r := range rules {
		if !strings.Contains(fp, r.SplitPath) && strings.Contains(strings.ToLower(fp), strings.ToLower(r.SplitPath)) {
			return true
		}
	}
	return false
}
func c13BoundaryHeader(h http.Header) bool {
	for k, v := range h {
		n := len("HTTP_") + len(k)
		m := len(strings.Join(v, ", "))
		if c13PairLen(n)+c13PairLen(m)+n+m <= 65500 && 8+n+m > 65500 {
			return true
		}
	}
	return false
}

// ---------- child: Go's net/http/fcgi responder as an independent conforming peer ----------
type c13ChildSeen struct {
	method, uri, host string
	hdr               http.Header
	env               map[string]string
	body              []byte
}

var (
	c13ChildOnce sync.Once
	c13ChildLn   net.Listener
	c13ChildMu   sync.Mutex
	c13ChildIn   *c13In
	c13ChildGot  = make(chan c13ChildSeen, 16)
)

func c13ChildSetup() {
	c13ChildOnce.Do(func() {
		ln, err := net.Listen("tcp", "127.0.0.1:0")
		if err != nil {
			panic(err)
		}
		c13ChildLn = ln
		go fcgi.Serve(ln, http.HandlerFunc(func(w http.ResponseWriter, r *http.Request) {
			c13ChildMu.Lock()
			in := c13ChildIn
			c13ChildMu.Unlock()
			b, _ := io.ReadAll(r.Body)
			c13ChildGot <- c13ChildSeen{r.Method, r.URL.RequestURI(), r.Host, r.Header.Clone(), fcgi.ProcessEnv(r), b}
			code := 200
			for _, f := range in.Fields {
				if http.CanonicalHeaderKey(f[0]) == "Status" {
					code, _ = strconv.Atoi(strings.SplitN(f[1], " ", 2)[0])
				} else {
					w.Header().Add(f[0], f[1])
				}
			}
			w.WriteHeader(code)
			rb := c13Expand(in.RBody)
			for len(rb) > 0 { // several writes: the child frames them as it likes
				n := 1 + len(rb)/3
				w.Write(rb[:n])
				rb = rb[n:]
			}
		}))
	})
}

func c13RunChild(in *c13In) Result {
	c13Setup()
	c13ChildSetup()
	text := fmt.Sprintf("fastcgi / %s php {\n env APP_ENV \"prod mode\"\n read_timeout 5s\n}\n", c13ChildLn.Addr().String())
	ctl := casket.NewTestController("http", text)
	cfg := httpserver.GetConfig(ctl)
	cfg.Root = c13Root
	cfg.Addr = httpserver.Address{Original: "site.test:8080", Host: "site.test", Port: "8080"}
	action, _ := casket.DirectiveAction("http", "fastcgi")
	if err := action(ctl); err != nil {
		return Result{Term: "(CChild [])", Obs: err.Error(), Class: "child:setup-error", Sig: "child:setup-error", Direct: "setup: " + err.Error()}
	}
	h := compile(cfg.Middleware(), handlerFunc(func(w http.ResponseWriter, r *http.Request) (int, error) { return 404, nil }))
	body := c13Expand(in.Body)
	hdr := http.Header{}
	for _, hv := range in.Headers {
		hdr[hv[0]] = append(hdr[hv[0]], hv[1:]...)
	}
	u := &url.URL{Path: in.Path, RawQuery: in.Query}
	req := &http.Request{Method: in.Method, URL: u, Proto: "HTTP/1.1", ProtoMajor: 1, ProtoMinor: 1, Header: hdr,
		Host: in.Host, RemoteAddr: "192.0.2.7:51234", ContentLength: int64(len(body)), Body: c13BodyReader(in, body)}
	ctx := context.WithValue(context.Background(), httpserver.OriginalURLCtxKey, *u)
	ctx = context.WithValue(ctx, casket.CtxKey("path_prefix"), "/")
	req = req.WithContext(ctx)
	c13ChildMu.Lock()
	c13ChildIn = in
	c13ChildMu.Unlock()
	for len(c13ChildGot) > 0 {
		<-c13ChildGot
	}
	rec := httptest.NewRecorder()
	status, herr := 0, error(nil)
	direct := ""
	func() {
		defer func() {
			if e := recover(); e != nil {
				direct = fmt.Sprint("panic: ", e)
			}
		}()
		status, herr = h.ServeHTTP(rec, req)
	}()
	var seen c13ChildSeen
	select {
	case seen = <-c13ChildGot:
	case <-time.After(3 * time.Second):
		if direct == "" {
			direct = "the net/http/fcgi responder never saw the request"
		}
	}
	var checks []string
	add := func(label string, exp, got []byte) {
		checks = append(checks, "("+cStr(label)+", "+c13BytesTerm(exp)+", "+c13BytesTerm(got)+")")
	}
	add("returned status", []byte("0"), []byte(strconv.Itoa(status)))
	add("method", []byte(in.Method), []byte(seen.method))
	add("request uri", []byte(u.RequestURI()), []byte(seen.uri))
	add("host", []byte(in.Host), []byte(seen.host))
	wantBody := body
	if in.Method == "HEAD" || in.Method == "OPTIONS" {
		wantBody = nil
	}
	add("request body", wantBody, seen.body)
	for k, v := range hdr {
		if k == "Content-Length" || k == "Content-Type" || strings.Contains(k, "_") {
			continue // net/http/cgi folds these / cannot tell '_' from '-'
		}
		add("header "+k, []byte(strings.Join(v, ", ")), []byte(strings.Join(seen.hdr[k], ", ")))
	}
	add("env SCRIPT_FILENAME", []byte(c13Root+in.Path), []byte(seen.env["SCRIPT_FILENAME"]))
	add("env DOCUMENT_ROOT", []byte(c13Root), []byte(seen.env["DOCUMENT_ROOT"]))
	add("env APP_ENV", []byte("prod mode"), []byte(seen.env["APP_ENV"]))
	add("env GATEWAY_INTERFACE", []byte("CGI/1.1"), []byte(seen.env["GATEWAY_INTERFACE"]))
	code := 200
	want := http.Header{}
	for _, f := range in.Fields {
		if http.CanonicalHeaderKey(f[0]) == "Status" {
			code, _ = strconv.Atoi(strings.SplitN(f[1], " ", 2)[0])
		} else {
			want.Add(f[0], f[1])
		}
	}
	add("client status", []byte(strconv.Itoa(code)), []byte(strconv.Itoa(rec.Code)))
	add("client body", c13Expand(in.RBody), rec.Body.Bytes())
	for k, v := range want {
		add("client header "+k, []byte(strings.Join(v, "|")), []byte(strings.Join(rec.Header()[k], "|")))
	}
	obs := map[string]interface{}{"status": status, "client_status": rec.Code, "client_body_len": rec.Body.Len(), "responder_body_len": len(seen.body)}
	if herr != nil {
		obs["error"] = herr.Error()
	}
	return Result{Term: cApp("CChild", cList(checks)), Obs: obs, Sig: "child:plain", Direct: direct, Nontrivial: true,
		Class: "child:" + in.Method}
}

func c13GenChild(r *Rand) *c13In {
	in := &c13In{Kind: "child", Path: r.Pick([]string{"/virt.php", "/app/virtual.php", "/a.php", "/app/x.php"}),
		Method: r.Pick([]string{"GET", "POST", "POST", "PUT", "DELETE", "HEAD"}), Host: "site.test:8080",
		Query: r.Pick([]string{"", "a=1&b=2", "q=%20x"})}
	n := 0
	if in.Method == "POST" || in.Method == "PUT" {
		n = []int{0, 1, 100, 8191, 8192, 8193, 65499, 65500, 65501, 65535, 65536, 131000, 131001}[r.Intn(13)]
		if r.Chance(30) {
			n = r.Range(1, 100000)
		}
	}
	in.Body = c13Compress(c13Pat(r.Intn(251), n))
	in.WT = r.Chance(30)
	for k := r.Intn(3); k > 0; k-- {
		in.Script = append(in.Script, []int{1, 512, 65500}[r.Intn(3)])
	}
	in.Headers = [][]string{{"Content-Length", strconv.Itoa(n)}, {"User-Agent", "verif/1.0 (c13 child)"}}
	if n > 0 {
		in.Headers = append(in.Headers, []string{"Content-Type", "application/octet-stream"})
	}
	if r.Bool() {
		in.Headers = append(in.Headers, []string{"X-Forwarded-For", "203.0.113.9", "198.51.100.2"})
	}
	if r.Chance(40) { // value length around the 1/4-byte size boundary
		in.Headers = append(in.Headers, []string{"X-Long", strings.Repeat("v", r.Range(118, 130))})
	}
	if r.Chance(60) {
		in.Fields = append(in.Fields, [2]string{"Status", r.Pick([]string{"201 Created", "404 Not Found", "302 Found", "200 OK"})})
	}
	in.Fields = append(in.Fields, [2]string{"Content-Type", "text/plain"})
	if r.Bool() {
		in.Fields = append(in.Fields, [2]string{"Set-Cookie", "a=1"}, [2]string{"Set-Cookie", "b=2"})
	}
	in.RBody = c13Compress(c13Pat(r.Intn(251), []int{0, 1, 500, 8192, 65535, 65536, 70000, 140000}[r.Intn(8)]))
	return in
}

func c13Run(in0 interface{}) Result {
	in := in0.(*c13In)
	switch in.Kind {
	case "child":
		return c13RunChild(in)
	case "wire":
		return c13RunWire(in)
	case "demux":
		return c13RunDemux(in)
	case "serve":
		return c13RunServe(in)
	case "overlap":
		return c13RunOverlap(in)
	case "together":
		return c13RunTogether(in)
	case "after":
		return c13RunAfter(in)
	case "head":
		return c13RunHead(in)
	}
	panic("bad kind " + in.Kind)
}

// ---------- generators ----------
func c13Name(i, n int) []byte {
	p := []byte(fmt.Sprintf("K%d_", i))
	if n <= len(p) {
		if n == 0 && i == 0 {
			return nil
		}
		return p
	}
	return append(p, c13Pat(i*7+65, n-len(p))...)
}

func c13GenWire(r *Rand) *c13In {
	in := &c13In{Kind: "wire"}
	small := []int{0, 1, 2, 5, 17, 126, 127, 128, 129, 255, 256, 300, 1000}
	addPair := func(kl, vl int) {
		i := len(in.Pairs)
		if kl < 0 {
			kl = 0
		}
		if vl < 0 {
			vl = 0
		}
		in.Pairs = append(in.Pairs, c13KV{c13Compress(c13Name(i, kl)), c13Compress(c13Pat(i*13+r.Intn(251), vl))})
	}
	switch r.Intn(10) {
	case 0, 1, 2, 3: // many small pairs
		for n := r.Intn(12); n > 0; n-- {
			addPair(small[r.Intn(len(small))], small[r.Intn(len(small))])
		}
	case 4, 5: // one pair around the single-record boundary
		kl := []int{3, 10, 126, 127, 128, 129, 400}[r.Intn(7)]
		addPair(kl, 65486+r.Range(0, 16)-kl)
		if r.Bool() {
			addPair(small[r.Intn(len(small))], small[r.Intn(len(small))])
		}
	case 6, 7: // cumulative size crosses a record boundary (flush rule)
		tot := 0
		for tot < 65500*r.Range(1, 2)+200 {
			kl := small[r.Intn(len(small))]
			vl := []int{100, 1000, 9000, 20000, 30000}[r.Intn(5)] + r.Intn(9)
			if rem := 65500 - tot%65500; r.Chance(40) && rem > kl+8 && rem < 40000 {
				vl = rem - kl - c13PairLen(kl) - 4 // land exactly on the record boundary, or next to it
				if vl <= 127 {
					vl += 3
				}
				if r.Chance(50) {
					vl += r.Range(-1, 1)
				}
			}
			addPair(kl, vl)
			tot += kl + vl + 8
		}
	case 8: // value far too long (cut by the code; outside the property's premise)
		addPair(r.Range(1, 200), 65500+r.Range(0, 3000))
	case 9: // name that leaves no room for the value (value cut to nothing, the name spans records; outside the premise)
		if r.Chance(30) {
			addPair(65493+r.Intn(10), r.Range(0, 20))
		} else {
			addPair(65480+r.Intn(13), r.Range(0, 40))
		}
	}
	if r.Chance(70) {
		in.HasBody = true
		var n int
		switch r.Intn(6) {
		case 0:
			n = r.Intn(20)
		case 1:
			n = r.Range(1, 3000)
		case 2:
			n = 65500*r.Range(1, 2) + r.Range(-9, 9)
		case 3:
			n = 65500 + []int{-8, -1, 0, 1, 7, 8}[r.Intn(6)]
		case 4:
			n = []int{7, 8, 9, 15, 16, 17}[r.Intn(6)]
		default:
			n = r.Range(0, 140000)
		}
		in.Body = c13Compress(c13Pat(r.Intn(251), n))
		for k := r.Intn(5); k > 0; k-- {
			in.Script = append(in.Script, []int{1, 7, 100, 4096, 65499, 65500, 65501}[r.Intn(7)])
		}
		in.WT = r.Chance(35)
	}
	return in
}

// frame cuts data into output records, interleaving stderr chunks.
func c13Frame(r *Rand, data []byte, stderr [][]byte, big bool) []c13Rec {
	var recs []c13Rec
	pad := func() int {
		switch {
		case r.Chance(50):
			return 0
		case r.Chance(80):
			return r.Intn(8)
		}
		return []int{8, 9, 100, 254, 255}[r.Intn(5)]
	}
	si := 0
	emitErr := func() {
		if si < len(stderr) {
			recs = append(recs, c13Rec{Ty: 7, C: c13Compress(stderr[si]), Pad: pad()})
			si++
		}
	}
	for len(data) > 0 {
		if r.Chance(25) {
			emitErr()
		}
		var n int
		switch {
		case big && r.Chance(50):
			n = []int{65535, 65500, 65528, 32768, 8192}[r.Intn(5)]
		case r.Chance(30):
			n = r.Range(1, 4)
		default:
			n = r.Range(1, 200)
		}
		if n > len(data) {
			n = len(data)
		}
		recs = append(recs, c13Rec{Ty: 6, C: c13Compress(data[:n]), Pad: pad()})
		data = data[n:]
	}
	for si < len(stderr) && r.Chance(60) {
		emitErr()
	}
	if r.Chance(70) {
		recs = append(recs, c13Rec{Ty: 6, Pad: pad()}) // stdout terminator
	}
	for si < len(stderr) {
		emitErr()
	}
	if len(stderr) > 0 && r.Chance(50) {
		recs = append(recs, c13Rec{Ty: 7, Pad: pad()}) // stderr terminator
	}
	return recs
}

var c13EndRec = c13Rec{Ty: 3, C: c13S{{H: "0000000000000000"}}}

func c13Stderr(r *Rand) [][]byte {
	var out [][]byte
	for n := []int{0, 0, 1, 2, 3}[r.Intn(5)]; n > 0; n-- {
		out = append(out, []byte([]string{"PHP Warning: division by zero in /x.php on line 3\n", "notice\n", "two\nlines\n", "no newline", "\n", "E"}[r.Intn(6)]))
	}
	return out
}

func c13Sizes(r *Rand, total, nrecs int) []int {
	var sizes []int
	mode := r.Intn(4)
	budget := total + 3*nrecs + 8
	for got := 0; got < budget; {
		var m int
		switch mode {
		case 0:
			m = r.Range(1, 5)
		case 1:
			m = r.Range(1, 300)
		case 2:
			m = []int{512, 4096, 32 * 1024, 65536, 100000}[r.Intn(5)]
		default:
			m = []int{1, 2, 8, 64, 4096}[r.Intn(5)]
		}
		if total > 5000 && m < 512 {
			m = 4096
		}
		if r.Chance(3) {
			m = 0
		}
		sizes = append(sizes, m)
		if m == 0 {
			got++
		} else {
			got += m
		}
		if len(sizes) > 4000 {
			break
		}
	}
	for i := 0; i < nrecs+4; i++ { // empty records cost one read each
		sizes = append(sizes, 64)
	}
	return sizes
}

func c13GenDemux(r *Rand) *c13In {
	in := &c13In{Kind: "demux"}
	big := r.Chance(8)
	n := r.Range(0, 400)
	if big {
		n = r.Range(60000, 200000)
	}
	data := c13Pat(r.Intn(251), n)
	if r.Chance(30) {
		data = append([]byte("Status: 404 Not Found\r\nContent-Type: text/plain\r\n\r\n"), data...)
	}
	in.Recs = c13Frame(r, data, c13Stderr(r), big)
	mal := r.Intn(10)
	switch {
	case mal < 6:
		in.Recs = append(in.Recs, c13EndRec)
		if r.Chance(20) {
			in.Tail = c13Compress(c13Pat(3, r.Range(1, 30))) // bytes after EndRequest are never read
		}
	case mal == 6: // connection closed without EndRequest
	case mal == 7: // truncated record / header at the end
		t := c13EncRec(c13Rec{Ty: 6, C: c13Compress(c13Pat(9, r.Range(1, 40))), Pad: r.Intn(8)})
		in.Tail = c13Compress(t[:r.Range(1, len(t)-1)])
	case mal == 8: // bad version or odd record types
		if r.Bool() {
			t := c13EncRec(c13Rec{Ty: 6, C: c13Compress(c13Pat(9, 5))})
			t[0] = byte(r.Intn(256))
			in.Tail = c13Compress(append(t, c13EncRec(c13EndRec)...))
		} else {
			k := r.Intn(len(in.Recs) + 1)
			odd := c13Rec{Ty: []int{0, 1, 2, 4, 5, 8, 9, 10, 11, 200}[r.Intn(10)], C: c13Compress(c13Pat(1, r.Intn(12)))}
			in.Recs = append(in.Recs[:k:k], append([]c13Rec{odd}, in.Recs[k:]...)...)
			in.Recs = append(in.Recs, c13EndRec)
		}
	default: // garbage
		g := make([]byte, r.Range(1, 40))
		for i := range g {
			g[i] = byte(r.Intn(256))
		}
		if r.Bool() {
			g[0] = 1
		}
		in.Tail = c13Compress(g)
	}
	in.Sizes = c13Sizes(r, len(data)+60, len(in.Recs)+2)
	for k := r.Intn(6); k > 0; k-- {
		in.Chunks = append(in.Chunks, []int{1, 2, 7, 8, 9, 100, 70000}[r.Intn(7)])
	}
	return in
}

func c13Ptr(s string) *string { return &s }

var c13EnvPool = [][2]string{
	{"AUTH_USER", "{>X-Auth-User}"}, {"REMOTE_USER", "{>X-Auth-User}"}, {"X_UA", "{>User-Agent}"}, {"X_LOWER", "{>x-auth-user}"},
	{"TLS_CIPHER", "{tls_cipher}"}, {"TLS_PROTO", "{tls_protocol}"}, {"CLIENT_DN", "{tls_client_s_dn}"}, {"CLIENT_FP", "{tls_client_fingerprint}"},
	{"HTTPS", "{tls_protocol}"}, {"SSL_CIPHER", "{tls_cipher}"},
	{"ARG_MISSING", "{?missing}"}, {"ARG_A", "{?a}"}, {"ARG_Q", "[{?q}]"}, {"ARG_Y", "{?y}"},
	{"SESSION", "{~sid}"}, {"COOKIE_A", "{~a}"}, {"COOKIE_NONE", "{~nothere}"},
	{"MIXED", "u={>X-Auth-User};h={host};m={method};c={tls_cipher};s={~sid}"}, {"REQ_LINE", "{method} {uri} {proto}"},
	{"ORIG_PATH", "{path}"}, {"QS", "{query}"}, {"QUERY_STRING", "{query}&via=env"}, {"REWRITTEN", "{rewrite_path}?{rewrite_uri}"},
	{"UNKNOWN", "{nope}"}, {"UNKNOWN2", "a{}b{no such}c"}, {"LABEL1", "{label1}"}, {"LABEL2", "{label2}.{label3}"}, {"LABEL9", "<{label9}>"}, {"LABEL0", "{label0}{labelx}"},
	{"PEER_PORT", "{port}"}, {"PEER", "{remote}:{port}"}, {"SERVER_NAME", "{hostonly}"}, {"SERVER_PORT", "{server_port}"}, {"HOSTPORT", "{hostonly}|{server_port}|{host}"},
	{"ENV_SET", "{$C13_SET}"}, {"ENV_DEF", "{$C13_UNSET=dflt}"}, {"ENV_NONE", "<{$C13_UNSET}>"}, {"ENV_EMPTY_DEF", "{$C13_EMPTY=fallback}"},
	{"ESCAPED", "lit \\{host\\} {host}"}, {"FILE", "{dir}|{file}"}, {"SCHEME", "{scheme}://{host}{uri}"}, {"SCRIPT_NAME", "/front{path}"},
	{"RESP_HDR", "{<Content-Type}"}, {"STATUS", "{status}/{size}/{latency}"}, {"REQ_ID", "id={request_id};mitm={mitm};frag={fragment}"},
	{"X_{host}", "name is literal"}, {"{nope}KEY", "{method}"}, {"K{>X-Auth-User}", "{>X-Auth-User}"},
	{"DOCUMENT_ROOT", "/srv/{hostonly}"}, {"UNPAIRED", "open {host and } close"}, {"TWICE", "{>X-Auth-User}{>X-Auth-User}-{?missing}-{tls_cipher}"},
}

func c13GenServe(r *Rand) *c13In {
	in := &c13In{Kind: "serve", CS: r.Chance(20), Proto: r.Pick([]string{"HTTP/1.1", "HTTP/1.1", "HTTP/1.0", "HTTP/2.0"}),
		Host: r.Pick([]string{"site.test", "site.test:8080", "[::1]:8080", ""}),
		Remote: r.Pick([]string{"192.0.2.7:51234", "[2001:db8::1]:443", "unix-peer", "10.0.0.1:1"}),
		Prefix: r.Pick([]string{"/", "/", "", "/blog"}), User: r.Pick([]string{"", "", "alice"}),
		Query:  r.Pick([]string{"", "", "a=1&b=2", "q=%20x&y", "x.php"})}
	if r.Chance(20) { // over TLS: versions with / without a mod_ssl name, suites inside / outside casket's table
		in.TLS = []int{[]int{0x0301, 0x0302, 0x0303, 0x0303, 0x0304, 0x0304, 0x0300}[r.Intn(7)],
			[]int{0xc02f, 0xc02c, 0xcca8, 0xcca9, 0x1301, 0x1303, 0x002f, 0x000a, 0xc014, 0x9999}[r.Intn(10)]}
	}
	// rules
	nr := r.Range(1, 2)
	for i := 0; i < nr; i++ {
		ru := c13Rule{Path: r.Pick([]string{"/", "/app", "/app", "/app/", "/APP", "/other", "/app/sub"})}
		switch r.Intn(6) {
		case 0, 1, 2:
			ru.Preset = true
		case 3:
			e := r.Pick([]string{".php", ".PHP", ".Php"})
			ru.Ext, ru.Split = c13Ptr(e), c13Ptr(r.Pick([]string{e, ".php"}))
			ru.Index = [][]string{nil, {"index.php"}, {"home.php", "index.php"}, {"index.html"}}[r.Intn(4)]
		case 4:
			ru.Ext = c13Ptr(".php") // no split configured: split at position 0
			if r.Bool() {
				ru.Index = []string{"index.php"}
			}
		default:
			ru.Preset = true
			ru.Index = [][]string{{"index.html", "index.php"}, {"home.php"}, {"missing.php", "index.php"}}[r.Intn(3)]
		}
		if r.Chance(20) {
			ru.Except = [][]string{{"/static.txt"}, {"/sub"}, {"/x.php"}, {"/noidx", "/info.php"}}[r.Intn(4)]
		}
		for k := r.Intn(3); k > 0; k-- {
			ru.Env = append(ru.Env, [][2]string{{"APP_ENV", "prod"}, {"FOO", "bar baz"}, {"FOO", "second"}, {"HTTP_X_FROM_ENV", "1"},
				{"DB_DSN", "mysql:host=db;port=3306"}, {"SERVER_NAME", "override.test"}, {"EMPTY", ""}}[r.Intn(7)])
		}
		// values with placeholders: always-valued ones, ones that are EMPTY for this request (absent
		// header / cookie / query key, TLS and recorder placeholders on plain HTTP, unknown names),
		// mixed with literals, and entries overriding a standard variable
		for k := []int{0, 0, 1, 2, 3, 5}[r.Intn(6)]; k > 0; k-- {
			ru.Env = append(ru.Env, c13EnvPool[r.Intn(len(c13EnvPool))])
		}
		in.Rules = append(in.Rules, ru)
	}
	// request path
	bases := []string{"/index.php", "/a.php", "/B.PHP", "/app/index.php", "/app/x.php", "/app/Y.PhP", "/app/info.php",
		"/app/static.txt", "/app/noidx/", "/app/noidx/readme.md", "/app/sub/", "/app/sub/home.php", "/app/dir.php",
		"/app/dir.php/", "/app/dir.php/inner.txt", "/app/sp ace.php", "/other/z.php", "/app/", "/", "/app", "/app/ünï.php",
		"/app/nope.php", "/app/nope.txt", "/app/x.PHP", "/APP/x.php", "/app/X.php", "/other/", "/app/sub"}
	p := bases[r.Intn(len(bases))]
	if r.Chance(45) { // a path under the first rule
		rp := strings.TrimSuffix(strings.ToLower(in.Rules[0].Path), "/")
		for try := 0; try < 20 && !strings.HasPrefix(strings.ToLower(p), rp); try++ {
			p = bases[r.Intn(len(bases))]
		}
	}
	switch r.Intn(14) {
	case 0:
		p += r.Pick([]string{"/extra/info", "/a.php/b", "/", "/.php"})
	case 1:
		p += r.Pick([]string{".", " ", " .", "..", ". . "})
	case 2:
		p = strings.TrimPrefix(p, "/")
	case 3:
		p = strings.Replace(p, "/app/", r.Pick([]string{"/app//", "/app/./", "/other/../app/", "/App/"}), 1)
	case 4:
		p = strings.ToUpper(p)
	case 5:
		if r.Chance(30) {
			p = r.Pick([]string{"", ".", " ", "*", "/app/ȺȺ.php", "/app/K.php"})
		}
	}
	in.Path = p
	// method, body
	in.Method = r.Pick([]string{"GET", "GET", "GET", "POST", "POST", "PUT", "HEAD", "OPTIONS", "DELETE", "PATCH"})
	n := 0
	if in.Method != "HEAD" && in.Method != "OPTIONS" && (in.Method != "GET" || r.Chance(15)) {
		switch r.Intn(8) {
		case 0:
			n = 0
		case 1, 2, 3:
			n = r.Range(1, 400)
		case 4:
			n = r.Range(400, 9000)
		case 5:
			n = 65500 + r.Range(-3, 3)
		case 6:
			if r.Chance(25) {
				n = 131000 + r.Range(-3, 3)
			} else {
				n = r.Range(1, 64)
			}
		default:
			n = r.Range(1, 70000)
		}
	}
	in.Body = c13Compress(c13Pat(r.Intn(251), n))
	for k := r.Intn(4); k > 0; k-- {
		in.Script = append(in.Script, []int{1, 7, 512, 65500}[r.Intn(4)])
	}
	in.CL = int64(n)
	if n > 0 && r.Chance(20) {
		in.CL = -1
	}
	in.WT = r.Chance(25)
	// headers (canonical keys as net/http delivers them)
	pool := [][]string{{"Accept", "text/html,application/xhtml+xml;q=0.9"}, {"User-Agent", "verif/1.0 (c13)"},
		{"X-Forwarded-For", "203.0.113.9", "198.51.100.2"}, {"Cookie", "a=1; b=2"}, {"X-Custom-Header", "v"},
		{"Accept-Language", "de, en;q=0.5"}, {"X_under", "u"}, {"X-Empty", ""}, {"Authorization", "Basic YTpi"},
		{"X-A", "dash"}, {"X_a", "underscore"}, {"Referer", "http://site.test/app/x.php?q=1"}, {"X-From-Env", "hdr"},
		{"X-Auth-User", "alice"}, {"X-Auth-User", "bob {host}", "second"}, {"Cookie", "sid=abc123; a=1"}, {"Cookie", "theme=dark; sid=\"q{method}\""}}
	for k := r.Intn(6); k > 0; k-- {
		h := pool[r.Intn(len(pool))]
		in.Headers = append(in.Headers, append([]string(nil), h...))
	}
	if r.Chance(25) { // value lengths around the 127/128 size-encoding boundary
		in.Headers = append(in.Headers, []string{"X-Long", string(c13Pat(40, r.Range(120, 135))[:])})
		for i, b := range []byte(in.Headers[len(in.Headers)-1][1]) {
			if b < 33 || b > 126 {
				bb := []byte(in.Headers[len(in.Headers)-1][1])
				bb[i] = 'x'
				in.Headers[len(in.Headers)-1][1] = string(bb)
			}
		}
	}
	if r.Chance(3) { // name+value around the single-record boundary
		nm := "X-Huge"
		tot := 65500 - r.Range(0, 12)
		vl := tot - (5 + len(nm)) - 1 - 4
		in.Headers = append(in.Headers, []string{nm, strings.Repeat("h", vl)})
	}
	if in.CL >= 0 && (n > 0 || r.Chance(50)) && !r.Chance(10) { // (sometimes only Request.ContentLength is known)
		in.Headers = append(in.Headers, []string{"Content-Length", strconv.Itoa(n)})
	}
	if n > 0 && r.Chance(70) {
		in.Headers = append(in.Headers, []string{"Content-Type", r.Pick([]string{"application/json", "multipart/form-data; boundary=xYz", "text/plain; charset=utf-8"})})
	}
	// drop duplicate header names (a map on the Go side)
	seen := map[string]bool{}
	var hs [][]string
	for _, h := range in.Headers {
		if !seen[h[0]] {
			seen[h[0]] = true
			hs = append(hs, h)
		}
	}
	in.Headers = hs
	// the responder's answer
	if r.Chance(60) {
		in.Fields = append(in.Fields, [2]string{r.Pick([]string{"Status", "Status", "status", "STATUS"}),
			r.Pick([]string{"200 OK", "404 Not Found", "302 Found", "500 Internal Server Error", "201", "403 Forbidden", "200", "418 I'm a teapot"})})
	} else if r.Chance(4) {
		in.Fields = append(in.Fields, [2]string{"Status", r.Pick([]string{"abc", "OK 200", "99 Low", "1000", "0"})}) // not a code WriteHeader accepts: 502
	}
	fpool := [][2]string{{"Content-Type", "text/html; charset=UTF-8"}, {"content-type", "application/json"}, {"X-Powered-By", "PHP/8.2.1"},
		{"Set-Cookie", "sid=abc; Path=/"}, {"Set-Cookie", "theme=dark"}, {"Location", "/app/login.php?next=%2F"},
		{"X-lower-UPPER", "MiXed: colon value"}, {"Cache-Control", "no-store, no-cache"}, {"X-Empty", ""}, {"X_Under", "1"}}
	for k := r.Intn(5); k > 0; k-- {
		in.Fields = append(in.Fields, fpool[r.Intn(len(fpool))])
	}
	if r.Chance(40) {
		k := r.Intn(len(in.Fields) + 1) // the Status field can be anywhere in the head
		if len(in.Fields) > 0 {
			in.Fields[0], in.Fields[k%len(in.Fields)] = in.Fields[k%len(in.Fields)], in.Fields[0]
		}
	}
	var rb []byte
	big := false
	switch r.Intn(8) {
	case 0:
	case 1, 2, 3:
		rb = []byte("<html><body>hello " + strings.Repeat("w", r.Intn(50)) + "</body></html>\n")
	case 4:
		rb = c13Pat(r.Intn(251), r.Range(1, 3000))
	case 5:
		rb = []byte("\r\n\r\nbody that starts with blank lines\r\n\r\n")
	default:
		if r.Chance(30) {
			rb, big = c13Pat(r.Intn(251), r.Range(65000, 150000)), true
		} else {
			rb = c13Pat(r.Intn(251), r.Range(1, 600))
		}
	}
	in.RBody = c13Compress(rb)
	var head []byte
	for _, f := range in.Fields {
		head = append(head, (f[0] + ": " + f[1] + "\r\n")...)
	}
	head = append(head, "\r\n"...)
	in.Recs = append(c13Frame(r, append(head, rb...), c13Stderr(r), big), c13EndRec)
	if r.Chance(10) {
		in.Tail = c13Compress([]byte("junk after EndRequest"))
	}
	return in
}

// c13GenServeMulti: a site with 2-3 fastcgi rules for DIFFERENT responders - a catch-all or broad rule and narrower
// ones, each with its own extension / split string (php preset, .pl, .cgi, .py), in any order (mostly the broad
// one first: its split string does not occur in a script of the narrower rule, which a LATER rule claims) - and
// a request for a script, a script with path info, a directory or a static file under them.
func c13GenServeMulti(r *Rand) *c13In {
	in := c13GenServe(r)
	mk := func(path, ext string) c13Rule {
		ru := c13Rule{Path: path}
		switch {
		case ext == ".php" && r.Chance(60):
			ru.Preset = true
			if r.Chance(30) {
				ru.Index = []string{"index.php"}
			}
		default:
			e := ext
			if r.Chance(15) {
				e = strings.ToUpper(ext)
			}
			ru.Ext, ru.Split = c13Ptr(e), c13Ptr(ext)
			if r.Chance(35) {
				ru.Index = []string{"index" + ext}
			}
			if r.Chance(10) {
				ru.Split = nil // no split configured: every path can be split (at 0)
			}
		}
		if r.Chance(12) {
			ru.Except = [][]string{{"/readme.txt"}, {"/lib"}, {"/tool.pl"}}[r.Intn(3)]
		}
		ru.Env = nil
		if r.Chance(30) {
			ru.Env = [][2]string{{"APP_ENV", "prod"}}
		}
		return ru
	}
	broadExt := r.Pick([]string{".php", ".php", ".php", ".cgi", ".pl"})
	broad := mk(r.Pick([]string{"/", "/", "/", "/cgi", "/app"}), broadExt)
	var narrow []c13Rule
	exts := []string{".pl", ".cgi", ".py", ".php"}
	nn := 1 + r.Intn(2)
	for k := 0; k < nn; k++ {
		e := exts[r.Intn(len(exts))]
		for e == broadExt {
			e = exts[r.Intn(len(exts))]
		}
		var np string
		switch broad.Path {
		case "/cgi":
			np = r.Pick([]string{"/cgi/lib", "/cgi", "/cgi/"})
		case "/app":
			np = r.Pick([]string{"/app", "/app/sub", "/app/"})
		default:
			np = r.Pick([]string{"/cgi", "/cgi", "/app", "/cgi/lib", "/CGI", "/"})
		}
		narrow = append(narrow, mk(np, e))
	}
	in.Rules = append([]c13Rule{broad}, narrow...)
	if r.Chance(25) { // the narrower rule written first
		k := 1 + r.Intn(len(in.Rules)-1)
		in.Rules[0], in.Rules[k] = in.Rules[k], in.Rules[0]
	}
	paths := []string{"/cgi/tool.pl", "/cgi/tool.pl", "/cgi/TOOL2.PL", "/cgi/tool.PL", "/cgi/run.cgi", "/cgi/lib/x.py", "/app/t.pl", "/app/job.cgi",
		"/cgi/tool.pl/extra/info", "/cgi/run.cgi/p/i", "/cgi/", "/cgi/lib/", "/cgi/readme.txt", "/cgi/nope.pl", "/cgi/tool.pl.d/notes.txt",
		"/app/x.php", "/cgi/lib/x.py/info.php", "/app/sub/home.php", "/CGI/tool.pl", "/cgi/tool.pl. ", "/index.php", "/app/"}
	in.Path = r.Pick(paths)
	if r.Chance(70) { // a script of one of the narrower rules
		nr := narrow[r.Intn(len(narrow))]
		e := ".php"
		if nr.Split != nil {
			e = *nr.Split
		} else if nr.Ext != nil {
			e = strings.ToLower(*nr.Ext)
		}
		var under []string
		for _, p := range paths {
			if strings.Contains(strings.ToLower(p), e) && strings.HasPrefix(strings.ToLower(p), strings.TrimSuffix(strings.ToLower(nr.Path), "/")) {
				under = append(under, p)
			}
		}
		if len(under) > 0 {
			in.Path = r.Pick(under)
		}
	}
	return in
}

// ---------- run-length boundary framings ----------
// bufio.Reader (FCGIClient.Request) gives up after 100 consecutive empty reads; runs of stderr
// records of length 1, 99, 100, 101, 150, 300, 1000 are placed before / inside / after the header
// block, inside and after the body, and after EndRequest.  Records are tiny, runs are stored
// run-length encoded (c13Rec.N).
var c13Runs = []int{1, 99, 100, 101, 150, 300, 1000}

const c13BurstPositions = 6

var c13BurstContents = []string{"E", "", "PHP Notice: x\n", "\n"}

// c13BurstRecs: pos 0 before the first output record, 1 inside the header block (between two
// output records that each carry part of it), 2 between head and body, 3 inside the body,
// 4 after the body, 5 after EndRequest (never read).  The result includes EndRequest.
func c13BurstRecs(head, body []byte, pos, run int, content string, pad int, term bool) []c13Rec {
	burst := c13Rec{Ty: 7, C: c13Compress([]byte(content)), Pad: pad, N: run}
	out := func(b []byte) []c13Rec {
		if len(b) == 0 {
			return nil
		}
		return []c13Rec{{Ty: 6, C: c13Compress(b)}}
	}
	var recs []c13Rec
	add := func(rs ...c13Rec) { recs = append(recs, rs...) }
	h1, h2 := head[:len(head)/2], head[len(head)/2:]
	b1, b2 := body[:len(body)/2], body[len(body)/2:]
	if pos == 0 {
		add(burst)
	}
	add(out(h1)...)
	if pos == 1 {
		add(burst)
	}
	add(out(h2)...)
	if pos == 2 {
		add(burst)
	}
	add(out(b1)...)
	if pos == 3 {
		add(burst)
	}
	add(out(b2)...)
	if pos == 4 {
		add(burst)
	}
	if term {
		add(c13Rec{Ty: 6}, c13Rec{Ty: 7})
	}
	add(c13EndRec)
	if pos == 5 {
		add(burst)
	}
	return recs
}

// c13RandBurstRecs: head and body cut into tiny output records with stderr runs of random
// (often boundary) length between any two of them.
func c13RandBurstRecs(r *Rand, data []byte) []c13Rec {
	var recs []c13Rec
	burst := func() {
		n := c13Runs[r.Intn(len(c13Runs))]
		if r.Chance(40) {
			n = r.Range(1, 1200)
		}
		recs = append(recs, c13Rec{Ty: 7, C: c13Compress([]byte(c13BurstContents[r.Intn(len(c13BurstContents))])), Pad: []int{0, 0, 7, 1}[r.Intn(4)], N: n})
	}
	if r.Chance(40) {
		burst()
	}
	for len(data) > 0 {
		n := r.Range(1, 9)
		if n > len(data) {
			n = len(data)
		}
		recs = append(recs, c13Rec{Ty: 6, C: c13Compress(data[:n])})
		data = data[n:]
		if r.Chance(12) {
			burst()
		}
	}
	if r.Chance(50) {
		recs = append(recs, c13Rec{Ty: 6})
	}
	if r.Chance(30) {
		burst()
	}
	recs = append(recs, c13EndRec)
	if r.Chance(15) {
		burst()
	}
	return recs
}

func c13Head(fields [][2]string) []byte {
	var head []byte
	for _, f := range fields {
		head = append(head, (f[0] + ": " + f[1] + "\r\n")...)
	}
	return append(head, "\r\n"...)
}

// k < len(c13Runs)*c13BurstPositions: the k-th (position, run length) combination; beyond: random
func c13BurstFraming(r *Rand, k int, head, body []byte) []c13Rec {
	if k < len(c13Runs)*c13BurstPositions {
		pos, run := k%c13BurstPositions, c13Runs[k/c13BurstPositions]
		return c13BurstRecs(head, body, pos, run, c13BurstContents[k%len(c13BurstContents)], []int{0, 3, 0, 7}[k%4], k%3 == 0)
	}
	return c13RandBurstRecs(r, append(append([]byte(nil), head...), body...))
}

func c13GenServeBurst(r *Rand, k int) *c13In {
	in := &c13In{Kind: "serve", Proto: "HTTP/1.1", Host: "site.test:8080", Remote: "192.0.2.7:51234", Prefix: "/",
		Method: r.Pick([]string{"GET", "GET", "POST", "HEAD"}), Path: r.Pick([]string{"/index.php", "/app/x.php", "/a.php/extra"}),
		Query: r.Pick([]string{"", "a=1"})}
	in.Rules = []c13Rule{{Path: "/", Preset: true}}
	if r.Chance(15) {
		in.TLS = []int{0x0304, 0x1301}
	}
	if r.Bool() {
		in.Rules[0].Env = [][2]string{c13EnvPool[r.Intn(len(c13EnvPool))]}
	}
	in.Headers = [][]string{{"User-Agent", "verif/1.0 (c13 burst)"}}
	if in.Method == "POST" {
		n := r.Range(0, 40)
		in.Body = c13Compress(c13Pat(r.Intn(251), n))
		in.CL = int64(n)
		in.Headers = append(in.Headers, []string{"Content-Length", strconv.Itoa(n)})
	}
	if r.Chance(70) {
		in.Fields = append(in.Fields, [2]string{"Status", r.Pick([]string{"200 OK", "404 Not Found", "302 Found", "500 Internal Server Error"})})
	}
	in.Fields = append(in.Fields, [2]string{"Content-Type", "text/plain"}, [2]string{"X-Demo", "yes"})
	rb := []byte("hello world\n")
	if r.Chance(30) {
		rb = c13Pat(r.Intn(251), r.Range(0, 300))
	}
	in.RBody = c13Compress(rb)
	in.Recs = c13BurstFraming(r, k, c13Head(in.Fields), rb)
	return in
}

func c13GenDemuxBurst(r *Rand, k int) *c13In {
	in := &c13In{Kind: "demux"}
	head := []byte("Status: 404 Not Found\r\nContent-Type: text/plain\r\n\r\n")
	body := c13Pat(r.Intn(251), r.Range(0, 60))
	in.Recs = c13BurstFraming(r, k, head, body)
	// the model's record reader costs O(rest of the connection) per record inside Coq: long runs
	// stay long only where they matter (before / inside the header block)
	tot := 0
	for i := range in.Recs {
		if n := in.Recs[i].N; n > 1 {
			if tot+n > 1100 || (n > 300 && i > 2) {
				in.Recs[i].N = 100 + n%200
			}
			tot += in.Recs[i].N
		}
	}
	// buffers as bufio uses them (4096), or small ones; one read per record is always enough
	m := []int{4096, 4096, 64, 7, 1}[r.Intn(5)]
	reads := c13NRecs(in.Recs) + 4
	if m < 64 {
		reads += (len(head) + len(body)) / m
	}
	for i := 0; i < reads; i++ {
		in.Sizes = append(in.Sizes, m)
	}
	for k := r.Intn(4); k > 0; k-- {
		in.Chunks = append(in.Chunks, []int{1, 7, 8, 9, 100, 70000}[r.Intn(6)])
	}
	return in
}

// ---------- preset on the directive line combined with a block ----------
// c13GenServeCfg: `fastcgi <path> <addr> <preset> { ... }` where the block gives ext / split / index /
// except / env / root itself (values that differ from the preset's, several times, in any order), for
// every preset name the code knows (php) and for names it does not know (setup must refuse them);
// the request asks for an existing script with the block's extension, for it with path info, for a
// directory with the block's index file, or for a .php script.
func c13GenServeCfg(r *Rand) *c13In {
	in := c13GenServe(r)
	in.CS = r.Chance(8)
	type flavour struct {
		ext, split string
		index      []string
		scripts    []string
		dirs       []string
	}
	fl := []flavour{
		{".php5", ".php5", []string{"index.php5"}, []string{"/app/info.php5", "/index.php5", "/app/index.php5", "/app/INFO.PHP5"}, []string{"/app/", "/"}},
		{".phtml", ".phtml", []string{"home.phtml", "index.phtml"}, []string{"/app/legacy.phtml", "/app/home.phtml", "/app/sub/index.phtml", "/app/Legacy.PHTML"}, []string{"/app/", "/app/sub/"}},
		{".pl", ".pl", []string{"main.pl"}, []string{"/app/t.pl", "/app/main.pl", "/cgi/tool.pl", "/cgi/TOOL2.PL"}, []string{"/app/", "/cgi/"}},
		{".php5", ".php", []string{"index.php5", "index.php"}, []string{"/app/info.php5", "/index.php5"}, []string{"/app/", "/"}},
		{".PHP", ".php", []string{"index.php"}, []string{"/B.PHP", "/app/x.php", "/app/Y.PhP"}, []string{"/app/", "/"}},
	}
	f := fl[r.Intn(len(fl))]
	ru := c13Rule{Path: r.Pick([]string{"/", "/", "/app", "/app/"})}
	ru.PName = c13Ptr("php")
	ru.Items = [][]string{}
	// which settings the block gives (at least one of ext / split / index)
	mask := 1 + r.Intn(7)
	var items [][]string
	if mask&1 != 0 {
		items = append(items, []string{"ext", f.ext})
	}
	if mask&2 != 0 || (mask&1 != 0 && !strings.Contains(strings.ToLower(f.ext), ".php")) { // a script of the new extension must be splittable
		items = append(items, []string{"split", f.split})
	}
	if mask&4 != 0 {
		items = append(items, append([]string{"index"}, f.index...))
	}
	if r.Chance(25) { // a setting given twice: the last one wins
		switch r.Intn(3) {
		case 0:
			items = append([][]string{{"ext", ".cgi"}}, items...)
		case 1:
			items = append([][]string{{"index", "first.php", "index.html"}}, items...)
		default:
			items = append([][]string{{"split", ".cgi"}}, items...)
		}
	}
	for k := r.Intn(3); k > 0; k-- {
		e := c13EnvPool[r.Intn(len(c13EnvPool))]
		if r.Bool() {
			e = [][2]string{{"APP_ENV", "prod"}, {"FOO", "bar baz"}, {"FOO", "second"}, {"SCRIPT_FLAVOUR", f.ext}}[r.Intn(4)]
		}
		items = append(items, []string{"env", e[0], e[1]})
	}
	if r.Chance(20) {
		items = append(items, append([]string{"except"}, [][]string{{"/static.txt"}, {"/noidx", "/x.php"}}[r.Intn(2)]...))
	}
	if r.Chance(15) {
		items = append(items, []string{"root", r.Pick([]string{"/srv/www", "/var/empty/site root"})})
	}
	shuffled := make([][]string, len(items))
	for i, k := range r.Perm(len(items)) {
		shuffled[i] = items[k]
	}
	ru.Items = shuffled
	// the property's clause presupposes that a script with the rule's extension can be split: if the
	// settings in effect (last one wins) do not say so, a final split line does
	if d := c13DeclaredRule(ru, 0); !strings.Contains(strings.ToLower(d.Ext), strings.ToLower(d.SplitPath)) {
		ru.Items = append(ru.Items, []string{"split", d.Ext})
	}
	in.Rules = []c13Rule{ru}
	switch r.Intn(10) {
	case 0: // a preset name the code does not know, with the same kind of block
		ru.PName = c13Ptr(r.Pick([]string{"python", "PHP", "php5", "", "fpm", "php "}))
		in.Rules = []c13Rule{ru}
	case 1: // the same block without any preset
		ru.PName, ru.Preset = nil, false
		in.Rules = []c13Rule{ru}
	case 2: // a second rule (plain preset) behind / in front of it
		other := c13Rule{Path: r.Pick([]string{"/", "/other", "/app/sub"}), Preset: true}
		if r.Bool() {
			in.Rules = []c13Rule{ru, other}
		} else {
			in.Rules = []c13Rule{other, ru}
		}
	}
	// request path
	pool := append([]string(nil), f.scripts...)
	switch r.Intn(8) {
	case 0, 1, 2, 3:
	case 4:
		for i := range pool {
			pool[i] += r.Pick([]string{"/extra/path", "/a.php/b", "/x"})
		}
	case 5:
		pool = f.dirs
	case 6:
		pool = []string{"/app/x.php", "/a.php", "/app/info.php", "/app/x.php/info.php5", "/app/nope.php5", "/app/static.txt"}
	default:
		for i := range pool {
			pool[i] += r.Pick([]string{".", " ", ". "})
		}
	}
	in.Path = pool[r.Intn(len(pool))]
	return in
}

// ---------- several responses read at the same time ----------
// c13BigFrame: output cut into records that are mostly larger than the buffers they are read with
// (bufio's 4096 for the first, io.Copy's 32 KiB later), with an occasional stderr record between them
func c13BigFrame(r *Rand, data []byte, withErr bool) []c13Rec {
	var recs []c13Rec
	for len(data) > 0 {
		n := []int{5000, 9000, 20000, 33000, 40000, 65535, 65528, 300, 4097}[r.Intn(9)]
		if r.Chance(30) {
			n = r.Range(4097, 65535)
		}
		if n > len(data) {
			n = len(data)
		}
		recs = append(recs, c13Rec{Ty: 6, C: c13Compress(data[:n]), Pad: []int{0, 0, 3, 7}[r.Intn(4)]})
		data = data[n:]
		if withErr && r.Chance(20) {
			recs = append(recs, c13Rec{Ty: 7, C: c13Compress([]byte("PHP Notice: between two big records\n"))})
		}
	}
	if r.Chance(70) {
		recs = append(recs, c13Rec{Ty: 6})
	}
	return append(recs, c13EndRec)
}

// c13OwnPattern: every response has its own byte pattern (counting mod 251 from its own start: two
// of them differ at EVERY offset, and the run-length coding keeps the terms small), so bytes of
// another response are recognisable wherever they turn up
func c13OwnPattern(i, salt, n int) []byte {
	return c13Pat((salt%80)+i*83, n)
}

// c13GenOverlap: 2-3 streamReaders; the schedule reads a piece of one response (a buffer smaller
// than its current record, so a remainder stays behind), then one or more other responses
// completely or partly, then goes on with the first, and so on until all are read to EOF.
func c13GenOverlap(r *Rand) *c13In {
	in := &c13In{Kind: "overlap"}
	n := 2
	if r.Chance(30) {
		n = 3
	}
	left := make([]int, n)
	for i := 0; i < n; i++ {
		size := r.Range(4200, 60000)
		if r.Chance(25) {
			size = r.Range(60000, 140000)
		}
		head := []byte(fmt.Sprintf("Content-Type: text/plain\r\nX-Response: %d\r\n\r\n", i))
		data := append(head, c13OwnPattern(i, r.Intn(251), size)...)
		st := c13Stream{Recs: c13BigFrame(r, data, r.Chance(40))}
		in.Streams = append(in.Streams, st)
		left[i] = len(data) + 64*len(st.Recs)
	}
	bufs := []int{4096, 4096, 512, 32768, 1000, 65536, 8192}
	live := n
	cur := 0
	for steps := 0; live > 0 && steps < 3000; steps++ {
		// a burst of reads of one reader, then switch
		burst := []int{1, 1, 2, 3, 1000}[r.Intn(5)]
		m := bufs[r.Intn(len(bufs))]
		for k := 0; k < burst && left[cur] > 0; k++ {
			in.Sched = append(in.Sched, [2]int{cur, m})
			left[cur] -= m
			if left[cur] <= 0 {
				live--
			}
		}
		for t := 0; t < n; t++ {
			cur = (cur + 1 + r.Intn(n)) % n
			if left[cur] > 0 {
				break
			}
		}
		if left[cur] <= 0 {
			for t := 0; t < n; t++ {
				if left[t] > 0 {
					cur = t
				}
			}
		}
	}
	// trailing reads: every reader reaches EndRequest (an empty record costs one read)
	for i := 0; i < n; i++ {
		for k := 0; k < 6; k++ {
			in.Sched = append(in.Sched, [2]int{i, 4096})
		}
	}
	return in
}

// c13GenTogether: 2-3 requests through the handler whose responses overlap in time (request i+1 is
// served completely during the At[i]-th body write of request i), each against its own scripted
// responder, big records, own byte patterns.
func c13GenTogether(r *Rand) *c13In {
	in := &c13In{Kind: "together"}
	n := 2
	if r.Chance(25) {
		n = 3
	}
	for i := 0; i < n; i++ {
		sub := &c13In{Kind: "serve", Proto: "HTTP/1.1", Host: "site.test:8080", Remote: fmt.Sprintf("192.0.2.%d:5%d", 7+i, 1000+i), Prefix: "/",
			Method: r.Pick([]string{"GET", "GET", "POST"}), Path: r.Pick([]string{"/index.php", "/app/x.php", "/a.php/extra", "/app/info.php"}),
			Query: fmt.Sprintf("req=%d", i)}
		sub.Rules = []c13Rule{{Path: "/", Preset: true}}
		sub.Headers = [][]string{{"User-Agent", fmt.Sprintf("verif/1.0 (c13 together %d)", i)}}
		if sub.Method == "POST" {
			nb := r.Range(0, 300)
			sub.Body = c13Compress(c13Pat(r.Intn(251), nb))
			sub.CL = int64(nb)
			sub.Headers = append(sub.Headers, []string{"Content-Length", strconv.Itoa(nb)})
		}
		if r.Chance(50) {
			sub.Fields = append(sub.Fields, [2]string{"Status", r.Pick([]string{"200 OK", "404 Not Found", "201 Created"})})
		}
		sub.Fields = append(sub.Fields, [2]string{"Content-Type", "application/octet-stream"}, [2]string{"X-Response", strconv.Itoa(i)})
		size := r.Range(4200, 50000)
		if r.Chance(30) {
			size = r.Range(50000, 120000)
		}
		rb := c13OwnPattern(i, r.Intn(251), size)
		sub.RBody = c13Compress(rb)
		sub.Recs = c13BigFrame(r, append(c13Head(sub.Fields), rb...), r.Chance(30))
		in.Subs = append(in.Subs, sub)
		in.At = append(in.At, []int{1, 1, 1, 2, 3}[r.Intn(5)])
	}
	return in
}

// c13GenAfter: request A (POST with a body of several records) fails part-way — its body reader
// errors after K bytes, or the body is cut at K bytes by the limits directive's MaxBytesReader, or
// its responder resets the connection while the body is sent — then request B (any method, with or
// without body, any script) is served by the same process.
func c13GenAfter(r *Rand) *c13In {
	in := &c13In{Kind: "after", Fail: r.Pick([]string{"reader", "reader", "limit", "limit", "backend"})}
	mk := func(i int, method string, nb int) *c13In {
		sub := &c13In{Kind: "serve", Proto: "HTTP/1.1", Host: "site.test:8080", Remote: fmt.Sprintf("192.0.2.%d:5%d", 7+i, 1000+i), Prefix: "/",
			Method: method, Path: r.Pick([]string{"/index.php", "/app/x.php", "/a.php/extra", "/app/info.php"}), Query: fmt.Sprintf("req=%d", i)}
		sub.Rules = []c13Rule{{Path: "/", Preset: true}}
		sub.Headers = [][]string{{"User-Agent", fmt.Sprintf("verif/1.0 (c13 after %d)", i)}}
		if method == "POST" || method == "PUT" {
			sub.Body = c13Compress(c13OwnPattern(i, r.Intn(251), nb))
			sub.CL = int64(nb)
			sub.Headers = append(sub.Headers, []string{"Content-Length", strconv.Itoa(nb)})
		}
		if r.Chance(50) {
			sub.Fields = append(sub.Fields, [2]string{"Status", r.Pick([]string{"200 OK", "404 Not Found", "201 Created"})})
		}
		sub.Fields = append(sub.Fields, [2]string{"Content-Type", "application/octet-stream"}, [2]string{"X-Response", strconv.Itoa(i)})
		rb := c13OwnPattern(i, r.Intn(251), r.Range(0, 3000))
		sub.RBody = c13Compress(rb)
		sub.Recs = c13BigFrame(r, append(c13Head(sub.Fields), rb...), false)
		return sub
	}
	nas := []int{300, 5000, 65499, 65500, 65501, 70000, 131000, 131001, 200000, 300000}
	na := nas[r.Intn(len(nas))]
	if in.Fail == "backend" {
		na = []int{200000, 300000, 400000}[r.Intn(3)]
	}
	a := mk(0, "POST", na)
	ks := []int{1, 17, 299, 4096, 65499, 65500, 65501, 69999, 131000, 131001, 199999}
	in.K = ks[r.Intn(len(ks))]
	if in.K >= na {
		in.K = r.Range(1, na-1)
	}
	b := mk(1, r.Pick([]string{"GET", "GET", "POST", "HEAD", "PUT"}), []int{0, 1, 300, 70000}[r.Intn(4)])
	in.Subs = []*c13In{a, b}
	return in
}

func c13Gen(r *Rand, tier string) []interface{} {
	nm := 120
	if tier == "thorough" {
		nm = 1200
	}
	nw, nd, ns, nc := 110, 300, 520, 40
	nb := len(c13Runs) * c13BurstPositions
	nsb, ndb := nb+10, nb+6
	if tier == "thorough" {
		nw, nd, ns, nc = 1100, 3000, 5200, 400
		nsb, ndb = nb+460, nb+300
	}
	var out []interface{}
	for i := 0; i < nw; i++ {
		out = append(out, c13GenWire(r))
	}
	// the burst cases are spread evenly among the others (they are the expensive ones inside Coq)
	spread := func(n, nburst int, plain, burst func(i int) interface{}) {
		b := 0
		for i := 0; i < n; i++ {
			out = append(out, plain(i))
			for b < nburst && (b+1)*n <= (i+1)*nburst {
				out = append(out, burst(b))
				b++
			}
		}
		for ; b < nburst; b++ {
			out = append(out, burst(b))
		}
	}
	spread(nd, ndb, func(int) interface{} { return c13GenDemux(r) }, func(i int) interface{} { return c13GenDemuxBurst(r, i) })
	spread(ns, nsb, func(int) interface{} { return c13GenServe(r) }, func(i int) interface{} { return c13GenServeBurst(r, i) })
	// sites with several fastcgi rules (different responders, extensions and split strings)
	for i := 0; i < nm; i++ {
		out = append(out, c13GenServeMulti(r))
	}
	for i := 0; i < nc; i++ {
		out = append(out, c13GenChild(r))
	}
	// a preset on the directive line combined with a block; responses that overlap in time.
	// Generated last (the random stream of the cases above is unchanged) and spread evenly among the
	// others (the overlapping ones are the expensive ones inside Coq).
	npb, nov, ntg := 70, 18, 12
	if tier == "thorough" {
		npb, nov, ntg = 700, 180, 120
	}
	var extra []interface{}
	for i := 0; i < npb; i++ {
		extra = append(extra, c13GenServeCfg(r))
		if i*nov/npb != (i+1)*nov/npb {
			extra = append(extra, c13GenOverlap(r))
		}
		if i*ntg/npb != (i+1)*ntg/npb {
			extra = append(extra, c13GenTogether(r))
		}
	}
	naf := 40
	if tier == "thorough" {
		naf = 400
	}
	for i := 0; i < naf; i++ {
		extra = append(extra, c13GenAfter(r))
	}
	// the header block reader: one responder output under two framings (generated last)
	nh := 120
	if tier == "thorough" {
		nh = 1200
	}
	for i := 0; i < nh; i++ {
		extra = append(extra, c13GenHead(r, i))
	}
	var all []interface{}
	e := 0
	for i, c := range out {
		all = append(all, c)
		for e < len(extra) && (e+1)*len(out) <= (i+1)*len(extra) {
			all = append(all, extra[e])
			e++
		}
	}
	return append(all, extra[e:]...)
}

func init() {
	register(&Property{
		ID: "C13", Imports: "V.Lib V.C13_Model", Judge: "judge", Shard: 84,
		Rule: "cases = (wire) real FCGIClient.Do over an in-memory connection, raw bytes decoded in Coq by a reference responder; " +
			"(demux) real streamReader over scripted record framings (incl. runs of 1..1000 consecutive stderr records before/inside/after the header block, inside/after the body, after EndRequest), connection segmentations and caller buffer sizes, every Read call observed; " +
			"(serve) real fastcgi setup + Handler.ServeHTTP on a real directory tree (sites with 1-2 php rules, and sites with 2-3 rules for different responders - catch-all + narrower, different ext / split, in any order - and requests for scripts of the later rules) against a byte-level loopback responder (env entries with placeholders that are valued / empty for the request; the same run-length boundary framings); " +
			"(child) the same handler against Go's net/http/fcgi responder; " +
			"(serve, preset+block) directives with a preset name (known / unknown) AND ext / split / index / except / env / root in the block, the directives as written handed to Coq next to the parsed rules; " +
			"(overlap) 2-3 streamReaders read by one schedule, records larger than the read buffers; (together) 2-3 requests through the handler, request i+1 served completely during a body write of request i, own responder and byte pattern each; (after) two requests in sequence through the handler on one P: request A fails part-way (body reader error after K bytes, body cut by MaxBytesReader at K bytes, or the responder resets the connection while the body is sent), then request B is served and judged like a serve case of its own (the responder must receive exactly B's records). " +
			"(head) real FCGIClient.Request (bufio + textproto.ReadMIMEHeader + the Status rule) on ONE responder output — conforming heads with CRLF / bare LF line ends, repeated keys, any letter case, Status variants, Location without Status; and raw heads with continuation lines, missing colons, keys with spaces / invalid bytes, control bytes in values, leading whitespace, unterminated blocks, lines longer than bufio's buffer — under TWO framings (records of any size incl. empty ones in mid-stream, stderr records at every position, padding 0..255, END_REQUEST with any appStatus / protocolStatus / padding, trailing junk) and two connection segmentations. " +
			"non-trivial = head case whose two framings differ, wire case with at least one pair or body byte, demux case with >= 2 records (runs expanded), serve case that reached the responder or the next handler or whose setup was refused, overlap case with >= 2 readers, together case whose requests all reached their responder; distinct = distinct Coq case term",
		Gen: c13Gen,
		Decode: func(raw json.RawMessage) (interface{}, error) {
			in := &c13In{}
			return in, json.Unmarshal(raw, in)
		},
		Run: c13Run,
	})
}
