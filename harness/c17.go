package main

import (
	"encoding/json"
	"fmt"
	"io"
	"net/http"
	"net/http/httptest"
	"net/url"
	"strings"
	"time"

	"github.com/tmpim/casket"
	_ "github.com/tmpim/casket/caskethttp"
	"github.com/tmpim/casket/caskethttp/httpserver"
	"github.com/tmpim/casket/caskettls"
)

type c17Scope struct {
	Path  string `json:"path"`
	Limit int64  `json:"limit"`
}
type c17In struct {
	Kind    string     `json:"kind"` // read | timeout | header | status
	CS      bool       `json:"cs,omitempty"`
	Scopes  []c17Scope `json:"scopes,omitempty"`
	Path    string     `json:"path,omitempty"`
	BodyLen int        `json:"bodylen,omitempty"`
	Script  []int      `json:"script,omitempty"`
	EOFD    bool       `json:"eofd,omitempty"`
	Bufs    []int      `json:"bufs,omitempty"`
	Chunked bool       `json:"chunked,omitempty"`
	Other   [][2]int64 `json:"other,omitempty"` // timeout: values for the three OTHER fields of each site (set?, value), flattened 3 per site
	Field   int        `json:"field,omitempty"`
	Group   [][2]int64 `json:"group,omitempty"` // (set?, value)
}

type scriptReader struct {
	data   []byte
	script []int
	eofd   bool
}

func (s *scriptReader) Read(p []byte) (int, error) {
	if len(p) == 0 {
		return 0, nil
	}
	if len(s.data) == 0 {
		return 0, io.EOF
	}
	c := len(p)
	if len(s.script) > 0 {
		if s.script[0] < c {
			c = s.script[0]
		}
		s.script = s.script[1:]
	}
	if c > len(s.data) {
		c = len(s.data)
	}
	copy(p, s.data[:c])
	s.data = s.data[c:]
	if len(s.data) == 0 && s.eofd {
		return c, io.EOF
	}
	return c, nil
}
func (s *scriptReader) Close() error { return nil }

func bodyOf(n int) []byte {
	b := make([]byte, n)
	for i := range b {
		b[i] = byte(i % 251)
	}
	return b
}

type handlerFunc func(http.ResponseWriter, *http.Request) (int, error)

func (f handlerFunc) ServeHTTP(w http.ResponseWriter, r *http.Request) (int, error) { return f(w, r) }

// setupDirective runs a registered directive's real setup on Casketfile text and returns
// the site config it filled.
func setupDirective(dir, text string) (*httpserver.SiteConfig, error) {
	c := casket.NewTestController("http", text)
	action, err := casket.DirectiveAction("http", dir)
	if err != nil {
		return nil, err
	}
	if err := action(c); err != nil {
		return nil, err
	}
	return httpserver.GetConfig(c), nil
}

func compile(mids []httpserver.Middleware, inner httpserver.Handler) httpserver.Handler {
	h := inner
	for i := len(mids) - 1; i >= 0; i-- {
		h = mids[i](h)
	}
	return h
}

func c17Run(in0 interface{}) Result {
	in := in0.(*c17In)
	switch in.Kind {
	case "read":
		var sb strings.Builder
		sb.WriteString("limits {\n")
		for _, s := range in.Scopes {
			fmt.Fprintf(&sb, "  body %s %d\n", s.Path, s.Limit)
		}
		sb.WriteString("}\n")
		cfg, err := setupDirective("limits", sb.String())
		if err != nil {
			return Result{Term: "(CStatus false 0%Z)", Obs: "setup error: " + err.Error(), Class: "read:setup-error", Sig: "read:setup-error"}
		}
		httpserver.CaseSensitivePath = in.CS
		defer func() { httpserver.CaseSensitivePath = false }()
		var got []byte
		code := 0
		inner := handlerFunc(func(w http.ResponseWriter, r *http.Request) (int, error) {
			for _, m := range in.Bufs {
				p := make([]byte, m)
				n, err := r.Body.Read(p)
				got = append(got, p[:n]...)
				if err != nil {
					switch err {
					case io.EOF:
						code = 1
					case httpserver.ErrMaxBytesExceeded:
						code = 2
					default:
						code = 3
					}
					break
				}
			}
			return 0, nil
		})
		h := compile(cfg.Middleware(), inner)
		req := &http.Request{Method: "POST", URL: &url.URL{Path: in.Path}, Header: http.Header{},
			Body: &scriptReader{data: bodyOf(in.BodyLen), script: append([]int(nil), in.Script...), eofd: in.EOFD}}
		// framing as net/http reports it: declared length, or -1 for chunked/unknown
		req.ContentLength = int64(in.BodyLen)
		if in.Chunked {
			req.ContentLength = -1
		}
		h.ServeHTTP(httptest.NewRecorder(), req)
		var tbl []string
		for _, pl := range cfg.Limits.MaxRequestBodySizes {
			tbl = append(tbl, cPair(cStr(pl.Path), cZ(pl.Limit)))
		}
		term := cApp("CRead", cBool(in.CS), cList(tbl), cStr(in.Path), cNat(in.BodyLen), cNatList(in.Script),
			cBool(in.EOFD), cNatList(in.Bufs), cBytes(got), cN(uint64(code)))
		nt := code != 0 && len(in.Scopes) > 0
		return Result{Term: term, Obs: map[string]interface{}{"delivered_len": len(got), "err": code},
			Sig: fmt.Sprintf("read:err%d", code), Nontrivial: nt, Class: fmt.Sprintf("read:err%d:scopes%d", code, len(in.Scopes))}
	case "timeout", "header":
		var group []*httpserver.SiteConfig
		siteNo := -1
		mk := func(set bool, v int64) *httpserver.SiteConfig {
			siteNo++
			c := &httpserver.SiteConfig{TLS: new(caskettls.Config)}
			if in.Kind == "timeout" && len(in.Other) >= 3*(siteNo+1) {
				// the other three timeout fields vary independently (must not influence this one)
				k := 0
				for f := 0; f < 4; f++ {
					if f == in.Field {
						continue
					}
					o := in.Other[3*siteNo+k]
					k++
					d, s := time.Duration(o[1]), o[0] != 0
					switch f {
					case 0:
						c.Timeouts.ReadTimeout, c.Timeouts.ReadTimeoutSet = d, s
					case 1:
						c.Timeouts.ReadHeaderTimeout, c.Timeouts.ReadHeaderTimeoutSet = d, s
					case 2:
						c.Timeouts.WriteTimeout, c.Timeouts.WriteTimeoutSet = d, s
					case 3:
						c.Timeouts.IdleTimeout, c.Timeouts.IdleTimeoutSet = d, s
					}
				}
			}
			if in.Kind == "header" {
				c.Limits.MaxRequestHeaderSize = v
				return c
			}
			d := time.Duration(v)
			switch in.Field {
			case 0:
				c.Timeouts.ReadTimeout, c.Timeouts.ReadTimeoutSet = d, set
			case 1:
				c.Timeouts.ReadHeaderTimeout, c.Timeouts.ReadHeaderTimeoutSet = d, set
			case 2:
				c.Timeouts.WriteTimeout, c.Timeouts.WriteTimeoutSet = d, set
			case 3:
				c.Timeouts.IdleTimeout, c.Timeouts.IdleTimeoutSet = d, set
			}
			return c
		}
		for _, g := range in.Group {
			group = append(group, mk(g[0] != 0, g[1]))
		}
		field := func(s *httpserver.Server) int64 {
			if in.Kind == "header" {
				return int64(s.Server.MaxHeaderBytes)
			}
			switch in.Field {
			case 0:
				return int64(s.Server.ReadTimeout)
			case 1:
				return int64(s.Server.ReadHeaderTimeout)
			case 2:
				return int64(s.Server.WriteTimeout)
			}
			return int64(s.Server.IdleTimeout)
		}
		srv, err := httpserver.NewServer("127.0.0.1:0", group)
		if err != nil {
			return Result{Term: "(CStatus false 0%Z)", Obs: "NewServer error: " + err.Error(), Class: "merge:error", Direct: "NewServer failed: " + err.Error(), Sig: "merge:newserver-error"}
		}
		obs := field(srv)
		haveZero, havePos, nset := false, false, 0
		for _, g := range in.Group {
			if in.Kind == "header" || g[0] != 0 {
				nset++
				if g[1] == 0 {
					haveZero = true
				} else {
					havePos = true
				}
			}
		}
		sig := in.Kind + ":plain"
		if haveZero && havePos {
			sig = in.Kind + ":explicit-none-with-positive"
		}
		if in.Kind == "header" {
			var vs []int64
			for _, g := range in.Group {
				vs = append(vs, g[1])
			}
			return Result{Term: cApp("CHeader", cZList(vs), cZ(obs)), Obs: obs, Sig: sig, Nontrivial: nset >= 2, Class: sig}
		}
		dsrv, _ := httpserver.NewServer("127.0.0.1:0", []*httpserver.SiteConfig{{TLS: new(caskettls.Config)}})
		dflt := field(dsrv)
		var gs []string
		for _, g := range in.Group {
			gs = append(gs, cPair(cBool(g[0] != 0), cZ(g[1])))
		}
		return Result{Term: cApp("CTimeout", cZ(dflt), cList(gs), cZ(obs)), Obs: obs, Sig: sig, Nontrivial: nset >= 2, Class: sig}
	case "status":
		backend := httptest.NewServer(http.HandlerFunc(func(w http.ResponseWriter, r *http.Request) {
			io.Copy(io.Discard, r.Body)
			w.WriteHeader(200)
		}))
		defer backend.Close()
		lim := in.Scopes[0].Limit
		cfgL, err1 := setupDirective("limits", fmt.Sprintf("limits {\n body / %d\n}\n", lim))
		cfgP, err2 := setupDirective("proxy", "proxy / "+backend.URL+"\n")
		if err1 != nil || err2 != nil {
			return Result{Term: "(CStatus false 0%Z)", Obs: "setup error", Class: "status:setup-error", Sig: "status:setup-error"}
		}
		mids := append(cfgL.Middleware(), cfgP.Middleware()...)
		h := compile(mids, handlerFunc(func(w http.ResponseWriter, r *http.Request) (int, error) { return 404, nil }))
		req := httptest.NewRequest("POST", "http://example.test/up", &scriptReader{data: bodyOf(in.BodyLen), script: append([]int(nil), in.Script...), eofd: in.EOFD})
		req.ContentLength = -1
		status, _ := h.ServeHTTP(httptest.NewRecorder(), req)
		over := int64(in.BodyLen) > lim
		return Result{Term: cApp("CStatus", cBool(over), cZ(int64(status))), Obs: status, Sig: fmt.Sprintf("status:over=%v", over), Nontrivial: over, Class: fmt.Sprintf("status:over=%v", over)}
	}
	panic("bad kind " + in.Kind)
}

func c17Gen(r *Rand, tier string) []interface{} {
	var out []interface{}
	nRead, nMerge, nStatus := 1500, 500, 12
	if tier == "thorough" {
		nRead, nMerge, nStatus = 30000, 6000, 60
	}
	segs := []string{"a", "b", "A", "ab", "c.d", "x"}
	mkPath := func(depth int) string {
		p := ""
		for i := 0; i < depth; i++ {
			p += "/" + r.Pick(segs)
		}
		if p == "" {
			p = "/"
		}
		return p
	}
	reqSegs := []string{"a", "b", "A", "ab", "c.d", "x", ".", "..", "", "B"}
	for i := 0; i < nRead; i++ {
		in := &c17In{Kind: "read", CS: r.Chance(30)}
		ns := r.Intn(5)
		for j := 0; j < ns; j++ {
			p := mkPath(r.Intn(4))
			if r.Chance(20) {
				p += "/"
			}
			in.Scopes = append(in.Scopes, c17Scope{Path: p, Limit: int64(r.Range(1, 40))})
		}
		// request path: usually under one of the scopes, with odd spellings
		if len(in.Scopes) > 0 && r.Chance(70) {
			in.Path = in.Scopes[r.Intn(len(in.Scopes))].Path
		} else {
			in.Path = ""
		}
		for k := r.Intn(3); k > 0; k-- {
			in.Path += "/" + r.Pick(reqSegs)
		}
		if in.Path == "" || in.Path[0] != '/' {
			in.Path = "/" + in.Path
		}
		// body length around a limit of the table
		base := r.Range(0, 45)
		if len(in.Scopes) > 0 && r.Chance(75) {
			base = int(in.Scopes[r.Intn(len(in.Scopes))].Limit) + r.Range(-2, 2)
			if base < 0 {
				base = 0
			}
		}
		in.BodyLen = base
		for k := r.Intn(6); k > 0; k-- {
			if r.Chance(5) {
				in.Script = append(in.Script, 0)
			} else {
				in.Script = append(in.Script, r.Range(1, 9))
			}
		}
		in.EOFD = r.Bool()
		in.Chunked = r.Bool()
		nb := r.Range(1, 8)
		if r.Chance(70) {
			nb = in.BodyLen + 3
		}
		for k := 0; k < nb; k++ {
			switch {
			case r.Chance(4):
				in.Bufs = append(in.Bufs, 0)
			case r.Chance(50):
				in.Bufs = append(in.Bufs, r.Range(1, 4))
			default:
				in.Bufs = append(in.Bufs, r.Range(1, 64))
			}
		}
		out = append(out, in)
	}
	durs := []int64{0, 1, int64(time.Second), int64(10 * time.Second), int64(time.Minute), int64(5 * time.Minute), int64(time.Hour)}
	sizes := []int64{0, 1, 512, 4096, 1 << 20, 1 << 31}
	for i := 0; i < nMerge; i++ {
		hdr := r.Chance(35)
		in := &c17In{Kind: "timeout", Field: r.Intn(4)}
		if hdr {
			in.Kind = "header"
		}
		n := r.Range(1, 5)
		for j := 0; j < n; j++ {
			if hdr {
				in.Group = append(in.Group, [2]int64{1, sizes[r.Intn(len(sizes))]})
			} else {
				set := int64(0)
				v := int64(0)
				if r.Chance(70) {
					set = 1
					v = durs[r.Intn(len(durs))]
				}
				in.Group = append(in.Group, [2]int64{set, v})
				for k := 0; k < 3; k++ {
					if r.Chance(60) {
						in.Other = append(in.Other, [2]int64{1, durs[r.Intn(len(durs))]})
					} else {
						in.Other = append(in.Other, [2]int64{0, 0})
					}
				}
			}
		}
		out = append(out, in)
	}
	for i := 0; i < nStatus; i++ {
		lim := int64(r.Range(1, 2000))
		bl := int(lim) + r.Range(-3, 3)
		if bl < 0 {
			bl = 0
		}
		out = append(out, &c17In{Kind: "status", Scopes: []c17Scope{{Path: "/", Limit: lim}}, BodyLen: bl, EOFD: r.Bool(), Script: []int{r.Range(1, 700), r.Range(1, 700)}})
	}
	return out
}

func init() {
	register(&Property{
		ID: "C17", Imports: "V.Lib V.C17_Model", Judge: "judge",
		Rule: "cases = real limits directive (parse+sort+Limit.ServeHTTP+maxBytesReader) on scripted readers, NewServer merges, proxy 413; non-trivial = read that ended in EOF/too-large under a non-empty table, merge with >=2 sites setting the value, over-limit proxied upload; distinct = distinct Coq case term",
		Gen: c17Gen,
		Decode: func(raw json.RawMessage) (interface{}, error) {
			in := &c17In{}
			return in, json.Unmarshal(raw, in)
		},
		Run: c17Run,
	})
}
