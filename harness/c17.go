package main

import (
	"bufio"
	"bytes"
	"encoding/json"
	"errors"
	"fmt"
	"io"
	"math"
	"math/big"
	"net"
	"net/http"
	"net/http/httptest"
	"net/url"
	"reflect"
	"sort"
	"strconv"
	"strings"
	"sync"
	"sync/atomic"
	"time"
	"unsafe"

	"github.com/caddyserver/certmagic"
	"github.com/tmpim/casket"
	"github.com/tmpim/casket/casketfile"
	_ "github.com/tmpim/casket/caskethttp"
	"github.com/tmpim/casket/caskethttp/httpserver"
	"github.com/tmpim/casket/caskethttp/limits"
	"github.com/tmpim/casket/caskethttp/proxy"
	"github.com/tmpim/casket/caskettls"
)

type c17Scope struct {
	Path  string `json:"path"`
	Limit int64  `json:"limit"`
}
type c17In struct {
	Kind    string     `json:"kind"` // read | timeout | header | status
	CS      bool       `json:"cs,omitempty"`
	Scopes  []c17Scope `json:"scopes,omitempty"`
	Path    string     `json:"path,omitempty"`
	BodyLen int        `json:"bodylen,omitempty"`
	Script  []int      `json:"script,omitempty"`
	EOFD    bool       `json:"eofd,omitempty"`
	Bufs    []int      `json:"bufs,omitempty"`
	Chunked bool       `json:"chunked,omitempty"`
	Other   [][2]int64 `json:"other,omitempty"` // timeout: values for the three OTHER fields of each site (set?, value), flattened 3 per site
	Field   int        `json:"field,omitempty"`
	Group   [][2]int64 `json:"group,omitempty"` // (set?, value)

	// read64 / count: limits.MaxBytesReader called directly with any int64 limit
	Limit   int64      `json:"limit,omitempty"`
	Answers [][2]int64 `json:"answers,omitempty"` // count: (claimed count, error code 0 none / 1 EOF / 3 other)
	// parse: form 0 `limits S`, 1 `limits { header S }`, 2 `limits { body /p S }`, 3 `limits { body S }`
	Form int    `json:"form,omitempty"`
	Size string `json:"size,omitempty"`
	// site: consumer 0 proxy, 1 buffering proxy, 2 fastcgi (Limit, BodyLen, Chunked as above)
	Consumer int `json:"consumer,omitempty"`
	// site, chunked: Chunks = the sizes of the chunks on the wire (sum = BodyLen; empty = the default 7-way split);
	// ChunkStyle 0 plain sizes, 1 a chunk extension on every size line, 2 upper-case hex with leading zeros and a
	// quoted extension, 3 extensions + trailer fields after the last chunk (announced by a Trailer header)
	Chunks     []int `json:"chunks,omitempty"`
	// site: the upload announces Expect: 100-continue (sent without waiting; interim 100 responses are skipped);
	// generated for bodies within the limit only
	Expect bool `json:"expect,omitempty"`
	ChunkStyle int   `json:"chunkstyle,omitempty"`
	// listener: per site read, header, write, idle (set?, ns) and the header-size limit; Live = through
	// a Casketfile (timeouts / limits directives) and casket.Start instead of hand-built configs
	Sites [][9]int64 `json:"sites,omitempty"`
	Live  bool       `json:"live,omitempty"`
	// hdr431: Limit = header limit, ReqBytes = size of the request's header block
	ReqBytes int `json:"reqbytes,omitempty"`
	// servers: Sites as for listener; every site of the group serves TLS or none does; HTTP/2 switched off; QUIC flag
	TLS   bool `json:"tls,omitempty"`
	H2Off bool `json:"h2off,omitempty"`
	QUIC  bool `json:"quic,omitempty"`
	// siteseq: a sequence of uploads (chunked? 0/1, body length) to one running site; Consumer 0 proxy, 1 buffering
	// proxy; Live = a site started from a Casketfile, else the limits middleware + proxy.Proxy served by net/http
	// (the upstream hosts' Fails are then observable)
	Seq [][2]int `json:"seq,omitempty"`
}

type scriptReader struct {
	data   []byte
	script []int
	eofd   bool
}

func (s *scriptReader) Read(p []byte) (int, error) {
	if len(p) == 0 {
		return 0, nil
	}
	if len(s.data) == 0 {
		return 0, io.EOF
	}
	c := len(p)
	if len(s.script) > 0 {
		if s.script[0] < c {
			c = s.script[0]
		}
		s.script = s.script[1:]
	}
	if c > len(s.data) {
		c = len(s.data)
	}
	copy(p, s.data[:c])
	s.data = s.data[c:]
	if len(s.data) == 0 && s.eofd {
		return c, io.EOF
	}
	return c, nil
}
func (s *scriptReader) Close() error { return nil }

func bodyOf(n int) []byte {
	b := make([]byte, n)
	for i := range b {
		b[i] = byte(i % 251)
	}
	return b
}

type handlerFunc func(http.ResponseWriter, *http.Request) (int, error)

func (f handlerFunc) ServeHTTP(w http.ResponseWriter, r *http.Request) (int, error) { return f(w, r) }

// setupDirective runs a registered directive's real setup on Casketfile text and returns
// the site config it filled.
func setupDirective(dir, text string) (*httpserver.SiteConfig, error) {
	c := casket.NewTestController("http", text)
	action, err := casket.DirectiveAction("http", dir)
	if err != nil {
		return nil, err
	}
	if err := action(c); err != nil {
		return nil, err
	}
	return httpserver.GetConfig(c), nil
}

func compile(mids []httpserver.Middleware, inner httpserver.Handler) httpserver.Handler {
	h := inner
	for i := len(mids) - 1; i >= 0; i-- {
		h = mids[i](h)
	}
	return h
}

func c17Run(in0 interface{}) Result {
	in := in0.(*c17In)
	switch in.Kind {
	case "read64":
		return c17RunRead64(in)
	case "count":
		return c17RunCount(in)
	case "parse":
		return c17RunParse(in)
	case "site":
		return c17RunSite(in)
	case "chunkread":
		return c17RunChunkRead(in)
	case "listener":
		return c17RunListener(in)
	case "hdr431":
		return c17RunHdr431(in)
	case "servers":
		return c17RunServers(in)
	case "siteseq":
		return c17RunSiteSeq(in)
	case "read":
		var sb strings.Builder
		sb.WriteString("limits {\n")
		for _, s := range in.Scopes {
			fmt.Fprintf(&sb, "  body %s %d\n", s.Path, s.Limit)
		}
		sb.WriteString("}\n")
		cfg, err := setupDirective("limits", sb.String())
		if err != nil {
			return Result{Term: "(CStatus false 0%Z)", Obs: "setup error: " + err.Error(), Class: "read:setup-error", Sig: "read:setup-error"}
		}
		httpserver.CaseSensitivePath = in.CS
		defer func() { httpserver.CaseSensitivePath = false }()
		var got []byte
		code := 0
		inner := handlerFunc(func(w http.ResponseWriter, r *http.Request) (int, error) {
			for _, m := range in.Bufs {
				p := make([]byte, m)
				n, err := r.Body.Read(p)
				got = append(got, p[:n]...)
				if err != nil {
					switch err {
					case io.EOF:
						code = 1
					case httpserver.ErrMaxBytesExceeded:
						code = 2
					default:
						code = 3
					}
					break
				}
			}
			return 0, nil
		})
		h := compile(cfg.Middleware(), inner)
		req := &http.Request{Method: "POST", URL: &url.URL{Path: in.Path}, Header: http.Header{},
			Body: &scriptReader{data: bodyOf(in.BodyLen), script: append([]int(nil), in.Script...), eofd: in.EOFD}}
		// framing as net/http reports it: declared length, or -1 for chunked/unknown
		req.ContentLength = int64(in.BodyLen)
		if in.Chunked {
			req.ContentLength = -1
		}
		h.ServeHTTP(httptest.NewRecorder(), req)
		var tbl []string
		for _, pl := range cfg.Limits.MaxRequestBodySizes {
			tbl = append(tbl, cPair(cStr(pl.Path), cZ(pl.Limit)))
		}
		term := cApp("CRead", cBool(in.CS), cList(tbl), cStr(in.Path), cNat(in.BodyLen), cNatList(in.Script),
			cBool(in.EOFD), cNatList(in.Bufs), cBytes(got), cN(uint64(code)))
		nt := code != 0 && len(in.Scopes) > 0
		return Result{Term: term, Obs: map[string]interface{}{"delivered_len": len(got), "err": code},
			Sig: fmt.Sprintf("read:err%d", code), Nontrivial: nt, Class: fmt.Sprintf("read:err%d:scopes%d", code, len(in.Scopes))}
	case "timeout", "header":
		var group []*httpserver.SiteConfig
		siteNo := -1
		mk := func(set bool, v int64) *httpserver.SiteConfig {
			siteNo++
			c := &httpserver.SiteConfig{TLS: new(caskettls.Config)}
			if in.Kind == "timeout" && len(in.Other) >= 3*(siteNo+1) {
				// the other three timeout fields vary independently (must not influence this one)
				k := 0
				for f := 0; f < 4; f++ {
					if f == in.Field {
						continue
					}
					o := in.Other[3*siteNo+k]
					k++
					d, s := time.Duration(o[1]), o[0] != 0
					switch f {
					case 0:
						c.Timeouts.ReadTimeout, c.Timeouts.ReadTimeoutSet = d, s
					case 1:
						c.Timeouts.ReadHeaderTimeout, c.Timeouts.ReadHeaderTimeoutSet = d, s
					case 2:
						c.Timeouts.WriteTimeout, c.Timeouts.WriteTimeoutSet = d, s
					case 3:
						c.Timeouts.IdleTimeout, c.Timeouts.IdleTimeoutSet = d, s
					}
				}
			}
			if in.Kind == "header" {
				c.Limits.MaxRequestHeaderSize = v
				return c
			}
			d := time.Duration(v)
			switch in.Field {
			case 0:
				c.Timeouts.ReadTimeout, c.Timeouts.ReadTimeoutSet = d, set
			case 1:
				c.Timeouts.ReadHeaderTimeout, c.Timeouts.ReadHeaderTimeoutSet = d, set
			case 2:
				c.Timeouts.WriteTimeout, c.Timeouts.WriteTimeoutSet = d, set
			case 3:
				c.Timeouts.IdleTimeout, c.Timeouts.IdleTimeoutSet = d, set
			}
			return c
		}
		for _, g := range in.Group {
			group = append(group, mk(g[0] != 0, g[1]))
		}
		field := func(s *httpserver.Server) int64 {
			if in.Kind == "header" {
				return int64(s.Server.MaxHeaderBytes)
			}
			switch in.Field {
			case 0:
				return int64(s.Server.ReadTimeout)
			case 1:
				return int64(s.Server.ReadHeaderTimeout)
			case 2:
				return int64(s.Server.WriteTimeout)
			}
			return int64(s.Server.IdleTimeout)
		}
		srv, err := httpserver.NewServer("127.0.0.1:0", group)
		if err != nil {
			return Result{Term: "(CStatus false 0%Z)", Obs: "NewServer error: " + err.Error(), Class: "merge:error", Direct: "NewServer failed: " + err.Error(), Sig: "merge:newserver-error"}
		}
		obs := field(srv)
		haveZero, havePos, nset := false, false, 0
		for _, g := range in.Group {
			if in.Kind == "header" || g[0] != 0 {
				nset++
				if g[1] == 0 {
					haveZero = true
				} else {
					havePos = true
				}
			}
		}
		sig := in.Kind + ":plain"
		if haveZero && havePos {
			sig = in.Kind + ":explicit-none-with-positive"
		}
		if in.Kind == "header" {
			var vs []int64
			for _, g := range in.Group {
				vs = append(vs, g[1])
			}
			return Result{Term: cApp("CHeader", cZList(vs), cZ(obs)), Obs: obs, Sig: sig, Nontrivial: nset >= 2, Class: sig}
		}
		dsrv, _ := httpserver.NewServer("127.0.0.1:0", []*httpserver.SiteConfig{{TLS: new(caskettls.Config)}})
		dflt := field(dsrv)
		var gs []string
		for _, g := range in.Group {
			gs = append(gs, cPair(cBool(g[0] != 0), cZ(g[1])))
		}
		return Result{Term: cApp("CTimeout", cZ(dflt), cList(gs), cZ(obs)), Obs: obs, Sig: sig, Nontrivial: nset >= 2, Class: sig}
	case "status":
		backend := httptest.NewServer(http.HandlerFunc(func(w http.ResponseWriter, r *http.Request) {
			io.Copy(io.Discard, r.Body)
			w.WriteHeader(200)
		}))
		defer backend.Close()
		lim := in.Scopes[0].Limit
		cfgL, err1 := setupDirective("limits", fmt.Sprintf("limits {\n body / %d\n}\n", lim))
		cfgP, err2 := setupDirective("proxy", "proxy / "+backend.URL+"\n")
		if err1 != nil || err2 != nil {
			return Result{Term: "(CStatus false 0%Z)", Obs: "setup error", Class: "status:setup-error", Sig: "status:setup-error"}
		}
		mids := append(cfgL.Middleware(), cfgP.Middleware()...)
		h := compile(mids, handlerFunc(func(w http.ResponseWriter, r *http.Request) (int, error) { return 404, nil }))
		req := httptest.NewRequest("POST", "http://example.test/up", &scriptReader{data: bodyOf(in.BodyLen), script: append([]int(nil), in.Script...), eofd: in.EOFD})
		req.ContentLength = -1
		over := int64(in.BodyLen) > lim
		// a reader that stops making progress would keep the transport copying forever
		if c17Stuck >= 2 {
			return Result{Term: "(CStatus false 0%Z)", Obs: "skipped: earlier cases never returned", Class: "status:stuck", Sig: fmt.Sprintf("status:over=%v", over), Direct: "proxied upload never returned (earlier cases hung)"}
		}
		done := make(chan int, 1)
		go func() {
			st, _ := h.ServeHTTP(httptest.NewRecorder(), req)
			done <- st
		}()
		var status int
		select {
		case status = <-done:
		case <-time.After(10 * time.Second):
			c17Stuck++
			backend.CloseClientConnections() // else the deferred Close waits for the stuck upload
			return Result{Term: "(CStatus false 0%Z)", Obs: "handler did not return within 10s", Class: "status:stuck", Sig: fmt.Sprintf("status:over=%v", over), Direct: "proxied upload: handler did not return within 10s"}
		}
		return Result{Term: cApp("CStatus", cBool(over), cZ(int64(status))), Obs: status, Sig: fmt.Sprintf("status:over=%v", over), Nontrivial: over, Class: fmt.Sprintf("status:over=%v", over)}
	}
	panic("bad kind " + in.Kind)
}

func c17Gen(r *Rand, tier string) []interface{} {
	var out []interface{}
	nRead, nMerge, nStatus := 1500, 500, 12
	if tier == "thorough" {
		nRead, nMerge, nStatus = 30000, 6000, 60
	}
	segs := []string{"a", "b", "A", "ab", "c.d", "x"}
	mkPath := func(depth int) string {
		p := ""
		for i := 0; i < depth; i++ {
			p += "/" + r.Pick(segs)
		}
		if p == "" {
			p = "/"
		}
		return p
	}
	reqSegs := []string{"a", "b", "A", "ab", "c.d", "x", ".", "..", "", "B"}
	for i := 0; i < nRead; i++ {
		in := &c17In{Kind: "read", CS: r.Chance(30)}
		ns := r.Intn(5)
		for j := 0; j < ns; j++ {
			p := mkPath(r.Intn(4))
			if r.Chance(20) {
				p += "/"
			}
			in.Scopes = append(in.Scopes, c17Scope{Path: p, Limit: int64(r.Range(1, 40))})
		}
		// request path: usually under one of the scopes, with odd spellings
		if len(in.Scopes) > 0 && r.Chance(70) {
			in.Path = in.Scopes[r.Intn(len(in.Scopes))].Path
		} else {
			in.Path = ""
		}
		for k := r.Intn(3); k > 0; k-- {
			in.Path += "/" + r.Pick(reqSegs)
		}
		if in.Path == "" || in.Path[0] != '/' {
			in.Path = "/" + in.Path
		}
		// body length around a limit of the table
		base := r.Range(0, 45)
		if len(in.Scopes) > 0 && r.Chance(75) {
			base = int(in.Scopes[r.Intn(len(in.Scopes))].Limit) + r.Range(-2, 2)
			if base < 0 {
				base = 0
			}
		}
		in.BodyLen = base
		for k := r.Intn(6); k > 0; k-- {
			if r.Chance(5) {
				in.Script = append(in.Script, 0)
			} else {
				in.Script = append(in.Script, r.Range(1, 9))
			}
		}
		in.EOFD = r.Bool()
		in.Chunked = r.Bool()
		nb := r.Range(1, 8)
		if r.Chance(70) {
			nb = in.BodyLen + 3
		}
		for k := 0; k < nb; k++ {
			switch {
			case r.Chance(4):
				in.Bufs = append(in.Bufs, 0)
			case r.Chance(50):
				in.Bufs = append(in.Bufs, r.Range(1, 4))
			default:
				in.Bufs = append(in.Bufs, r.Range(1, 64))
			}
		}
		out = append(out, in)
	}
	durs := []int64{0, 1, int64(time.Second), int64(10 * time.Second), int64(time.Minute), int64(5 * time.Minute), int64(time.Hour)}
	sizes := []int64{0, 1, 512, 4096, 1 << 20, 1 << 31}
	for i := 0; i < nMerge; i++ {
		hdr := r.Chance(35)
		in := &c17In{Kind: "timeout", Field: r.Intn(4)}
		if hdr {
			in.Kind = "header"
		}
		n := r.Range(1, 5)
		for j := 0; j < n; j++ {
			if hdr {
				in.Group = append(in.Group, [2]int64{1, sizes[r.Intn(len(sizes))]})
			} else {
				set := int64(0)
				v := int64(0)
				if r.Chance(70) {
					set = 1
					v = durs[r.Intn(len(durs))]
				}
				in.Group = append(in.Group, [2]int64{set, v})
				for k := 0; k < 3; k++ {
					if r.Chance(60) {
						in.Other = append(in.Other, [2]int64{1, durs[r.Intn(len(durs))]})
					} else {
						in.Other = append(in.Other, [2]int64{0, 0})
					}
				}
			}
		}
		out = append(out, in)
	}
	for i := 0; i < nStatus; i++ {
		lim := int64(r.Range(1, 2000))
		bl := int(lim) + r.Range(-3, 3)
		if bl < 0 {
			bl = 0
		}
		out = append(out, &c17In{Kind: "status", Scopes: []c17Scope{{Path: "/", Limit: lim}}, BodyLen: bl, EOFD: r.Bool(), Script: []int{r.Range(1, 700), r.Range(1, 700)}})
	}
	out = append(out, c17GenDeep(r, tier)...)
	return out
}

func c17GenDeep(r *Rand, tier string) []interface{} {
	var out []interface{}
	nR64, nCount, nParse, nListen, nLive := 300, 300, 450, 350, 120
	siteLimits := []int64{1, 10, 5000, 70000} // 70000: fastcgi's stdin writer has flushed one 65500-byte record when the limit is hit
	if tier == "thorough" {
		nR64, nCount, nParse, nListen, nLive = 4000, 4000, 6000, 5000, 1200
		siteLimits = []int64{1, 2, 10, 100, 4095, 4096, 5000, 32768, 32769, 65499, 65500, 65501, 70000, 131000, 300000}
	}
	const maxI = int64(math.MaxInt64)
	bufsFor := func(n int) []int {
		var b []int
		for k := 0; k < n; k++ {
			switch {
			case r.Chance(5):
				b = append(b, 0)
			case r.Chance(50):
				b = append(b, r.Range(1, 4))
			default:
				b = append(b, r.Range(1, 64))
			}
		}
		return b
	}
	// ---- MaxBytesReader with any int64 limit, honest scripted reader ----
	for i := 0; i < nR64; i++ {
		in := &c17In{Kind: "read64", BodyLen: r.Range(0, 40), EOFD: r.Bool()}
		switch c := r.Intn(100); {
		case c < 35: // around the body length
			in.Limit = int64(in.BodyLen + r.Range(-3, 3))
		case c < 45:
			in.Limit = maxI
		case c < 60:
			in.Limit = maxI - int64(r.Range(1, 5))
		case c < 70:
			in.Limit = int64(1)<<uint(r.Range(31, 62)) + int64(r.Range(-2, 2))
		case c < 80:
			in.Limit = -int64(r.Range(1, 4))
		case c < 85:
			in.Limit = math.MinInt64 + int64(r.Range(0, 2))
		case c < 90:
			in.Limit = 0
		default:
			in.Limit = int64(r.Range(1, 60))
		}
		for k := r.Intn(5); k > 0; k-- {
			in.Script = append(in.Script, r.Range(0, 9))
		}
		in.Bufs = bufsFor(in.BodyLen + 3)
		out = append(out, in)
	}
	// ---- the same with a reader that claims counts: boundary at 2^63-2 / 2^63-1 ----
	for i := 0; i < nCount; i++ {
		in := &c17In{Kind: "count"}
		switch c := r.Intn(100); {
		case c < 12:
			in.Limit = maxI
		case c < 50:
			in.Limit = maxI - int64(r.Range(1, 6))
		case c < 65:
			in.Limit = int64(1)<<uint(r.Range(20, 62)) + int64(r.Range(-3, 3))
		case c < 72:
			in.Limit = -int64(r.Range(1, 3))
		case c < 77:
			in.Limit = 0
		default:
			in.Limit = int64(r.Range(1, 100))
		}
		// claims: a few parts that add up to about the limit (when it is positive)
		na := r.Range(0, 5)
		remaining := in.Limit
		if remaining < 0 {
			remaining = int64(r.Range(0, 50))
		}
		remaining += int64(r.Range(-3, 3))
		for k := 0; k < na; k++ {
			var c int64
			switch {
			case remaining <= 0 || r.Chance(15):
				c = int64(r.Range(0, 5))
			case k == na-1 || r.Chance(30):
				c = remaining
			case r.Chance(10):
				c = maxI
			default:
				c = int64(r.U64() % uint64(remaining+1))
			}
			if c < 0 {
				c = 0
			}
			if remaining >= c {
				remaining -= c
			} else {
				remaining = 0
			}
			e := int64(0)
			if r.Chance(8) {
				e = []int64{1, 3}[r.Intn(2)]
			}
			in.Answers = append(in.Answers, [2]int64{c, e})
		}
		in.Bufs = bufsFor(na + r.Range(1, 4))
		out = append(out, in)
	}
	// ---- size strings ----
	unitsU := []string{"", "B", "KB", "MB", "GB", "b", "kb", "Kb", "mB", "gb", "TB", "K", "KiB", " KB", "kB "}
	mults := map[string]int64{"": 1, "B": 1, "KB": 1024, "MB": 1 << 20, "GB": 1 << 30}
	for i := 0; i < nParse; i++ {
		in := &c17In{Kind: "parse", Form: r.Intn(4)}
		u := unitsU[r.Intn(len(unitsU))]
		if r.Chance(60) {
			u = unitsU[r.Intn(10)]
		}
		var num string
		switch c := r.Intn(100); {
		case c < 25:
			num = strconv.Itoa(r.Range(0, 3000))
		case c < 55: // around the largest number whose product fits int64, and one bit beyond
			m := mults[strings.ToUpper(u)]
			if m == 0 {
				m = 1
			}
			b := new(big.Int).Div(new(big.Int).Lsh(big.NewInt(1), uint(63+r.Intn(2))), big.NewInt(m))
			b.Add(b, big.NewInt(int64(r.Range(-3, 3))))
			num = b.String()
		case c < 65: // products that wrap to a small positive value: k * 2^64 / m + small
			m := mults[strings.ToUpper(u)]
			if m <= 1 {
				m, u = 1024, "KB"
			}
			b := new(big.Int).Div(new(big.Int).Lsh(big.NewInt(int64(r.Range(1, 3))), 64), big.NewInt(m))
			b.Add(b, big.NewInt(int64(r.Range(0, 4))))
			if b.IsInt64() {
				num = b.String()
			} else {
				num = "18014398509481985"
			}
		case c < 72:
			num = new(big.Int).Add(new(big.Int).Lsh(big.NewInt(1), uint(r.Range(62, 66))), big.NewInt(int64(r.Range(-2, 2)))).String()
		case c < 80:
			num = []string{"+", "-"}[r.Intn(2)] + strconv.Itoa(r.Range(0, 50))
		case c < 84: // negative numbers whose product wraps to a positive value
			num = "-" + new(big.Int).Sub(new(big.Int).Lsh(big.NewInt(1), 34), big.NewInt(int64(r.Range(0, 3)))).String()
			u = "GB"
		case c < 90:
			num = []string{"", "0x10", "1_0", "1e3", "1.5", "٣", "5ſ", "5\u212a", "--1", "+-1", "1 0", "00012", "+", "-"}[r.Intn(14)]
		default:
			num = strconv.FormatUint(r.U64()>>uint(r.Intn(64)), 10)
		}
		in.Size = num + u
		if in.Form == 1 && in.Size == "" {
			in.Size = "0" // `header ""` is taken as "no header limit given", not as a size
		}
		out = append(out, in)
	}
	// ---- whole listener: every merged field at once ----
	durs := []int64{0, 1, int64(time.Millisecond), int64(time.Second), int64(10 * time.Second), int64(time.Minute), int64(5 * time.Minute), int64(time.Hour)}
	hsizes := []int64{0, 0, 1, 512, 4096, 1 << 20, 1 << 31}
	mkSites := func() [][9]int64 {
		var ss [][9]int64
		n := r.Range(1, 5)
		same := r.Chance(15)
		for j := 0; j < n; j++ {
			var s [9]int64
			for f := 0; f < 4; f++ {
				if r.Chance(65) {
					s[2*f], s[2*f+1] = 1, durs[r.Intn(len(durs))]
				}
			}
			if same { // `timeouts X`: all four set to one value
				v := durs[r.Intn(len(durs))]
				for f := 0; f < 4; f++ {
					s[2*f], s[2*f+1] = 1, v
				}
			}
			s[8] = hsizes[r.Intn(len(hsizes))]
			ss = append(ss, s)
		}
		return ss
	}
	for i := 0; i < nListen; i++ {
		out = append(out, &c17In{Kind: "listener", Sites: mkSites()})
	}
	for i := 0; i < nLive; i++ {
		out = append(out, &c17In{Kind: "listener", Live: true, Sites: mkSites()})
	}
	// ---- real sites: limit-1, limit, limit+1, a bit more, much more; both framings; three consumers ----
	for _, lim := range siteLimits {
		for consumer := 0; consumer < 3; consumer++ {
			for _, chunked := range []bool{false, true} {
				lens := []int{int(lim) - 1, int(lim), int(lim) + 1, int(lim) + r.Range(2, 3000), int(lim) + 400000 + r.Range(0, 5000)}
				if tier == "thorough" {
					lens = append(lens, 0, int(lim)+2, int(lim)+100000, r.Range(0, int(lim)))
				}
				for _, n := range lens {
					if n < 0 {
						n = 0
					}
					out = append(out, &c17In{Kind: "site", Consumer: consumer, Chunked: chunked, Limit: lim, BodyLen: n})
				}
			}
		}
	}
	// ---- raw chunked uploads at limit-1, limit, limit+1 (and a bit more): the limit counts DECODED bytes whatever
	// the segmentation on the wire — 1-byte chunks, one big chunk, a boundary chunk that straddles the limit, random
	// sizes; with chunk extensions, upper-case/zero-padded sizes and trailer fields; three consumers ----
	chunkLimits := []int64{1, 10, 4096}
	if tier == "thorough" {
		chunkLimits = []int64{1, 2, 10, 100, 4096, 5000, 32769, 65500, 70000}
	}
	for _, lim := range chunkLimits {
		l := int(lim)
		for consumer := 0; consumer < 3; consumer++ {
			for _, n := range []int{l - 1, l, l + 1, l + r.Range(2, 600)} {
				if n <= 0 {
					continue
				}
				var splits [][]int
				splits = append(splits, []int{n}) // one chunk
				if n >= 2 {
					splits = append(splits, []int{n - 1, 1}, []int{1, n - 1}) // the last / first byte alone
				}
				if n > l && l >= 1 {
					splits = append(splits, []int{l, n - l}) // a chunk ending exactly at the limit
					if l >= 2 {
						splits = append(splits, []int{l - 1, n - l + 1}) // a chunk straddling the limit
					}
				}
				if n <= 300 { // one-byte chunks
					ones := make([]int, n)
					for i := range ones {
						ones[i] = 1
					}
					splits = append(splits, ones)
				}
				nr := 2
				if tier == "thorough" {
					nr = 6
				}
				for k := 0; k < nr; k++ { // random sizes
					var sp []int
					for left := n; left > 0; {
						c := r.Range(1, 1+left/(1+r.Intn(4)))
						if c > left {
							c = left
						}
						sp = append(sp, c)
						left -= c
					}
					splits = append(splits, sp)
				}
				for si, sp := range splits {
					if consumer == 0 && n <= 700 { // the same wire through the limits middleware in-process: decoded bytes, error
						var script, bufs []int
						for k := r.Intn(6); k > 0; k-- {
							script = append(script, r.Range(1, 40))
						}
						for k := r.Range(1, 3); k > 0; k-- {
							bufs = append(bufs, []int{1, 2, 3, 7, 64, l, l + 1, l + 2, 4096}[r.Intn(9)])
						}
						out = append(out, &c17In{Kind: "chunkread", Limit: lim, BodyLen: n, Chunks: sp, ChunkStyle: (si + n) % 4, Script: script, Bufs: bufs})
					}
					out = append(out, &c17In{Kind: "site", Consumer: consumer, Chunked: true, Limit: lim, BodyLen: n, Chunks: sp, ChunkStyle: (si + consumer + n) % 4})
				}
			}
		}
	}
	// ---- Expect: 100-continue uploads at the boundary (limit-1, limit), both framings, three consumers: delivered
	// intact, 200, the pipelined follow-up answered ----
	for _, lim := range chunkLimits {
		for consumer := 0; consumer < 3; consumer++ {
			for _, n := range []int{int(lim) - 1, int(lim)} {
				out = append(out, &c17In{Kind: "site", Consumer: consumer, Limit: lim, BodyLen: n, Expect: true},
					&c17In{Kind: "site", Consumer: consumer, Chunked: true, Limit: lim, BodyLen: n, Expect: true, Chunks: []int{(n + 1) / 2, n / 2}, ChunkStyle: n % 4})
			}
		}
	}
	// ---- every server object of a listener: TLS sites or not, HTTP/2 on/off, QUIC flag on/off ----
	nServers, nServersLive := 260, 24
	if tier == "thorough" {
		nServers, nServersLive = 3000, 200
	}
	for i := 0; i < nServers+nServersLive; i++ {
		in := &c17In{Kind: "servers", Live: i >= nServers, Sites: mkSites(), TLS: r.Chance(75), QUIC: r.Chance(65), H2Off: r.Chance(12)}
		if i%5 == 0 { // every site sets a header limit, none an idle timeout
			for j := range in.Sites {
				in.Sites[j][8] = []int64{1, 512, 2048, 4096, 1 << 20}[r.Intn(5)]
				in.Sites[j][6], in.Sites[j][7] = 0, 0
			}
		}
		if i%5 == 1 { // no positive idle timeout anywhere (explicit none allowed)
			for j := range in.Sites {
				in.Sites[j][7] = 0
			}
		}
		out = append(out, in)
	}
	// ---- sequences of uploads on one site whose upstream counts failures: over the limit, then within ----
	seqLimits := []int64{1, 10, 5000}
	nSeqRandom := 2
	if tier == "thorough" {
		seqLimits = []int64{1, 2, 10, 100, 4096, 5000, 32769, 70000}
		nSeqRandom = 8
	}
	for _, lim := range seqLimits {
		l := int(lim)
		for consumer := 0; consumer < 2; consumer++ {
			for _, live := range []bool{false, true} {
				seqs := [][][2]int{
					{{1, l + 1}, {0, l}, {1, l - 1}},
					{{0, l + 1}, {1, l}, {0, l + r.Range(2, 900)}, {0, l}},
					{{0, l}, {1, l + r.Range(1, 3)}, {1, l}},
				}
				for k := 0; k < nSeqRandom; k++ {
					var sq [][2]int
					for n := r.Range(3, 6); n > 0; n-- {
						ch := 0
						if r.Bool() {
							ch = 1
						}
						sq = append(sq, [2]int{ch, l + r.Range(-2, 3)})
					}
					seqs = append(seqs, sq)
				}
				for _, sq := range seqs {
					out = append(out, &c17In{Kind: "siteseq", Consumer: consumer, Live: live, Limit: lim, Seq: sq})
				}
			}
		}
	}
	// ---- header-size limit as enforced by the listener ----
	for _, h := range []int64{1, 1024, 8192} {
		for _, d := range []int{-4000, -1, 0, 1, 2, 5000} {
			out = append(out, &c17In{Kind: "hdr431", Limit: h, ReqBytes: int(h) + 4096 + d})
		}
	}
	return out
}

func init() {
	register(&Property{
		ID: "C17", Imports: "V.Lib V.C17_Model", Judge: "judge",
		Rule: "cases = real limits directive (parse+sort+Limit.ServeHTTP+maxBytesReader) on scripted readers; MaxBytesReader directly with any int64 limit on scripted and count-claiming readers; size strings through the directive's setup; NewServer merges per field, on whole hand-built site groups and on Casketfiles started with casket.Start; proxy 413 in-process; real sites over loopback (proxy / buffering proxy / fastcgi x Content-Length / chunked x lengths around the limit, pipelined follow-up); 431 at the merged header limit; NewServer on groups with TLS sites or not, HTTP/2 on/off and the QUIC flag on/off (hand-built and started from Casketfiles with `tls cert key`): EVERY server object it creates (TCP http.Server and the HTTP/3 server's MaxHeaderBytes / QUICConfig.MaxIdleTimeout) against the merged values; SEQUENCES of uploads (over the limit, then within it, both framings) on one running site whose proxy upstream counts failures (max_fails 1, fail_timeout 1h), each request judged, the upstream hosts' Fails observed. non-trivial = read that ended in EOF/too-large under a non-empty table, read64 that ended in an error/panic, count with a non-empty script, accepted size string, merge with >=2 sites setting a positive value, over-limit upload, over-limit header; distinct = distinct Coq case term",
		Gen: c17Gen,
		Decode: func(raw json.RawMessage) (interface{}, error) {
			in := &c17In{}
			return in, json.Unmarshal(raw, in)
		},
		Run: c17Run,
	})
}

// ---------------------------------------------------------------------------------------------
// deepened cases: int64 boundary of MaxBytesReader, size strings, real sites, whole listener

// c17Liar is an io.ReadCloser that only CLAIMS byte counts (it ignores p), so that limits near 2^63
// can be approached without that many bytes.
type c17Liar struct {
	answers  [][2]int64
	consumed int
}

var errC17Other = errors.New("c17: scripted reader error")

func (l *c17Liar) Read(p []byte) (int, error) {
	if l.consumed >= len(l.answers) {
		return 0, io.EOF
	}
	a := l.answers[l.consumed]
	l.consumed++
	switch a[1] {
	case 1:
		return int(a[0]), io.EOF
	case 3:
		return int(a[0]), errC17Other
	}
	return int(a[0]), nil
}
func (l *c17Liar) Close() error { return nil }

func c17ErrCode(err error) int {
	switch err {
	case nil:
		return 0
	case io.EOF:
		return 1
	case httpserver.ErrMaxBytesExceeded:
		return 2
	}
	return 3
}

func c17LimitClass(l int64) string {
	switch {
	case l == math.MaxInt64:
		return "limit-maxint64"
	case l < 0:
		return "limit-negative"
	case l == 0:
		return "limit-zero"
	case l >= math.MaxInt64-4:
		return "limit-near-maxint64"
	case l >= 1<<40:
		return "limit-huge"
	}
	return "limit-small"
}

func c17RunRead64(in *c17In) Result {
	body := bodyOf(in.BodyLen)
	rd := limits.MaxBytesReader(httptest.NewRecorder(), &scriptReader{data: body, script: append([]int(nil), in.Script...), eofd: in.EOFD}, in.Limit)
	var got []byte
	code, ecode, neg := 0, 0, int64(0)
	func() {
		defer func() {
			if r := recover(); r != nil {
				code = 1
			}
		}()
		for _, m := range in.Bufs {
			p := make([]byte, m)
			n, err := rd.Read(p)
			if n < 0 {
				code, neg = 2, int64(n)
				return
			}
			got = append(got, p[:n]...)
			if err != nil {
				ecode = c17ErrCode(err)
				return
			}
		}
	}()
	if code != 0 {
		got, ecode = nil, 0
	}
	term := cApp("CRead64", cZ(in.Limit), cNat(in.BodyLen), cNatList(in.Script), cBool(in.EOFD), cNatList(in.Bufs),
		cN(uint64(code)), cBytes(got), cN(uint64(ecode)), cZ(neg))
	cl := c17LimitClass(in.Limit)
	return Result{Term: term, Obs: map[string]interface{}{"outcome": []string{"returned", "panic", "negative-count"}[code], "delivered_len": len(got), "err": ecode, "neg": neg},
		Sig: "read64:" + cl, Class: fmt.Sprintf("read64:%s:%d", cl, code), Nontrivial: code != 0 || ecode != 0}
}

func c17RunCount(in *c17In) Result {
	liar := &c17Liar{answers: in.Answers}
	rd := limits.MaxBytesReader(httptest.NewRecorder(), liar, in.Limit)
	var outs []string
	var obs [][2]int64
	code := 0
	func() {
		defer func() {
			if r := recover(); r != nil {
				code = 1
			}
		}()
		for _, m := range in.Bufs {
			n, err := rd.Read(make([]byte, m))
			obs = append(obs, [2]int64{int64(n), int64(c17ErrCode(err))})
			outs = append(outs, cPair(cZ(int64(n)), cN(uint64(c17ErrCode(err)))))
		}
	}()
	if code != 0 {
		outs, obs = nil, nil
	}
	var bufs []int64
	for _, m := range in.Bufs {
		bufs = append(bufs, int64(m))
	}
	var ans []string
	for _, a := range in.Answers {
		ans = append(ans, cPair(cZ(a[0]), cN(uint64(a[1]))))
	}
	term := cApp("CCount", cZ(in.Limit), cZList(bufs), cList(ans), cN(uint64(code)), cList(outs), cNat(liar.consumed))
	cl := c17LimitClass(in.Limit)
	return Result{Term: term, Obs: map[string]interface{}{"panic": code == 1, "reads": obs, "answers_consumed": liar.consumed},
		Sig: "count:" + cl, Class: fmt.Sprintf("count:%s:%d", cl, code), Nontrivial: len(in.Answers) > 0}
}

// c17Denote reads a size string the way the property's spec does (sign, digit run, unit) with
// unbounded integers; ok=false when it denotes nothing.
func c17Denote(s string) (prod *big.Int, ok bool) {
	b := []byte(s)
	for i, c := range b {
		if c >= 'a' && c <= 'z' {
			b[i] = c - 32
		}
	}
	neg := false
	if len(b) > 0 && (b[0] == '+' || b[0] == '-') {
		neg = b[0] == '-'
		b = b[1:]
	}
	i := 0
	for i < len(b) && b[i] >= '0' && b[i] <= '9' {
		i++
	}
	if i == 0 {
		return nil, false
	}
	mult, found := map[string]int64{"KB": 1024, "MB": 1 << 20, "GB": 1 << 30, "B": 1, "": 1}[string(b[i:])]
	if !found {
		return nil, false
	}
	n, _ := new(big.Int).SetString(string(b[:i]), 10)
	if neg {
		n.Neg(n)
	}
	return n.Mul(n, big.NewInt(mult)), true
}

func c17RunParse(in *c17In) Result {
	q := "\"" + in.Size + "\""
	var text string
	switch in.Form {
	case 0:
		text = "limits " + q + "\n"
	case 1:
		text = "limits {\n header " + q + "\n}\n"
	case 2:
		text = "limits {\n body /p " + q + "\n}\n"
	default:
		text = "limits {\n body " + q + "\n}\n"
	}
	cfg, err := setupDirective("limits", text)
	ok := err == nil
	var h, b int64
	if ok {
		h = cfg.Limits.MaxRequestHeaderSize
		if len(cfg.Limits.MaxRequestBodySizes) > 0 {
			b = cfg.Limits.MaxRequestBodySizes[0].Limit
		}
	}
	form := in.Form
	if form == 3 {
		form = 2
	}
	sig := "parse:plain"
	if prod, den := c17Denote(in.Size); den && !prod.IsInt64() {
		sig = "parse:product-overflows-int64"
	}
	cls := sig + ":rejected"
	if ok {
		cls = sig + ":accepted"
	}
	return Result{Term: cApp("CParse", cN(uint64(form)), cStr(in.Size), cBool(ok), cZ(h), cZ(b)),
		Obs: map[string]interface{}{"accepted": ok, "header": h, "body": b}, Sig: sig, Class: cls, Nontrivial: ok}
}

// ---- real sites over loopback ----

type c17BackendRec struct {
	n      int
	prefix bool
}

var c17Stuck int // uploads that were never answered (a reader that stops making progress)

var (
	c17Once     sync.Once
	c17Backends [2]*httptest.Server
	c17Mu       sync.Mutex
	c17Seen     = map[string]c17BackendRec{}
	c17Seq      int
)

func c17SiteSetup() {
	c17Once.Do(func() {
		c13Setup() // scripted FastCGI responder + document root of harness/c13.go
		h := http.HandlerFunc(func(w http.ResponseWriter, r *http.Request) {
			b, _ := io.ReadAll(r.Body)
			want := bodyOf(len(b))
			c17Mu.Lock()
			c17Seen[r.Header.Get("X-Case")] = c17BackendRec{len(b), bytes.Equal(b, want)}
			c17Mu.Unlock()
			w.WriteHeader(200)
			fmt.Fprintf(w, "got %d", len(b))
		})
		c17Backends[0] = httptest.NewServer(h)
		c17Backends[1] = httptest.NewServer(h)
	})
}

// the scripted responder's reply: one stdout record with a 200 response, end of stdout, end request
func c17FcgiReply() []byte {
	body := []byte("Status: 200 OK\r\nContent-Type: text/plain\r\n\r\nok")
	out := []byte{1, 6, 0, 1, byte(len(body) >> 8), byte(len(body)), 0, 0}
	out = append(out, body...)
	out = append(out, 1, 6, 0, 1, 0, 0, 0, 0)
	out = append(out, 1, 3, 0, 1, 0, 8, 0, 0, 0, 0, 0, 0, 0, 0, 0, 0)
	return out
}

// stdin payload (record type 5) of a captured FastCGI request
func c17FcgiStdin(raw []byte) []byte {
	var stdin []byte
	for len(raw) >= 8 {
		cl := int(raw[4])<<8 | int(raw[5])
		end := 8 + cl + int(raw[6])
		if end > len(raw) {
			break
		}
		if raw[1] == 5 {
			stdin = append(stdin, raw[8:8+cl]...)
		}
		raw = raw[end:]
	}
	return stdin
}

func c17SiteText(limit int64) string {
	return fmt.Sprintf("root %s\nlimits {\n body /up %d\n body /buf %d\n body /a.php %d\n}\n"+
		"proxy /up %s\nproxy /buf %s %s {\n try_duration 300ms\n try_interval 20ms\n}\n"+
		"fastcgi / %s php {\n read_timeout 5s\n send_timeout 5s\n connect_timeout 5s\n}\nstatus 204 /ping\n",
		c13Root, limit, limit, limit, c17Backends[0].URL, c17Backends[0].URL, c17Backends[1].URL, c13Srv.ln.Addr().String())
}

func c17RunSite(in *c17In) Result {
	c17SiteSetup()
	fail := func(msg string) Result {
		return Result{Term: "(CStatus false 0%Z)", Obs: msg, Class: "site:setup-error", Sig: "site:setup-error", Direct: msg}
	}
	if c17Stuck >= 2 {
		r := fail("site case skipped: earlier uploads were never answered")
		r.Sig, r.Class = "site:stuck", "site:stuck"
		return r
	}
	site, err := getSite(c17SiteText(in.Limit))
	if err != nil {
		return fail("site start: " + err.Error())
	}
	c17Mu.Lock()
	c17Seq++
	id := fmt.Sprintf("c17-%d", c17Seq)
	c17Mu.Unlock()
	target := []string{"/up", "/buf", "/a.php"}[in.Consumer]
	var fseq int
	if in.Consumer == 2 {
		c13Srv.mu.Lock()
		c13Srv.seq++
		fseq = c13Srv.seq
		c13Srv.resp = c17FcgiReply()
		c13Srv.mu.Unlock()
	}
	body := bodyOf(in.BodyLen)
	var sb bytes.Buffer
	fmt.Fprintf(&sb, "POST %s HTTP/1.1\r\nHost: %s\r\nX-Case: %s\r\nContent-Type: application/octet-stream\r\n", target, site.addr, id)
	if in.Expect {
		sb.WriteString("Expect: 100-continue\r\n")
	}
	if in.Chunked {
		if in.ChunkStyle == 3 {
			sb.WriteString("Trailer: X-Sum, X-Note\r\n")
		}
		sb.WriteString("Transfer-Encoding: chunked\r\n\r\n")
		sb.Write(c17ChunkedWire(in, body))
	} else {
		fmt.Fprintf(&sb, "Content-Length: %d\r\n\r\n", len(body))
		sb.Write(body)
	}
	// the pipelined follow-up on the same connection
	fmt.Fprintf(&sb, "GET /ping HTTP/1.1\r\nHost: %s\r\n\r\n", site.addr)
	conn, err := net.DialTimeout("tcp", site.addr, 2*time.Second)
	if err != nil {
		return fail("dial: " + err.Error())
	}
	defer conn.Close()
	conn.SetDeadline(time.Now().Add(10 * time.Second))
	go conn.Write(sb.Bytes())
	br := bufio.NewReader(conn)
	status, followup := -1, -2
	r1, err := http.ReadResponse(br, &http.Request{Method: "POST"})
	for err == nil && r1.StatusCode == 100 { // interim response of an Expect: 100-continue upload
		r1, err = http.ReadResponse(br, &http.Request{Method: "POST"})
	}
	if ne, ok := err.(net.Error); ok && ne.Timeout() {
		c17Stuck++
		r := fail("upload was not answered within 10s")
		r.Sig, r.Class = "site:stuck", "site:stuck"
		return r
	}
	if err == nil {
		io.Copy(io.Discard, r1.Body)
		r1.Body.Close()
		status = r1.StatusCode
		if r2, err := http.ReadResponse(br, &http.Request{Method: "GET"}); err == nil {
			followup = r2.StatusCode
			r2.Body.Close()
		}
	}
	conn.Close()
	// what reached the backend
	backend, prefix := int64(-1), true
	over := int64(in.BodyLen) > in.Limit
	wait := 2 * time.Second
	if in.Consumer == 1 && over && (status == 413 || status == 400) {
		wait = 40 * time.Millisecond // the buffering proxy gives up before it contacts anyone
	}
	deadline := time.Now().Add(wait)
	if in.Consumer == 2 {
		tm := time.After(wait)
	poll:
		for {
			select {
			case c := <-c13Srv.got:
				if c.seq == fseq {
					stdin := c17FcgiStdin(c.raw)
					backend, prefix = int64(len(stdin)), bytes.Equal(stdin, bodyOf(len(stdin)))
					break poll
				}
			case <-tm:
				break poll
			}
		}
	} else {
		for {
			c17Mu.Lock()
			rec, ok := c17Seen[id]
			delete(c17Seen, id)
			c17Mu.Unlock()
			if ok {
				backend, prefix = int64(rec.n), rec.prefix
				break
			}
			if time.Now().After(deadline) {
				break
			}
			time.Sleep(2 * time.Millisecond)
		}
	}
	kind := []string{"proxy", "proxy-buffered", "fastcgi"}[in.Consumer]
	framing := "content-length"
	if in.Chunked {
		framing = "chunked"
	}
	ow := "within"
	if over {
		ow = "over"
	}
	if in.Chunked && (len(in.Chunks) > 0 || in.ChunkStyle != 0) {
		framing = fmt.Sprintf("chunked-varied-style%d", in.ChunkStyle)
	}
	if in.Expect {
		framing += "-expect"
	}
	sig := fmt.Sprintf("site:%s:%s:%s", kind, framing, ow)
	// precise classes for the deviations once found on real sites (F-C17-4/5/6): the body is cut
	// correctly and nothing else is wrong, only the status the client sees is not 413.  The spec in
	// judge demands 413 for all of them; the class only names the regression
	if over && prefix && backend <= in.Limit && (followup == 204 || followup == -2) {
		switch {
		case in.Consumer == 0 && !in.Chunked && status == 502 && backend == in.Limit:
			sig = "site:proxy:content-length:over-limit-answered-502"
		case in.Consumer == 1 && status == 400 && backend == -1:
			sig = "site:proxy-buffered:over-limit-answered-400"
		case in.Consumer == 2 && status == 200 && backend == in.Limit:
			sig = "site:fastcgi:over-limit-truncated-body-answered-200"
		}
	}
	term := cApp("CSite", cN(uint64(in.Consumer)), cBool(in.Chunked), cZ(in.Limit), cNat(in.BodyLen), cZ(int64(status)), cZ(backend), cBool(prefix), cZ(int64(followup)))
	return Result{Term: term, Obs: map[string]interface{}{"status": status, "backend_received": backend, "backend_prefix_ok": prefix, "pipelined_followup": followup},
		Sig: sig, Class: fmt.Sprintf("site:%s:%s:%s", kind, framing, ow), Nontrivial: over}
}

// c17ChunkedWire frames body as chunks of the sizes in.Chunks (default: a 7-way split) in the spelling in.ChunkStyle
// selects, ending with the last-chunk, the trailer fields of style 3 and the empty line.
func c17ChunkedWire(in *c17In, body []byte) []byte {
	var sb bytes.Buffer
	sizes := in.Chunks
	if len(sizes) == 0 {
		step := 1 + in.BodyLen/7
		if step > 8000 {
			step = 8000
		}
		for i := 0; i < len(body); i += step {
			if i+step > len(body) {
				sizes = append(sizes, len(body)-i)
			} else {
				sizes = append(sizes, step)
			}
		}
	}
	sizeLine := func(n, k int) string {
		switch in.ChunkStyle {
		case 1:
			return fmt.Sprintf("%x;seq=%d", n, k)
		case 2:
			return fmt.Sprintf("00%X;note=\"a;b=c\"", n)
		case 3:
			return fmt.Sprintf("%x;x", n)
		}
		return fmt.Sprintf("%x", n)
	}
	i := 0
	for k, n := range sizes {
		if n <= 0 || i+n > len(body) {
			continue
		}
		sb.WriteString(sizeLine(n, k) + "\r\n")
		sb.Write(body[i : i+n])
		sb.WriteString("\r\n")
		i += n
	}
	if i < len(body) { // (a replay file whose sizes do not add up: the rest as one chunk)
		fmt.Fprintf(&sb, "%x\r\n", len(body)-i)
		sb.Write(body[i:])
		sb.WriteString("\r\n")
	}
	sb.WriteString(sizeLine(0, len(sizes)) + "\r\n")
	if in.ChunkStyle == 3 {
		fmt.Fprintf(&sb, "X-Sum: %d\r\nX-Note: after the last chunk\r\n", len(body))
	}
	sb.WriteString("\r\n")

	return sb.Bytes()
}

// the real limits middleware over a chunked request as net/http parses it from the wire (http.ReadRequest gives the
// request the same chunked body reader the server uses); the handler behind it reads with the given buffer sizes,
// cycling, until the first error
func c17RunChunkRead(in *c17In) Result {
	fail := func(msg string) Result {
		return Result{Term: "(CStatus false 0%Z)", Obs: msg, Class: "chunkread:setup-error", Sig: "chunkread:setup-error", Direct: msg}
	}
	body := bodyOf(in.BodyLen)
	wire := c17ChunkedWire(in, body)
	hdr := "POST /up HTTP/1.1\r\nHost: c17.test\r\n"
	if in.ChunkStyle == 3 {
		hdr += "Trailer: X-Sum, X-Note\r\n"
	}
	raw := append([]byte(hdr+"Transfer-Encoding: chunked\r\n\r\n"), wire...)
	// the connection delivers the bytes in pieces of the sizes in.Script (then all that is left)
	req, err := http.ReadRequest(bufio.NewReaderSize(&scriptReader{data: raw, script: append([]int(nil), in.Script...)}, 4096)) // the server's connection buffer size
	if err != nil {
		return fail("ReadRequest: " + err.Error())
	}
	cfg, err := setupDirective("limits", fmt.Sprintf("limits {\n body /up %d\n}\n", in.Limit))
	if err != nil {
		return fail("setup: " + err.Error())
	}
	var got []byte
	code := 0
	bufs := in.Bufs
	if len(bufs) == 0 {
		bufs = []int{512}
	}
	inner := handlerFunc(func(w http.ResponseWriter, r *http.Request) (int, error) {
		for i := 0; i < 1000000; i++ {
			p := make([]byte, bufs[i%len(bufs)])
			n, err := r.Body.Read(p)
			got = append(got, p[:n]...)
			if err != nil {
				code = c17ErrCode(err)
				break
			}
		}
		return 0, nil
	})
	compile(cfg.Middleware(), inner).ServeHTTP(httptest.NewRecorder(), req)
	over := int64(in.BodyLen) > in.Limit
	trailerOK := true
	if in.ChunkStyle == 3 && code == 1 {
		trailerOK = req.Trailer.Get("X-Sum") == strconv.Itoa(in.BodyLen)
	}
	term := cApp("CChunkRead", cZ(in.Limit), cBytes(wire), cNat(in.BodyLen), cBytes(got), cN(uint64(code)), cBool(trailerOK))
	return Result{Term: term, Obs: map[string]interface{}{"delivered_len": len(got), "err": code, "wire_len": len(wire), "trailer_ok": trailerOK},
		Sig: fmt.Sprintf("chunkread:style%d:over=%v", in.ChunkStyle, over), Class: fmt.Sprintf("chunkread:style%d:over=%v:err%d", in.ChunkStyle, over, code), Nontrivial: true}
}

func c17RunHdr431(in *c17In) Result {
	site, err := getSite(fmt.Sprintf("limits {\n header %d\n}\nstatus 204 /ping\n", in.Limit))
	if err != nil {
		return Result{Term: "(CStatus false 0%Z)", Obs: "site start: " + err.Error(), Class: "hdr431:setup-error", Sig: "hdr431:setup-error", Direct: "site start: " + err.Error()}
	}
	head := "GET /ping HTTP/1.1\r\nHost: " + site.addr + "\r\nConnection: close\r\nX-Pad: "
	tail := "\r\n\r\n"
	pad := in.ReqBytes - len(head) - len(tail)
	if pad < 0 {
		pad = 0
	}
	req := head + strings.Repeat("p", pad) + tail
	status := -1
	if conn, err := net.DialTimeout("tcp", site.addr, 2*time.Second); err == nil {
		conn.SetDeadline(time.Now().Add(5 * time.Second))
		go conn.Write([]byte(req))
		if r, err := http.ReadResponse(bufio.NewReader(conn), nil); err == nil {
			status = r.StatusCode
			r.Body.Close()
		}
		conn.Close()
	}
	if status == 204 {
		status = 200
	}
	over := int64(len(req)) > in.Limit+4096
	return Result{Term: cApp("CHdr431", cZ(in.Limit), cZ(int64(len(req))), cZ(int64(status))), Obs: map[string]interface{}{"status": status, "header_bytes": len(req)},
		Sig: fmt.Sprintf("hdr431:over=%v", over), Class: fmt.Sprintf("hdr431:over=%v", over), Nontrivial: over}
}

// ---- the whole listener ----

func c17Dur(ns int64) string {
	if ns == 0 {
		return "none"
	}
	return time.Duration(ns).String()
}

func c17ServerTerm(s *http.Server) string {
	return fmt.Sprintf("{| sv_read := %s; sv_rhdr := %s; sv_write := %s; sv_idle := %s; sv_maxhdr := %s |}",
		cZ(int64(s.ReadTimeout)), cZ(int64(s.ReadHeaderTimeout)), cZ(int64(s.WriteTimeout)), cZ(int64(s.IdleTimeout)), cZ(int64(s.MaxHeaderBytes)))
}

func c17RunListener(in *c17In) Result {
	fail := func(msg string) Result {
		return Result{Term: "(CStatus false 0%Z)", Obs: msg, Class: "listener:setup-error", Sig: "listener:setup-error", Direct: msg}
	}
	dsrv, err := httpserver.NewServer("127.0.0.1:0", []*httpserver.SiteConfig{{TLS: new(caskettls.Config)}})
	if err != nil {
		return fail("default NewServer: " + err.Error())
	}
	var got *http.Server
	if in.Live {
		// Casketfile -> timeouts / limits directives -> site configs grouped by listener -> NewServer
		var sb strings.Builder
		for i, s := range in.Sites {
			fmt.Fprintf(&sb, "http://s%d.test:0 {\n", i)
			allSet := s[0] != 0 && s[2] != 0 && s[4] != 0 && s[6] != 0
			if allSet && s[1] == s[3] && s[3] == s[5] && s[5] == s[7] && i%2 == 0 {
				fmt.Fprintf(&sb, " timeouts %s\n", c17Dur(s[1]))
			} else if s[0] != 0 || s[2] != 0 || s[4] != 0 || s[6] != 0 {
				sb.WriteString(" timeouts {\n")
				for f, name := range []string{"read", "header", "write", "idle"} {
					if s[2*f] != 0 {
						fmt.Fprintf(&sb, "  %s %s\n", name, c17Dur(s[2*f+1]))
					}
				}
				sb.WriteString(" }\n")
			}
			if s[8] != 0 {
				fmt.Fprintf(&sb, " limits {\n  header %d\n }\n", s[8])
			}
			sb.WriteString("}\n")
		}
		stopSite()
		casket.Quiet = true
		inst, err := casket.Start(casket.CasketfileInput{Contents: []byte(sb.String()), Filepath: "Casketfile", ServerTypeName: "http"})
		if err != nil {
			return fail("start: " + err.Error() + "\n" + sb.String())
		}
		srvs := inst.Servers()
		if len(srvs) != 1 {
			inst.Stop()
			return fail(fmt.Sprintf("%d listeners for one port", len(srvs)))
		}
		hs, ok := c17ServerOf(srvs[0])
		inst.Stop()
		if !ok {
			return fail("cannot reach the listener's http.Server")
		}
		got = hs.Server
	} else {
		var group []*httpserver.SiteConfig
		for _, s := range in.Sites {
			c := &httpserver.SiteConfig{TLS: new(caskettls.Config)}
			c.Timeouts.ReadTimeoutSet, c.Timeouts.ReadTimeout = s[0] != 0, time.Duration(s[1])
			c.Timeouts.ReadHeaderTimeoutSet, c.Timeouts.ReadHeaderTimeout = s[2] != 0, time.Duration(s[3])
			c.Timeouts.WriteTimeoutSet, c.Timeouts.WriteTimeout = s[4] != 0, time.Duration(s[5])
			c.Timeouts.IdleTimeoutSet, c.Timeouts.IdleTimeout = s[6] != 0, time.Duration(s[7])
			c.Limits.MaxRequestHeaderSize = s[8]
			group = append(group, c)
		}
		srv, err := httpserver.NewServer("127.0.0.1:0", group)
		if err != nil {
			return fail("NewServer: " + err.Error())
		}
		got = srv.Server
	}
	var sites []string
	mixed, nset := false, 0
	for f := 0; f < 5; f++ {
		z, p := false, false
		for _, s := range in.Sites {
			set, v := true, s[8]
			if f < 4 {
				set, v = s[2*f] != 0, s[2*f+1]
			}
			if set && v == 0 && f < 4 {
				z = true
			}
			if set && v > 0 {
				p = true
				nset++
			}
		}
		if z && p {
			mixed = true
		}
	}
	for _, s := range in.Sites {
		tv := func(i int) string { return cPair(cBool(s[i] != 0), cZ(s[i+1])) }
		sites = append(sites, fmt.Sprintf("{| s_read := %s; s_rhdr := %s; s_write := %s; s_idle := %s; s_maxhdr := %s |}", tv(0), tv(2), tv(4), tv(6), cZ(s[8])))
	}
	path := "built"
	if in.Live {
		path = "live"
	}
	sig := "listener:" + path + ":plain"
	if mixed {
		sig = "listener:" + path + ":explicit-none-with-positive"
	}
	return Result{Term: cApp("CListener", c17ServerTerm(dsrv.Server), cList(sites), c17ServerTerm(got)),
		Obs: map[string]interface{}{"read": got.ReadTimeout.String(), "header": got.ReadHeaderTimeout.String(), "write": got.WriteTimeout.String(), "idle": got.IdleTimeout.String(), "max_header_bytes": got.MaxHeaderBytes},
		Sig: sig, Class: sig, Nontrivial: nset >= 2}
}

var _ = sort.Strings
var _ = strconv.Itoa

// ---- every server object NewServer creates for one listener ----

// (F-C17-7, repaired by /repo a99152d: the class "servers:quic:idle-timeout-not-carried" is no longer special — an
// HTTP/3 server without the sites' idle timeout is judged like any other case of its listener class)

// c17H3Of reads the HTTP/3 server NewServer may have attached to the listener (unexported field quicServer):
// its MaxHeaderBytes and the MaxIdleTimeout of its QUICConfig (0 when there is no QUICConfig).
func c17H3Of(srv *httpserver.Server) (present bool, maxhdr, idle int64, ok bool) {
	v := reflect.ValueOf(srv).Elem().FieldByName("quicServer")
	if !v.IsValid() || v.Kind() != reflect.Ptr {
		return false, 0, 0, false
	}
	if v.IsNil() {
		return false, 0, 0, true
	}
	q := v.Elem()
	mh := q.FieldByName("MaxHeaderBytes")
	qc := q.FieldByName("QUICConfig")
	if !mh.IsValid() || !qc.IsValid() {
		return true, 0, 0, false
	}
	if qc.Kind() == reflect.Ptr && !qc.IsNil() {
		if f := qc.Elem().FieldByName("MaxIdleTimeout"); f.IsValid() {
			idle = f.Int()
		}
	}
	return true, mh.Int(), idle, true
}

func c17RunServers(in *c17In) Result {
	fail := func(msg string) Result {
		return Result{Term: "(CStatus false 0%Z)", Obs: msg, Class: "servers:setup-error", Sig: "servers:setup-error", Direct: msg}
	}
	oldQ, oldH2 := httpserver.QUIC, httpserver.HTTP2
	defer func() { httpserver.QUIC, httpserver.HTTP2 = oldQ, oldH2 }()
	httpserver.QUIC, httpserver.HTTP2 = false, true
	dsrv, err := httpserver.NewServer("127.0.0.1:0", []*httpserver.SiteConfig{{TLS: new(caskettls.Config)}})
	if err != nil {
		return fail("default NewServer: " + err.Error())
	}
	httpserver.QUIC, httpserver.HTTP2 = in.QUIC, !in.H2Off
	var srv *httpserver.Server
	if in.Live {
		c06Setup() // test certificate and key files
		var sb strings.Builder
		for i, s := range in.Sites {
			scheme := "http"
			if in.TLS {
				scheme = "https"
			}
			fmt.Fprintf(&sb, "%s://s%d.test:0 {\n", scheme, i)
			if in.TLS {
				fmt.Fprintf(&sb, " tls %s %s {\n  no_redirect\n }\n", c06Files.cert, c06Files.key)
			}
			if s[0] != 0 || s[2] != 0 || s[4] != 0 || s[6] != 0 {
				sb.WriteString(" timeouts {\n")
				for f, name := range []string{"read", "header", "write", "idle"} {
					if s[2*f] != 0 {
						fmt.Fprintf(&sb, "  %s %s\n", name, c17Dur(s[2*f+1]))
					}
				}
				sb.WriteString(" }\n")
			}
			if s[8] != 0 {
				fmt.Fprintf(&sb, " limits {\n  header %d\n }\n", s[8])
			}
			sb.WriteString("}\n")
		}
		stopSite()
		casket.Quiet = true
		inst, err := casket.Start(casket.CasketfileInput{Contents: []byte(sb.String()), Filepath: "Casketfile", ServerTypeName: "http"})
		if err != nil {
			return fail("start: " + err.Error() + "\n" + sb.String())
		}
		srvs := inst.Servers()
		if len(srvs) != 1 {
			inst.Stop()
			return fail(fmt.Sprintf("%d listeners for one port", len(srvs)))
		}
		hs, ok := c17ServerOf(srvs[0])
		inst.Stop()
		if !ok {
			return fail("cannot reach the listener's http.Server")
		}
		srv = hs
	} else {
		var group []*httpserver.SiteConfig
		for i, s := range in.Sites {
			tc := new(caskettls.Config)
			if in.TLS {
				tc = &caskettls.Config{Hostname: fmt.Sprintf("s%d.test", i), Enabled: true, Manager: certmagic.NewDefault()}
				caskettls.SetDefaultTLSParams(tc)
			}
			c := &httpserver.SiteConfig{TLS: tc}
			c.Timeouts.ReadTimeoutSet, c.Timeouts.ReadTimeout = s[0] != 0, time.Duration(s[1])
			c.Timeouts.ReadHeaderTimeoutSet, c.Timeouts.ReadHeaderTimeout = s[2] != 0, time.Duration(s[3])
			c.Timeouts.WriteTimeoutSet, c.Timeouts.WriteTimeout = s[4] != 0, time.Duration(s[5])
			c.Timeouts.IdleTimeoutSet, c.Timeouts.IdleTimeout = s[6] != 0, time.Duration(s[7])
			c.Limits.MaxRequestHeaderSize = s[8]
			group = append(group, c)
		}
		srv, err = httpserver.NewServer("127.0.0.1:0", group)
		if err != nil {
			return fail("NewServer: " + err.Error())
		}
	}
	got := srv.Server
	present, h3hdr, h3idle, ok := c17H3Of(srv)
	if !ok {
		return fail("cannot read the listener's HTTP/3 server (field quicServer / MaxHeaderBytes / QUICConfig)")
	}
	tlsOn := got.TLSConfig != nil
	var sites []string
	idlePos, hdrSet := false, false
	for _, s := range in.Sites {
		tv := func(i int) string { return cPair(cBool(s[i] != 0), cZ(s[i+1])) }
		sites = append(sites, fmt.Sprintf("{| s_read := %s; s_rhdr := %s; s_write := %s; s_idle := %s; s_maxhdr := %s |}", tv(0), tv(2), tv(4), tv(6), cZ(s[8])))
		if s[6] != 0 && s[7] > 0 {
			idlePos = true
		}
		if s[8] != 0 {
			hdrSet = true
		}
	}
	path := "built"
	if in.Live {
		path = "live"
	}
	oh3 := "None"
	obs := map[string]interface{}{"read": got.ReadTimeout.String(), "header": got.ReadHeaderTimeout.String(), "write": got.WriteTimeout.String(),
		"idle": got.IdleTimeout.String(), "max_header_bytes": got.MaxHeaderBytes, "tls": tlsOn, "http3_server": present}
	sig := fmt.Sprintf("servers:%s:tls=%v:quic=%v", path, in.TLS, present)
	if present {
		oh3 = fmt.Sprintf("(Some (%s, %s))", cZ(h3hdr), cZ(h3idle))
		obs["http3_max_header_bytes"], obs["http3_max_idle_timeout"] = h3hdr, time.Duration(h3idle).String()
	}
	// (a started plain-HTTP server may have been given an empty tls.Config by net/http's HTTP/2 setup in Serve)
	if !in.Live && in.TLS != tlsOn {
		return fail(fmt.Sprintf("TLS sites %v but the listener's TLSConfig present = %v", in.TLS, tlsOn))
	}
	return Result{Term: cApp("CServers", c17ServerTerm(dsrv.Server), cList(sites), cBool(in.TLS), cBool(!in.H2Off), cBool(in.QUIC), c17ServerTerm(got), oh3),
		Obs: obs, Sig: sig, Class: fmt.Sprintf("servers:%s:tls=%v:h2=%v:quic-flag=%v:http3=%v:header-limit-set=%v:idle-positive=%v", path, in.TLS, !in.H2Off, in.QUIC, present, hdrSet, idlePos),
		Nontrivial: present || len(in.Sites) >= 2}
}

// ---- sequences of uploads on one running site whose proxy upstream counts failures ----

func c17SeqSiteText(limit int64) string {
	return fmt.Sprintf("limits {\n body /sq %d\n body /sb %d\n}\n"+
		"proxy /sq %s {\n max_fails 1\n fail_timeout 1h\n}\n"+
		"proxy /sb %s %s {\n try_duration 300ms\n try_interval 20ms\n max_fails 1\n fail_timeout 1h\n}\nstatus 204 /ping\n",
		limit, limit, c17Backends[0].URL, c17Backends[0].URL, c17Backends[1].URL)
}

func c17RunSiteSeq(in *c17In) Result {
	c17SiteSetup()
	fail := func(msg string) Result {
		return Result{Term: "(CStatus false 0%Z)", Obs: msg, Class: "siteseq:setup-error", Sig: "siteseq:setup-error", Direct: msg}
	}
	if in.Consumer < 0 || in.Consumer > 1 {
		return fail("bad consumer")
	}
	if c17Stuck >= 2 {
		r := fail("site case skipped: earlier uploads were never answered")
		r.Sig, r.Class = "site:stuck", "site:stuck"
		return r
	}
	var addr, target string
	var hosts proxy.HostPool
	if in.Live {
		site, err := getSite(c17SeqSiteText(in.Limit))
		if err != nil {
			return fail("site start: " + err.Error())
		}
		addr, target = site.addr, []string{"/sq", "/sb"}[in.Consumer]
	} else {
		cfgL, err := setupDirective("limits", fmt.Sprintf("limits {\n body / %d\n}\n", in.Limit))
		if err != nil {
			return fail("limits: " + err.Error())
		}
		text := fmt.Sprintf("proxy / %s {\n max_fails 1\n fail_timeout 1h\n}\n", c17Backends[0].URL)
		if in.Consumer == 1 {
			text = fmt.Sprintf("proxy / %s %s {\n try_duration 300ms\n try_interval 20ms\n max_fails 1\n fail_timeout 1h\n}\n", c17Backends[0].URL, c17Backends[1].URL)
		}
		ups, err := proxy.NewStaticUpstreams(casketfile.NewDispenser("Testfile", strings.NewReader(text)), "")
		if err != nil || len(ups) != 1 {
			return fail(fmt.Sprint("proxy block rejected: ", err))
		}
		defer ups[0].Stop()
		hosts = hostsOf(ups[0])
		h := compile(cfgL.Middleware(), proxy.Proxy{Next: handlerFunc(func(w http.ResponseWriter, r *http.Request) (int, error) { return 404, nil }), Upstreams: ups})
		srv := httptest.NewServer(http.HandlerFunc(func(w http.ResponseWriter, r *http.Request) {
			if st, _ := h.ServeHTTP(w, r); st >= 400 {
				w.WriteHeader(st)
			}
		}))
		defer srv.Close()
		addr, target = strings.TrimPrefix(srv.URL, "http://"), "/up"
	}
	kind := []string{"proxy", "proxy-buffered"}[in.Consumer]
	var items, pattern []string
	var obs []map[string]interface{}
	direct := ""
	anyOver, afterOver := false, false
	for _, q := range in.Seq {
		chunked, n := q[0] != 0, q[1]
		if n < 0 {
			n = 0
		}
		c17Mu.Lock()
		c17Seq++
		id := fmt.Sprintf("c17s-%d", c17Seq)
		c17Mu.Unlock()
		body := bodyOf(n)
		var sb bytes.Buffer
		fmt.Fprintf(&sb, "POST %s HTTP/1.1\r\nHost: %s\r\nX-Case: %s\r\nConnection: close\r\nContent-Type: application/octet-stream\r\n", target, addr, id)
		if chunked {
			sb.WriteString("Transfer-Encoding: chunked\r\n\r\n")
			step := 1 + n/5
			for i := 0; i < len(body); i += step {
				j := i + step
				if j > len(body) {
					j = len(body)
				}
				fmt.Fprintf(&sb, "%x\r\n", j-i)
				sb.Write(body[i:j])
				sb.WriteString("\r\n")
			}
			sb.WriteString("0\r\n\r\n")
		} else {
			fmt.Fprintf(&sb, "Content-Length: %d\r\n\r\n", len(body))
			sb.Write(body)
		}
		status := -1
		conn, err := net.DialTimeout("tcp", addr, 2*time.Second)
		if err != nil {
			return fail("dial: " + err.Error())
		}
		conn.SetDeadline(time.Now().Add(10 * time.Second))
		go conn.Write(sb.Bytes())
		r1, err := http.ReadResponse(bufio.NewReader(conn), &http.Request{Method: "POST"})
		if ne, ok := err.(net.Error); ok && ne.Timeout() {
			conn.Close()
			c17Stuck++
			r := fail("upload was not answered within 10s")
			r.Sig, r.Class = "site:stuck", "site:stuck"
			return r
		}
		if err == nil {
			io.Copy(io.Discard, r1.Body)
			r1.Body.Close()
			status = r1.StatusCode
		}
		conn.Close()
		over := int64(n) > in.Limit
		backend, prefix := int64(-1), true
		wait := 2 * time.Second
		if status == 502 || in.Consumer == 1 && over && (status == 413 || status == 400) {
			wait = 40 * time.Millisecond // nobody was contacted
		}
		for deadline := time.Now().Add(wait); ; time.Sleep(2 * time.Millisecond) {
			c17Mu.Lock()
			rec, ok := c17Seen[id]
			delete(c17Seen, id)
			c17Mu.Unlock()
			if ok {
				backend, prefix = int64(rec.n), rec.prefix
				break
			}
			if time.Now().After(deadline) {
				break
			}
		}
		fails := int64(-1)
		if hosts != nil {
			fails = 0
			for _, h := range hosts {
				fails += int64(atomic.LoadInt32(&h.Fails))
			}
		}
		if over {
			anyOver = true
			pattern = append(pattern, "over")
		} else {
			if anyOver {
				afterOver = true
			}
			pattern = append(pattern, "within")
		}
		items = append(items, fmt.Sprintf("(%s, %s, (%s, %s, %s, %s))", cBool(chunked), cNat(n), cZ(int64(status)), cZ(backend), cBool(prefix), cZ(fails)))
		obs = append(obs, map[string]interface{}{"chunked": chunked, "bodylen": n, "status": status, "backend_received": backend, "backend_prefix_ok": prefix, "upstream_fails_after": fails})
	}
	mode := "built"
	if in.Live {
		mode = "live"
	}
	sig := fmt.Sprintf("siteseq:%s:%s", kind, mode)
	return Result{Term: cApp("CSiteSeq", cN(uint64(in.Consumer)), cZ(in.Limit), cList(items)), Obs: obs, Direct: direct,
		Sig: sig, Class: fmt.Sprintf("%s:within-after-over=%v", sig, afterOver), Nontrivial: afterOver}
}

// c17ServerOf reaches the *httpserver.Server behind a started listener (casket.ServerListener
// keeps it in an unexported field and offers no accessor).
func c17ServerOf(sl casket.ServerListener) (*httpserver.Server, bool) {
	v := reflect.ValueOf(&sl).Elem().FieldByName("server")
	if !v.IsValid() {
		return nil, false
	}
	v = reflect.NewAt(v.Type(), unsafe.Pointer(v.UnsafeAddr())).Elem()
	hs, ok := v.Interface().(*httpserver.Server)
	return hs, ok
}
