package main

// C03, part 2: (a) server blocks with several addresses — the same request sent to every address
// of the block, each answer judged like a single site's; (b) htpasswd-file rules: the matcher
// GetHtpasswdMatcher hands out, directly, and request SEQUENCES on a running site (logins, other
// users' passwords, file replacements + restarts).

import (
	"crypto/md5"
	"crypto/sha1"
	"encoding/base64"
	"fmt"
	"io"
	"log"
	"net"
	"os"
	"path/filepath"
	"regexp"
	"sort"
	"strings"
	"time"

	"github.com/tmpim/casket"
	"github.com/tmpim/casket/caskethttp/basicauth"
)

// ------------------------------------------------------------------ blocks

type c03Endpoint struct{ addr, host string }

var c03BlockCache struct {
	inst *casket.Instance
	text string
	eps  []c03Endpoint
}

func c03FreePorts(n int) ([]int, error) {
	var ls []net.Listener
	var ports []int
	for i := 0; i < n; i++ {
		ln, err := net.Listen("tcp", "127.0.0.1:0")
		if err != nil {
			return nil, err
		}
		ls = append(ls, ln)
		ports = append(ports, ln.Addr().(*net.TCPAddr).Port)
	}
	for _, ln := range ls {
		ln.Close()
	}
	return ports, nil
}

var c03HostNames = []string{"first.example", "second.example", "third.example"}

// c03GetBlock starts (or reuses) ONE server block with n addresses:
// layout "hosts": n host names on one port; "ports": 127.0.0.1 on n ports; "mixed": n host names, each its own port
func c03GetBlock(layout string, n int, body string) ([]c03Endpoint, error) {
	key := fmt.Sprintf("%s|%d|%s", layout, n, body)
	if c03BlockCache.inst != nil && c03BlockCache.text == key {
		return c03BlockCache.eps, nil
	}
	c03StopBlock()
	if n < 2 || n > len(c03HostNames) {
		return nil, fmt.Errorf("block of %d addresses", n)
	}
	casket.Quiet = true
	var lastErr error
	for try := 0; try < 4; try++ {
		np := n
		if layout == "hosts" {
			np = 1
		}
		ports, err := c03FreePorts(np)
		if err != nil {
			return nil, err
		}
		var keys []string
		var eps []c03Endpoint
		for j := 0; j < n; j++ {
			switch layout {
			case "hosts":
				keys = append(keys, fmt.Sprintf("http://%s:%d", c03HostNames[j], ports[0]))
				eps = append(eps, c03Endpoint{fmt.Sprintf("127.0.0.1:%d", ports[0]), fmt.Sprintf("%s:%d", c03HostNames[j], ports[0])})
			case "ports":
				keys = append(keys, fmt.Sprintf("127.0.0.1:%d", ports[j]))
				eps = append(eps, c03Endpoint{fmt.Sprintf("127.0.0.1:%d", ports[j]), fmt.Sprintf("127.0.0.1:%d", ports[j])})
			case "mixed":
				keys = append(keys, fmt.Sprintf("http://%s:%d", c03HostNames[j], ports[j]))
				eps = append(eps, c03Endpoint{fmt.Sprintf("127.0.0.1:%d", ports[j]), fmt.Sprintf("%s:%d", c03HostNames[j], ports[j])})
			default:
				return nil, fmt.Errorf("unknown layout %q", layout)
			}
		}
		text := strings.Join(keys, ", ") + " {\nbind 127.0.0.1\n" + body + "\n}\n"
		inst, err := casket.Start(casket.CasketfileInput{Contents: []byte(text), Filepath: "Casketfile", ServerTypeName: "http"})
		if err != nil {
			lastErr = err
			if strings.Contains(err.Error(), "address already in use") {
				continue
			}
			return nil, err
		}
		c03BlockCache.inst, c03BlockCache.text, c03BlockCache.eps = inst, key, eps
		return eps, nil
	}
	return nil, lastErr
}

func c03StopBlock() {
	if c03BlockCache.inst != nil {
		c03BlockCache.inst.Stop()
		c03BlockCache.inst = nil
	}
}

// the server-block body of a site/hide/serve case
func c03Body(in *c03In) (string, bool) {
	prot, ok := c03Prots[in.Prot]
	if !ok {
		return "", false
	}
	root := c03Fixture()
	body := "root " + root + "\n" + prot.text + "\n"
	for _, e := range in.Extras {
		body += strings.ReplaceAll(e, "BACKEND", c03Backend.URL) + "\n"
	}
	return body, true
}

// c03Where: the address the case's request goes to — the address of the block it is a part of,
// or a single-address site started for it
func c03Where(in *c03In, body string) (string, error) {
	if in.ep != nil {
		return in.ep.addr, nil
	}
	st, err := getSite(body)
	if err != nil {
		return "", err
	}
	return st.addr, nil
}

func c03RunBlock(in *c03In) Result {
	sub := *in
	sub.Kind, sub.Sub, sub.Layout, sub.NAddr = in.Sub, "", "", 0
	if sub.Kind != "site" && sub.Kind != "hide" && sub.Kind != "serve" {
		return Result{Term: "(CSite false false)", Obs: "unknown sub kind", Class: "block:skipped", Sig: "block:skipped"}
	}
	body, ok := c03Body(&sub)
	if !ok {
		return Result{Term: "(CSite false false)", Obs: "unknown prot", Class: "block:skipped", Sig: "block:skipped"}
	}
	if sub.Kind != "site" {
		// the hide/serve cases write their body this way
		body = "root " + c03Fixture() + "\n" + c03Prots[in.Prot].text + "\n" + strings.Join(in.Extras, "\n") + "\n"
	}
	eps, err := c03GetBlock(in.Layout, in.NAddr, body)
	if err != nil {
		return Result{Term: "(CSite false false)", Obs: "start error: " + err.Error(), Class: "block:start-error", Sig: "block:start-error"}
	}
	var terms, sigs []string
	var obs []interface{}
	res := Result{}
	for j := range eps {
		s := sub
		s.ep = &eps[j]
		r := c03Run(&s)
		terms = append(terms, r.Term)
		sigs = append(sigs, r.Sig)
		obs = append(obs, map[string]interface{}{"address": eps[j].host, "obs": r.Obs, "sig": r.Sig})
		if res.Direct == "" && r.Direct != "" {
			res.Direct = fmt.Sprintf("address %d (%s): %s", j, eps[j].host, r.Direct)
		}
		res.Nontrivial = res.Nontrivial || r.Nontrivial
		if j == 0 {
			res.Class = fmt.Sprintf("block:%s%d:%s", in.Layout, in.NAddr, r.Class)
		}
	}
	// the class of the case: the first address that discloses names it; a disclosure the first
	// address does not show is a class of its own (protection differs between the addresses)
	sig := sigs[0]
	for j, s := range sigs {
		if strings.Contains(s, ":disclosure") {
			sig = s
			if j > 0 && !strings.Contains(sigs[0], ":disclosure") {
				sig = "block:only-on-later-address:" + s
			}
			break
		}
	}
	res.Term = cApp("CBlock", cNat(len(eps)), cList(terms))
	res.Obs = obs
	res.Sig = sig
	res.Key = fmt.Sprintf("block|%s|%d|%s|%s%s%s%s%s%s", in.Layout, in.NAddr, body, in.Method, in.Target, in.Creds, in.AE, in.XReq, in.Accept)
	return res
}

// ------------------------------------------------------------------ htpasswd

// Apache's MD5 scheme ($apr1$), written from the algorithm's description (not casket's dependency)
func c03Apr1(pw, salt string) string {
	const magic = "$apr1$"
	p, s := []byte(pw), []byte(salt)
	alt := md5.Sum(append(append(append([]byte{}, p...), s...), p...))
	ctx := md5.New()
	ctx.Write(p)
	ctx.Write([]byte(magic))
	ctx.Write(s)
	for i := len(p); i > 0; i -= 16 {
		if i > 16 {
			ctx.Write(alt[:])
		} else {
			ctx.Write(alt[:i])
		}
	}
	for i := len(p); i > 0; i >>= 1 {
		if i&1 == 1 {
			ctx.Write([]byte{0})
		} else {
			ctx.Write(p[:1])
		}
	}
	fin := ctx.Sum(nil)
	for i := 0; i < 1000; i++ {
		c := md5.New()
		if i&1 == 1 {
			c.Write(p)
		} else {
			c.Write(fin)
		}
		if i%3 != 0 {
			c.Write(s)
		}
		if i%7 != 0 {
			c.Write(p)
		}
		if i&1 == 1 {
			c.Write(fin)
		} else {
			c.Write(p)
		}
		fin = c.Sum(nil)
	}
	const tab = "./0123456789ABCDEFGHIJKLMNOPQRSTUVWXYZabcdefghijklmnopqrstuvwxyz"
	var out []byte
	to64 := func(v uint, n int) {
		for ; n > 0; n-- {
			out = append(out, tab[v&0x3f])
			v >>= 6
		}
	}
	to64(uint(fin[0])<<16|uint(fin[6])<<8|uint(fin[12]), 4)
	to64(uint(fin[1])<<16|uint(fin[7])<<8|uint(fin[13]), 4)
	to64(uint(fin[2])<<16|uint(fin[8])<<8|uint(fin[14]), 4)
	to64(uint(fin[3])<<16|uint(fin[9])<<8|uint(fin[15]), 4)
	to64(uint(fin[4])<<16|uint(fin[10])<<8|uint(fin[5]), 4)
	to64(uint(fin[11]), 2)
	return string(out)
}

func c03Sha(pw string) string {
	h := sha1.Sum([]byte(pw))
	return base64.StdEncoding.EncodeToString(h[:])
}

func init() {
	// openssl passwd -apr1 -salt abcdefgh secret1
	if got := c03Apr1("secret1", "abcdefgh"); got != "paCto.rW8wn6thJ8b0QQY." {
		panic("c03Apr1 self-test: " + got)
	}
}

var c03SaltRe = regexp.MustCompile(`\$apr1\$([^$\s]*)\$`)

// the hash table handed to the Coq model: (salt | "{SHA}", password) -> digest text, for every salt
// occurring in the texts and every password presented
func c03HashTable(texts, pws []string) string {
	salts := map[string]bool{}
	for _, t := range texts {
		for _, m := range c03SaltRe.FindAllStringSubmatch(t, -1) {
			salts[m[1]] = true
		}
	}
	var ss []string
	for s := range salts {
		ss = append(ss, s)
	}
	sort.Strings(ss)
	pws = dedupe(pws)
	var out []string
	for _, pw := range pws {
		out = append(out, "("+cStr("{SHA}")+", "+cStr(pw)+", "+cStr(c03Sha(pw))+")")
		for _, s := range ss {
			out = append(out, "("+cStr(s)+", "+cStr(pw)+", "+cStr(c03Apr1(pw, s))+")")
		}
	}
	return cList(out)
}

// modification times handed to htpasswd files: strictly increasing over the process, so that a
// rewritten file never carries a stamp it had before
var c03Stamp int64

func c03WriteStamped(path, text string) (int64, error) {
	if err := os.MkdirAll(filepath.Dir(path), 0o755); err != nil {
		return 0, err
	}
	if err := os.WriteFile(path, []byte(text), 0o644); err != nil {
		return 0, err
	}
	c03Stamp++
	t := time.Unix(1000000000+c03Stamp, 0)
	if err := os.Chtimes(path, t, t); err != nil {
		return 0, err
	}
	// what the cache compares: (modification time, size)
	return c03Stamp*1000000 + int64(len(text)), nil
}

var c03SeqDir string

func c03SeqFixture() string {
	if c03SeqDir != "" {
		return c03SeqDir
	}
	base := os.Getenv("VERIF_ROOT")
	if base == "" {
		base = os.TempDir()
	}
	dir, err := os.MkdirTemp(filepath.Join(base, "run"), "c03seq")
	if err != nil {
		panic(err)
	}
	files := map[string]string{"www/index.html": "<html>public</html>", "www/pub/open.txt": "open to all"}
	for res, tok := range c03SeqTokens {
		files["www"+res] = tok
	}
	writeFixture(dir, files)
	os.MkdirAll(filepath.Join(dir, "htp"), 0o755)
	c03SeqDir = dir
	return dir
}

var c03SeqTokens = map[string]string{
	"/area/alice/report.txt":  "SEQTOKALICEq1z",
	"/area/bob/report.txt":    "SEQTOKBOBq2z",
	"/area/carol/report.txt":  "SEQTOKCAROLq3z",
	"/area/shared/notes.txt":  "SEQTOKSHAREDq4z",
	"/area/alice/deep/x.txt":  "SEQTOKADEEPq5z",
}

type c03SeqRule struct {
	Res  []string `json:"res"`
	Excl []string `json:"excl,omitempty"`
	User string   `json:"user"`
	Pw   string   `json:"pw,omitempty"`   // password in the Casketfile
	File string   `json:"file,omitempty"` // or htpasswd=../htp/<file>
}
type c03SeqFile struct {
	Text  string              `json:"text"`
	Truth map[string][]string `json:"truth"` // generator's knowledge: user -> the passwords this text gives him
	Bad   bool                `json:"bad,omitempty"` // generator's knowledge: a site using it cannot be set up
}
type c03SeqStep struct {
	Op     string      `json:"op"` // req | write | reload
	User   string      `json:"user,omitempty"`
	Pw     string      `json:"pw,omitempty"`
	NoAuth bool        `json:"noauth,omitempty"`
	Target string      `json:"target,omitempty"`
	Method string      `json:"method,omitempty"`
	File   string      `json:"file,omitempty"`
	New    *c03SeqFile `json:"new,omitempty"`
}

func c03SeqName(f string) string { return "../htp/" + f }

func c03CfgRuleTerm(ru c03SeqRule) string {
	src := cApp("PwPlain", cStr(ru.Pw))
	if ru.File != "" {
		src = cApp("PwFile", cStr(c03SeqName(ru.File)))
	}
	return fmt.Sprintf("{| cr_resources := %s; cr_exclude := %s; cr_user := %s; cr_pw := %s |}", cStrList(ru.Res), cStrList(ru.Excl), cStr(ru.User), src)
}

func c03RunSeq(in *c03In) Result {
	dir := c03SeqFixture()
	log.SetOutput(io.Discard)
	fail := func(msg string) Result {
		return Result{Term: "(CSite false false)", Obs: msg, Class: "seq:skipped", Sig: "seq:skipped"}
	}
	// the files as they are at the start
	var names []string
	for f := range in.Files {
		names = append(names, f)
	}
	sort.Strings(names)
	disk := map[string]c03SeqFile{}
	var disk0 []string
	var texts []string
	for _, f := range names {
		sf := in.Files[f]
		stamp, err := c03WriteStamped(filepath.Join(dir, "htp", f), sf.Text)
		if err != nil {
			return fail("write: " + err.Error())
		}
		disk[f] = sf
		texts = append(texts, sf.Text)
		disk0 = append(disk0, cPair(cStr(c03SeqName(f)), fmt.Sprintf("{| df_stamp := %s; df_text := %s |}", cN(uint64(stamp)), cStr(sf.Text))))
	}
	body := "root " + filepath.Join(dir, "www") + "\n"
	var rterms []string
	for _, ru := range in.SeqRules {
		pw := ru.Pw
		if ru.File != "" {
			pw = "htpasswd=" + c03SeqName(ru.File)
		}
		body += "basicauth " + ru.User + " " + pw + " {\n"
		for _, r := range ru.Res {
			body += " " + r + "\n"
		}
		for _, e := range ru.Excl {
			body += " exclude " + e + "\n"
		}
		body += "}\n"
		rterms = append(rterms, c03CfgRuleTerm(ru))
	}
	for _, e := range in.Extras {
		body += e + "\n"
	}
	casket.Quiet = true
	input := casket.CasketfileInput{Contents: []byte("127.0.0.1:0 {\n" + body + "\n}\n"), Filepath: "Casketfile", ServerTypeName: "http"}
	inst, err := casket.Start(input)
	if err != nil {
		return fail("start error: " + err.Error())
	}
	defer func() { inst.Stop() }()
	srvs := inst.Servers()
	if len(srvs) == 0 {
		return fail("no servers")
	}
	_, port, _ := net.SplitHostPort(srvs[0].Addr().String())
	addr := "127.0.0.1:" + port
	loaded := map[string]c03SeqFile{}
	for f, sf := range disk {
		loaded[f] = sf
	}
	var steps []string
	var obs []interface{}
	var pws []string
	direct, sig := "", "seq"
	nreq, n401 := 0, 0
	for k, st := range in.Steps {
		switch st.Op {
		case "write":
			if st.New == nil {
				continue
			}
			stamp, err := c03WriteStamped(filepath.Join(dir, "htp", st.File), st.New.Text)
			if err != nil {
				return fail("write: " + err.Error())
			}
			disk[st.File] = *st.New
			texts = append(texts, st.New.Text)
			steps = append(steps, cApp("QWrite", cStr(c03SeqName(st.File)), fmt.Sprintf("{| df_stamp := %s; df_text := %s |}", cN(uint64(stamp)), cStr(st.New.Text))))
			obs = append(obs, map[string]interface{}{"step": k, "write": st.File})
		case "reload":
			usable := true
			for _, ru := range in.SeqRules {
				if ru.File != "" && (disk[ru.File].Bad || disk[ru.File].Truth[ru.User] == nil) {
					usable = false
				}
			}
			ni, err := inst.Restart(input)
			if err == nil {
				inst = ni
				for f, sf := range disk {
					loaded[f] = sf
				}
			}
			if (err == nil) != usable && direct == "" {
				direct = fmt.Sprintf("step %d: restart error=%v, but the generator wrote files that can be loaded=%v", k, err, usable)
			}
			steps = append(steps, "QReload")
			obs = append(obs, map[string]interface{}{"step": k, "reload_error": fmt.Sprint(err)})
		case "req":
			hdr := map[string]string{}
			auth := "None"
			if !st.NoAuth {
				hdr["Authorization"] = "Basic " + base64.StdEncoding.EncodeToString([]byte(st.User+":"+st.Pw))
				auth = fmt.Sprintf("(Some {| c_user := %s; c_pw := %s |})", cStr(st.User), cStr(st.Pw))
				pws = append(pws, st.Pw)
			}
			method := st.Method
			if method == "" {
				method = "GET"
			}
			resp := doRaw(addr, method, st.Target, hdr, nil)
			views := decodedViews(resp.Body)
			var leaked []string
			for res, tok := range c03SeqTokens {
				if containsAny(views, tok) {
					leaked = append(leaked, res)
				}
			}
			sort.Strings(leaked)
			// the generator's knowledge: is this the rule's user with one of his current passwords
			var truth []string
			entitled, protected := false, false
			for _, ru := range in.SeqRules {
				ok := false
				if !st.NoAuth && st.User == ru.User {
					if ru.File == "" {
						ok = st.Pw == ru.Pw
					} else {
						for _, p := range loaded[ru.File].Truth[ru.User] {
							ok = ok || p == st.Pw
						}
					}
				}
				truth = append(truth, cBool(ok))
				covers := false
				for _, r := range ru.Res {
					covers = covers || c03Under(st.Target, r)
				}
				for _, e := range ru.Excl {
					if c03Under(st.Target, e) {
						covers = false
					}
				}
				protected = protected || covers
				entitled = entitled || (covers && ok)
			}
			nreq++
			if resp.Status == 401 {
				n401++
			}
			if method != "OPTIONS" && protected && !entitled && (resp.Status != 401 || len(leaked) > 0) && sig == "seq" {
				sig = "seq:disclosure:credentials-of-another-request-accepted"
			}
			own := ""
			if _, planted := c03SeqTokens[st.Target]; planted {
				own = st.Target
			}
			steps = append(steps, cApp("QReq", cBool(method == "OPTIONS"), cStr(st.Target), auth, cList(truth), cStr(own), cN(uint64(resp.Status)), cStrList(leaked)))
			obs = append(obs, map[string]interface{}{"step": k, "user": st.User, "pw": st.Pw, "noauth": st.NoAuth, "target": st.Target, "status": resp.Status, "leaked": leaked})
		}
	}
	var allTexts []string
	allTexts = append(allTexts, texts...)
	return Result{Term: cApp("CSeq", "false", cList(rterms), c03HashTable(allTexts, pws), cList(disk0), cList(steps)),
		Obs: obs, Sig: sig, Direct: direct, Nontrivial: n401 > 0 && n401 < nreq,
		Class: fmt.Sprintf("seq:%d-rules:%d-files", len(in.SeqRules), len(in.Files))}
}

var c03HtN int

// c03RunHtMatch: GetHtpasswdMatcher on a file with the given text
func c03RunHtMatch(in *c03In) Result {
	dir := c03SeqFixture()
	name := "direct"
	if _, err := c03WriteStamped(filepath.Join(dir, "htp", name), in.Text); err != nil {
		return Result{Term: "(CSite false false)", Obs: "write: " + err.Error(), Class: "htmatch:skipped", Sig: "htmatch:skipped"}
	}
	bits := func(bs []bool) string {
		var xs []string
		for _, b := range bs {
			xs = append(xs, cBool(b))
		}
		return "(Some " + cList(xs) + ")"
	}
	m, err := basicauth.GetHtpasswdMatcher(c03SeqName(name), in.User, filepath.Join(dir, "www"))
	obsT := "None"
	var got []bool
	if err == nil {
		for _, pw := range in.Pws {
			got = append(got, m(pw))
		}
		obsT = bits(got)
	}
	truthT := "None"
	if in.TruthBits != nil {
		truthT = bits(*in.TruthBits)
	}
	any := false
	for _, b := range got {
		any = any || b
	}
	return Result{Term: cApp("CHtMatch", cStr(in.Text), cStr(in.User), c03HashTable([]string{in.Text}, in.Pws), cStrList(in.Pws), truthT, obsT),
		Obs: map[string]interface{}{"error": fmt.Sprint(err), "accepts": got}, Sig: "htmatch", Nontrivial: any,
		Class: fmt.Sprintf("htmatch:loaded=%v:accepts=%v", err == nil, any)}
}

// ------------------------------------------------------------------ generators

type c03Entry struct{ user, kind, pw string }

func c03EntryLine(r *Rand, e c03Entry) string {
	switch e.kind {
	case "sha":
		return e.user + ":{SHA}" + c03Sha(e.pw)
	case "apr1":
		salt := r.Pick([]string{"abcdefgh", "Zx9.q/Tk", "s", "salt2"})
		return e.user + ":$apr1$" + salt + "$" + c03Apr1(e.pw, salt)
	case "tagged":
		return e.user + ":{PLAIN}" + e.pw
	}
	return e.user + ":" + e.pw
}

// what a plain or tagged entry accepts besides the password itself
func c03Accepted(e c03Entry) []string {
	switch e.kind {
	case "tagged":
		return []string{e.pw, "{PLAIN}" + e.pw} // the line's text is "{PLAIN}pw": accepted as written, and pw by the nginx rule
	case "plain":
		if strings.HasPrefix(e.pw, "{PLAIN}") {
			return []string{e.pw, e.pw[len("{PLAIN}"):]}
		}
	}
	return []string{e.pw}
}

// c03HtFile writes a loadable htpasswd text for the entries (file order = list order; a user's
// LAST line counts), with the noise real files have
func c03HtFile(r *Rand, es []c03Entry) c03SeqFile {
	var lines []string
	truth := map[string][]string{}
	for _, e := range es {
		if r.Chance(20) {
			lines = append(lines, r.Pick([]string{"", "# users", "   ", "\t# " + e.user + ":old", "#" + e.user + ":disabled"}))
		}
		if r.Chance(12) {
			// an earlier line of the same user, overridden by the later one
			lines = append(lines, e.user+":"+r.Pick([]string{"formerpw", "{SHA}" + c03Sha("formerpw")}))
		}
		l := c03EntryLine(r, e)
		switch r.Intn(8) {
		case 0:
			l = "  " + l
		case 1:
			l = l + " \t"
		case 2:
			l = l + "\r"
		}
		lines = append(lines, l)
		truth[e.user] = c03Accepted(e)
	}
	text := strings.Join(lines, "\n")
	if r.Chance(70) {
		text += "\n"
	}
	return c03SeqFile{Text: text, Truth: truth}
}

var c03PwPool = []string{"pwA1x", "correct horse", "Zq:7;semi", "pw#4", "tr0ub4dor", "x", "päss", "{PLAIN}odd"}
var c03Kinds = []string{"plain", "sha", "apr1", "tagged", "sha", "apr1"}

func c03GenState(r *Rand, tier string) []interface{} {
	var out []interface{}
	nB, nQ, nT := 45, 22, 250
	if tier == "thorough" {
		nB, nQ, nT = 450, 220, 3000
	}
	// ---- server blocks: every protection configuration x layouts, the request sent to every address
	layouts := []string{"hosts", "hosts", "ports", "mixed"}
	browses := []string{"browse / {\n servearchive zip tar\n}", "browse / {\n servearchive zip tar\n}", "browse /", "browse /arc {\n servearchive zip\n}", "browse /secret {\n servearchive tar\n}"}
	neutral := []string{"gzip", "header / X-Test 1", "mime .txt text/plain", "errors", "index index.html h.txt", "index nothing.html"}
	hideProts := []string{"internal", "auth-int", "int-index", "int-file", "int-deep", "int-two", "int-gz"}
	hideTargets := []string{"/", "/?archive=zip", "/?archive=tar", "/int/", "/arc/", "/arc/?archive=zip", "/arc/priv/", "/secret/", "/secret/?archive=tar",
		"/secret/pub/", "/secret/pub/deep/?archive=tar", "/secret/pub/deep/x/", "/pub/"}
	serveProts := []string{"internal", "int-index", "int-file", "int-gz", "int-two", "int-deep"}
	serveTargets := []string{"/int/", "/int/h.txt", "/int/index.html", "/int", "/", "/secret/f.txt", "/secret/", "/secret/f.txt.gz", "/arc/priv/p.txt",
		"/arc/priv/", "/pub/a.txt", "/secret/pub/deep/x/y.txt", "/nothing"}
	siteProts := []string{"auth-dir", "auth-dir-ex", "auth-slash", "internal", "auth-two", "auth-nest3", "auth-overlap", "auth-int", "auth-gz", "int-two", "int-deep"}
	siteExtras := []string{"rewrite /alias /secret/f.txt", "rewrite /ialias /int/h.txt", "rewrite {\n regexp ^/strip/(.*)$\n to /{1}\n}", "tryfiles {path} {path}.txt /pub/a.txt",
		"ext .txt .html", "index index.html h.txt", "gzip", "browse / {\n servearchive zip tar\n}", "browse /", "templates", "markdown /", "header / X-Test 1"}
	siteTargets := []string{"/secret/f.txt", "/secret/", "/secret/index.html", "/secret/sub/g.md", "/secret/pub/open.txt", "/alias", "/ialias", "/strip/secret/f.txt", "/strip/int/h.txt",
		"/", "/?archive=zip", "/?archive=tar", "/secret/?archive=zip", "/arc/?archive=tar", "/arc/priv/p.txt", "/secret/pub/deep/d.txt", "/secret/pub/deep/x/y.txt",
		"/int/h.txt", "/int/", "/INT/h.txt", "/int/?archive=tar", "/secret/f", "/SECRET/f.txt", "/pub/../secret/f.txt", "//secret/f.txt"}
	for i := 0; i < nB; i++ {
		layout := r.Pick(layouts)
		n := r.Range(2, 3)
		switch r.Intn(3) {
		case 0: // internal x browse: listings and archives
			prot := r.Pick(hideProts)
			ex := []string{r.Pick(browses)}
			for _, e := range neutral {
				if r.Chance(20) {
					ex = append(ex, e)
				}
			}
			ex = c03OneIndex(ex)
			for k := 0; k < 8; k++ {
				out = append(out, &c03In{Kind: "block", Sub: "hide", Layout: layout, NAddr: n, Prot: prot, Extras: ex, Target: r.Pick(hideTargets), Method: "GET",
					Creds: r.Pick([]string{"none", "none", "right", "wrong"}), Accept: r.Pick([]string{"", "json"})})
			}
		case 1: // internal x the static file server: index and sibling lookups
			prot := r.Pick(serveProts)
			var ex []string
			for _, e := range neutral {
				if r.Chance(25) {
					ex = append(ex, e)
				}
			}
			ex = c03OneIndex(ex)
			for k := 0; k < 8; k++ {
				out = append(out, &c03In{Kind: "block", Sub: "serve", Layout: layout, NAddr: n, Prot: prot, Extras: ex, Target: r.Pick(serveTargets), Method: "GET", Creds: "none",
					AE: r.Pick([]string{"", "gzip", "gzip, br", "zstd"})})
			}
		default: // basicauth / internal x content directives: planted tokens
			prot := r.Pick(siteProts)
			var ex []string
			for _, e := range siteExtras {
				if r.Chance(25) {
					ex = append(ex, e)
				}
			}
			ex = c03OneIndex(c03FilterBrowse(ex))
			for k := 0; k < 8; k++ {
				out = append(out, &c03In{Kind: "block", Sub: "site", Layout: layout, NAddr: n, Prot: prot, Extras: ex, Target: r.Pick(siteTargets),
					Method: r.Pick([]string{"GET", "GET", "GET", "HEAD", "POST", "OPTIONS"}), Creds: r.Pick([]string{"none", "none", "wrong", "right", "right1"}),
					AE: r.Pick([]string{"", "gzip"})})
			}
		}
	}
	// ---- GetHtpasswdMatcher alone: loadable files and a malformed stream
	users := []string{"alice", "bob", "carol"}
	badLines := []string{"nocolonhere", ":startswithcolon", "dave:$2y$05$abcdefghijklmnopqrstuu5s2v8.iXieOjg/.AySBTTZIIVFJeBui", "dave:$apr1$nosecondsep",
		"dave:{SHA}tooshort", "dave:{SHA}!!!!!!!!!!!!!!!!!!!!!!!!!!!=", "dave:{SHA}" + base64.StdEncoding.EncodeToString([]byte("nineteen bytes long")) }
	oddLines := []string{"erin:", "frank:a:b:c", "alice :spaced", "# alice:commented", "   #bob:commented", "grace:$apr1$$emptysalt", "alice:{PLAIN}", "heidi:$2a$notrejected", "ivan:{sha}lowercase"}
	for i := 0; i < nT; i++ {
		var es []c03Entry
		for _, j := range r.Perm(3)[:r.Range(1, 3)] {
			es = append(es, c03Entry{users[j], r.Pick(c03Kinds), r.Pick(c03PwPool)})
		}
		f := c03HtFile(r, es)
		lines := strings.Split(f.Text, "\n")
		bad := false
		for k := r.Intn(3); k > 0 && r.Chance(60); k-- {
			l := r.Pick(oddLines)
			if r.Chance(25) {
				l = r.Pick(badLines)
				bad = true
			}
			at := r.Intn(len(lines) + 1)
			lines = append(lines[:at], append([]string{l}, lines[at:]...)...)
			// an odd line may name one of the users: what the generator knows is recomputed below
		}
		text := strings.Join(lines, "\n")
		user := r.Pick(append(users, "alice", "erin", "frank", "alice ", "dave", "grace", "heidi"))
		pws := []string{"", "nope"}
		for k := 0; k < 4; k++ {
			pws = append(pws, r.Pick(c03PwPool))
		}
		pws = append(pws, "a:b:c", "b:c", "{PLAIN}", "spaced", "formerpw", "$2a$notrejected", "{sha}lowercase", "emptysalt")
		for _, e := range es {
			if e.user == user {
				pws = append(pws, e.pw, "{PLAIN}"+e.pw, e.pw+"!")
			}
		}
		pws = dedupe(pws)
		in := &c03In{Kind: "htmatch", Text: text, User: user, Pws: pws}
		if !bad {
			acc, found := c03Truth(text, user)
			if found {
				var tb []bool
				for _, pw := range pws {
					ok := false
					for _, a := range acc {
						ok = ok || a == pw
					}
					tb = append(tb, ok)
				}
				in.TruthBits = &tb
			}
		}
		out = append(out, in)
	}
	// ---- request sequences on a running site with htpasswd-file rules
	for i := 0; i < nQ; i++ {
		out = append(out, c03GenSeq(r))
	}
	return out
}

// c03Truth: what the GENERATOR knows about a text it assembled from its own line forms: the
// passwords the user's last line stands for (hashed lines are recognised by looking the digest up
// among the pool's digests), found=false when no line names the user
func c03Truth(text, user string) ([]string, bool) {
	var acc []string
	found := false
	for _, l := range strings.Split(text, "\n") {
		l = strings.TrimSpace(l)
		if l == "" || l[0] == '#' {
			continue
		}
		i := strings.IndexByte(l, ':')
		if i <= 0 || l[:i] != user {
			continue
		}
		found = true
		enc := l[i+1:]
		acc = nil
		switch {
		case strings.HasPrefix(enc, "{SHA}"):
			for _, p := range append(c03PwPool, "formerpw") {
				if "{SHA}"+c03Sha(p) == enc {
					acc = append(acc, p)
				}
			}
		case strings.HasPrefix(enc, "$apr1$"):
			parts := strings.SplitN(enc[len("$apr1$"):], "$", 2)
			for _, p := range append(c03PwPool, "formerpw", "emptysalt") {
				if len(parts) == 2 && c03Apr1(p, parts[0]) == parts[1] {
					acc = append(acc, p)
				}
			}
		default:
			acc = []string{enc}
			if strings.HasPrefix(enc, "{PLAIN}") {
				acc = append(acc, enc[len("{PLAIN}"):])
			}
		}
	}
	return acc, found
}

func c03GenSeq(r *Rand) *c03In {
	users := []string{"alice", "bob", "carol"}
	nu := r.Range(2, 3)
	users = users[:nu]
	area := map[string]string{"alice": "/area/alice", "bob": "/area/bob", "carol": "/area/carol"}
	doc := map[string]string{"alice": "/area/alice/report.txt", "bob": "/area/bob/report.txt", "carol": "/area/carol/report.txt"}
	// distinct current passwords
	perm := r.Perm(len(c03PwPool))
	pw := map[string]string{}
	for k, u := range users {
		pw[u] = c03PwPool[perm[k]]
	}
	// which file each user's rule reads: all in f0, or the last user in f1 (f1 may also carry an
	// entry for the first user with ANOTHER password: the rule reading f0 must not take it)
	fileOf := map[string]string{}
	for _, u := range users {
		fileOf[u] = "f0"
	}
	two := r.Chance(40)
	if two {
		fileOf[users[nu-1]] = "f1"
	}
	in := &c03In{Kind: "seq", Files: map[string]c03SeqFile{}}
	mkFiles := func() map[string]c03SeqFile {
		es := map[string][]c03Entry{}
		for _, k := range r.Perm(nu) {
			u := users[k]
			es[fileOf[u]] = append(es[fileOf[u]], c03Entry{u, r.Pick(c03Kinds), pw[u]})
		}
		if two && r.Chance(60) {
			es["f1"] = append(es["f1"], c03Entry{users[0], r.Pick(c03Kinds), pw[users[nu-1]]})
		}
		fs := map[string]c03SeqFile{}
		for f, e := range es {
			fs[f] = c03HtFile(r, e)
		}
		return fs
	}
	in.Files = mkFiles()
	for _, u := range users {
		in.SeqRules = append(in.SeqRules, c03SeqRule{Res: []string{area[u]}, User: u, File: fileOf[u]})
	}
	// a shared area either user opens; an exclusion; a rule with its password in the Casketfile
	if r.Chance(60) {
		in.SeqRules = append(in.SeqRules, c03SeqRule{Res: []string{"/area/shared"}, User: users[0], File: fileOf[users[0]]},
			c03SeqRule{Res: []string{"/area/shared"}, User: users[1], File: fileOf[users[1]]})
	}
	if r.Chance(30) {
		in.SeqRules[0].Excl = []string{"/area/alice/deep"}
	}
	if r.Chance(30) {
		in.SeqRules = append(in.SeqRules, c03SeqRule{Res: []string{"/area/" + users[nu-1] + "/report.txt"}, User: "admin", Pw: "adminpw"})
	}
	if r.Chance(30) {
		in.Extras = append(in.Extras, r.Pick([]string{"gzip", "browse /", "header / X-Test 1"}))
	}
	req := func(u, p, target string) {
		in.Steps = append(in.Steps, c03SeqStep{Op: "req", User: u, Pw: p, Target: target})
	}
	phase := func() {
		var pairs [][2]string
		for _, a := range users {
			for _, b := range users {
				if a != b {
					pairs = append(pairs, [2]string{a, b})
				}
			}
		}
		for _, k := range r.Perm(len(pairs)) {
			u1, u2 := pairs[k][0], pairs[k][1]
			req(u2, pw[u1], doc[u2]) // another user's password, nobody logged in with it (in this phase) yet
			req(u1, pw[u1], doc[u1]) // u1 logs in
			req(u2, pw[u1], doc[u2]) // u2's name with the password u1 has just used
			req(u1, pw[u1], doc[u2]) // u1 in u2's area
			req(u2, r.Pick([]string{"nope", pw[u2] + "!", "", "formerpw"}), doc[u2])
			in.Steps = append(in.Steps, c03SeqStep{Op: "req", NoAuth: true, Target: doc[u2]})
			req(u2, pw[u2], doc[u2]) // u2 logs in
			req(u1, pw[u2], doc[u1]) // and his password under u1's name
			if r.Chance(30) {
				req(r.Pick(users), pw[r.Pick(users)], r.Pick([]string{"/area/shared/notes.txt", "/area/alice/deep/x.txt", "/pub/open.txt", "/area/"}))
			}
			if r.Chance(15) {
				req("admin", r.Pick([]string{"adminpw", pw[u1]}), doc[users[nu-1]])
			}
			if r.Chance(10) {
				in.Steps = append(in.Steps, c03SeqStep{Op: "req", User: u2, Pw: pw[u1], Target: doc[u2], Method: "OPTIONS"})
			}
		}
	}
	phase()
	for rounds := r.Range(1, 2); rounds > 0; rounds-- {
		// the file changes: passwords rotate (a user gets the password ANOTHER user had), hash kinds
		// change; sometimes the file is first replaced by one that cannot be loaded
		if r.Chance(25) {
			bad := c03SeqFile{Text: r.Pick([]string{"nocolonhere\n", users[0] + ":$2y$05$abcdefghijklmnopqrstuu5s2v8.iXieOjg/.AySBTTZIIVFJeBui\n", "# empty now\n", "someoneelse:pw\n"}), Bad: true}
			in.Steps = append(in.Steps, c03SeqStep{Op: "write", File: "f0", New: &bad}, c03SeqStep{Op: "reload"})
			u := users[0]
			req(u, pw[u], doc[u])
			req(users[1], pw[u], doc[users[1]])
		}
		old := map[string]string{}
		for _, u := range users {
			old[u] = pw[u]
		}
		switch r.Intn(3) {
		case 0: // rotate
			for k, u := range users {
				pw[u] = old[users[(k+1)%nu]]
			}
		case 1: // swap the first two
			pw[users[0]], pw[users[1]] = old[users[1]], old[users[0]]
		default: // one new password
			pw[users[r.Intn(nu)]] = c03PwPool[perm[nu+rounds]]
		}
		fs := mkFiles()
		var names []string
		for f := range fs {
			names = append(names, f)
		}
		sort.Strings(names)
		for _, f := range names {
			sf := fs[f]
			in.Steps = append(in.Steps, c03SeqStep{Op: "write", File: f, New: &sf})
		}
		if r.Chance(50) {
			// written but not yet reloaded: the running site still goes by what it loaded
			u := users[0]
			req(u, old[u], doc[u])
			req(u, pw[u], doc[u])
		}
		in.Steps = append(in.Steps, c03SeqStep{Op: "reload"})
		for _, u := range users { // the passwords of before the change
			req(u, old[u], doc[u])
		}
		phase()
	}
	return in
}
