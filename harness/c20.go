package main

// C20 — access logs are complete and accurate; placeholders expand once.
//
// Three layers, all on the real code:
//   repl  httpserver.NewReplacer(request, recorder, empty).Replace(format) on generated requests
//         (attacker-style header/cookie/query values containing placeholder syntax) and formats;
//         the placeholder values handed to Coq come from the GENERATOR's knowledge of the request,
//         never from the implementation.
//   log   log.Logger{Rules, ErrorFunc}.ServeHTTP with a scripted inner handler and a scripted
//         underlying ResponseWriter (failing / short writes, repeated WriteHeader, panics).
//   site  a running casket instance (`log` directives [+ errors] + the c20probe directive,
//         registered through the public plugin API) answering raw HTTP/1.1 requests; the lines
//         appended to each log file are compared with what the client received.  `burst` =
//         the same with concurrently issued requests.

import (
	"bufio"
	"bytes"
	"context"
	"encoding/json"
	"errors"
	"fmt"
	"go/ast"
	"io"
	stdlog "log"
	"net"
	"net/http"
	"net/http/httptest"
	"net/url"
	"os"
	"os/exec"
	"path"
	"path/filepath"
	"regexp"
	"sort"
	"strconv"
	"strings"
	"sync"
	"time"

	"github.com/tmpim/casket"
	"github.com/tmpim/casket/caskethttp/httpserver"
	cklog "github.com/tmpim/casket/caskethttp/log"
)

type c20Op struct {
	// wh: WriteHeader(N) | p: panic | body-producing calls: w: Write(N bytes) | ws: io.WriteString(N bytes) |
	// cp: io.Copy from a reader that yields N bytes | cpn: io.CopyN(w, reader with N bytes, L) |
	// rf: w.(io.ReaderFrom).ReadFrom(reader with N bytes) if the writer offers it, io.Copy otherwise
	K string `json:"k"`
	N int    `json:"n,omitempty"`
	L int    `json:"l,omitempty"`
	E bool   `json:"e,omitempty"` // cp / cpn / rf: after its N bytes the reader FAILS (instead of io.EOF)
	// log kind only: the scripted writer accepts just the first F (< offered) bytes of this call and
	// reports an error (on a live site such cuts come from the client closing the connection: Abort)
	F *int `json:"f,omitempty"`
}

// what a body-producing call reported to the handler
type c20Out struct {
	N   int64 `json:"n"`
	Err bool  `json:"err,omitempty"`
}

func (o c20Op) body() bool { return o.K != "wh" && o.K != "p" }

// offered: the bytes the call offers to the writer; srcerr: the source of a copy reports an error
func (o c20Op) offered() (n int, srcerr bool) {
	switch o.K {
	case "cpn":
		if o.N < o.L {
			return o.N, true // short source: io.CopyN reports io.EOF (or the reader's failure)
		}
		return o.L, false
	case "cp", "rf":
		return o.N, o.E
	}
	return o.N, false
}

// a reader that yields n bytes and then ends or fails; no WriteTo, so io.Copy has to look at the writer
type c20Src struct {
	remain int
	fail   bool
}

func (s *c20Src) Read(p []byte) (int, error) {
	if s.remain == 0 {
		if s.fail {
			return 0, errors.New("c20: source failed")
		}
		return 0, io.EOF
	}
	n := len(p)
	if n > s.remain {
		n = s.remain
	}
	for i := 0; i < n; i++ {
		p[i] = 'x'
	}
	s.remain -= n
	return n, nil
}

var c20BigOnce sync.Once
var c20BigBuf []byte

func c20Bytes(n int) []byte {
	if n <= 1<<16 {
		return bytes.Repeat([]byte{'x'}, n)
	}
	c20BigOnce.Do(func() { c20BigBuf = bytes.Repeat([]byte{'x'}, 8<<20) })
	if n <= len(c20BigBuf) {
		return c20BigBuf[:n]
	}
	return bytes.Repeat([]byte{'x'}, n)
}

// c20Exec runs a handler script on the writer the handler was given; before is called ahead of every
// body-producing call; outs receives what each of them reported
func c20Exec(w http.ResponseWriter, ops []c20Op, before func(o c20Op), outs *[]c20Out) {
	for _, o := range ops {
		if o.body() && before != nil {
			before(o)
		}
		var n int64
		var err error
		switch o.K {
		case "wh":
			w.WriteHeader(o.N)
			continue
		case "p":
			panic("c20 scripted panic")
		case "w":
			var k int
			k, err = w.Write(c20Bytes(o.N))
			n = int64(k)
		case "ws":
			var k int
			k, err = io.WriteString(w, string(c20Bytes(o.N)))
			n = int64(k)
		case "cp":
			n, err = io.Copy(w, &c20Src{remain: o.N, fail: o.E})
		case "cpn":
			n, err = io.CopyN(w, &c20Src{remain: o.N, fail: o.E}, int64(o.L))
		case "rf":
			if rf, ok := w.(io.ReaderFrom); ok {
				n, err = rf.ReadFrom(&c20Src{remain: o.N, fail: o.E})
			} else {
				n, err = io.Copy(w, &c20Src{remain: o.N, fail: o.E})
			}
		}
		if outs != nil {
			*outs = append(*outs, c20Out{N: n, Err: err != nil})
		}
	}
}
type c20Dir struct {
	Scope  string   `json:"scope"`
	Except []string `json:"except,omitempty"`
	// the directive has a format of its own after the common prefix ("" = the site's Tail)
	Tail string `json:"tail,omitempty"`
	// block written line by line: one `except` line per path, with other sub-directives between them
	Split bool `json:"split,omitempty"`
}
type c20Entry struct {
	Except []string `json:"except,omitempty"`
}
type c20Rule struct {
	Scope   string     `json:"scope"`
	Entries []c20Entry `json:"entries"`
}
type c20Hdr struct {
	Name   string   `json:"name"`
	Values []string `json:"values"`
}
type c20Req struct {
	Method    string      `json:"method,omitempty"`
	Host      string      `json:"host,omitempty"`
	Path      string      `json:"path,omitempty"`
	OrigPath  string      `json:"orig_path,omitempty"`
	Query     [][2]string `json:"query,omitempty"`
	Headers   []c20Hdr    `json:"headers,omitempty"`
	Cookies   [][2]string `json:"cookies,omitempty"`
	Custom    [][2]string `json:"custom,omitempty"`
	RespHdr   []c20Hdr    `json:"resp_headers,omitempty"`
	HasRec    bool        `json:"has_recorder,omitempty"`
	RecStatus int         `json:"rec_status,omitempty"`
	RecSize   int         `json:"rec_size,omitempty"`
	Empty     string      `json:"empty"`
	// site / burst: the request is a POST with a JSON body (what {request_body} shows)
	Post bool   `json:"post,omitempty"`
	Body string `json:"body,omitempty"`
}
type c20In struct {
	Kind string  `json:"kind"` // repl | log | site | burst
	Fmt  string  `json:"fmt,omitempty"`
	Req  *c20Req `json:"req,omitempty"`

	CS    bool      `json:"cs,omitempty"`
	Rules []c20Rule `json:"rules,omitempty"`
	EK    int       `json:"ek,omitempty"` // 0: ErrorFunc nil, 1: DefaultErrorFunc
	Path  string    `json:"path,omitempty"`
	Ops   []c20Op   `json:"ops,omitempty"`
	Ret   int       `json:"ret,omitempty"`

	HasErr bool     `json:"errors,omitempty"`
	Head   bool     `json:"head,omitempty"`
	Dirs   []c20Dir `json:"dirs,omitempty"`
	Tail   string   `json:"tail,omitempty"`
	Wrap   string   `json:"wrap,omitempty"` // "", "gzip", "header", "rewrite", "ext": another directive between log and the handler
	// the scripted handler sets r.URL.Path to this value before it answers, as inner middleware
	// (rewrite, ext, ...) does in place; scope and exceptions are owed on the REQUESTED path
	Rewrite string `json:"rewrite,omitempty"`
	// log kind: the scripted writer below the recorder offers io.ReaderFrom (as net/http's does)
	RFW bool `json:"rfw,omitempty"`
	// site kind: the client reads Abort bytes of the response and then resets the connection while the
	// handler is still writing (0 = it reads the response to its end)
	Abort int `json:"abort,omitempty"`
	// site / burst: the probe sets Req.Custom through the replacer, as proxy sets {upstream}: "rr" = the
	// Replacer field of the ResponseRecorder it was given (when it was given one), "ctx" = a replacer made
	// from the request (NewReplacer takes the per-request map from the request's context)
	Via string `json:"via,omitempty"`

	Burst []*c20In `json:"burst,omitempty"`
	// burst with Gated: the requests marked Hold are sent first, one after the other, with their body withheld:
	// each is answered by its handler and then sits inside the expansion of its first log line ({request_body}
	// reads the body) - its list of log entries is computed, none of its lines written; then the others are
	// served to their end, then the bodies are released
	Gated bool `json:"gated,omitempty"`
	Hold  bool `json:"hold,omitempty"`

	abortOuts []c20Out // what the body calls reported after the client reset the connection (set by the runner)
}

// ---------------------------------------------------------------------------------------------
// Coq emitters

func c20Pairs(ps [][2]string) string {
	it := make([]string, len(ps))
	for i, p := range ps {
		it[i] = cPair(cStr(p[0]), cStr(p[1]))
	}
	return cList(it)
}
func c20Hdrs(hs []c20Hdr) string {
	it := make([]string, len(hs))
	for i, h := range hs {
		it[i] = cPair(cStr(h.Name), cStrList(h.Values))
	}
	return cList(it)
}
// c20OpsTerm: cuts = nil: the cuts are those scripted in the ops (F); otherwise what the body calls
// reported on a connection the client reset
func c20OpsTerm(ops []c20Op, outs []c20Out) string {
	it := make([]string, len(ops))
	bi := 0
	for i, o := range ops {
		switch {
		case o.K == "wh":
			it[i] = cApp("OWH", cZ(int64(o.N)))
		case o.body():
			n, se := o.offered()
			kind := "BCopy"
			if o.K == "w" || o.K == "ws" {
				kind = "BWrite"
			}
			f := "None"
			if outs == nil {
				if o.F != nil {
					f = "(Some " + cN(uint64(*o.F)) + ")"
				}
			} else if bi < len(outs) {
				if outs[bi].Err {
					f = "(Some " + cN(uint64(outs[bi].N)) + ")"
				}
				bi++
			}
			it[i] = cApp("OB", kind, cN(uint64(n)), cBool(se), f)
		default:
			it[i] = "OPanic"
		}
	}
	return cList(it)
}
func c20DirsTerm(ds []c20Dir) string {
	it := make([]string, len(ds))
	for i, d := range ds {
		it[i] = "{| d_scope := " + cStr(d.Scope) + "; d_except := " + cStrList(d.Except) + " |}"
	}
	return cList(it)
}
func c20RulesTerm(rs []c20Rule) string {
	it := make([]string, len(rs))
	id := 0
	for i, r := range rs {
		es := make([]string, len(r.Entries))
		for j, e := range r.Entries {
			es[j] = "{| n_id := " + cNat(id) + "; n_except := " + cStrList(e.Except) + " |}"
			id++
		}
		it[i] = "{| ru_scope := " + cStr(r.Scope) + "; ru_entries := " + cList(es) + " |}"
	}
	return cList(it)
}

type c20Line struct {
	ID     int    `json:"log"`
	Status int    `json:"status"`
	Size   int    `json:"size"`
	Tail   string `json:"tail,omitempty"`
}

func c20LinesTerm(ls []c20Line) string {
	it := make([]string, len(ls))
	for i, l := range ls {
		it[i] = "(" + cNat(l.ID) + ", " + cZ(int64(l.Status)) + ", " + cN(uint64(l.Size)) + ")"
	}
	return cList(it)
}
func c20ErrLen(code int) int { return len(fmt.Sprintf("%d %s\n", code, http.StatusText(code))) }
func c20Tbl(codes ...int) string {
	seen := map[int]bool{}
	var it []string
	for _, c := range codes {
		if c >= 400 && !seen[c] {
			seen[c] = true
			it = append(it, cPair(cZ(int64(c)), cN(uint64(c20ErrLen(c)))))
		}
	}
	return cList(it)
}

// ---------------------------------------------------------------------------------------------
// request environment: what the documented placeholders must expand to, from the generator's
// own components

const c20Remote = "192.0.2.7"
const c20RemotePort = "50123"

var c20OSEnv = [][2]string{{"C20_SET", "env{status}val"}, {"C20_EMPTY", ""}}

func c20EncodeQuery(q [][2]string) string {
	var parts []string
	for _, p := range q {
		parts = append(parts, url.QueryEscape(p[0])+"="+url.QueryEscape(p[1]))
	}
	return strings.Join(parts, "&")
}

func c20HostOnly(h string) string {
	if ho, _, err := net.SplitHostPort(h); err == nil {
		return ho
	}
	return h
}

// c20Defaults lists the deterministic part of the documented vocabulary with its value for the request.
func c20Defaults(q *c20Req, remote, remotePort string) [][2]string {
	raw := c20EncodeQuery(q.Query)
	orig := url.URL{Path: q.OrigPath, RawQuery: raw}
	cur := url.URL{Path: q.Path, RawQuery: raw}
	dir, file := path.Split(q.Path)
	sport := "80"
	if _, p, err := net.SplitHostPort(q.Host); err == nil {
		sport = p
	}
	hn, err := os.Hostname()
	if err != nil {
		hn = q.Empty
	}
	d := [][2]string{
		{"{method}", q.Method}, {"{scheme}", "http"}, {"{hostname}", hn}, {"{host}", q.Host},
		{"{hostonly}", c20HostOnly(q.Host)}, {"{path}", q.OrigPath}, {"{path_escaped}", url.QueryEscape(q.OrigPath)},
		{"{request_id}", ""}, {"{rewrite_path}", q.Path}, {"{rewrite_path_escaped}", url.QueryEscape(q.Path)},
		{"{query}", raw}, {"{query_escaped}", url.QueryEscape(raw)}, {"{fragment}", ""}, {"{proto}", "HTTP/1.1"},
		{"{remote}", remote}, {"{uri}", orig.RequestURI()}, {"{uri_escaped}", url.QueryEscape(orig.RequestURI())},
		{"{rewrite_uri}", cur.RequestURI()}, {"{rewrite_uri_escaped}", url.QueryEscape(cur.RequestURI())},
		{"{file}", file}, {"{dir}", dir}, {"{mitm}", "unknown"}, {"{server_port}", sport},
	}
	if q.Post {
		d = append(d, [2]string{"{request_body}", strings.NewReplacer("\r", "\\r", "\n", "\\n").Replace(q.Body)})
	} else {
		d = append(d, [2]string{"{request_body}", q.Empty})
	}
	if remotePort != "" {
		d = append(d, [2]string{"{port}", remotePort})
	}
	for _, k := range []string{"{tls_protocol}", "{tls_cipher}", "{tls_client_escaped_cert}", "{tls_client_fingerprint}",
		"{tls_client_i_dn}", "{tls_client_raw_cert}", "{tls_client_s_dn}", "{tls_client_serial}", "{tls_client_v_end}",
		"{tls_client_v_remain}", "{tls_client_v_start}"} {
		d = append(d, [2]string{k, q.Empty})
	}
	if q.HasRec {
		size := q.RecSize
		if q.Method == "HEAD" {
			size = 0 // the body of a response to HEAD is never sent
		}
		d = append(d, [2]string{"{status}", strconv.Itoa(q.RecStatus)}, [2]string{"{size}", strconv.Itoa(size)})
	} else {
		d = append(d, [2]string{"{status}", q.Empty}, [2]string{"{size}", q.Empty})
	}
	return d
}

// only the vocabulary entries whose name occurs in the format are emitted (a key that does not occur
// textually in the format can never be looked up; the literals are expensive to parse in Coq)
func c20EnvTerm(q *c20Req, remote, remotePort string, format string) string {
	custom := make([][2]string, len(q.Custom))
	for i, c := range q.Custom {
		custom[i] = [2]string{"{" + c[0] + "}", c[1]}
	}
	// later Set() calls overwrite earlier ones: the association list is searched first-match
	for i, j := 0, len(custom)-1; i < j; i, j = i+1, j-1 {
		custom[i], custom[j] = custom[j], custom[i]
	}
	resp := "None"
	if q.HasRec {
		resp = "(Some " + c20Hdrs(q.RespHdr) + ")"
	}
	var defs [][2]string
	for _, d := range c20Defaults(q, remote, remotePort) {
		if strings.Contains(format, d[0][1:len(d[0])-1]) {
			defs = append(defs, d)
		}
	}
	rec := "None"
	if q.HasRec {
		rec = "(Some (" + cZ(int64(q.RecStatus)) + ", " + cN(uint64(q.RecSize)) + "))"
	}
	return "{| e_custom := " + c20Pairs(custom) + "; e_reqh := " + c20Hdrs(q.Headers) + "; e_resph := " + resp +
		"; e_cookies := " + c20Pairs(q.Cookies) + "; e_query := " + c20Pairs(q.Query) + "; e_osenv := " + c20Pairs(c20OSEnv) +
		"; e_defaults := " + c20Pairs(defs) + "; e_host := " + cStr(q.Host) + "; e_empty := " + cStr(q.Empty) +
		"; e_method := " + cStr(q.Method) + "; e_path := " + cStr(q.OrigPath) + "; e_curpath := " + cStr(q.Path) +
		"; e_rawquery := " + cStr(c20EncodeQuery(q.Query)) + "; e_proto := " + cStr("HTTP/1.1") + "; e_rec := " + rec + " |}"
}

func c20Try(f func()) (panicked bool, msg string) {
	defer func() {
		if r := recover(); r != nil {
			panicked, msg = true, fmt.Sprint(r)
		}
	}()
	f()
	return
}

var c20Once sync.Once

func c20Init() {
	c20Once.Do(func() {
		stdlog.SetOutput(io.Discard)
		for _, kv := range c20OSEnv {
			os.Setenv(kv[0], kv[1])
		}
		os.Unsetenv("C20_UNSET")
		// scratch directories of runs that are gone (a replay has no closing case)
		stale, _ := filepath.Glob("/var/tmp/verif-C20-[0-9]*")
		for _, d := range stale {
			pid := strings.TrimPrefix(filepath.Base(d), "verif-C20-")
			if _, err := os.Stat("/proc/" + pid); err != nil {
				os.RemoveAll(d)
			}
		}
	})
}

func c20BuildRequest(q *c20Req) *http.Request {
	raw := c20EncodeQuery(q.Query)
	h := http.Header{}
	for _, hd := range q.Headers {
		h[hd.Name] = append([]string(nil), hd.Values...)
	}
	if len(q.Cookies) > 0 {
		var cs []string
		for _, c := range q.Cookies {
			cs = append(cs, c[0]+"="+c[1])
		}
		h["Cookie"] = []string{strings.Join(cs, "; ")}
	}
	r := &http.Request{Method: q.Method, URL: &url.URL{Path: q.Path, RawQuery: raw}, Host: q.Host, Header: h,
		Proto: "HTTP/1.1", ProtoMajor: 1, ProtoMinor: 1, RemoteAddr: c20Remote + ":" + c20RemotePort}
	orig := url.URL{Path: q.OrigPath, RawQuery: raw}
	return r.WithContext(context.WithValue(context.Background(), httpserver.OriginalURLCtxKey, orig))
}

func c20RunRepl(in *c20In) Result {
	var out string
	var p bool
	var msg string
	done := c20Watch(5*time.Second, func() { p, msg = c20RunReplImpl(in, &out) })
	if !done {
		return Result{Term: "(CBurst [])", Obs: "Replace did not return within 5 s", Sig: "repl:hang", Class: "repl:hang",
			Direct: "replacer.Replace did not terminate (5 s watchdog)"}
	}
	return c20ReplResult(in, p, msg, out)
}

// hangs seen by the parent: the child (with its spinning goroutine) is replaced after each one, and
// after three the remaining cases of that kind are skipped
var c20Hangs = map[string]int{}

// c20Watch runs f in a goroutine and reports whether it returned in time.
func c20Watch(d time.Duration, f func()) bool {
	ch := make(chan struct{})
	go func() { defer close(ch); f() }()
	select {
	case <-ch:
		return true
	case <-time.After(d):
		return false
	}
}

func c20RunReplImpl(in *c20In, outp *string) (bool, string) {
	q := in.Req
	var out string
	p, msg := c20Try(func() {
		r := c20BuildRequest(q)
		var rr *httpserver.ResponseRecorder
		if q.HasRec {
			rr = httpserver.NewResponseRecorder(httptest.NewRecorder())
			for _, hd := range q.RespHdr {
				rr.Header()[hd.Name] = append([]string(nil), hd.Values...)
			}
			rr.WriteHeader(q.RecStatus)
			rr.Write(make([]byte, q.RecSize))
		}
		rep := httpserver.NewReplacer(r, rr, q.Empty)
		for _, c := range q.Custom {
			rep.Set(c[0], c[1])
		}
		out = rep.Replace(in.Fmt)
	})
	*outp = out
	return p, msg
}

func c20ReplResult(in *c20In, p bool, msg string, out string) Result {
	q := in.Req
	// the Cookie header is part of the request headers too
	q2 := *q
	if len(q.Cookies) > 0 {
		var cs []string
		for _, c := range q.Cookies {
			cs = append(cs, c[0]+"="+c[1])
		}
		q2.Headers = append(append([]c20Hdr(nil), q.Headers...), c20Hdr{"Cookie", []string{strings.Join(cs, "; ")}})
	}
	term := cApp("CRepl", cStr(in.Fmt), c20EnvTerm(&q2, c20Remote, c20RemotePort, in.Fmt), cBool(p), cStr(out))
	simple := c20Simple(in.Fmt)
	res := Result{Term: term, Obs: map[string]interface{}{"out": out, "panic": msg}, Sig: "repl",
		Nontrivial: strings.ContainsAny(in.Fmt, "{}"),
		Class:      fmt.Sprintf("repl:simple=%v:placeholders=%v", simple, strings.Contains(in.Fmt, "{"))}
	if p {
		res.Direct = "replacer.Replace panicked: " + msg
		res.Sig = "repl:panic"
	}
	return res
}

func c20Simple(s string) bool {
	for i := 0; i < len(s); i++ {
		if s[i] == '\\' {
			if i+1 >= len(s) || (s[i+1] != '{' && s[i+1] != '}') {
				return false
			}
			i++
		}
	}
	return true
}

// ---------------------------------------------------------------------------------------------
// log kind: the middleware over a scripted writer

type c20W struct {
	hdr       http.Header
	status    int
	delivered int // bytes accepted (reported as written), those of failing calls included
	cut       int // >= 0: this many more bytes are accepted during the current body call, then Write fails
}

func (w *c20W) Header() http.Header { return w.hdr }
func (w *c20W) WriteHeader(c int) {
	if w.status == 0 {
		w.status = c
	}
}
func (w *c20W) Write(b []byte) (int, error) {
	if w.status == 0 {
		w.status = 200
	}
	if w.cut >= 0 && len(b) > w.cut {
		k := w.cut
		w.cut = 0
		w.delivered += k
		return k, errors.New("c20: write failed")
	}
	if w.cut >= 0 {
		w.cut -= len(b)
	}
	w.delivered += len(b)
	return len(b), nil
}

// the same writer offering io.ReaderFrom, as net/http's response does
type c20WRF struct{ *c20W }

func (w c20WRF) ReadFrom(src io.Reader) (int64, error) {
	buf := make([]byte, 32768)
	var total int64
	for {
		n, er := src.Read(buf)
		if n > 0 {
			m, ew := w.c20W.Write(buf[:n])
			total += int64(m)
			if ew != nil {
				return total, ew
			}
		}
		if er == io.EOF {
			return total, nil
		}
		if er != nil {
			return total, er
		}
	}
}

func c20Matches(p, base string) bool { return httpserver.Path(p).Matches(base) }

// c20WellBehaved: at most one WriteHeader, before any Write; nothing written when an error status
// is returned or the handler panics (casket's handler contract)
func c20WellBehaved(ops []c20Op, ret int) bool {
	wrote, whs, panics := false, 0, false
	for _, o := range ops {
		switch o.K {
		case "wh":
			if wrote || whs > 0 {
				return false
			}
			whs++
		case "p":
			panics = true
		default:
			wrote = true
		}
		if panics {
			break
		}
	}
	if (ret >= 400 || panics) && (wrote || whs > 0) {
		return false
	}
	return true
}
// c20CutShort: some body call was cut short by the writer AFTER it had accepted bytes (the call reported
// n > 0 together with an error; the recorder has to count those n bytes — F-C20-6, repaired): a Write /
// WriteString that accepted F > 0 bytes, a copy cut inside a chunk
// (outs: what the calls reported on a connection the client reset; nil: the scripted cuts)
func c20CutShort(ops []c20Op, outs []c20Out) bool {
	bi := 0
	for _, o := range ops {
		if o.K == "p" {
			break
		}
		if !o.body() {
			continue
		}
		k := -1
		if outs == nil {
			if o.F != nil {
				k = *o.F
			}
		} else if bi < len(outs) {
			if outs[bi].Err {
				k = int(outs[bi].N)
			}
			bi++
		}
		if k > 0 && (o.K == "w" || o.K == "ws" || k%32768 != 0) {
			return true
		}
	}
	return false
}

// c20BodyClass: how the script produces its body (for the histogram)
func c20BodyClass(ops []c20Op) string {
	seen := map[string]bool{}
	srcerr, cut := false, false
	for _, o := range ops {
		if o.body() {
			seen[o.K] = true
			if _, se := o.offered(); se {
				srcerr = true
			}
			cut = cut || o.F != nil
		}
	}
	var ks []string
	for k := range seen {
		ks = append(ks, k)
	}
	sort.Strings(ks)
	c := strings.Join(ks, "+")
	if c == "" {
		c = "none"
	}
	if srcerr {
		c += ":srcfail"
	}
	if cut {
		c += ":cut"
	}
	return c
}

func c20Panics(ops []c20Op) bool {
	for _, o := range ops {
		if o.K == "p" {
			return true
		}
	}
	return false
}

func c20RunLog(in *c20In) Result {
	httpserver.CaseSensitivePath = in.CS
	defer func() { httpserver.CaseSensitivePath = false }()
	var bufs []*bytes.Buffer
	var rules []*cklog.Rule
	id := 0
	for _, r := range in.Rules {
		rule := &cklog.Rule{PathScope: r.Scope}
		for _, e := range r.Entries {
			b := &bytes.Buffer{}
			bufs = append(bufs, b)
			lg := httpserver.NewTestLogger(b)
			lg.Exceptions = append([]string(nil), e.Except...)
			rule.Entries = append(rule.Entries, &cklog.Entry{Format: "{status} {size}", Log: lg})
			id++
		}
		rules = append(rules, rule)
	}
	cw := &c20W{hdr: http.Header{}, cut: -1}
	var outs []c20Out
	inner := handlerFunc(func(w http.ResponseWriter, r *http.Request) (int, error) {
		if in.Rewrite != "" {
			r.URL.Path = in.Rewrite
		}
		defer func() { cw.cut = -1 }()
		c20Exec(w, in.Ops, func(o c20Op) {
			cw.cut = -1
			if o.F != nil {
				cw.cut = *o.F
			}
		}, &outs)
		return in.Ret, nil
	})
	var under http.ResponseWriter = cw
	if in.RFW {
		under = c20WRF{cw}
	}
	lg := cklog.Logger{Next: inner, Rules: rules}
	if in.EK == 1 {
		lg.ErrorFunc = httpserver.DefaultErrorFunc
	}
	req := &http.Request{Method: "GET", URL: &url.URL{Path: in.Path}, Host: "example.test", Header: http.Header{},
		Proto: "HTTP/1.1", ProtoMajor: 1, ProtoMinor: 1, RemoteAddr: c20Remote + ":" + c20RemotePort}
	ret := 0
	var p bool
	var msg string
	if !c20Watch(10*time.Second, func() { p, msg = c20Try(func() { ret, _ = lg.ServeHTTP(under, req) }) }) {
		return Result{Term: "(CBurst [])", Obs: "log.Logger.ServeHTTP did not return within 10 s", Sig: "log:hang", Class: "log:hang",
			Direct: "log.Logger.ServeHTTP did not terminate (10 s watchdog)"}
	}
	var lines []c20Line
	bad := ""
	for i, b := range bufs {
		for _, l := range strings.Split(b.String(), "\n") {
			if l == "" {
				continue
			}
			f := strings.Split(l, " ")
			st, e1 := strconv.Atoi(f[0])
			sz := 0
			var e2 error = errors.New("fields")
			if len(f) == 2 {
				sz, e2 = strconv.Atoi(f[1])
			}
			if e1 != nil || e2 != nil || sz < 0 {
				bad = l
				continue
			}
			lines = append(lines, c20Line{ID: i, Status: st, Size: sz})
		}
	}
	term := cApp("CLog", cBool(in.CS), c20RulesTerm(in.Rules), cN(uint64(in.EK)), cStr(in.Path), c20OpsTerm(in.Ops, nil),
		cZ(int64(in.Ret)), c20Tbl(in.Ret, 500), c20LinesTerm(lines), cZ(int64(cw.status)), cN(uint64(cw.delivered)),
		cZ(int64(ret)), cBool(p))
	// class of the input
	inScope := 0
	scopes := map[string]bool{}
	for _, r := range in.Rules {
		if c20Matches(in.Path, r.Scope) {
			inScope++
			scopes[r.Scope] = true
		}
	}
	sig := "log:clean"
	switch {
	case c20CutShort(in.Ops, nil) && inScope > 0:
		sig = "write-cut-short"
	case c20Panics(in.Ops) && inScope > 0:
		sig = "panic-without-errors-directive"
	case len(scopes) > 1:
		sig = "overlapping-scopes"
	case !c20WellBehaved(in.Ops, in.Ret):
		sig = "handler-writes-after-commit"
	}
	res := Result{Term: term, Obs: map[string]interface{}{"lines": lines, "writer_status": cw.status, "delivered": cw.delivered,
		"ret": ret, "panic": msg, "calls": outs}, Sig: sig, Nontrivial: inScope > 0,
		Class: fmt.Sprintf("%s:inscope=%v:panic=%v:rewritten=%v:body=%s", sig, inScope > 0, p, in.Rewrite != "", c20BodyClass(in.Ops))}
	if bad != "" {
		res.Direct = "unparsable log line: " + bad
	}
	return res
}

// ---------------------------------------------------------------------------------------------
// site kind: a running instance

type c20Script struct {
	ops     []c20Op
	ret     int
	rewrite string
	custom  [][2]string
	via     string
	res     *c20ProbeRes
}

// what the probe saw: the counts and errors its body calls reported, and how it set the custom placeholders
type c20ProbeRes struct {
	mu    sync.Mutex
	Outs  []c20Out `json:"calls,omitempty"`
	SetBy string   `json:"set_by,omitempty"`
	done  chan struct{}
	probed chan struct{} // closed when the probe handler has returned
}

var c20Scripts sync.Map // id -> c20Script

type c20Probe struct{ next httpserver.Handler }

func (p c20Probe) ServeHTTP(w http.ResponseWriter, r *http.Request) (int, error) {
	v, ok := c20Scripts.Load(r.Header.Get("X-C20-Id"))
	if !ok {
		return p.next.ServeHTTP(w, r)
	}
	sc := v.(c20Script)
	if sc.rewrite != "" {
		r.URL.Path = sc.rewrite
	}
	if len(sc.custom) > 0 {
		// like proxy's {upstream}: through the recorder's Replacer when the writer is the recorder,
		// else (or when asked to) through a replacer made from the request: both reach the
		// per-request map held in the request's context
		var rep httpserver.Replacer
		by := "ctx"
		if rr, ok := w.(*httpserver.ResponseRecorder); ok && rr.Replacer != nil && sc.via == "rr" {
			rep, by = rr.Replacer, "rr"
		} else {
			rep = httpserver.NewReplacer(r, nil, "")
		}
		for _, c := range sc.custom {
			rep.Set(c[0], c[1])
		}
		sc.res.mu.Lock()
		sc.res.SetBy = by
		sc.res.mu.Unlock()
	}
	var outs []c20Out
	defer func() {
		sc.res.mu.Lock()
		sc.res.Outs = outs
		sc.res.mu.Unlock()
		if sc.res.probed != nil {
			close(sc.res.probed)
		}
	}()
	c20Exec(w, sc.ops, nil, &outs)
	return sc.ret, nil
}

// c20HeldRaw sends the request with its body withheld until release is closed (sent is closed once the head is out)
func c20HeldRaw(addr, method, target string, hdr map[string]string, body []byte, sent chan struct{}, release chan struct{}) rawResp {
	conn, err := net.DialTimeout("tcp", addr, 2*time.Second)
	if err != nil {
		close(sent)
		return rawResp{Err: err.Error()}
	}
	defer conn.Close()
	conn.SetDeadline(time.Now().Add(30 * time.Second))
	var sb bytes.Buffer
	fmt.Fprintf(&sb, "%s %s HTTP/1.1\r\nHost: %s\r\n", method, target, addr)
	keys := make([]string, 0, len(hdr))
	for k := range hdr {
		keys = append(keys, k)
	}
	sort.Strings(keys)
	for _, k := range keys {
		fmt.Fprintf(&sb, "%s: %s\r\n", k, hdr[k])
	}
	fmt.Fprintf(&sb, "Content-Length: %d\r\nConnection: close\r\n\r\n", len(body))
	_, err = conn.Write(sb.Bytes())
	close(sent)
	if err != nil {
		return rawResp{Err: err.Error()}
	}
	<-release
	if _, err := conn.Write(body); err != nil {
		return rawResp{Err: err.Error()}
	}
	resp, err := http.ReadResponse(bufio.NewReader(conn), &http.Request{Method: method})
	if err != nil {
		return rawResp{Err: err.Error()}
	}
	defer resp.Body.Close()
	b, _ := io.ReadAll(resp.Body)
	return rawResp{Status: resp.StatusCode, Header: resp.Header, Body: b}
}

// c20Outer sits in front of the log middleware: it tells the harness when the whole chain below it has
// returned (the log lines are written by then), which a client that reset the connection cannot see
type c20Outer struct{ next httpserver.Handler }

func (o c20Outer) ServeHTTP(w http.ResponseWriter, r *http.Request) (int, error) {
	if v, ok := c20Scripts.Load(r.Header.Get("X-C20-Id")); ok {
		if sc := v.(c20Script); sc.res != nil && sc.res.done != nil {
			defer close(sc.res.done)
		}
	}
	return o.next.ServeHTTP(w, r)
}

var c20Registered bool

func c20Register() {
	if c20Registered {
		return
	}
	c20Registered = true
	httpserver.RegisterDevDirective("c20probe", "")
	casket.RegisterPlugin("c20probe", casket.Plugin{ServerType: "http", Action: func(c *casket.Controller) error {
		for c.Next() {
		}
		httpserver.GetConfig(c).AddMiddleware(func(next httpserver.Handler) httpserver.Handler { return c20Probe{next} })
		return nil
	}})
	httpserver.RegisterDevDirective("c20outer", "log")
	casket.RegisterPlugin("c20outer", casket.Plugin{ServerType: "http", Action: func(c *casket.Controller) error {
		for c.Next() {
		}
		httpserver.GetConfig(c).AddMiddleware(func(next httpserver.Handler) httpserver.Handler { return c20Outer{next} })
		return nil
	}})
}

// c20AbortRaw sends the request, reads n bytes of the response and resets the connection. It returns the
// status (0 if the status line was not complete) and the number of BODY bytes among what it read.
func c20AbortRaw(addr, method, target string, hdr map[string]string, n int) (status int, body int, errs string) {
	conn, err := net.DialTimeout("tcp", addr, 2*time.Second)
	if err != nil {
		return 0, 0, err.Error()
	}
	conn.SetDeadline(time.Now().Add(5 * time.Second))
	var sb bytes.Buffer
	fmt.Fprintf(&sb, "%s %s HTTP/1.1\r\nHost: %s\r\n", method, target, addr)
	keys := make([]string, 0, len(hdr))
	for k := range hdr {
		keys = append(keys, k)
	}
	sort.Strings(keys)
	for _, k := range keys {
		fmt.Fprintf(&sb, "%s: %s\r\n", k, hdr[k])
	}
	sb.WriteString("Connection: close\r\n\r\n")
	if _, err := conn.Write(sb.Bytes()); err != nil {
		conn.Close()
		return 0, 0, err.Error()
	}
	buf := make([]byte, n)
	got, _ := io.ReadFull(conn, buf)
	if tc, ok := conn.(*net.TCPConn); ok {
		tc.SetLinger(0)
	}
	conn.Close()
	status, body = c20PartialBody(buf[:got])
	return status, body, ""
}

// c20PartialBody decodes the beginning of an HTTP/1.1 response: the status, and how many body bytes
// (after de-chunking) are among the bytes at hand.
func c20PartialBody(b []byte) (status int, body int) {
	he := bytes.Index(b, []byte("\r\n\r\n"))
	le := bytes.Index(b, []byte("\r\n"))
	if le > 0 {
		f := strings.SplitN(string(b[:le]), " ", 3)
		if len(f) >= 2 {
			status, _ = strconv.Atoi(f[1])
		}
	}
	if he < 0 {
		return status, 0
	}
	head := strings.ToLower(string(b[:he]))
	rest := b[he+4:]
	if !strings.Contains(head, "transfer-encoding: chunked") {
		return status, len(rest)
	}
	for len(rest) > 0 {
		e := bytes.Index(rest, []byte("\r\n"))
		if e < 0 {
			break
		}
		sz, err := strconv.ParseInt(strings.TrimSpace(string(rest[:e])), 16, 64)
		if err != nil || sz == 0 {
			break
		}
		rest = rest[e+2:]
		if int64(len(rest)) <= sz {
			body += len(rest)
			break
		}
		body += int(sz)
		rest = rest[sz:]
		if len(rest) >= 2 {
			rest = rest[2:]
		} else {
			break
		}
	}
	return status, body
}

type c20LiveSite struct {
	inst *casket.Instance
	addr string
	dir  string
	offs []int64
}

var c20Sites = map[string]*c20LiveSite{}
var c20Root string
var c20SiteNo int

const c20Prefix = "C20|{>X-C20-Id}|{status}|{size}"

func c20StopSites() {
	for k, s := range c20Sites {
		s.inst.Stop()
		os.RemoveAll(s.dir)
		delete(c20Sites, k)
	}
}

func c20Site(in *c20In) (*c20LiveSite, error) {
	c20Register()
	if c20Root == "" {
		c20Root = fmt.Sprintf("/var/tmp/verif-C20-%d", os.Getpid())
		os.RemoveAll(c20Root)
		if err := os.MkdirAll(c20Root, 0o755); err != nil {
			return nil, err
		}
	}
	key, _ := json.Marshal([]interface{}{in.Dirs, in.HasErr, in.Tail, in.Wrap})
	if s, ok := c20Sites[string(key)]; ok {
		return s, nil
	}
	if len(c20Sites) >= 48 {
		c20StopSites()
	}
	c20SiteNo++
	dir := filepath.Join(c20Root, strconv.Itoa(c20SiteNo))
	os.MkdirAll(dir, 0o755)
	var sb strings.Builder
	sb.WriteString("root " + dir + "\n")
	for i, d := range in.Dirs {
		fmt.Fprintf(&sb, "log %s %s/%d.log \"%s|%s\"", d.Scope, dir, i, c20Prefix, c20DirTail(in, i))
		if d.Split {
			sb.WriteString(" {\n  rotate_keep 3\n")
			for _, x := range d.Except {
				sb.WriteString("  except " + x + "\n  rotate_size 50\n")
			}
			sb.WriteString("}")
		} else if len(d.Except) > 0 {
			sb.WriteString(" {\n  except " + strings.Join(d.Except, " ") + "\n}")
		}
		sb.WriteString("\n")
	}
	if in.HasErr {
		sb.WriteString("errors " + dir + "/errors.log\n")
	}
	switch in.Wrap {
	case "gzip":
		sb.WriteString("gzip\n")
	case "header":
		sb.WriteString("header / X-C20-Added yes\n")
	case "rewrite":
		// anchored literal rules: at most one matches a request
		for _, k := range c20RewriteFrom {
			fmt.Fprintf(&sb, "rewrite ^%s$ %s\n", k, c20RewriteTable[k])
		}
	case "ext":
		// /x and /a/b exist only with the extension
		os.MkdirAll(filepath.Join(dir, "a"), 0o755)
		os.WriteFile(filepath.Join(dir, "x.html"), []byte("x"), 0o644)
		os.WriteFile(filepath.Join(dir, "a", "b.html"), []byte("b"), 0o644)
		sb.WriteString("ext .html\n")
	}
	sb.WriteString("c20probe\nc20outer\n")
	casket.Quiet = true
	text := "127.0.0.1:0 {\n" + sb.String() + "}\n"
	inst, err := casket.Start(casket.CasketfileInput{Contents: []byte(text), Filepath: "Casketfile", ServerTypeName: "http"})
	if err != nil {
		return nil, err
	}
	srvs := inst.Servers()
	if len(srvs) == 0 {
		inst.Stop()
		return nil, fmt.Errorf("no servers")
	}
	_, port, _ := net.SplitHostPort(srvs[0].Addr().String())
	s := &c20LiveSite{inst: inst, addr: "127.0.0.1:" + port, dir: dir, offs: make([]int64, len(in.Dirs))}
	c20Sites[string(key)] = s
	return s, nil
}

// the format (after the common prefix) of directive i of the site
func c20DirTail(in *c20In, i int) string {
	if in.Dirs[i].Tail != "" {
		return in.Dirs[i].Tail
	}
	return in.Tail
}
func c20OwnTails(in *c20In) bool {
	for _, d := range in.Dirs {
		if d.Tail != "" {
			return true
		}
	}
	return false
}

// newLines returns the lines appended to directive i's file since the last call.
func (s *c20LiveSite) newLines(i int) []string {
	f, err := os.Open(filepath.Join(s.dir, fmt.Sprintf("%d.log", i)))
	if err != nil {
		return nil
	}
	defer f.Close()
	f.Seek(s.offs[i], 0)
	b, _ := io.ReadAll(f)
	// only complete lines are consumed
	n := bytes.LastIndexByte(b, '\n')
	if n < 0 {
		return nil
	}
	s.offs[i] += int64(n + 1)
	return strings.Split(string(b[:n]), "\n")
}

var c20ReqNo int

type c20SiteObs struct {
	Status int       `json:"status"`
	Size   int       `json:"size"`
	Err    string    `json:"err,omitempty"`
	Lines  []c20Line `json:"lines"`
	Bad    string    `json:"bad,omitempty"`
	// what the probe's body calls reported (count, error) and how it set the custom placeholders
	Calls []c20Out `json:"calls,omitempty"`
	SetBy string   `json:"set_by,omitempty"`
}

func c20Acc(outs []c20Out) uint64 {
	var t uint64
	for _, o := range outs {
		t += uint64(o.N)
	}
	return t
}

func c20SiteHeaders(in *c20In, id string) map[string]string {
	h := map[string]string{"X-C20-Id": id}
	if in.Req.Post {
		h["Content-Type"] = "application/json"
	}
	if in.Wrap == "gzip" {
		h["Accept-Encoding"] = "gzip"
	}
	for _, hd := range in.Req.Headers {
		h[hd.Name] = strings.Join(hd.Values, ",")
	}
	if len(in.Req.Cookies) > 0 {
		var cs []string
		for _, c := range in.Req.Cookies {
			cs = append(cs, c[0]+"="+c[1])
		}
		h["Cookie"] = strings.Join(cs, "; ")
	}
	return h
}

// the rewrite rules of the "rewrite" sites: they move requests into and out of scopes and exceptions
var c20RewriteTable = map[string]string{"/x": "/a/b", "/a/b": "/x", "/c": "/x/y", "/a/b/c": "/b/a", "/ab": "/a", "/b/a": "/a/b/c"}
var c20RewriteFrom = []string{"/x", "/a/b", "/c", "/a/b/c", "/ab", "/b/a"}

// c20Cur is r.URL.Path as the inner directives and the scripted handler leave it (what
// {rewrite_path}, {file} ... show); log scopes and exceptions must not depend on it.
func c20Cur(in *c20In) string {
	p := in.Path
	// an error status or a panic that reaches the log middleware itself (no errors directive in
	// between): log.go restores r.URL = &preURL before it writes the error response, and the line
	// is expanded after that, so the r.URL-based placeholders show the requested path again
	if !in.HasErr && (in.Ret >= 400 || c20Panics(in.Ops)) {
		return p
	}
	switch in.Wrap {
	case "rewrite":
		if t, ok := c20RewriteTable[p]; ok {
			p = t
		}
	case "ext":
		if c := path.Clean("/" + p); !strings.HasSuffix(p, "/") && (c == "/x" || c == "/a/b") {
			p += ".html"
		}
	}
	if in.Rewrite != "" {
		p = in.Rewrite
	}
	return p
}

func c20Target(in *c20In) string {
	t := in.Path
	if q := c20EncodeQuery(in.Req.Query); q != "" {
		t += "?" + q
	}
	return t
}

func c20Method(in *c20In) string {
	if in.Head {
		return "HEAD"
	}
	if in.Req != nil && in.Req.Post {
		return "POST"
	}
	return "GET"
}

// c20Collect parses the new lines of every log file and groups them by request id.
func c20Collect(s *c20LiveSite, ndirs int) (map[string][]c20Line, string) {
	out := map[string][]c20Line{}
	bad := ""
	for i := 0; i < ndirs; i++ {
		for _, l := range s.newLines(i) {
			f := strings.SplitN(l, "|", 5)
			if len(f) != 5 || f[0] != "C20" {
				bad = l
				continue
			}
			st, e1 := strconv.Atoi(f[2])
			sz, e2 := strconv.Atoi(f[3])
			if e1 != nil || e2 != nil || sz < 0 {
				bad = l
				continue
			}
			out[f[1]] = append(out[f[1]], c20Line{ID: i, Status: st, Size: sz, Tail: "|" + f[4]})
		}
	}
	return out, bad
}

func c20SiteSig(in *c20In) string {
	var scopes = map[string]bool{}
	inScope := false
	for _, d := range in.Dirs {
		if c20Matches(in.Path, d.Scope) {
			scopes[d.Scope] = true
			inScope = true
		}
	}
	leak := false
	for j, d := range in.Dirs {
		own := false
		for _, e := range d.Except {
			own = own || c20Matches(in.Path, e)
		}
		if own || !c20Matches(in.Path, d.Scope) {
			continue
		}
		for i := 0; i < j; i++ {
			for _, e := range in.Dirs[i].Except {
				leak = leak || c20Matches(in.Path, e)
			}
		}
	}
	switch {
	case in.Abort > 0 && inScope && c20CutShort(in.Ops, in.abortOuts):
		return "write-cut-short"
	case c20Panics(in.Ops) && !in.HasErr && inScope:
		return "panic-without-errors-directive"
	case in.Head:
		return "head-request"
	case len(scopes) > 1:
		return "overlapping-scopes"
	case !c20WellBehaved(in.Ops, in.Ret):
		return "handler-writes-after-commit"
	case leak:
		return "except-of-earlier-directive"
	}
	return "site:clean"
}

func c20SiteTerm(in *c20In, addr string, o c20SiteObs) string {
	q := *in.Req
	q.Method, q.Host, q.Path, q.OrigPath, q.Empty = c20Method(in), addr, c20Cur(in), in.Path, "-"
	id := ""
	hs := []c20Hdr{{"Connection", []string{"close"}}}
	for k, v := range c20SiteHeaders(in, id) {
		if k != "X-C20-Id" {
			hs = append(hs, c20Hdr{http.CanonicalHeaderKey(k), []string{v}})
		}
	}
	sort.Slice(hs, func(i, j int) bool { return hs[i].Name < hs[j].Name })
	q.Headers = hs
	tails := make([]string, len(o.Lines))
	for i, l := range o.Lines {
		tails[i] = l.Tail
	}
	var cuts []c20Out
	if in.Abort > 0 {
		cuts = o.Calls
		if cuts == nil {
			cuts = []c20Out{}
		}
	}
	if c20OwnTails(in) {
		// every line is judged against the format of the directive whose file it was found in
		all := ""
		var items []string
		for i, l := range o.Lines {
			f := in.Tail
			if l.ID >= 0 && l.ID < len(in.Dirs) {
				f = c20DirTail(in, l.ID)
			}
			all += "|" + f
			items = append(items, cPair(cStr("|"+f), cStr(l.Tail)))
			tails[i] = ""
		}
		env := c20EnvTerm(&q, "127.0.0.1", "", all)
		site := cApp("CSite", cBool(in.Wrap != "gzip"), cBool(in.HasErr), cBool(in.Wrap == "header"), cBool(in.Head), c20DirsTerm(in.Dirs), cStr(in.Path), c20OpsTerm(in.Ops, cuts),
			cZ(int64(in.Ret)), c20Tbl(in.Ret, 500), cBool(in.Abort > 0), cN(c20Acc(o.Calls)), cZ(int64(o.Status)), cN(uint64(o.Size)), c20LinesTerm(o.Lines),
			cStr(""), env, cStrList(tails))
		return cApp("CBurst", cList([]string{site, cApp("CTails", env, cList(items))}))
	}
	return cApp("CSite", cBool(in.Wrap != "gzip"), cBool(in.HasErr), cBool(in.Wrap == "header"), cBool(in.Head), c20DirsTerm(in.Dirs), cStr(in.Path), c20OpsTerm(in.Ops, cuts),
		cZ(int64(in.Ret)), c20Tbl(in.Ret, 500), cBool(in.Abort > 0), cN(c20Acc(o.Calls)), cZ(int64(o.Status)), cN(uint64(o.Size)), c20LinesTerm(o.Lines),
		cStr("|"+in.Tail), c20EnvTerm(&q, "127.0.0.1", "", in.Tail), cStrList(tails))
}

func c20RunSite(in *c20In) Result {
	s, err := c20Site(in)
	if err != nil {
		return Result{Term: "(CBurst [])", Obs: "site did not start: " + err.Error(), Sig: "site:setup-error", Class: "site:setup-error",
			Direct: "site did not start: " + err.Error()}
	}
	c20ReqNo++
	id := fmt.Sprintf("r%d", c20ReqNo)
	pr := &c20ProbeRes{}
	if in.Abort > 0 {
		pr.done = make(chan struct{})
	}
	c20Scripts.Store(id, c20Script{in.Ops, in.Ret, in.Rewrite, in.Req.Custom, in.Via, pr})
	defer c20Scripts.Delete(id)
	var o c20SiteObs
	if in.Abort > 0 {
		st, body, e := c20AbortRaw(s.addr, c20Method(in), c20Target(in), c20SiteHeaders(in, id), in.Abort)
		o = c20SiteObs{Status: st, Size: body, Err: e}
		if e == "" {
			select {
			case <-pr.done:
			case <-time.After(20 * time.Second):
				o.Err = "the handler chain did not return within 20 s of the client's reset"
			}
		}
	} else {
		rr := doRaw(s.addr, c20Method(in), c20Target(in), c20SiteHeaders(in, id), nil)
		o = c20SiteObs{Status: rr.Status, Size: len(rr.Body), Err: rr.Err}
	}
	by, bad := c20Collect(s, len(in.Dirs))
	o.Lines, o.Bad = by[id], bad
	pr.mu.Lock()
	o.Calls, o.SetBy = pr.Outs, pr.SetBy
	pr.mu.Unlock()
	in.abortOuts = o.Calls
	for k := range by {
		if k != id {
			o.Bad = "line of another request: " + k
		}
	}
	sig := c20SiteSig(in)
	inScope := false
	for _, d := range in.Dirs {
		inScope = inScope || c20Matches(in.Path, d.Scope)
	}
	res := Result{Term: c20SiteTerm(in, s.addr, o), Obs: o, Sig: sig, Nontrivial: inScope,
		Class: fmt.Sprintf("%s:errors=%v:wrap=%s:rewritten=%v:body=%s:abort=%v:custom=%s", sig, in.HasErr, in.Wrap, c20Cur(in) != in.Path,
			c20BodyClass(in.Ops), in.Abort > 0, o.SetBy)}
	if o.Err != "" {
		res.Direct = "no response: " + o.Err
	} else if o.Bad != "" {
		res.Direct = "unexpected log line: " + o.Bad
	}
	return res
}

func c20RunBurst(in *c20In) Result {
	if len(in.Burst) == 0 {
		return Result{Term: "(CBurst [])", Sig: "burst:empty", Class: "burst:empty"}
	}
	first := in.Burst[0]
	s, err := c20Site(first)
	if err != nil {
		return Result{Term: "(CBurst [])", Obs: "site did not start: " + err.Error(), Sig: "site:setup-error", Class: "site:setup-error",
			Direct: "site did not start: " + err.Error()}
	}
	ids := make([]string, len(in.Burst))
	resps := make([]rawResp, len(in.Burst))
	prs := make([]*c20ProbeRes, len(in.Burst))
	for i, b := range in.Burst {
		c20ReqNo++
		ids[i] = fmt.Sprintf("b%d", c20ReqNo)
		prs[i] = &c20ProbeRes{}
		c20Scripts.Store(ids[i], c20Script{b.Ops, b.Ret, b.Rewrite, b.Req.Custom, b.Via, prs[i]})
	}
	var wg sync.WaitGroup
	start := make(chan struct{})
	release := make(chan struct{})
	var free sync.WaitGroup
	for i, b := range in.Burst {
		if in.Gated && b.Hold {
			continue
		}
		wg.Add(1)
		free.Add(1)
		go func(i int, b *c20In) {
			defer wg.Done()
			defer free.Done()
			<-start
			var body []byte
			if b.Req.Post {
				body = []byte(b.Req.Body)
			}
			resps[i] = doRaw(s.addr, c20Method(b), c20Target(b), c20SiteHeaders(b, ids[i]), body)
		}(i, b)
	}
	if in.Gated {
		// the held requests first, one after the other: each is answered by its handler and then waits for
		// its body inside the expansion of its first log line
		for i, b := range in.Burst {
			if !b.Hold {
				continue
			}
			prs[i].probed = make(chan struct{})
			sent := make(chan struct{})
			wg.Add(1)
			go func(i int, b *c20In) {
				defer wg.Done()
				resps[i] = c20HeldRaw(s.addr, c20Method(b), c20Target(b), c20SiteHeaders(b, ids[i]), []byte(b.Req.Body), sent, release)
			}(i, b)
			<-sent
			select {
			case <-prs[i].probed:
			case <-time.After(5 * time.Second):
			}
			time.Sleep(15 * time.Millisecond)
		}
	}
	close(start)
	if in.Gated {
		go func() { free.Wait(); close(release) }()
	}
	done := make(chan struct{})
	go func() { wg.Wait(); close(done) }()
	select {
	case <-done:
	case <-time.After(30 * time.Second):
		return Result{Term: "(CBurst [])", Sig: "burst:timeout", Class: "burst:timeout", Direct: "burst did not complete within 30 s"}
	}
	for _, id := range ids {
		c20Scripts.Delete(id)
	}
	by, bad := c20Collect(s, len(first.Dirs))
	var terms []string
	var obs []c20SiteObs
	sig := "site:clean"
	direct := ""
	for i, b := range in.Burst {
		b.Dirs, b.HasErr, b.Tail, b.Wrap = first.Dirs, first.HasErr, first.Tail, first.Wrap
		o := c20SiteObs{Status: resps[i].Status, Size: len(resps[i].Body), Err: resps[i].Err, Lines: by[ids[i]]}
		prs[i].mu.Lock()
		o.Calls, o.SetBy = prs[i].Outs, prs[i].SetBy
		prs[i].mu.Unlock()
		sort.SliceStable(o.Lines, func(a, c int) bool { return o.Lines[a].ID < o.Lines[c].ID })
		if resps[i].Err != "" {
			direct = "no response: " + resps[i].Err
		}
		if sg := c20SiteSig(b); sg != "site:clean" {
			sig = sg
		}
		if in.Gated {
			sig = "requests-in-flight-together:overlapping-scopes"
		}
		obs = append(obs, o)
		terms = append(terms, c20SiteTerm(b, s.addr, o))
		delete(by, ids[i])
	}
	for k := range by {
		bad = "line of an unknown request: " + k
	}
	if bad != "" && direct == "" {
		direct = "unexpected log line: " + bad
	}
	return Result{Term: cApp("CBurst", cList(terms)), Obs: obs, Sig: sig, Nontrivial: true,
		Class: fmt.Sprintf("burst:%s:n=%d", sig, len(in.Burst)), Direct: direct}
}

// ---------------------------------------------------------------------------------------------
// every case runs in a child process of the harness binary (`harness c20child`): a fatal runtime
// error of the implementation (stack overflow of a recursive expansion, concurrent map write) or a
// hang becomes a violation with a replay instead of taking the check down

type c20ChildProc struct {
	cmd    *exec.Cmd
	in     io.WriteCloser
	out    *bufio.Reader
	errBuf *c20Tail
}

type c20Tail struct {
	mu sync.Mutex
	b  []byte
}

func (t *c20Tail) Write(p []byte) (int, error) {
	t.mu.Lock()
	if len(t.b) < 1<<18 {
		n := 1<<18 - len(t.b)
		if n > len(p) {
			n = len(p)
		}
		t.b = append(t.b, p[:n]...)
	}
	t.mu.Unlock()
	return len(p), nil
}
func (t *c20Tail) String() string { t.mu.Lock(); defer t.mu.Unlock(); return string(t.b) }

var c20TheChild *c20ChildProc

func c20GetChild() (*c20ChildProc, error) {
	if c20TheChild != nil {
		return c20TheChild, nil
	}
	cmd := exec.Command(os.Args[0], "c20child")
	cmd.Env = os.Environ()
	in, err := cmd.StdinPipe()
	if err != nil {
		return nil, err
	}
	// replies come back on fd 3: the implementation prints notices on stdout
	pr, pw, err := os.Pipe()
	if err != nil {
		return nil, err
	}
	cmd.ExtraFiles = []*os.File{pw}
	tail := &c20Tail{}
	cmd.Stderr = tail
	if err := cmd.Start(); err != nil {
		return nil, err
	}
	pw.Close()
	c20TheChild = &c20ChildProc{cmd: cmd, in: in, out: bufio.NewReaderSize(pr, 1<<20), errBuf: tail}
	return c20TheChild, nil
}

func c20KillChild() string {
	ch := c20TheChild
	if ch == nil {
		return ""
	}
	c20TheChild = nil
	ch.in.Close()
	ch.cmd.Process.Kill()
	ch.cmd.Wait()
	return ch.errBuf.String()
}

func c20Run(in0 interface{}) Result {
	in := in0.(*c20In)
	if os.Getenv("C20_INPROC") != "" {
		return c20RunLocal(in)
	}
	crash := func(why string) Result {
		tail := c20KillChild()
		// keep the runtime's own message, not the server's info lines or the goroutine dump
		if i := strings.Index(tail, "fatal error:"); i >= 0 {
			tail = tail[i:]
		} else if i := strings.Index(tail, "panic:"); i >= 0 {
			tail = tail[i:]
		} else {
			tail = ""
		}
		if i := strings.Index(tail, "\n\n"); i > 0 {
			tail = tail[:i]
		}
		if len(tail) > 600 {
			tail = tail[:600]
		}
		return Result{Term: "(CBurst [])", Obs: map[string]interface{}{"crash": why, "stderr": tail}, Sig: "crash:" + in.Kind,
			Class: "crash:" + in.Kind, Direct: "the implementation took the process down or hung: " + why + ": " + strings.TrimSpace(tail)}
	}
	if c20Hangs[in.Kind] >= 3 {
		return Result{Term: "(CBurst [])", Obs: "skipped: three earlier cases of this kind did not terminate", Sig: in.Kind + ":skipped-after-hangs",
			Class: in.Kind + ":skipped-after-hangs"}
	}
	ch, err := c20GetChild()
	if err != nil {
		return Result{Term: "(CBurst [])", Sig: "child:start", Class: "child:start", Direct: "cannot start child: " + err.Error()}
	}
	raw, _ := json.Marshal(in)
	if _, err := ch.in.Write(append(raw, '\n')); err != nil {
		return crash("child gone: " + err.Error())
	}
	type reply struct {
		line []byte
		err  error
	}
	rc := make(chan reply, 1)
	go func() {
		l, err := ch.out.ReadBytes('\n')
		rc <- reply{l, err}
	}()
	limit := 30 * time.Second
	if in.Kind == "burst" {
		limit = 90 * time.Second
	}
	select {
	case r := <-rc:
		if r.err != nil {
			return crash("child exited")
		}
		var res Result
		if err := json.Unmarshal(r.line, &res); err != nil {
			return crash("bad reply: " + err.Error())
		}
		if strings.HasSuffix(res.Sig, ":hang") {
			c20Hangs[in.Kind]++
			c20KillChild()
		}
		if in.Kind == "end" {
			ch.in.Close()
			ch.cmd.Wait()
			c20TheChild = nil
		}
		return res
	case <-time.After(limit):
		c20Hangs[in.Kind]++
		return crash("no reply within " + limit.String())
	}
}

func c20ChildMain(args []string) int {
	rd := bufio.NewReaderSize(os.Stdin, 1<<20)
	w := bufio.NewWriter(os.NewFile(3, "replies"))
	for {
		line, err := rd.ReadBytes('\n')
		if len(bytes.TrimSpace(line)) > 0 {
			in := &c20In{}
			var res Result
			if e := json.Unmarshal(line, in); e != nil {
				res = Result{Term: "(CBurst [])", Sig: "child:decode", Class: "child:decode", Direct: "child cannot decode input: " + e.Error()}
			} else {
				res = c20RunLocal(in)
			}
			b, _ := json.Marshal(res)
			w.Write(b)
			w.WriteByte('\n')
			w.Flush()
		}
		if err != nil {
			break
		}
	}
	c20StopSites()
	if c20Root != "" {
		os.RemoveAll(c20Root)
	}
	return 0
}

func c20RunLocal(in *c20In) Result {
	c20Init()
	if in.Req == nil {
		in.Req = &c20Req{}
	}
	switch in.Kind {
	case "repl":
		return c20RunRepl(in)
	case "log":
		return c20RunLog(in)
	case "site":
		return c20RunSite(in)
	case "burst":
		for _, b := range in.Burst {
			if b.Req == nil {
				b.Req = &c20Req{}
			}
		}
		return c20RunBurst(in)
	case "end":
		c20StopSites()
		if c20Root != "" {
			os.RemoveAll(c20Root)
		}
		return Result{Term: "(CBurst [])", Sig: "end", Class: "end"}
	}
	return Result{Term: "(CBurst [])", Sig: "unknown-kind", Class: "unknown-kind", Direct: "unknown kind " + in.Kind}
}

// ---------------------------------------------------------------------------------------------
// generators

var c20EvilValues = []string{"{status}", "{>X-Evil}", "{size}{status}", "\\{x\\}", "}{", "{", "}", "plain", "a{host}b", "{~ck}",
	"{?q}", "\\", "{{method}}", "{label1}", "x\\{status}", "{>X-Other}",
	// values that begin / end with backslashes and braces (a value is never trimmed, unescaped or scanned)
	"\\{status}", "{status}\\", "\\\\", "\\{", "}\\", "{\\", "\\}x\\{", "\\\\{size}\\\\", "{", "}}", "\\x"}
var c20HdrNames = []string{"X-Evil", "X-Other", "User-Agent", "Referer"}
var c20Placeholders = []string{"{>X-Evil}", "{>x-evil}", "{>X-EVIL}", "{>X-Other}", "{>X-Missing}", "{>}", "{<X-Resp}", "{<x-resp}",
	"{<X-None}", "{<}", "{~ck}", "{~nock}", "{~}", "{~CK}", "{?q}", "{?noq}", "{?}", "{?z}", "{$C20_SET}", "{$C20_UNSET}",
	"{$C20_UNSET=dflt}", "{$C20_SET=dflt}", "{$C20_EMPTY=d{x}}", "{$}", "{$=}", "{label1}", "{label2}", "{label3}", "{label4}",
	"{label9}", "{label0}", "{label-1}", "{label+2}", "{labelx}", "{label}", "{label99999999999999999999}", "{label1x}",
	"{method}", "{scheme}", "{hostname}", "{host}", "{hostonly}", "{path}", "{path_escaped}", "{request_id}", "{rewrite_path}",
	"{rewrite_path_escaped}", "{query}", "{query_escaped}", "{fragment}", "{proto}", "{remote}", "{port}", "{uri}", "{uri_escaped}",
	"{rewrite_uri}", "{rewrite_uri_escaped}", "{file}", "{dir}", "{mitm}", "{status}", "{size}", "{server_port}", "{tls_protocol}",
	"{tls_cipher}", "{tls_client_serial}", "{tls_client_v_remain}", "{nope}", "{}", "{ }", "{user}", "{custom}", "{Method}",
	"{method }", "{statuss}", "{>X-Evil", "{\\}}", "{a\\}b}", "{a\\{b}", "{method\\}", "{{method}", "{{method}}"}
var c20Literals = []string{"", " ", "abc", "-", "\"", "[", "]", "\\{", "\\}", "}", "\\{status\\}", "\\{{status}\\}", "x y", "|", "é"}
var c20NonSimple = []string{"\\", "\\\\", "\\a", "\\\\{", "\\\\}", "\\ ", "\\{\\", "\\\\\\{"}

func c20GenReq(r *Rand) *c20Req {
	q := &c20Req{Method: r.Pick([]string{"GET", "POST", "HEAD", "G{E}T"}),
		Host: r.Pick([]string{"a.b.example.test:8080", "example.test", "localhost:80", "[::1]:2015", "x.{status}.y", "", "a..b", ".", "1.2.3.4"}),
		Path: r.Pick([]string{"/", "/dir/file.txt", "/a b/c", "/{status}", "/dir/", "/x/{>X-Evil}/y", "/a%b", "/é"}),
		Empty: r.Pick([]string{"-", "", "EMPTY", "{status}", "-"})}
	q.OrigPath = q.Path
	if r.Chance(30) {
		q.OrigPath = r.Pick([]string{"/orig", "/o/{size}", "/dir/file.txt"})
	}
	if r.Chance(70) {
		q.Query = append(q.Query, [2]string{"q", r.Pick(c20EvilValues)})
		if r.Chance(40) {
			q.Query = append(q.Query, [2]string{r.Pick([]string{"z", "q", "a b"}), r.Pick(c20EvilValues)})
		}
	}
	if r.Chance(80) {
		q.Headers = append(q.Headers, c20Hdr{"X-Evil", []string{r.Pick(c20EvilValues)}})
		if r.Chance(30) {
			q.Headers[0].Values = append(q.Headers[0].Values, r.Pick(c20EvilValues))
		}
	}
	if r.Chance(40) {
		q.Headers = append(q.Headers, c20Hdr{"X-Other", []string{r.Pick(c20EvilValues)}})
	}
	if r.Chance(60) {
		v := r.Pick(c20EvilValues)
		if !strings.ContainsAny(v, "\\\"; ,") {
			q.Cookies = append(q.Cookies, [2]string{"ck", v})
		} else {
			q.Cookies = append(q.Cookies, [2]string{"ck", "c{status}v"})
		}
		if r.Chance(30) {
			q.Cookies = append(q.Cookies, [2]string{r.Pick([]string{"ck", "other"}), "second"})
		}
	}
	if r.Chance(40) {
		q.Custom = append(q.Custom, [2]string{r.Pick([]string{"custom", "user", "status", ">X-Evil", "method"}), r.Pick(c20EvilValues)})
		if r.Chance(30) {
			q.Custom = append(q.Custom, [2]string{r.Pick([]string{"custom", "user"}), r.Pick(c20EvilValues)})
		}
	}
	if r.Chance(70) {
		q.HasRec = true
		q.RecStatus = []int{200, 404, 500, 301, 204}[r.Intn(5)]
		q.RecSize = []int{0, 1, 14, 4096, 70000}[r.Intn(5)]
		if r.Chance(60) {
			q.RespHdr = append(q.RespHdr, c20Hdr{"X-Resp", []string{r.Pick(c20EvilValues)}})
		}
	}
	return q
}

func c20GenFmt(r *Rand, simple bool) string {
	var sb strings.Builder
	n := r.Range(1, 6)
	for i := 0; i < n; i++ {
		switch x := r.Intn(10); {
		case x < 5:
			sb.WriteString(r.Pick(c20Placeholders))
		case x < 8:
			sb.WriteString(r.Pick(c20Literals))
		default:
			if simple {
				sb.WriteString(r.Pick(c20Literals))
			} else {
				sb.WriteString(r.Pick(c20NonSimple))
			}
		}
	}
	return sb.String()
}

func c20RandBraces(r *Rand) string {
	alpha := []string{"{", "}", "\\", "a", "{", "}", "\\", ">", "X", "-", "s", "t"}
	n := r.Range(0, 12)
	var sb strings.Builder
	for i := 0; i < n; i++ {
		sb.WriteString(r.Pick(alpha))
	}
	return sb.String()
}

var c20Scopes = []string{"/", "/a", "/a/", "/a/b", "/ab", "/A", "/c", "/a/b/c", ""}
var c20Excepts = []string{"/a/b", "/a", "/x", "/a/b/c", "/ab/", "/a/bc", "/A/B", "/c/", "/"}
var c20Paths = []string{"/", "/a", "/a/", "/a/b", "/a/bc", "/a/b/c", "/a/b/c/d", "/ab", "/abc/d", "/A/B", "/x", "/x/y", "/c", "/c/",
	"//a//b", "/a/b/", "/aB", "/a.b", "/b/a"}
var c20Sizes = []int{0, 1, 2, 13, 14, 15, 26, 100, 4095, 4096, 4097, 70000, 32768, 32769, 65536, 100000}
var c20Rets = []int{0, 0, 0, 200, 302, 399, 400, 401, 403, 404, 404, 499, 500, 503, 599}

func c20GenOps(r *Rand, level string) ([]c20Op, int) {
	ret := c20Rets[r.Intn(len(c20Rets))]
	sz := func() int {
		if r.Chance(8) {
			return c20Sizes[r.Intn(len(c20Sizes))]
		}
		return c20Sizes[r.Intn(8)]
	}
	w := func() c20Op {
		o := c20Op{K: "w", N: sz()}
		// how the body bytes reach the writer: Write, WriteString, io.Copy / io.CopyN from a reader that
		// ends or FAILS after N bytes, ReadFrom if the writer offers it
		switch x := r.Intn(100); {
		case x < 50:
		case x < 58:
			o.K = "ws"
		case x < 73:
			o.K, o.E = "cp", r.Bool()
		case x < 85:
			o.K, o.E = "rf", r.Bool()
		default:
			o.K, o.L, o.E = "cpn", sz(), r.Chance(30)
		}
		if o.K != "w" && o.K != "ws" && r.Chance(30) {
			o.N = c20Sizes[8+r.Intn(len(c20Sizes)-8)] // more than one chunk
		}
		if n, _ := o.offered(); level == "log" && n > 0 && r.Chance(25) {
			k := r.Intn(n)
			if n > 32768 && r.Chance(30) {
				k = 32768 // a copy cut at a chunk boundary
			}
			o.F = &k
		}
		return o
	}
	switch x := r.Intn(100); {
	case x < 25: // nothing written, a status returned
		return nil, ret
	case x < 45: // body only
		ops := []c20Op{w()}
		for r.Chance(35) {
			ops = append(ops, w())
		}
		return ops, 0
	case x < 70: // header then body
		code := []int{200, 201, 206, 301, 302, 400, 403, 404, 404, 410, 500, 502, 503}[r.Intn(13)]
		ops := []c20Op{{K: "wh", N: code}}
		for r.Chance(65) {
			ops = append(ops, w())
		}
		return ops, 0
	case x < 78: // statuses without a body
		code := []int{204, 304}[r.Intn(2)]
		ops := []c20Op{{K: "wh", N: code}}
		if r.Chance(60) {
			ops = append(ops, w())
		}
		return ops, 0
	case x < 86: // panics
		var ops []c20Op
		if r.Chance(25) {
			ops = append(ops, c20Op{K: "wh", N: 200})
		}
		if r.Chance(25) {
			ops = append(ops, w())
		}
		return append(ops, c20Op{K: "p"}), c20Pick3(r, 0, 0, 404)
	case x < 93: // contract violations: header twice, or written and an error status returned
		if r.Bool() {
			return []c20Op{{K: "wh", N: 200}, w(), {K: "wh", N: 500}}, 0
		}
		return []c20Op{w()}, []int{404, 500}[r.Intn(2)]
	default: // returned non-error status with a written response
		return []c20Op{{K: "wh", N: 404}, w()}, c20Pick3(r, 0, 200, 302)
	}
}

func c20Pick3(r *Rand, a, b, c int) int { return []int{a, b, c}[r.Intn(3)] }

func c20Subset(r *Rand, xs []string, max int) []string {
	var out []string
	n := r.Intn(max + 1)
	for i := 0; i < n; i++ {
		out = append(out, r.Pick(xs))
	}
	return out
}

func c20GenDirs(r *Rand) []c20Dir {
	n := 1
	if r.Chance(45) {
		n = r.Range(2, 3)
	}
	var ds []c20Dir
	uniform := r.Chance(60)
	sc := r.Pick(c20Scopes[:7])
	for i := 0; i < n; i++ {
		d := c20Dir{Scope: sc}
		if !uniform {
			d.Scope = r.Pick(c20Scopes[:8])
		}
		if d.Scope == "" {
			d.Scope = "/"
		}
		// exceptions mostly on the last directive (there the shared list equals the directive's own)
		if (i == n-1 && r.Chance(55)) || r.Chance(25) {
			d.Except = c20Subset(r, c20Excepts[:8], 2)
		}
		ds = append(ds, d)
	}
	return ds
}

var c20Tails = []string{
	"{method} {uri} {proto}",
	"{>X-Evil}|{>x-evil}|{>X-Missing}",
	"{~ck}|{~nock}|{?q}|{?noq}",
	"\\{status\\} {>X-Evil} \\{{>X-Evil}\\}",
	"{nope}|{}|{label1}|{label2}|{label9}",
	"{host}|{hostonly}|{path}|{query}|{file}|{dir}|{scheme}|{remote}",
	"{>X-Evil",
	"}{>X-Evil}{",
	"{rewrite_uri}|{uri_escaped}|{path_escaped}|{server_port}",
	"[{>User-Agent}] [{>Referer}] {~ck}",
	"{upstream}|{c20u}|{method}|{>X-Evil}",
	"{c20u}\\{c20u\\}{upstream} {user}",
}

// the tails that show custom placeholders
var c20CustomTails = []int{10, 11}

var c20CustomNo int

// c20GenCustom: placeholders the probe sets through the replacer, with values unique to the request
// (and sometimes spelling placeholders themselves, or overriding a default / a header placeholder)
func c20GenCustom(r *Rand) [][2]string {
	c20CustomNo++
	cs := [][2]string{{"upstream", fmt.Sprintf("up%d.%s", c20CustomNo, r.Pick(c20SiteEvil))}}
	if r.Chance(70) {
		cs = append(cs, [2]string{"c20u", fmt.Sprintf("u%d", c20CustomNo)})
	}
	if r.Chance(25) {
		cs = append(cs, [2]string{r.Pick([]string{"method", ">X-Evil", "user", "upstream"}), fmt.Sprintf("o%d%s", c20CustomNo, r.Pick(c20SiteEvil))})
	}
	return cs
}
var c20SiteEvil = []string{"{status}", "{>X-Evil}", "{size}{status}", "\\{x\\}", "}{", "{", "}", "plain", "a{host}b", "{~ck}", "{?q}",
	"{{method}}", "{>X-C20-Id}", "|{status}|{size}|", "\\{status}", "{status}\\", "\\", "\\}x\\{", "{\\"}

func c20GenSiteReq(r *Rand) *c20Req {
	q := &c20Req{}
	if r.Chance(80) {
		q.Headers = append(q.Headers, c20Hdr{"X-Evil", []string{r.Pick(c20SiteEvil)}})
	}
	if r.Chance(30) {
		q.Headers = append(q.Headers, c20Hdr{"User-Agent", []string{r.Pick(c20SiteEvil)}})
	}
	if r.Chance(30) {
		q.Headers = append(q.Headers, c20Hdr{"Referer", []string{r.Pick(c20SiteEvil)}})
	}
	if r.Chance(50) {
		q.Cookies = append(q.Cookies, [2]string{"ck", r.Pick([]string{"{status}", "c{size}v", "plain", "{>X-Evil}", "}{"})})
	}
	if r.Chance(50) {
		q.Query = append(q.Query, [2]string{"q", r.Pick(c20SiteEvil)})
	}
	return q
}

// c20DirsClean: one scope for all log directives, an except list on the last one only
func c20DirsClean(ds []c20Dir) bool {
	for i, d := range ds {
		if d.Scope != ds[0].Scope || (i < len(ds)-1 && len(d.Except) > 0) {
			return false
		}
	}
	return true
}

// several log directives with scopes, except lists and formats of their own, the file written in both orders:
// what one directive says must not reach another (nothing is carried from one directive's parse to the next)
var c20OwnTailMenu = []string{
	"{>X-Evil}{~ck}{?q}{>X-Evil}", "{>X-Evil}{>X-Evil}", "{method}{>X-Evil}{proto}", "{?q}\\{{>X-Evil}\\}{~ck}",
	"{method} {uri} {proto}", "{>X-Evil}|{>x-evil}|{>X-Missing}", "{~ck}|{~nock}|{?q}|{?noq}", "{nope}|{}|{label1}",
	"{host}|{path}|{query}|{file}|{dir}", "}{>X-Evil}{", "[{>User-Agent}] [{>Referer}] {~ck}",
}

func c20GenMulti(r *Rand) []*c20In {
	n := r.Range(2, 3)
	in := &c20In{Kind: "site", HasErr: r.Chance(40), Path: r.Pick(c20Paths), Tail: c20Tails[r.Intn(10)], Req: c20GenSiteReq(r)}
	in.Ops, in.Ret = c20GenOps(r, "site")
	tails := append([]string{}, c20OwnTailMenu...)
	for i := 0; i < n; i++ {
		d := c20Dir{Scope: r.Pick(c20Scopes[:8]), Split: r.Chance(40)}
		if r.Chance(60) {
			d.Scope = r.Pick([]string{"/", "/a"})
		}
		// except lists: the first directives mostly have one and the last mostly none, and the other way round
		if r.Chance(65) {
			d.Except = c20Subset(r, c20Excepts[:8], 3)
			if r.Chance(50) {
				d.Except = append(d.Except, in.Path)
			}
		}
		if i == 0 || r.Chance(70) {
			k := r.Intn(len(tails))
			d.Tail = tails[k]
			tails = append(tails[:k], tails[k+1:]...)
		}
		in.Dirs = append(in.Dirs, d)
	}
	rev := *in
	rev.Dirs = nil
	for i := n - 1; i >= 0; i-- {
		rev.Dirs = append(rev.Dirs, in.Dirs[i])
	}
	rq := *in.Req
	rev.Req = &rq
	return []*c20In{in, &rev}
}

func c20GenSite(r *Rand) *c20In {
	in := &c20In{Kind: "site", Dirs: c20GenDirs(r), HasErr: r.Chance(45), Head: r.Chance(8), Path: r.Pick(c20Paths),
		Tail: c20Tails[r.Intn(len(c20Tails))], Req: c20GenSiteReq(r)}
	in.Ops, in.Ret = c20GenOps(r, "site")
	if r.Chance(30) {
		in.Req.Custom, in.Via = c20GenCustom(r), r.Pick([]string{"rr", "ctx"})
		if r.Chance(70) {
			in.Tail = c20Tails[c20CustomTails[r.Intn(len(c20CustomTails))]]
		}
	}
	if r.Chance(20) {
		in.Wrap = r.Pick([]string{"gzip", "header"})
	}
	// inner directives / the handler rewrite r.URL.Path in place
	switch x := r.Intn(100); {
	case x < 10:
		in.Wrap = "rewrite"
		if r.Chance(70) {
			in.Path = r.Pick(c20RewriteFrom)
		}
	case x < 16:
		in.Wrap = "ext"
		if r.Chance(70) {
			in.Path = r.Pick([]string{"/x", "/a/b"})
		}
		if r.Chance(70) {
			k := r.Intn(len(in.Dirs))
			in.Dirs[k].Except = append(in.Dirs[k].Except, r.Pick([]string{"/x.html", "/a/b.html", "/x.h"}))
		}
	case x < 28:
		in.Rewrite = r.Pick(c20Paths)
	}
	return in
}

// the tails that show the request body (reading it is what a held request waits in)
var c20BodyTails = []string{"{request_body}|{method}|{>X-Evil}", "{method} {request_body} {c20u}|{upstream}", "{request_body}"}

var c20GatedNo int

// c20GenGated: a site with SEVERAL logs on one scope (1..7: the rule's entry slice has spare capacity for 3, 5, 6, 7)
// plus logs on narrower scopes, in any order; requests for DIFFERENT narrower scopes in flight together: some held
// inside the expansion of their first log line (their entry list computed, no line written yet) while the others are
// served to their end.  Every request owes exactly one line to every log whose scope contains it, in THAT log's file.
func c20GenGated(r *Rand) *c20In {
	shared := r.Pick([]string{"/", "/", "/a"})
	narrow := map[string][]string{"/": {"/a", "/c", "/x", "/a/b"}, "/a": {"/a/b", "/a/x", "/a/c"}}[shared]
	paths := map[string][]string{"/a": {"/a", "/a/y", "/a/z/1"}, "/c": {"/c", "/c/", "/c/d"}, "/x": {"/x", "/x/y"}, "/a/b": {"/a/b", "/a/b/c", "/a/b/c/d"},
		"/a/x": {"/a/x", "/a/x/1"}, "/a/c": {"/a/c", "/a/c/2"}}
	nshared := []int{3, 3, 3, 5, 6, 7, 1, 2, 4}[r.Intn(9)]
	nn := 2 + r.Intn(len(narrow)-1)
	ns := append([]string{}, narrow...)
	for i := len(ns) - 1; i > 0; i-- {
		j := r.Intn(i + 1)
		ns[i], ns[j] = ns[j], ns[i]
	}
	ns = ns[:nn]
	var dirs []c20Dir
	for i := 0; i < nshared; i++ {
		dirs = append(dirs, c20Dir{Scope: shared})
	}
	for _, n := range ns {
		d := c20Dir{Scope: n}
		if r.Chance(60) {
			// mostly after the shared ones (the shared rule is then the first one every request matches) ...
			dirs = append(dirs, d)
		} else {
			k := r.Intn(len(dirs) + 1) // ... but also in between and in front
			dirs = append(dirs[:k], append([]c20Dir{d}, dirs[k:]...)...)
		}
	}
	tail := r.Pick(c20BodyTails)
	hasErr := r.Chance(30)
	b := &c20In{Kind: "burst", Gated: true}
	nheld, nfree := 2+r.Intn(2), 2+r.Intn(4)
	for j := 0; j < nheld+nfree; j++ {
		c20GatedNo++
		x := &c20In{Kind: "site", Dirs: dirs, HasErr: hasErr, Tail: tail, Req: c20GenSiteReq(r)}
		sc := ns[j%len(ns)] // consecutive requests go to different narrower scopes
		if j >= nheld && r.Chance(25) {
			x.Path = r.Pick(c20Paths)
		} else {
			x.Path = r.Pick(paths[sc])
		}
		x.Req.Custom, x.Via = c20GenCustom(r), r.Pick([]string{"rr", "ctx"})
		x.Hold = j < nheld
		if x.Hold || r.Chance(40) {
			x.Req.Post, x.Req.Body = true, fmt.Sprintf("{\"n\":%d,\"v\":\"%s\"}", c20GatedNo, r.Pick([]string{"plain", "{status}", "a}b{c", "{>X-Evil}"}))
		}
		// small well-behaved answers: nothing is flushed before the chain returns
		for {
			x.Ops, x.Ret = c20GenOps(r, "site")
			tot := 0
			for _, o := range x.Ops {
				n, _ := o.offered()
				tot += n
			}
			if c20WellBehaved(x.Ops, x.Ret) && !c20Panics(x.Ops) && tot <= 1024 {
				break
			}
		}
		b.Burst = append(b.Burst, x)
	}
	return b
}

// c20GenAbort: the client resets the connection while the handler is writing more than the socket
// buffers hold; what the handler's Write calls report then is part of the observation
func c20GenAbort(r *Rand) *c20In {
	in := c20GenSite(r)
	for in.Wrap != "" || c20Panics(in.Ops) {
		in = c20GenSite(r)
	}
	in.Head, in.Rewrite = false, ""
	for t := 0; t < 20 && r.Chance(85) && !c20Matches(in.Path, in.Dirs[0].Scope); t++ {
		in.Path = r.Pick(c20Paths)
	}
	in.Ops = nil
	if r.Chance(40) {
		in.Ops = append(in.Ops, c20Op{K: "wh", N: 200})
	}
	// writes the socket buffers take whole, then more than they hold
	for r.Chance(50) {
		in.Ops = append(in.Ops, c20Op{K: r.Pick([]string{"w", "ws", "cp"}), N: []int{1, 4096, 100000, 300000}[r.Intn(4)]})
	}
	for i, n := 0, r.Range(3, 4); i < n; i++ {
		in.Ops = append(in.Ops, c20Op{K: r.Pick([]string{"w", "w", "w", "ws"}), N: 8 << 20})
	}
	if r.Chance(50) {
		in.Ops = append(in.Ops, c20Op{K: "w", N: 100})
	}
	in.Ret = c20Pick3(r, 0, 0, 404)
	in.Abort = []int{1, 3000, 100000, 1000000}[r.Intn(4)]
	return in
}

func c20Gen(r *Rand, tier string) []interface{} {
	nGated := 16
	if tier == "thorough" {
		nGated = 160
	}
	nRepl, nLog, nSite, nBurst, burstN, nAbort := 500, 500, 320, 5, 16, 10
	if tier == "thorough" {
		nRepl, nLog, nSite, nBurst, burstN, nAbort = 5000, 5000, 3200, 40, 32, 80
	}
	var out []interface{}
	// replacer: every placeholder of the menu alone and escaped, then structured and random formats
	base := c20GenReq(NewRand(7))
	for _, ph := range c20Placeholders {
		out = append(out, &c20In{Kind: "repl", Fmt: ph, Req: base})
		out = append(out, &c20In{Kind: "repl", Fmt: "a" + strings.NewReplacer("{", "\\{", "}", "\\}").Replace(ph) + "b " + ph, Req: c20GenReq(r)})
	}
	for i := 0; i < nRepl; i++ {
		in := &c20In{Kind: "repl", Req: c20GenReq(r)}
		switch x := r.Intn(10); {
		case x < 6:
			in.Fmt = c20GenFmt(r, true)
		case x < 8:
			in.Fmt = c20GenFmt(r, false)
		default:
			in.Fmt = c20RandBraces(r)
		}
		out = append(out, in)
	}
	// placeholders directly after one another, from position 0, values with backslashes and braces at their ends
	for i := 0; i < nRepl/4; i++ {
		in := &c20In{Kind: "repl", Req: c20GenReq(r)}
		vals := c20EvilValues[len(c20EvilValues)-11:]
		in.Req.Headers = []c20Hdr{{"X-Evil", []string{r.Pick(vals)}}, {"X-Other", []string{r.Pick(vals)}}}
		in.Req.Query = [][2]string{{"q", r.Pick(vals)}}
		in.Req.Custom = [][2]string{{"custom", r.Pick(vals)}}
		var sb strings.Builder
		for k, n := 0, r.Range(2, 5); k < n; k++ {
			sb.WriteString(r.Pick([]string{"{>X-Evil}", "{>X-Other}", "{?q}", "{custom}", "{method}", "{nope}", "{>X-Evil}"}))
		}
		if r.Chance(30) {
			sb.WriteString(r.Pick(c20Literals))
			sb.WriteString(r.Pick([]string{"{>X-Evil}", "{custom}"}))
		}
		in.Fmt = sb.String()
		out = append(out, in)
	}
	// the middleware over the scripted writer
	for i := 0; i < nLog; i++ {
		in := &c20In{Kind: "log", CS: r.Chance(25), EK: r.Intn(2), Path: r.Pick(c20Paths), RFW: r.Bool()}
		nr := 1
		if r.Chance(30) {
			nr = 2
		}
		used := map[string]bool{}
		for j := 0; j < nr; j++ {
			sc := r.Pick(c20Scopes)
			for t := 0; t < 3 && j == 0 && !c20Matches(in.Path, sc); t++ {
				sc = r.Pick(c20Scopes)
			}
			if used[sc] {
				continue
			}
			used[sc] = true
			ru := c20Rule{Scope: sc}
			ne := 1
			if r.Chance(35) {
				ne = r.Range(2, 3)
			}
			for k := 0; k < ne; k++ {
				var e c20Entry
				if r.Chance(45) {
					e.Except = c20Subset(r, c20Excepts, 2)
				}
				ru.Entries = append(ru.Entries, e)
			}
			in.Rules = append(in.Rules, ru)
		}
		in.Ops, in.Ret = c20GenOps(r, "log")
		if r.Chance(30) {
			// the handler rewrites r.URL.Path: into / out of the scopes and the exceptions
			in.Rewrite = r.Pick(c20Paths)
		}
		out = append(out, in)
	}
	// running sites
	for i := 0; i < nSite; i++ {
		out = append(out, c20GenSite(r))
	}
	// several log directives, each with its own scope / except list / format, in both orders of the file
	for i := 0; i < nSite/8; i++ {
		for _, x := range c20GenMulti(r) {
			out = append(out, x)
		}
	}
	// the client resets the connection in mid-response
	for i := 0; i < nAbort; i++ {
		out = append(out, c20GenAbort(r))
	}
	// concurrent bursts against one site; every request sets custom placeholders with values of its own
	for i := 0; i < nBurst; i++ {
		first := c20GenSite(r)
		for i%2 == 0 && !c20DirsClean(first.Dirs) {
			first = c20GenSite(r)
		}
		first.Head = false
		if i%4 != 3 {
			first.Tail = c20Tails[c20CustomTails[r.Intn(len(c20CustomTails))]]
		}
		b := &c20In{Kind: "burst"}
		for j := 0; j < burstN; j++ {
			x := c20GenSite(r)
			x.Dirs, x.HasErr, x.Tail, x.Head, x.Wrap = first.Dirs, first.HasErr, first.Tail, false, first.Wrap
			x.Req.Custom, x.Via = c20GenCustom(r), r.Pick([]string{"rr", "ctx"})
			if i%2 == 0 {
				// clean bursts: well-behaved handlers only
				for c20SiteSig(x) != "site:clean" {
					x.Ops, x.Ret = c20GenOps(r, "site")
				}
			}
			b.Burst = append(b.Burst, x)
		}
		out = append(out, b)
	}
	// requests for different narrower scopes of one site in flight together, some held inside their log-line expansion
	for i := 0; i < nGated; i++ {
		out = append(out, c20GenGated(r))
	}
	out = append(out, &c20In{Kind: "end"})
	return out
}

// ---------------------------------------------------------------------------------------------
// translator: the case labels of getSubstitution's switch

func c20GenCoq(repo string) (string, error) {
	_, f, err := parseGo(filepath.Join(repo, "caskethttp/httpserver/replacer.go"))
	if err != nil {
		return "", err
	}
	var vocab []string
	found := false
	for _, d := range f.Decls {
		fd, ok := d.(*ast.FuncDecl)
		if !ok || fd.Name.Name != "getSubstitution" || fd.Body == nil {
			continue
		}
		found = true
		ast.Inspect(fd.Body, func(n ast.Node) bool {
			cc, ok := n.(*ast.CaseClause)
			if !ok {
				return true
			}
			for _, e := range cc.List {
				if s, ok := c18StringLit(e); ok && strings.HasPrefix(s, "{") {
					vocab = append(vocab, s)
				}
			}
			return true
		})
	}
	if !found || len(vocab) == 0 {
		return "", fmt.Errorf("getSubstitution's switch labels not found in replacer.go")
	}
	c20VocabNote(vocab)
	return "(* replacer.getSubstitution: the `case \"{…}\"` labels of the default vocabulary *)\n" +
		"Definition gen_c20_vocab : list bytes := " + cStrList(vocab) + ".\n", nil
}

// c20VocabNote prints (into the evidence's translator note) how the model treats each regenerated label:
// computed by the model from the request (Fn) or an oracle value handed in. The classification is read
// from the dispatch table in coq/C20_Model.v; that the table and the labels are the same set is the
// kernel-checked theorem C20_vocabulary_is_dispatch_table, not this note.
func c20VocabNote(vocab []string) {
	root := os.Getenv("VERIF_ROOT")
	if root == "" {
		return
	}
	b, err := os.ReadFile(filepath.Join(root, "coq", "C20_Model.v"))
	if err != nil {
		return
	}
	re := regexp.MustCompile(`\(bs "(\{[a-z_0-9]+\})", (Fn|Oracle)`)
	how := map[string]string{}
	for _, m := range re.FindAllStringSubmatch(string(b), -1) {
		how[m[1]] = m[2]
	}
	var fn, or, missing, extra []string
	inVocab := map[string]bool{}
	for _, l := range vocab {
		inVocab[l] = true
		switch how[l] {
		case "Fn":
			fn = append(fn, l)
		case "Oracle":
			or = append(or, l)
		default:
			missing = append(missing, l)
		}
	}
	for l := range how {
		if !inVocab[l] {
			extra = append(extra, l)
		}
	}
	sort.Strings(extra)
	fmt.Printf("C20 vocabulary: %d labels in getSubstitution's switch; model dispatch table: %d computed by the model from the request %v, %d oracle values (Go stdlib on the generator's request, or not judged) %v; labels without a model entry %v; model entries without a label %v\n",
		len(vocab), len(fn), fn, len(or), or, missing, extra)
}

func init() {
	extraCommands["c20child"] = c20ChildMain
	registerGen("Gen_C20.v", c20GenCoq)
	register(&Property{
		ID: "C20", Imports: "V.Lib V.C20_Model", Judge: "judge", Shard: 100,
		Rule: "repl = the real Replace on a generated request/format (placeholder values handed to Coq come from the generator, not the implementation); log = log.Logger.ServeHTTP over a scripted handler and a scripted writer; gated burst = requests for different narrower log scopes of a site with several logs on one scope, in flight together, some held inside the expansion of their first log line by a withheld {request_body}, judged per log file; site/burst = raw HTTP/1.1 requests (sequential / concurrent) to a running instance with log [+errors] directives and a probe directive, log files vs client-observed status and body length; non-trivial = the format has a brace, resp. the request is inside some log scope; distinct = distinct case term",
		Gen: c20Gen,
		Decode: func(raw json.RawMessage) (interface{}, error) {
			in := &c20In{}
			return in, json.Unmarshal(raw, in)
		},
		Run: c20Run,
	})
}
