package main

// C04 "relay" cases: the response half of ReverseProxy.ServeHTTP observed call by call. The backend
// is the scripted transport; its body reader follows a script (pattern body, a cap for every Read -
// 0 = a Read that returns (0, nil) -, EOF together with or after the last bytes); the client side is
// a recording http.ResponseWriter (+ http.Flusher) that logs WriteHeader / Write(n) / Flush in
// order, the header map at WriteHeader time and the keys assigned afterwards (trailers).
// FlushInterval is 0: the calls are exactly those of ServeHTTP + copyResponse/pooledIoCopy, which the
// model (resp_ops over copy_writes with the 32 KiB pooled buffer) predicts one by one.

import (
	"bytes"
	"fmt"
	"io"
	"net/http"
	"sort"
	"strings"

	"github.com/tmpim/casket/caskethttp/proxy"
)

type c04Relay struct {
	Salt   int   `json:"salt"`
	Len    int   `json:"len"`
	Script []int `json:"script,omitempty"`
	EOFD   bool  `json:"eofd,omitempty"`
}

type c04RecWriter struct {
	h     http.Header
	snap  http.Header
	ops   []string
	terms []string
	body  bytes.Buffer
}

func (w *c04RecWriter) Header() http.Header { return w.h }
func (w *c04RecWriter) WriteHeader(st int) {
	if w.snap == nil {
		w.snap = w.h.Clone()
	}
	w.ops = append(w.ops, fmt.Sprintf("WriteHeader(%d)", st))
	w.terms = append(w.terms, cApp("XWriteHeader", cN(uint64(st))))
}
func (w *c04RecWriter) Write(p []byte) (int, error) {
	if w.snap == nil {
		w.WriteHeader(200)
	}
	w.ops = append(w.ops, fmt.Sprintf("Write(%d)", len(p)))
	w.terms = append(w.terms, cApp("XWrite", cN(uint64(len(p)))))
	w.body.Write(p)
	return len(p), nil
}
func (w *c04RecWriter) Flush() {
	w.ops = append(w.ops, "Flush")
	w.terms = append(w.terms, "XFlush")
}

type c04ScriptBody struct {
	data   []byte
	script []int
	eofd   bool
	res    *http.Response
	tr     http.Header
	done   bool
}

func (b *c04ScriptBody) Read(p []byte) (int, error) {
	if len(b.data) == 0 {
		if !b.done {
			b.done = true
			for k, vv := range b.tr { // net/http's transport merges the received trailer at EOF
				if b.res.Trailer == nil {
					b.res.Trailer = http.Header{}
				}
				b.res.Trailer[k] = append([]string(nil), vv...)
			}
		}
		return 0, io.EOF
	}
	n := len(p)
	if len(b.script) > 0 {
		if b.script[0] < n {
			n = b.script[0]
		}
		b.script = b.script[1:]
	}
	if n > len(b.data) {
		n = len(b.data)
	}
	copy(p, b.data[:n])
	b.data = b.data[n:]
	if len(b.data) == 0 && b.eofd {
		b.done = true
		for k, vv := range b.tr {
			if b.res.Trailer == nil {
				b.res.Trailer = http.Header{}
			}
			b.res.Trailer[k] = append([]string(nil), vv...)
		}
		return n, io.EOF
	}
	return n, nil
}
func (b *c04ScriptBody) Close() error { return nil }

func c04RunRelay(in *c04In) Result {
	rl := in.Relay
	ups, err := c04Upstreams("proxy / http://h0.test\n")
	if err != nil || len(ups) != 1 {
		return Result{Term: c04Trivial, Obs: fmt.Sprint("setup error: ", err), Class: "relay:setup-error", Sig: "relay:setup-error"}
	}
	defer ups[0].Stop()
	rt := roundTripFunc(func(r *http.Request) (*http.Response, error) {
		res := &http.Response{StatusCode: in.RStatus, Status: fmt.Sprintf("%d status", in.RStatus), Proto: "HTTP/1.1", ProtoMajor: 1, ProtoMinor: 1,
			Header: c04Lines(in.RHdr), Request: r, ContentLength: -1}
		if len(in.RAnn) > 0 {
			res.Trailer = http.Header{}
			for _, k := range in.RAnn {
				res.Trailer[k] = nil
			}
		}
		res.Body = &c04ScriptBody{data: c04BodyOf(rl.Len, rl.Salt), script: append([]int(nil), rl.Script...), eofd: rl.EOFD, res: res, tr: c04Lines(in.RTrailers)}
		return res, nil
	})
	for _, h := range hostsOf(ups[0]) {
		h.ReverseProxy.Transport = rt
		h.ReverseProxy.FlushInterval = 0
	}
	p := proxy.Proxy{Next: handlerFunc(func(w http.ResponseWriter, r *http.Request) (int, error) { return 404, nil }), Upstreams: ups}
	req, err := c04ParseRequest(&c04In{Method: "GET", Target: "/relay", Host: "front.test", Remote: "192.0.2.7:4711"})
	if err != nil {
		return Result{Term: c04Trivial, Obs: "request rejected", Class: "relay:setup-error", Sig: "relay:setup-error"}
	}
	w := &c04RecWriter{h: http.Header{}}
	direct := ""
	func() {
		defer func() {
			if e := recover(); e != nil {
				direct = fmt.Sprint("panic in Proxy.ServeHTTP: ", e)
			}
		}()
		p.ServeHTTP(w, req)
	}()
	if w.snap == nil {
		w.snap = http.Header{}
	}
	trh := "None"
	if vv, ok := w.snap["Trailer"]; ok {
		trh = "(Some " + c04SList(vv) + ")"
	}
	post := http.Header{}
	for k, vv := range w.h {
		if sv, ok := w.snap[k]; !ok || strings.Join(sv, "\x00") != strings.Join(vv, "\x00") || (len(vv) == 0 && len(sv) == 0 && strings.HasPrefix(k, http.TrailerPrefix)) {
			post[k] = vv
		}
	}
	conc := &c04Conc{}
	obs := cApp("Build_relay_obs", trh, cList(w.terms), c04Hdr(post), c04BObsTerm(c04Observe(w.body.Bytes(), rl.Salt, rl.Len, conc)))
	term := cApp("CRelay", c04Bresp(in.RStatus, c04Lines(in.RHdr), in.RAnn, c04Lines(in.RTrailers)), cN(uint64(rl.Salt)), cN(uint64(rl.Len)), cNatList(rl.Script), cBool(rl.EOFD), obs)
	pk := make([]string, 0, len(post))
	for k := range post {
		pk = append(pk, k)
	}
	sort.Strings(pk)
	class := "relay:plain"
	switch {
	case len(in.RAnn) > 0 && len(in.RTrailers) > 0:
		class = "relay:trailers"
	case len(in.RAnn) > 0:
		class = "relay:announced-only"
	case len(in.RTrailers) > 0:
		class = "relay:unannounced"
	}
	sig := "relay"
	if c04TrailerSharesHeader(in, w.snap) {
		sig = c04SigSharedTrailer
	}
	return Result{Term: term, Obs: map[string]interface{}{"ops": w.ops, "trailer_header": w.snap["Trailer"], "post_keys": pk, "len": w.body.Len()}, Sig: sig, Class: class,
		Direct: direct, Nontrivial: rl.Len > 0}
}

func c04GenRelay(r *Rand, i int) *c04In {
	sizes := []int{0, 1, 2, 100, 2047, 2048, 2049, 4096, 32767, 32768, 32769, 65535, 65536, 65537, 3*32768 + 7}
	rl := &c04Relay{Salt: r.Range(0, 252), Len: sizes[i%len(sizes)], EOFD: r.Bool()}
	if r.Chance(25) {
		rl.Len = r.Range(0, 70000)
	}
	for k := r.Intn(7); k > 0; k-- {
		rl.Script = append(rl.Script, c04PickInt(r, []int{0, 1, 7, 512, 2048, 2049, 32767, 32768, 32769, 40000, 100000}))
	}
	in := &c04In{Kind: "relay", Relay: rl, RStatus: []int{200, 200, 201, 404, 500, 206}[r.Intn(6)]}
	in.RHdr = [][2]string{{"Content-Type", "application/x-test"}}
	for _, l := range [][2]string{{"X-B", "b2"}, {"Set-Cookie", "a=1"}, {"Keep-Alive", "timeout=5"}, {"Connection", "X-Drop"}, {"X-Drop", "1"}} {
		if r.Chance(30) {
			in.RHdr = append(in.RHdr, l)
		}
	}
	if r.Chance(60) {
		tk := []string{"X-T1", "X-T2", "X-U1"}
		for _, k := range tk {
			if r.Chance(45) {
				in.RAnn = append(in.RAnn, k)
			}
		}
		for _, k := range tk {
			if r.Chance(55) {
				in.RTrailers = append(in.RTrailers, [2]string{k, r.Pick([]string{"t1", "t2"})})
				if r.Chance(20) {
					in.RTrailers = append(in.RTrailers, [2]string{k, "t3"})
				}
			}
		}
		// the recording writer tells an assignment by the changed value: header values differ from the trailer values
		c04ShareTrailerNames(r, in, false, []string{"pending", "v1"})
	}
	return in
}
