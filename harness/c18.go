package main

// C18 — compression never changes what the client decodes.
//
// Every case is run against TWO real casket instances on loopback that differ only in the gzip
// blocks: G (with gzip) and P (without). The innermost handler is either a scripted probe
// directive (registered through the public plugin API; the script of header ops / WriteHeader /
// Write / Flush is the case input) or casket's own static file server on a fixture tree with
// every combination of precompressed siblings. Both wire responses (transparent decompression
// off) go to Coq, where the model predicts each of them and the executable spec relates them.

import (
	"bufio"
	"bytes"
	"compress/gzip"
	"compress/zlib"
	"encoding/json"
	"fmt"
	"go/ast"
	"go/token"
	"io"
	"net"
	"net/http"
	"net/http/httptest"
	"os"
	"path"
	"path/filepath"
	"runtime"
	"sort"
	"strconv"
	"strings"
	"sync"
	"time"

	"github.com/andybalholm/brotli"
	"github.com/klauspost/compress/zstd"
	"github.com/tmpim/casket"
	_ "github.com/tmpim/casket/caskethttp"
	"github.com/tmpim/casket/caskethttp/httpserver"
)

// ---------------------------------------------------------------------------------------------
// inputs

type c18Cfg struct {
	Exts  []string `json:"exts,omitempty"`
	Not   []string `json:"not,omitempty"`
	Level string   `json:"level,omitempty"`
	Min   int64    `json:"min,omitempty"`
}
type c18Op struct {
	K string `json:"k"` // set | add | del | wh | w | f
	A string `json:"a,omitempty"`
	B string `json:"b,omitempty"`
	N int    `json:"n,omitempty"`
	D []byte `json:"d,omitempty"` // payload of "w"
}
type c18In struct {
	Kind   string   `json:"kind"` // script | static | big | ext
	Cfgs   []c18Cfg `json:"cfgs,omitempty"`
	Method string   `json:"method,omitempty"`
	Path   string   `json:"path,omitempty"`
	AE     string   `json:"ae,omitempty"`
	NoAE   bool     `json:"noae,omitempty"` // do not send the header at all
	CS     bool     `json:"cs,omitempty"`   // httpserver.CaseSensitivePath during the request
	Script []c18Op  `json:"script,omitempty"`
	Ret    int      `json:"ret,omitempty"`
	Stream string   `json:"stream,omitempty"` // generator stream (for the class histogram only)
	// big: writes are generated (size, kind) pairs
	Big []c18BigW `json:"big,omitempty"`
	// burst: concurrent requests, each with its own generated writes
	Burst  [][]c18BigW `json:"burst,omitempty"`
	Rounds int         `json:"rounds,omitempty"`
	// history: requests sent (one after the other) before every round of the burst; their own
	// responses are not judged (most of them break the handler contract), what is judged is that
	// they leave nothing behind that changes a later response
	Pre []c18Pre `json:"pre,omitempty"`
	// the handlers of one round wait for one another after their first write, so that all of
	// them hold their pooled writer at the same time
	Hold bool `json:"hold,omitempty"`
	// GOMAXPROCS during the burst (0 = unchanged): 1 makes sync.Pool hand out its contents in a
	// fixed order, more exposes real parallelism
	Procs int `json:"procs,omitempty"`
	// the gzip middleware is set up from the same directive text but chained directly in front of
	// the probe, without the errors middleware that a Casketfile site always gets inside gzip:
	// an error status of the handler then reaches Gzip.ServeHTTP itself
	Direct bool `json:"direct,omitempty"`
}

// c18Pre is one request of the history of a burst.
type c18Pre struct {
	Kind   string `json:"kind"`            // ok | err | err-after-write | panic-after-write | abort | plain
	Status int    `json:"status,omitempty"` // status the handler returns (err kinds)
	N      int    `json:"n,omitempty"`      // bytes written before that
	Flush  bool   `json:"flush,omitempty"`
}
type c18BigW struct {
	N     int  `json:"n"`
	Rnd   bool `json:"rnd,omitempty"` // incompressible bytes
	Flush bool `json:"flush,omitempty"`
	Seed  int  `json:"seed,omitempty"`
}

// ---------------------------------------------------------------------------------------------
// probe directive (innermost middleware): runs the current script when asked to

type c18Script struct {
	script []c18Op
	ret    int
}

var c18Cur c18Script // the script of sequential cases (X-C18-Probe: 1)
var c18Burst struct { // scripts of concurrent bursts (X-C18-Probe: b<i>)
	sync.RWMutex
	m map[string]c18Script
}

type c18Probe struct{ next httpserver.Handler }

func (p c18Probe) ServeHTTP(w http.ResponseWriter, r *http.Request) (int, error) {
	id := r.Header.Get("X-C18-Probe")
	if id == "" {
		return p.next.ServeHTTP(w, r)
	}
	sc := c18Cur
	if id != "1" {
		c18Burst.RLock()
		sc = c18Burst.m[id]
		c18Burst.RUnlock()
	}
	for _, o := range sc.script {
		switch o.K {
		case "set":
			w.Header().Set(o.A, o.B)
		case "add":
			w.Header().Add(o.A, o.B)
		case "del":
			w.Header().Del(o.A)
		case "wh":
			w.WriteHeader(o.N)
		case "w":
			w.Write(o.D)
		case "f":
			if f, ok := w.(http.Flusher); ok {
				f.Flush()
			}
		case "sync":
			c18Barrier.wait()
		case "panic":
			panic("c18probe: scripted panic")
		}
	}
	return sc.ret, nil
}

// c18Barrier lets the handlers of one burst round meet: each waits until all have arrived (or
// a timeout passes: a request that never reaches its handler must not hang the others).
var c18Barrier c18BarrierT

type c18BarrierT struct {
	sync.Mutex
	target, arrived int
	ch              chan struct{}
}

func (b *c18BarrierT) reset(n int) {
	b.Lock()
	b.target, b.arrived, b.ch = n, 0, make(chan struct{})
	b.Unlock()
}
func (b *c18BarrierT) wait() {
	b.Lock()
	ch := b.ch
	if ch == nil {
		b.Unlock()
		return
	}
	b.arrived++
	if b.arrived == b.target {
		close(ch)
	}
	b.Unlock()
	select {
	case <-ch:
	case <-time.After(400 * time.Millisecond):
	}
}

// ---------------------------------------------------------------------------------------------
// sites

var c18Sites = map[string]*liveSite{}

func c18Site(body string) (*liveSite, error) {
	if s, ok := c18Sites[body]; ok {
		return s, nil
	}
	c18Register()
	if len(c18Sites) >= 64 {
		for k, s := range c18Sites {
			s.inst.Stop()
			delete(c18Sites, k)
		}
	}
	casket.Quiet = true
	text := "127.0.0.1:0 {\n" + body + "\n}\n"
	inst, err := casket.Start(casket.CasketfileInput{Contents: []byte(text), Filepath: "Casketfile", ServerTypeName: "http"})
	if err != nil {
		return nil, err
	}
	srvs := inst.Servers()
	if len(srvs) == 0 {
		inst.Stop()
		return nil, fmt.Errorf("no servers")
	}
	_, port, _ := net.SplitHostPort(srvs[0].Addr().String())
	s := &liveSite{inst: inst, addr: "127.0.0.1:" + port, text: body}
	c18Sites[body] = s
	return s, nil
}

// c18DirectSite chains the gzip middleware configured by text directly in front of the probe
// and serves it with net/http; the outermost function does what Server.ServeHTTP does with the
// result of the chain (recover, error text for a status >= 400).
var c18Direct = map[string]string{}

func c18DirectSite(text string) (string, error) {
	if a, ok := c18Direct[text]; ok {
		return a, nil
	}
	c18Register()
	sc, err := setupDirective("gzip", text)
	if err != nil {
		return "", err
	}
	chain := compile(sc.Middleware(), c18Probe{next: handlerFunc(func(w http.ResponseWriter, r *http.Request) (int, error) {
		return http.StatusNotFound, nil
	})})
	srv := httptest.NewServer(http.HandlerFunc(func(w http.ResponseWriter, r *http.Request) {
		defer func() {
			if rec := recover(); rec != nil {
				httpserver.DefaultErrorFunc(w, r, http.StatusInternalServerError)
			}
		}()
		status, _ := chain.ServeHTTP(w, r)
		if status >= 400 {
			httpserver.DefaultErrorFunc(w, r, status)
		}
	}))
	c18Direct[text] = srv.Listener.Addr().String()
	return c18Direct[text], nil
}

func c18Quote(s string) string {
	if s == "" {
		return `""`
	}
	return s
}

func c18CfgText(cfgs []c18Cfg) string {
	var sb strings.Builder
	for _, c := range cfgs {
		sb.WriteString("gzip {\n")
		if len(c.Exts) > 0 {
			sb.WriteString("  ext")
			for _, e := range c.Exts {
				sb.WriteString(" " + c18Quote(e))
			}
			sb.WriteString("\n")
		}
		if len(c.Not) > 0 {
			sb.WriteString("  not " + strings.Join(c.Not, " ") + "\n")
		}
		if c.Level != "" {
			sb.WriteString("  level " + c.Level + "\n")
		}
		if c.Min != 0 {
			fmt.Fprintf(&sb, "  min_length %d\n", c.Min)
		}
		sb.WriteString("}\n")
	}
	return sb.String()
}

// ---------------------------------------------------------------------------------------------
// fixture: files with every combination of precompressed siblings, real encodings

var c18Root string
var c18Files = map[string][]byte{} // relative name -> content (siblings included)

var c18FixExts = []string{".txt", ".html", ".png", ""}
var c18FixDirs = []string{"", "skip/", "a/b/"}
var c18FixSizes = []int{0, 37, 400, 2600}

func c18Content(name string, n int) []byte {
	words := []string{"alpha ", "beta ", "gamma\n", "<p>delta</p>", "0123456789", name + " "}
	var b bytes.Buffer
	h := fnv32a(name)
	for b.Len() < n {
		h = h*1664525 + 1013904223
		b.WriteString(words[int(h>>24)%len(words)])
	}
	return b.Bytes()[:n]
}

func c18Gzip(b []byte) []byte {
	var o bytes.Buffer
	w := gzip.NewWriter(&o)
	w.Write(b)
	w.Close()
	return o.Bytes()
}
func c18Zstd(b []byte) []byte {
	enc, err := zstd.NewWriter(nil)
	if err != nil {
		panic(err)
	}
	defer enc.Close()
	return enc.EncodeAll(b, nil)
}
func c18Brotli(b []byte) []byte {
	var o bytes.Buffer
	w := brotli.NewWriter(&o)
	w.Write(b)
	w.Close()
	return o.Bytes()
}
func c18Zlib(b []byte) []byte {
	var o bytes.Buffer
	w := zlib.NewWriter(&o)
	w.Write(b)
	w.Close()
	return o.Bytes()
}

func c18FixName(dir string, mask, size int, ext string) string {
	return fmt.Sprintf("%sf%d_%d%s", dir, mask, size, ext)
}

func c18Fixture() string {
	if c18Root != "" {
		return c18Root
	}
	base := os.Getenv("VERIF_ROOT")
	if base == "" {
		base = os.TempDir()
	} else {
		base = filepath.Join(base, "run")
	}
	os.MkdirAll(base, 0o755)
	if old, _ := filepath.Glob(filepath.Join(base, "c18fix*")); len(old) > 0 {
		for _, d := range old { // fixtures of earlier runs
			os.RemoveAll(d)
		}
	}
	root, err := os.MkdirTemp(base, "c18fix")
	if err != nil {
		panic(err)
	}
	files := map[string]string{}
	for _, dir := range c18FixDirs {
		for _, ext := range c18FixExts {
			for _, size := range c18FixSizes {
				for mask := 0; mask < 8; mask++ {
					if size == 2600 && (dir != "" || (mask != 0 && mask != 1 && mask != 4 && mask != 7)) {
						continue
					}
					name := c18FixName(dir, mask, size, ext)
					data := c18Content(name, size)
					files[name] = string(data)
					if mask&4 != 0 {
						files[name+".zst"] = string(c18Zstd(data))
					}
					if mask&2 != 0 {
						files[name+".br"] = string(c18Brotli(data))
					}
					if mask&1 != 0 {
						files[name+".gz"] = string(c18Gzip(data))
					}
				}
			}
		}
	}
	if err := writeFixture(root, files); err != nil {
		panic(err)
	}
	for k, v := range files {
		c18Files[k] = []byte(v)
	}
	c18Root = root
	return root
}

// ---------------------------------------------------------------------------------------------
// raw round trip and observation

type c18Obs struct {
	Status int
	CE     []string
	CL     []string
	Vary   []string
	ETag   string
	Body   []byte
	Gunz   []byte
	GunzOK bool
	VCod   []string
	View   []byte
	VOK    bool
	Err    string
}

func c18Do(addr, method, target string, hdr map[string]string) c18Obs {
	conn, err := net.DialTimeout("tcp", addr, 2*time.Second)
	if err != nil {
		return c18Obs{Err: "dial: " + err.Error()}
	}
	defer conn.Close()
	conn.SetDeadline(time.Now().Add(10 * time.Second))
	var sb bytes.Buffer
	fmt.Fprintf(&sb, "%s %s HTTP/1.1\r\nHost: %s\r\n", method, target, addr)
	keys := make([]string, 0, len(hdr))
	for k := range hdr {
		keys = append(keys, k)
	}
	sort.Strings(keys)
	for _, k := range keys {
		fmt.Fprintf(&sb, "%s: %s\r\n", k, hdr[k])
	}
	sb.WriteString("Connection: close\r\n\r\n")
	if _, err := conn.Write(sb.Bytes()); err != nil {
		return c18Obs{Err: "write: " + err.Error()}
	}
	rd := bufio.NewReader(conn)
	resp, err := http.ReadResponse(rd, &http.Request{Method: method})
	// informational responses (1xx other than 101) precede the final one; a client skips them
	for n := 0; err == nil && resp.StatusCode >= 100 && resp.StatusCode < 200 && resp.StatusCode != 101 && n < 16; n++ {
		resp.Body.Close()
		resp, err = http.ReadResponse(rd, &http.Request{Method: method})
	}
	if err != nil {
		return c18Obs{Err: "read: " + err.Error()}
	}
	defer resp.Body.Close()
	b, rerr := io.ReadAll(resp.Body)
	o := c18Obs{Status: resp.StatusCode, CE: resp.Header["Content-Encoding"], CL: resp.Header["Content-Length"],
		Vary: resp.Header["Vary"], ETag: resp.Header.Get("Etag"), Body: b}
	if rerr != nil {
		o.Err = "body: " + rerr.Error()
	}
	o.Gunz, o.GunzOK = c18Gunzip(b)
	o.VCod, o.View, o.VOK = c18View(o.CE, b)
	return o
}

// c18Gunzip decodes b if it is exactly one complete gzip stream (no trailing bytes).
func c18Gunzip(b []byte) ([]byte, bool) {
	br := bytes.NewReader(b)
	zr, err := gzip.NewReader(br)
	if err != nil {
		return nil, false
	}
	zr.Multistream(false)
	d, err := io.ReadAll(zr)
	if err != nil || br.Len() != 0 {
		return nil, false
	}
	return d, true
}

var c18ZstdDec *zstd.Decoder

func c18Decode(coding string, b []byte) ([]byte, bool, bool) { // data, known coding, ok
	switch coding {
	case "identity":
		return b, true, true
	case "gzip", "x-gzip":
		d, ok := c18Gunzip(b)
		return d, true, ok
	case "zstd":
		if c18ZstdDec == nil {
			c18ZstdDec, _ = zstd.NewReader(nil)
		}
		d, err := c18ZstdDec.DecodeAll(b, nil)
		return d, true, err == nil
	case "br":
		d, err := io.ReadAll(brotli.NewReader(bytes.NewReader(b)))
		return d, true, err == nil
	case "deflate":
		zr, err := zlib.NewReader(bytes.NewReader(b))
		if err != nil {
			return nil, true, false
		}
		d, err := io.ReadAll(zr)
		return d, true, err == nil
	}
	return b, false, true
}

// c18View peels the codings named by Content-Encoding, last applied first, as a client would.
func c18View(ce []string, b []byte) ([]string, []byte, bool) {
	var toks []string
	for _, v := range ce {
		for _, t := range strings.Split(v, ",") {
			t = strings.ToLower(strings.Trim(t, " \t"))
			if t != "" {
				toks = append(toks, t)
			}
		}
	}
	for len(toks) > 0 {
		d, known, ok := c18Decode(toks[len(toks)-1], b)
		if !known {
			break
		}
		if !ok {
			return toks, b, false
		}
		b = d
		toks = toks[:len(toks)-1]
	}
	return toks, b, true
}

// c18Emit interns the long byte strings of one case: each distinct one is bound once by a
// let in front of the case term, as a packed literal (C18_LibPack.pk: 7 bytes per uint63).
type c18Emit struct {
	names map[string]string
	order []string
}

func (e *c18Emit) B(b []byte) string {
	if len(b) <= 16 {
		return cBytes(b)
	}
	if e.names == nil {
		e.names = map[string]string{}
	}
	if n, ok := e.names[string(b)]; ok {
		return n
	}
	n := fmt.Sprintf("v%d", len(e.order))
	e.names[string(b)] = n
	e.order = append(e.order, string(b))
	return n
}

func c18Pk(b []byte) string {
	var sb strings.Builder
	fmt.Fprintf(&sb, "(pk %d [", len(b))
	for i := 0; i < len(b); i += 7 {
		var w [7]byte
		copy(w[:], b[i:])
		if i > 0 {
			sb.WriteString(";")
		}
		fmt.Fprintf(&sb, "0x%x", w[:])
	}
	sb.WriteString("]%uint63)")
	return sb.String()
}

func (e *c18Emit) Wrap(term string) string {
	if len(e.order) == 0 {
		return term
	}
	var sb strings.Builder
	sb.WriteString("(")
	for i, d := range e.order {
		fmt.Fprintf(&sb, "let v%d := %s in\n   ", i, c18Pk([]byte(d)))
	}
	sb.WriteString(term + ")")
	return sb.String()
}

func (e *c18Emit) Opt(b []byte, ok bool) string {
	if !ok {
		return "None"
	}
	return "(Some " + e.B(b) + ")"
}

func (o c18Obs) term(e *c18Emit) string {
	return cApp("Build_obs", cZ(int64(o.Status)), cStrList(o.CE), cStrList(o.CL), cStrList(o.Vary), cStr(o.ETag),
		e.B(o.Body), e.Opt(o.Gunz, o.GunzOK), cStrList(o.VCod), e.B(o.View), cBool(o.VOK), cBool(o.Err != ""))
}
func (o c18Obs) brief() map[string]interface{} {
	b := o.Body
	if len(b) > 48 {
		b = b[:48]
	}
	return map[string]interface{}{"status": o.Status, "ce": o.CE, "cl": o.CL, "vary": o.Vary, "etag": o.ETag, "len": len(o.Body),
		"body_head": fmt.Sprintf("%q", b), "gunzip_ok": o.GunzOK, "view_len": len(o.View), "view_left": o.VCod, "view_ok": o.VOK, "err": o.Err}
}

func c18CfgTerm(cfgs []c18Cfg) string {
	var it []string
	for _, c := range cfgs {
		it = append(it, cApp("Build_gcfg", cStrList(c.Exts), cStrList(c.Not), cZ(c.Min)))
	}
	return cList(it)
}

func c18OpsTerm(e *c18Emit, ops []c18Op) string {
	var it []string
	for _, o := range ops {
		k := http.CanonicalHeaderKey(o.A)
		switch o.K {
		case "set":
			it = append(it, cApp("OSet", cStr(k), cStr(o.B)))
		case "add":
			it = append(it, cApp("OAdd", cStr(k), cStr(o.B)))
		case "del":
			it = append(it, cApp("ODel", cStr(k)))
		case "wh":
			it = append(it, cApp("OWriteHeader", cZ(int64(o.N))))
		case "w":
			it = append(it, cApp("OWrite", e.B(o.D)))
		case "f":
			it = append(it, "OFlush")
		}
	}
	return cList(it)
}

// ---------------------------------------------------------------------------------------------
// hazards: trigger conditions of the known failing classes, computed from the input only

// spellings the gzip layer used to recognise; the others keep their own input class
var c18Listed = map[string]bool{"gzip": true, "compress": true, "deflate": true, "br": true}

// rfcOffersGzip is only used to name the input class (the verdict is Coq's offers_gzip).
func c18RFCOffersGzip(ae string) bool {
	type ent struct {
		name string
		q0   bool
	}
	var es []ent
	for _, e := range strings.Split(ae, ",") {
		parts := strings.Split(e, ";")
		en := ent{name: strings.ToLower(strings.Trim(parts[0], " \t"))}
		for _, p := range parts[1:] {
			p = strings.ToLower(strings.Trim(p, " \t"))
			if strings.HasPrefix(p, "q=") {
				v := strings.Trim(p[2:], " \t")
				if v == "0" || (strings.HasPrefix(v, "0.") && strings.Trim(v[2:], "0") == "") {
					en.q0 = true
				}
			}
		}
		es = append(es, en)
	}
	explicit, ok, star := false, false, false
	for _, e := range es {
		if e.name == "gzip" || e.name == "x-gzip" {
			explicit = true
			if !e.q0 {
				ok = true
			}
		}
		if e.name == "*" && !e.q0 {
			star = true
		}
	}
	if explicit {
		return ok
	}
	return star
}

func c18IsInfo(code int) bool { return code >= 100 && code <= 199 && code != 101 }

func c18Hazard(in *c18In) string {
	ae := in.AE
	if in.NoAE {
		ae = ""
	}
	if in.Kind == "static" {
		// an element that strings.TrimSpace would turn into the name of a sibling coding while the
		// RFC's OWS (SP / HTAB) trimming does not: Unicode white space around the name (the class
		// of the repaired finding F-C18-7: the file server must not take it for the coding)
		for _, e := range strings.Split(ae, ",") {
			t := strings.TrimSpace(e)
			if (t == "gzip" || t == "br" || t == "zstd") && strings.Trim(e, " \t") != t {
				return "ae:unicode-space"
			}
		}
	}
	if strings.Contains(ae, "gzip") && !c18RFCOffersGzip(ae) {
		if strings.Contains(strings.ReplaceAll(ae, " ", ""), "gzip;q=0") {
			return "ae:gzip-q0"
		}
		return "ae:gzip-substring"
	}
	switch in.Kind {
	case "script":
		committed, flushFirst := false, false
		ce := ""
		// finding F-C18-8: an informational WriteHeader (1xx other than 101) before the final
		// response, and after it - the final response still open - a change of Content-Encoding
		// or Content-Length: the gzip layer has decided and rewritten the header map at the 1xx
		infoSeen := false
		for _, o := range in.Script {
			k := http.CanonicalHeaderKey(o.A)
			if !committed && infoSeen && (o.K == "set" || o.K == "add" || o.K == "del") && (k == "Content-Encoding" || k == "Content-Length") {
				return "informational-then-header-change"
			}
			if o.K == "wh" && !committed && c18IsInfo(o.N) {
				infoSeen = true
			}
		}
		for _, o := range in.Script {
			switch o.K {
			case "f":
				if !committed {
					// the Flush starts the response; a WriteHeader after it is a repeated one
					committed, flushFirst = true, true
				}
			case "wh":
				if c18IsInfo(o.N) {
					continue // informational: the final response stays open
				}
				if committed {
					return "repeated-writeheader"
				}
				committed = true
			case "w":
				committed = true
			case "set", "add":
				if !committed && http.CanonicalHeaderKey(o.A) == "Content-Encoding" {
					ce = o.B
				}
			}
		}
		if flushFirst {
			return "flush-before-header"
		}
		if ce != "" && ce != "identity" && !c18Listed[ce] {
			if ce == "zstd" {
				return "already-encoded:zstd"
			}
			return "already-encoded:unlisted-spelling"
		}
	case "static":
		if strings.Contains(ae, "gzip") {
			for _, e := range strings.Split(ae, ",") {
				if strings.Trim(e, " \t") == "zstd" {
					if _, ok := c18Files[strings.TrimPrefix(in.Path, "/")+".zst"]; ok {
						return "already-encoded:zstd"
					}
				}
			}
		}
	}
	return ""
}

// ---------------------------------------------------------------------------------------------
// run

func c18BigScript(ws []c18BigW) ([]c18Op, int) {
	script := []c18Op{{K: "set", A: "Content-Type", B: "application/octet-stream"}}
	total := 0
	for _, w := range ws {
		d := make([]byte, w.N)
		s := uint32(w.Seed)*2654435761 + 12345
		for i := range d {
			s = s*1664525 + 1013904223
			if w.Rnd {
				d[i] = byte(s >> 24)
			} else {
				d[i] = "abcdefgh\n"[(s>>28)%9]
			}
		}
		total += w.N
		script = append(script, c18Op{K: "w", D: d})
		if w.Flush {
			script = append(script, c18Op{K: "f"})
		}
	}
	return script, total
}

// c18PreScript is the handler script of one request of a burst's history.
func c18PreScript(p c18Pre) c18Script {
	body, _ := c18BigScript([]c18BigW{{N: p.N, Seed: p.N + p.Status, Flush: p.Flush}})
	switch p.Kind {
	case "err":
		return c18Script{ret: p.Status}
	case "err-after-write":
		return c18Script{script: body, ret: p.Status}
	case "panic-after-write":
		return c18Script{script: append(body, c18Op{K: "panic"})}
	case "abort":
		big, _ := c18BigScript([]c18BigW{{N: 300000, Rnd: true, Seed: p.N, Flush: true}, {N: 300000, Rnd: true, Seed: p.N + 1, Flush: true},
			{N: 300000, Rnd: true, Seed: p.N + 2}})
		return c18Script{script: big}
	}
	return c18Script{script: body} // ok, plain
}

// c18DoPre sends one request of the history and says briefly what came back.
func c18DoPre(addr, method, target, id string, p c18Pre, in *c18In) string {
	h := map[string]string{"X-C18-Probe": id}
	if !in.NoAE && p.Kind != "plain" {
		h["Accept-Encoding"] = in.AE
	}
	if p.Kind == "abort" {
		// read the beginning of the response, then hang up
		conn, err := net.DialTimeout("tcp", addr, 2*time.Second)
		if err != nil {
			return p.Kind + ":dial-error"
		}
		fmt.Fprintf(conn, "%s %s HTTP/1.1\r\nHost: %s\r\nAccept-Encoding: %s\r\nX-C18-Probe: %s\r\nConnection: close\r\n\r\n", method, target, addr, h["Accept-Encoding"], id)
		conn.SetDeadline(time.Now().Add(2 * time.Second))
		io.ReadFull(conn, make([]byte, 512))
		conn.Close()
		return p.Kind
	}
	o := c18Do(addr, method, target, h)
	return fmt.Sprintf("%s:%d:ce=%s:len=%d:decodes=%v", p.Kind, o.Status, strings.Join(o.CE, "+"), len(o.Body), o.VOK)
}

func c18Skip(class, why string) Result {
	return Result{Term: "CSkip", Obs: why, Class: class, Sig: class}
}

func c18ErrBody(status int) string { return fmt.Sprintf("%d %s\n", status, http.StatusText(status)) }

// redirects produced by casket itself below the gzip layer: the redir directive (every code it
// knows) and the file server's own redirect of a directory requested without trailing slash
const c18Redirs = "redir /r301 /x.txt 301\nredir /r302.html /x.txt 302\nredir /r303.txt /x.txt 303\nredir /r307 /x.txt 307\nredir /r308.html /x.txt 308\nredir /skip/r302 /x.txt 302\n"

var c18RedirPaths = []string{"/r301", "/r302.html", "/r303.txt", "/r307", "/r308.html", "/skip/r302", "/a", "/a/b", "/skip"}

func c18Run(in0 interface{}) Result {
	in := in0.(*c18In)
	if in.Kind == "ext" {
		e := path.Ext(in.Path)
		return Result{Term: cApp("CExt", cStr(in.Path), cStr(e)), Obs: e, Sig: "ext", Class: "ext", Nontrivial: e != ""}
	}
	root := c18Fixture()
	common := "root " + root + "\nc18probe\n" + c18Redirs
	gsite, err := c18Site(common + c18CfgText(in.Cfgs))
	if err != nil {
		return c18Skip(in.Kind+":setup-error", "gzip site: "+err.Error())
	}
	psite, err := c18Site(common + "errors\n")
	if err != nil {
		return c18Skip(in.Kind+":setup-error", "plain site: "+err.Error())
	}
	hdr := map[string]string{}
	if !in.NoAE {
		hdr["Accept-Encoding"] = in.AE
	}
	ae := in.AE
	if in.NoAE {
		ae = ""
	}
	method := in.Method
	if method == "" {
		method = "GET"
	}
	head := method == "HEAD"
	hz := c18Hazard(in)
	sig := in.Kind
	if hz != "" {
		sig = hz
	}
	httpserver.CaseSensitivePath = in.CS
	defer func() { httpserver.CaseSensitivePath = false }()
	switch in.Kind {
	case "script":
		hdr["X-C18-Probe"] = "1"
		c18Cur = c18Script{script: in.Script, ret: in.Ret}
		G := c18Do(gsite.addr, method, in.Path, hdr)
		P := c18Do(psite.addr, method, in.Path, hdr)
		e := &c18Emit{}
		term := e.Wrap(cApp("CScript", cBool(in.CS), c18CfgTerm(in.Cfgs), cBool(head), cStr(in.Path), cStr(ae), c18OpsTerm(e, in.Script),
			cZ(int64(in.Ret)), cStr(c18ErrBody(in.Ret)), G.term(e), P.term(e)))
		compressed := len(G.CE) == 1 && G.CE[0] == "gzip" && len(P.CE) == 0
		class := fmt.Sprintf("script:%s:gz=%v", map[bool]string{true: "hazard", false: "plain"}[hz != ""], compressed)
		if in.Stream != "" {
			class = fmt.Sprintf("%s:%dxx:body=%v:gz=%v", in.Stream, P.Status/100, len(P.Body) > 0, compressed)
		}
		return Result{Term: term, Obs: map[string]interface{}{"G": G.brief(), "P": P.brief()}, Sig: sig, Class: class,
			Nontrivial: compressed || len(P.CE) > 0}
	case "redirect":
		// the handler is casket's own (redir / staticfiles): what it did is read off the identity
		// response and handed to the model as a script; the property is judged on G and P alone
		G := c18Do(gsite.addr, method, in.Path, hdr)
		P := c18Do(psite.addr, method, in.Path, hdr)
		script := []c18Op{{K: "set", A: "Content-Type", B: "text/html; charset=utf-8"}, {K: "wh", N: P.Status}}
		if len(P.Body) > 0 {
			script = append(script, c18Op{K: "w", D: P.Body})
		}
		e := &c18Emit{}
		term := e.Wrap(cApp("CScript", cBool(in.CS), c18CfgTerm(in.Cfgs), cBool(head), cStr(in.Path), cStr(ae), c18OpsTerm(e, script),
			cZ(0), cStr(""), G.term(e), P.term(e)))
		compressed := len(G.CE) == 1 && G.CE[0] == "gzip" && len(P.CE) == 0
		return Result{Term: term, Obs: map[string]interface{}{"G": G.brief(), "P": P.brief()}, Sig: "redirect",
			Class: fmt.Sprintf("redirect:%d:gz=%v", P.Status, compressed), Nontrivial: compressed && P.Status >= 300 && P.Status < 400}
	case "static":
		G := c18Do(gsite.addr, method, in.Path, hdr)
		P := c18Do(psite.addr, method, in.Path, hdr)
		rel := strings.TrimPrefix(in.Path, "/")
		data, ok := c18Files[rel]
		dterm := "None"
		var sibs []string
		e := &c18Emit{}
		if ok {
			dterm = "(Some " + e.B(data) + ")"
			for _, x := range []string{".zst", ".br", ".gz"} {
				if d, ok := c18Files[rel+x]; ok {
					sibs = append(sibs, cPair(cStr(x), e.B(d)))
				}
			}
		}
		term := e.Wrap(cApp("CStatic", cBool(in.CS), c18CfgTerm(in.Cfgs), cBool(head), cStr(in.Path), cStr(ae), dterm, cList(sibs),
			cStr(c18ErrBody(404)), G.term(e), P.term(e)))
		compressed := len(G.CE) == 1 && G.CE[0] == "gzip" && len(P.CE) == 0
		class := fmt.Sprintf("static:sibs=%d:pce=%s:gz=%v", len(sibs), strings.Join(P.CE, "+"), compressed)
		return Result{Term: term, Obs: map[string]interface{}{"G": G.brief(), "P": P.brief()}, Sig: sig, Class: class,
			Nontrivial: compressed || len(P.CE) > 0}
	case "big":
		hdr["X-C18-Probe"] = "1"
		script, total := c18BigScript(in.Big)
		c18Cur = c18Script{script: script}
		G := c18Do(gsite.addr, method, in.Path, hdr)
		P := c18Do(psite.addr, method, in.Path, hdr)
		sameStatus := G.Status == P.Status && G.Err == ""
		sameView := G.VOK && P.VOK && len(G.VCod) == 0 && bytes.Equal(G.View, P.View) && len(P.View) == total
		ceExact := (len(G.CE) == 0 && bytes.Equal(G.Body, P.Body)) || (len(G.CE) == 1 && G.CE[0] == "gzip" && G.GunzOK && bytes.Equal(G.Gunz, P.Body))
		if !c18RFCOffersGzip(ae) && len(G.CE) != 0 {
			ceExact = false
		}
		clFine := len(G.CL) == 0 || (len(G.CL) == 1 && G.CL[0] == strconv.Itoa(len(G.Body)))
		term := cApp("CBig", cBool(sameStatus), cBool(sameView), cBool(ceExact), cBool(clFine))
		return Result{Term: term, Obs: map[string]interface{}{"G": G.brief(), "P": P.brief(), "total": total}, Sig: "big",
			Class: fmt.Sprintf("big:gz=%v", len(G.CE) == 1), Nontrivial: len(G.CE) == 1, Key: fmt.Sprintf("%v|%s|%s", in.Big, ae, in.Path)}
	case "burst":
		// a history of requests (error after a partial compressed body, panics, aborted
		// downloads, ...) followed by concurrent requests through the same pooled writers:
		// every response of the burst must decode to its own request's body
		gaddr := gsite.addr
		if in.Direct {
			a, err := c18DirectSite(c18CfgText(in.Cfgs))
			if err != nil {
				return c18Skip(in.Kind+":setup-error", "direct gzip chain: "+err.Error())
			}
			gaddr = a
		}
		if in.Procs > 0 {
			old := runtime.GOMAXPROCS(in.Procs)
			defer runtime.GOMAXPROCS(old)
		}
		c18Burst.Lock()
		c18Burst.m = map[string]c18Script{}
		want := make([][]byte, len(in.Burst))
		for i, ws := range in.Burst {
			script, _ := c18BigScript(ws)
			if in.Hold {
				// meet the other handlers of the round right after the first write
				for k, o := range script {
					if o.K == "w" {
						script = append(script[:k+1], append([]c18Op{{K: "sync"}}, script[k+1:]...)...)
						break
					}
				}
			}
			c18Burst.m[fmt.Sprintf("b%d", i)] = c18Script{script: script}
			for _, o := range script {
				want[i] = append(want[i], o.D...)
			}
		}
		for k, p := range in.Pre {
			c18Burst.m[fmt.Sprintf("p%d", k)] = c18PreScript(p)
		}
		c18Burst.Unlock()
		defer c18Barrier.reset(0)
		rounds := in.Rounds
		if rounds <= 0 {
			rounds = 1
		}
		var firstBad map[string]interface{}
		var mu sync.Mutex
		ngz, nbad := 0, 0
		var resps []string
		var preSeen []string
		for round := 0; round < rounds; round++ {
			c18Barrier.reset(0)
			for k, p := range in.Pre {
				preSeen = append(preSeen, c18DoPre(gaddr, method, in.Path, fmt.Sprintf("p%d", k), p, in))
			}
			c18Barrier.reset(len(in.Burst))
			verdicts := make([]string, len(in.Burst))
			var wg sync.WaitGroup
			for i := range in.Burst {
				wg.Add(1)
				go func(i int) {
					defer wg.Done()
					h := map[string]string{"X-C18-Probe": fmt.Sprintf("b%d", i)}
					if !in.NoAE {
						h["Accept-Encoding"] = in.AE
					}
					G := c18Do(gaddr, method, in.Path, h)
					mu.Lock()
					defer mu.Unlock()
					st := G.Status == 200 && G.Err == ""
					vw := G.VOK && len(G.VCod) == 0 && bytes.Equal(G.View, want[i])
					ce := (len(G.CE) == 0 && bytes.Equal(G.Body, want[i])) || (len(G.CE) == 1 && G.CE[0] == "gzip" && G.GunzOK && bytes.Equal(G.Gunz, want[i]))
					cl := len(G.CL) == 0 || (len(G.CL) == 1 && G.CL[0] == strconv.Itoa(len(G.Body)))
					if len(G.CE) == 1 {
						ngz++
					}
					if !(st && vw && ce && cl) {
						nbad++
						if firstBad == nil {
							firstBad = G.brief()
							firstBad["request"] = i
							firstBad["round"] = round
							firstBad["want_len"] = len(want[i])
						}
					}
					verdicts[i] = "(" + cBool(st) + ", " + cBool(vw) + ", " + cBool(ce) + ", " + cBool(cl) + ")"
				}(i)
			}
			wg.Wait()
			resps = append(resps, verdicts...)
		}
		kinds := map[string]bool{}
		for _, p := range in.Pre {
			kinds[p.Kind] = true
		}
		var ks []string
		for k := range kinds {
			ks = append(ks, k)
		}
		sort.Strings(ks)
		term := cApp("CBurst", cN(uint64(len(in.Pre)*rounds)), cList(resps))
		return Result{Term: term, Obs: map[string]interface{}{"requests": len(in.Burst) * rounds, "compressed": ngz, "bad": nbad, "first_bad": firstBad,
			"history": preSeen}, Sig: "burst",
			Class: fmt.Sprintf("burst:gz=%v:direct=%v:hold=%v:procs=%d:pre=%s", ngz > 0, in.Direct, in.Hold, in.Procs, strings.Join(ks, "+")), Nontrivial: ngz > 0,
			Key: fmt.Sprintf("%v|%v|%s|%d|%v|%d|%v", in.Burst, in.Pre, ae, rounds, in.Hold, in.Procs, in.Direct)}
	}
	panic("bad kind " + in.Kind)
}

// ---------------------------------------------------------------------------------------------
// generator

var c18AEs = []string{
	"gzip", "gzip", "gzip", "gzip, deflate, br", "gzip, deflate", "br, gzip", "zstd, gzip", "gzip, zstd", "zstd, br, gzip",
	"br", "zstd", "deflate", "identity", "*", "", "GZIP", "x-gzip", "gzip;q=1.0", "br;q=1.0, gzip;q=0.8", "gzip ,br", " gzip",
	"gzip,br,zstd", "zstd,gzip", "br;q=0.9, zstd;q=0.8", "deflate, gzip;q=0.5", "identity;q=0, gzip",
	"gzip;q=0, gzip", "gzip;q=00", "gzip;q=0.001", "gzip ; q = 0", "*;q=0, gzip", "gzip;q=", "br,\tgzip",
}
var c18BadAEs = []string{"gzip;q=0", "gzip;q=0, identity", "gzip; q=0.0, br", "br, gzip;q=0.000", "notgzip", "gzipped, br", "x-gzip;q=0"}

func c18GenCfgs(r *Rand) []c18Cfg {
	mk := func() c18Cfg {
		c := c18Cfg{}
		switch r.Intn(6) {
		case 0:
			c.Exts = []string{"*"}
		case 1:
			c.Exts = []string{".txt", ".html"}
		case 2:
			c.Exts = []string{".png", "", ".json"}
		case 3:
			c.Exts = []string{".TXT"}
		}
		switch r.Intn(5) {
		case 0:
			c.Not = []string{"/skip"}
		case 1:
			c.Not = []string{"/a/b", "/Skip/"}
		case 2:
			c.Not = []string{"/a/b/f1"}
		}
		c.Level = r.Pick([]string{"", "", "1", "5", "9", "0", "-1", "10", "x"})
		if r.Chance(35) {
			c.Min = int64(c18PickInt(r, []int{1, 20, 37, 38, 100, 400, 401, 2600, -5}))
		}
		return c
	}
	cfgs := []c18Cfg{mk()}
	if r.Chance(30) {
		cfgs = append(cfgs, mk())
	}
	if r.Chance(40) {
		cfgs = []c18Cfg{{}} // bare "gzip"
	}
	return cfgs
}

func c18PickInt(r *Rand, xs []int) int { return xs[r.Intn(len(xs))] }

func c18Text(r *Rand, n int) []byte {
	words := []string{"lorem ", "ipsum ", "<b>", "</b>", "\n", "0123", "{\"k\":1}", "\x00\xff", "é"}
	var b bytes.Buffer
	for b.Len() < n {
		b.WriteString(r.Pick(words))
	}
	return b.Bytes()[:n]
}

func c18Chunks(r *Rand, b []byte) [][]byte {
	if len(b) == 0 {
		if r.Bool() {
			return nil
		}
		return [][]byte{{}}
	}
	var out [][]byte
	for len(b) > 0 {
		n := len(b)
		if r.Chance(60) {
			n = r.Range(1, len(b))
		}
		if r.Chance(5) {
			out = append(out, []byte{})
		}
		out = append(out, b[:n])
		b = b[n:]
	}
	return out
}

func c18GenPath(r *Rand) string {
	dir := r.Pick([]string{"/", "/", "/skip/", "/a/b/", "/SKIP/", "/a/", "/a/bc/", "/skipper/", "/d.ir/"})
	name := r.Pick([]string{"x", "x.txt", "x.html", "x.png", "x.json", "x.TXT", "x.tar.gz", "x.", ".txt", "x.js", "f1"})
	return dir + name
}

// c18WildScript: an arbitrary interleaving of header operations, WriteHeader, Write and Flush
// (the theorems quantify over every such sequence). No Content-Length (the inner one must be
// right, see the assumptions), final statuses with a body only, Content-Encoding labels only
// that the harness client does not try to peel (the writes are not encoded).
func c18WildScript(r *Rand) []c18Op {
	var ops []c18Op
	if r.Chance(70) {
		ops = append(ops, c18Op{K: "set", A: "Content-Type", B: "text/plain"})
	}
	for n := r.Range(1, 9); n > 0; n-- {
		switch r.Intn(9) {
		case 0, 1:
			ops = append(ops, c18Op{K: "wh", N: c18PickInt(r, []int{200, 200, 201, 404, 500})})
		case 2, 3, 4:
			ops = append(ops, c18Op{K: "w", D: c18Text(r, c18PickInt(r, []int{0, 1, 7, 40, 300}))})
		case 5, 6:
			ops = append(ops, c18Op{K: "f"})
		case 7:
			ops = append(ops, c18Op{K: "set", A: "Content-Encoding", B: r.Pick([]string{"frob", "identity", "frob, x", ""})}) // never a coding the body is not in
		case 8:
			late := []c18Op{{K: "set", A: "ETag", B: `"abc"`}, {K: "add", A: "Vary", B: "Cookie"},
				{K: "del", A: "Content-Encoding"}, {K: "set", A: "X-Late", B: "1"}}
			ops = append(ops, late[r.Intn(len(late))])
		}
	}
	return ops
}

func c18GenScript(r *Rand, cfgs []c18Cfg, hazard string) ([]c18Op, int) {
	var ops []c18Op
	if hazard == "wild" {
		return c18WildScript(r), 0
	}
	// plaintext and how the handler has (already) encoded it
	sizes := []int{0, 1, 19, 20, 21, 36, 37, 38, 99, 100, 101, 399, 400, 401, 600}
	n := c18PickInt(r, sizes)
	if r.Chance(4) {
		n = c18PickInt(r, []int{2047, 2048, 2049, 2600, 4100})
	}
	plain := c18Text(r, n)
	body := plain
	ce := ""
	if hazard == "already-encoded:zstd" {
		ce = "zstd"
	} else if hazard == "already-encoded:unlisted-spelling" {
		ce = r.Pick([]string{"x-gzip", "GZIP", "br, gzip", "Br"})
	} else if r.Chance(25) {
		ce = r.Pick([]string{"gzip", "br", "deflate", "compress", "zstd", "identity"})
	}
	switch strings.ToLower(strings.TrimSpace(ce)) {
	case "gzip", "x-gzip":
		body = c18Gzip(plain)
	case "br":
		body = c18Brotli(plain)
	case "deflate":
		body = c18Zlib(plain)
	case "zstd":
		body = c18Zstd(plain)
	case "br, gzip":
		body = c18Gzip(c18Brotli(plain))
	}
	if r.Chance(85) {
		ops = append(ops, c18Op{K: "set", A: "Content-Type", B: r.Pick([]string{"text/plain", "text/html; charset=utf-8", "application/json", "image/png"})})
	}
	if ce != "" {
		ops = append(ops, c18Op{K: "set", A: "Content-Encoding", B: ce})
	}
	if r.Chance(55) {
		ops = append(ops, c18Op{K: "set", A: "Content-Length", B: strconv.Itoa(len(body))})
	}
	if r.Chance(30) {
		ops = append(ops, c18Op{K: "set", A: "ETag", B: r.Pick([]string{`"abc"`, `W/"abc"`, `"x-1"`})})
	}
	if r.Chance(25) {
		switch r.Intn(4) {
		case 0:
			ops = append(ops, c18Op{K: "set", A: "Vary", B: "Accept-Encoding"})
		case 1:
			ops = append(ops, c18Op{K: "set", A: "Vary", B: "Cookie"})
		case 2:
			ops = append(ops, c18Op{K: "add", A: "Vary", B: "Cookie"}, c18Op{K: "add", A: "Vary", B: "Accept-Encoding"})
		case 3:
			ops = append(ops, c18Op{K: "set", A: "Vary", B: "accept-encoding"})
		}
	}
	if r.Chance(5) {
		ops = append(ops, c18Op{K: "set", A: "X-Tmp", B: "1"}, c18Op{K: "del", A: "X-Tmp"})
	}
	// handler that reports an error status instead of writing
	if hazard == "" && r.Chance(8) {
		return ops[:0], c18PickInt(r, []int{404, 403, 500, 400, 405})
	}
	status := 200
	if r.Chance(30) {
		status = c18PickInt(r, []int{200, 201, 203, 206, 404, 500, 301, 204, 304, 410})
	}
	if hazard == "flush-before-header" && (status == 204 || status == 304) {
		// the Flush commits a 200: the (possibly encoded) body must stay, or the handler's own
		// Content-Encoding label would be wrong in the identity run already
		status = 200
	}
	if status == 204 || status == 304 {
		// no body allowed; a Content-Length would be meaningless
		var o2 []c18Op
		for _, o := range ops {
			if o.A != "Content-Length" {
				o2 = append(o2, o)
			}
		}
		ops = o2
		body = nil
	}
	if hazard == "flush-before-header" {
		ops = append(ops, c18Op{K: "f"})
	}
	explicit := status != 200 || r.Chance(40)
	if explicit {
		ops = append(ops, c18Op{K: "wh", N: status})
	}
	if hazard == "repeated-writeheader" {
		if explicit && r.Bool() {
			ops = append(ops, c18Op{K: "wh", N: status})
		}
	}
	chunks := c18Chunks(r, body)
	if status == 204 || status == 304 {
		chunks = nil
	}
	for i, c := range chunks {
		ops = append(ops, c18Op{K: "w", D: c})
		if hazard == "repeated-writeheader" && i == 0 {
			ops = append(ops, c18Op{K: "wh", N: status})
		}
		if r.Chance(15) {
			ops = append(ops, c18Op{K: "f"})
		}
	}
	if hazard == "repeated-writeheader" && len(chunks) == 0 {
		ops = append(ops, c18Op{K: "wh", N: status}, c18Op{K: "wh", N: status})
	}
	if hazard == "" && r.Chance(3) {
		// header fiddling after the response has started (no effect on the wire)
		ops = append(ops, c18Op{K: "set", A: "X-Late", B: "1"})
	}
	ret := 0
	if r.Chance(20) {
		ret = status
		if ret >= 400 {
			ret = 0
		}
	}
	return ops, ret
}

func c18Gen(r *Rand, tier string) []interface{} {
	// util.NewRand(k) starts splitmix64 at k*gamma, so consecutive seeds yield the same stream
	// shifted by one draw; re-seed from a mixed output to decorrelate VERIF_SEED values
	r = NewRand(r.U64())
	var out []interface{}
	nCfg, perCfgScript, perCfgStatic, nBig, nExt, nBurst, nMatrix := 14, 70, 60, 16, 150, 10, 160
	if tier == "thorough" {
		nCfg, perCfgScript, perCfgStatic, nBig, nExt, nBurst, nMatrix = 48, 220, 180, 120, 1500, 80, 1800
	}
	c18Fixture()
	var names []string
	for k := range c18Files {
		if !strings.HasSuffix(k, ".zst") && !strings.HasSuffix(k, ".br") && !strings.HasSuffix(k, ".gz") {
			names = append(names, k)
		}
	}
	sort.Strings(names)
	pickAE := func(in *c18In, hazard string) {
		switch {
		case hazard == "ae:gzip-q0":
			in.AE = r.Pick([]string{"gzip;q=0", "gzip;q=0, identity", "gzip; q=0.0, br", "br, gzip;q=0.000", "x-gzip;q=0",
				"gzip;Q=0", "gzip;q=0.", "x-gzip ;\tq=0.00", "gzip;level=9;q=0", "br;q=1, gzip;q=0;x=1"})
		case hazard == "ae:gzip-substring":
			in.AE = r.Pick([]string{"notgzip", "gzipped, br", "xgzipx"})
		case hazard == "already-encoded:zstd":
			in.AE = r.Pick([]string{"zstd, gzip", "gzip, zstd", "zstd, br, gzip", "zstd,gzip"})
		case hazard != "":
			in.AE = r.Pick([]string{"gzip", "gzip, deflate, br"})
		case r.Chance(6):
			in.NoAE = true
		default:
			in.AE = r.Pick(c18AEs)
		}
	}
	hazards := []string{"ae:gzip-q0", "ae:gzip-substring", "already-encoded:zstd", "already-encoded:unlisted-spelling", "flush-before-header", "repeated-writeheader"}
	for ci := 0; ci < nCfg; ci++ {
		cfgs := c18GenCfgs(r)
		if ci == 0 {
			cfgs = []c18Cfg{{}}
		}
		for i := 0; i < perCfgScript; i++ {
			in := &c18In{Kind: "script", Cfgs: cfgs, Method: "GET", Path: c18GenPath(r), CS: r.Chance(15)}
			if r.Chance(8) {
				in.Method = "HEAD"
			} else if r.Chance(8) {
				in.Method = "POST"
			}
			hz := ""
			if r.Chance(10) {
				hz = r.Pick(hazards)
			} else if r.Chance(12) {
				hz = "wild"
			}
			pickAE(in, hz)
			in.Script, in.Ret = c18GenScript(r, cfgs, hz)
			out = append(out, in)
		}
		for i := 0; i < perCfgStatic; i++ {
			in := &c18In{Kind: "static", Cfgs: cfgs, Method: "GET", CS: r.Chance(10)}
			if r.Chance(8) {
				in.Method = "HEAD"
			}
			in.Path = "/" + names[r.Intn(len(names))]
			if r.Chance(3) {
				in.Path = "/missing" + r.Pick(c18FixExts)
			}
			hz := ""
			if r.Chance(6) {
				hz = r.Pick(hazards[:3])
			}
			pickAE(in, hz)
			out = append(out, in)
		}
	}
	// every status class, with and without a body, through the real gzip middleware: final
	// statuses (also those that allow no body, with a handler that writes one nevertheless),
	// informational WriteHeaders before the final one, already-encoded bodies; then casket's own
	// redirects (redir directive, directory without trailing slash)
	statuses := []int{101, 200, 201, 202, 203, 204, 205, 206, 226, 300, 301, 302, 303, 304, 307, 308, 400, 401, 403, 404, 405, 410, 416, 418, 429, 451, 500, 501, 502, 503, 504, 599}
	nStatus := 2
	if tier == "thorough" {
		nStatus = 20
	}
	for rep := 0; rep < nStatus; rep++ {
		for _, st := range statuses {
			for _, withBody := range []bool{false, true} {
				cfgs := []c18Cfg{{}}
				if rep > 0 && r.Chance(50) {
					cfgs = c18GenCfgs(r)
				}
				in := &c18In{Kind: "script", Stream: "status", Cfgs: cfgs, Method: "GET", Path: r.Pick([]string{"/x", "/x.txt", "/x.html", "/a/x.json"}),
					AE: r.Pick([]string{"gzip", "gzip", "gzip, br", "br, gzip;q=0.5", "br", "gzip;q=0"})}
				if r.Chance(12) {
					in.Method = "HEAD"
				}
				nobody := st == 204 || st == 304 || st == 101
				plain := c18Text(r, c18PickInt(r, []int{1, 37, 38, 400, 401}))
				body, ce := plain, ""
				if r.Chance(20) {
					ce = r.Pick([]string{"br", "zstd", "gzip", "frob"})
					switch ce {
					case "br":
						body = c18Brotli(plain)
					case "zstd":
						body = c18Zstd(plain)
					case "gzip":
						body = c18Gzip(plain)
					}
				}
				ops := []c18Op{{K: "set", A: "Content-Type", B: r.Pick([]string{"text/plain", "text/html; charset=utf-8"})}}
				if st >= 300 && st < 400 && st != 304 {
					ops = append(ops, c18Op{K: "set", A: "Location", B: "/elsewhere"})
				}
				if r.Chance(30) {
					ops = append(ops, c18Op{K: "set", A: "ETag", B: `"s-1"`})
				}
				// informational responses first (their headers: whatever is in the map by then)
				ninfo := 0
				if r.Chance(30) {
					ninfo = r.Range(1, 2)
				}
				for k := 0; k < ninfo; k++ {
					ops = append(ops, c18Op{K: "set", A: "Link", B: "</s.css>; rel=preload"}, c18Op{K: "wh", N: c18PickInt(r, []int{103, 103, 100, 102, 199})})
					if r.Chance(50) {
						ops = append(ops, c18Op{K: "set", A: "X-After-Info", B: "1"})
					}
				}
				lateLabel := ninfo > 0 && r.Chance(25) // the class of F-C18-8
				if ce != "" && withBody && !lateLabel {
					ops = append(ops, c18Op{K: "set", A: "Content-Encoding", B: ce})
				}
				if withBody && !nobody && r.Chance(50) && (ninfo == 0 || lateLabel) {
					ops = append(ops, c18Op{K: "set", A: "Content-Length", B: strconv.Itoa(len(body))})
				}
				if lateLabel && ce != "" && withBody {
					ops = append(ops, c18Op{K: "set", A: "Content-Encoding", B: ce})
				}
				if st != 200 || r.Chance(50) {
					ops = append(ops, c18Op{K: "wh", N: st})
				}
				if withBody {
					for i, c := range c18Chunks(r, body) {
						ops = append(ops, c18Op{K: "w", D: c})
						if i == 0 && r.Chance(15) {
							ops = append(ops, c18Op{K: "f"})
						}
					}
				} else if r.Chance(20) {
					ops = append(ops, c18Op{K: "f"})
				}
				in.Script = ops
				out = append(out, in)
			}
		}
		for _, p := range c18RedirPaths {
			for _, m := range []string{"GET", "HEAD"} {
				if m == "HEAD" && rep%2 == 1 {
					continue
				}
				cfgs := []c18Cfg{{}}
				if rep > 0 && r.Chance(50) {
					cfgs = c18GenCfgs(r)
				}
				out = append(out, &c18In{Kind: "redirect", Cfgs: cfgs, Method: m, Path: p, AE: r.Pick([]string{"gzip", "gzip, br", "br", "zstd, br, gzip"})})
			}
		}
	}
	// precompressed siblings: the full matrix siblings on disk (8) x codings offered (8) in the
	// plain spelling, then random sibling sets x per-coding spellings (parameters, q-values,
	// case, blanks, Unicode white space, near misses) in random order
	codings := []string{"zstd", "br", "gzip"}
	for mask := 0; mask < 8; mask++ {
		for off := 0; off < 8; off++ {
			var parts []string
			for b, c := range codings {
				if off&(4>>uint(b)) != 0 {
					parts = append(parts, c)
				}
			}
			if len(parts) == 0 {
				parts = []string{"identity"}
			}
			cfgs := []c18Cfg{{}}
			if (mask+off)%3 == 0 {
				cfgs = c18GenCfgs(r)
			}
			out = append(out, &c18In{Kind: "static", Cfgs: cfgs, Method: "GET", Path: "/" + c18FixName("", mask, 37, ".html"), AE: strings.Join(parts, ", ")})
		}
	}
	spell := []string{"%s", "%s", "%s", "%s;q=0", "%s; q=0.0", "%s;q=0.000", "%s ;q=0", "%s;Q=0", "%s;q=1", "%s;q=0.5", "%s;q=", " %s ", "\t%s",
		"x%s", "%sx", "%s\u00a0", "\u2003%s", "%s\u0085", "%s;level=1"}
	for i := 0; i < nMatrix; i++ {
		var parts []string
		for _, c := range codings {
			if r.Chance(30) {
				continue
			}
			sp := fmt.Sprintf(r.Pick(spell), c)
			if r.Chance(8) {
				sp = strings.ToUpper(sp)
			}
			parts = append(parts, sp)
		}
		if r.Chance(25) {
			parts = append(parts, r.Pick([]string{"identity", "*", "*;q=0", "deflate", "identity;q=0"}))
		}
		perm := r.Perm(len(parts))
		ps := make([]string, len(parts))
		for a, b := range perm {
			ps[a] = parts[b]
		}
		cfgs := []c18Cfg{{}}
		if r.Chance(40) {
			cfgs = c18GenCfgs(r)
		}
		in := &c18In{Kind: "static", Cfgs: cfgs, Method: "GET",
			Path: "/" + c18FixName(r.Pick(c18FixDirs), r.Intn(8), c18PickInt(r, []int{0, 37, 400}), r.Pick(c18FixExts)),
			AE:   strings.Join(ps, r.Pick([]string{",", ", ", " , "}))}
		if r.Chance(6) {
			in.Method = "HEAD"
		}
		out = append(out, in)
	}
	for i := 0; i < nBig; i++ {
		in := &c18In{Kind: "big", Cfgs: []c18Cfg{{Level: r.Pick([]string{"", "1", "9"})}}, Method: "GET", Path: "/big.txt",
			AE: r.Pick([]string{"gzip", "gzip", "gzip, br", "br", ""})}
		nw := r.Range(1, 5)
		for j := 0; j < nw; j++ {
			in.Big = append(in.Big, c18BigW{N: c18PickInt(r, []int{1, 2047, 2048, 4096, 32768, 32769, 70000, 300000}), Rnd: r.Chance(40), Flush: r.Chance(30), Seed: r.Intn(1 << 20)})
		}
		out = append(out, in)
	}
	preKinds := []string{"err-after-write", "err-after-write", "err-after-write", "err", "ok", "panic-after-write", "abort", "plain"}
	for i := 0; i < nBurst; i++ {
		in := &c18In{Kind: "burst", Cfgs: []c18Cfg{{Level: r.Pick([]string{"", "1", "9"})}}, Method: "GET", Path: "/burst.txt",
			AE: r.Pick([]string{"gzip", "gzip", "gzip, br"}), Rounds: 3}
		// regimes in turn: one P (the pool hands out its contents in a fixed order), two, all
		in.Procs = []int{1, 2, 0, 1}[i%4]
		in.Hold = i%4 != 2 || r.Bool()
		in.Direct = i%3 != 2
		// history before every round: none for every fifth burst, else one to four requests
		if i%5 != 4 {
			for k := r.Range(1, 4); k > 0; k-- {
				in.Pre = append(in.Pre, c18Pre{Kind: r.Pick(preKinds), Status: c18PickInt(r, []int{500, 502, 404, 400, 503}),
					N: c18PickInt(r, []int{1, 100, 720, 5000, 40000}), Flush: r.Chance(30)})
			}
		}
		nreq := 8
		if in.Procs == 1 {
			nreq = r.Range(2, 6)
		}
		for k := 0; k < nreq; k++ {
			var ws []c18BigW
			for j := r.Range(1, 3); j > 0; j-- {
				ws = append(ws, c18BigW{N: c18PickInt(r, []int{100, 5000, 40000, 150000}), Rnd: r.Chance(30), Flush: r.Chance(20), Seed: r.Intn(1 << 20)})
			}
			in.Burst = append(in.Burst, ws)
		}
		out = append(out, in)
	}
	alpha := []string{"/", ".", "a", "b", "T"}
	for i := 0; i < nExt; i++ {
		p := ""
		for k := r.Range(0, 7); k > 0; k-- {
			p += r.Pick(alpha)
		}
		out = append(out, &c18In{Kind: "ext", Path: p})
	}
	return out
}

// ---------------------------------------------------------------------------------------------
// translator: default extensions, sibling priority from the Go AST
// (SkipCompressedFilter has no table any more: every Content-Encoding other than identity is left alone)

func c18StringLit(e ast.Expr) (string, bool) {
	bl, ok := e.(*ast.BasicLit)
	if !ok || bl.Kind != token.STRING {
		return "", false
	}
	s, err := strconv.Unquote(bl.Value)
	return s, err == nil
}

func c18GenCoq(repo string) (string, error) {
	// defaultExtensions
	_, f2, err := parseGo(filepath.Join(repo, "caskethttp/gzip/requestfilter.go"))
	if err != nil {
		return "", err
	}
	var dexts []string
	foundExts := false
	// staticEncodingPriority
	_, f3, err := parseGo(filepath.Join(repo, "caskethttp/staticfiles/fileserver.go"))
	if err != nil {
		return "", err
	}
	var prio [][2]string
	foundPrio := false
	for _, file := range []*ast.File{f2, f3} {
		ast.Inspect(file, func(n ast.Node) bool {
			vs, ok := n.(*ast.ValueSpec)
			if !ok || len(vs.Names) != 1 || len(vs.Values) != 1 {
				return true
			}
			switch vs.Names[0].Name {
			case "defaultExtensions":
				if l, ok := stringSliceLits(vs.Values[0]); ok {
					dexts, foundExts = l, true
				}
			case "staticEncodingPriority":
				cl, ok := vs.Values[0].(*ast.CompositeLit)
				if !ok {
					return true
				}
				good := true
				for _, el := range cl.Elts {
					e2, ok := el.(*ast.CompositeLit)
					if !ok || len(e2.Elts) != 2 {
						good = false
						break
					}
					var pair [2]string
					for i, x := range e2.Elts {
						if kv, ok := x.(*ast.KeyValueExpr); ok {
							x = kv.Value
							if id, ok := kv.Key.(*ast.Ident); ok && id.Name == "ext" {
								i = 1
							} else {
								i = 0
							}
						}
						s, ok := c18StringLit(x)
						if !ok {
							good = false
							break
						}
						pair[i] = s
					}
					prio = append(prio, pair)
				}
				foundPrio = good
			}
			return true
		})
	}
	if !foundExts {
		return "", fmt.Errorf("defaultExtensions literal not found")
	}
	if !foundPrio {
		return "", fmt.Errorf("staticEncodingPriority literal not found")
	}
	var ps []string
	for _, p := range prio {
		ps = append(ps, cPair(cStr(p[0]), cStr(p[1])))
	}
	return "(* gzip.defaultExtensions *)\n" +
		"Definition gen_c18_default_exts : list bytes := " + cStrList(dexts) + ".\n" +
		"(* staticfiles.staticEncodingPriority: (coding, file extension) *)\n" +
		"Definition gen_c18_static_priority : list (bytes * bytes) := " + cList(ps) + ".\n", nil
}

var c18Registered bool

// c18Register adds the probe directive (innermost) on first use only, so that other
// sub-commands of the harness do not see it.
func c18Register() {
	if c18Registered {
		return
	}
	c18Registered = true
	httpserver.RegisterDevDirective("c18probe", "")
	casket.RegisterPlugin("c18probe", casket.Plugin{ServerType: "http", Action: func(c *casket.Controller) error {
		for c.Next() {
		}
		httpserver.GetConfig(c).AddMiddleware(func(next httpserver.Handler) httpserver.Handler { return c18Probe{next} })
		return nil
	}})
}

func init() {
	registerGen("Gen_C18.v", c18GenCoq)
	register(&Property{
		ID: "C18", Imports: "V.Lib V.C18_LibPack V.C18_Model", Judge: "judge", Shard: 120,
		Rule: "every case = two real round trips (site with the gzip blocks / same site without) with a scripted innermost handler (header ops, WriteHeader, chunked Writes, Flushes, error returns, already-encoded bodies in real gzip/br/zstd/deflate) or casket's file server on files with all 8 sibling combinations; static cases include the full 8x8 matrix siblings on disk x codings offered and random sibling sets x per-coding spellings (q-values, parameters, case, blanks, Unicode white space, near misses); status stream = every status class (101, 2xx, 204/205/304, 3xx, 4xx, 5xx) with and without body, GET/HEAD, informational WriteHeaders before the final one, already-encoded bodies, and casket's own redirects (redir directive, directory without slash) below the gzip layer; bursts = a history of requests (error status or panic after a partial compressed body, bare errors, aborted downloads) then concurrent requests whose handlers hold their pooled writers together, against the Casketfile site or the gzip chain without errors middleware, under GOMAXPROCS 1/2/all, every response decoded; non-trivial = the gzip layer compressed, or the inner response was already encoded; distinct = distinct case term",
		Gen: c18Gen,
		Decode: func(raw json.RawMessage) (interface{}, error) {
			in := &c18In{}
			return in, json.Unmarshal(raw, in)
		},
		Run: c18Run,
	})
}
