package main

// C04 — reverse proxy relays requests and responses faithfully.
//
// "proxy" cases: the real proxy directive parser (NewStaticUpstreams) + Proxy.ServeHTTP with the
// hosts' Transport replaced by a scripted http.RoundTripper that records every outgoing request
// (every attempt of the retry loop) and answers with a scripted response (status, header
// multimap, body, announced / unannounced trailers); the client side is an httptest recorder.
// "wire" cases: a real in-process casket site (`proxy / http://127.0.0.1:port`) in front of a real
// loopback backend, raw HTTP/1.1 on the client socket (Content-Length or chunked request bodies
// around the 32 KiB copy buffer, chunked/flushed responses, trailers).
// "relay" cases: see c04_relay.go; "conc" cases: see c04_conc.go; "seq" cases: see c04_seq.go.
// "key", "sjs", "replace", "match": the helper functions the model builds on.

import (
	"bufio"
	"bytes"
	"encoding/base64"
	"encoding/json"
	"errors"
	"fmt"
	"go/ast"
	"io"
	"net"
	"net/http"
	"net/http/httptest"
	"net/textproto"
	"net/url"
	"path/filepath"
	"sort"
	"strings"
	"sync"
	"time"

	"github.com/tmpim/casket/casketfile"
	"github.com/tmpim/casket/caskethttp/httpserver"
	"github.com/tmpim/casket/caskethttp/proxy"
)

type c04Dir struct {
	K string `json:"k"` // up down upre downre transparent websocket without
	A string `json:"a,omitempty"`
	B string `json:"b,omitempty"`
	C string `json:"c,omitempty"`
}

type c04In struct {
	Kind string `json:"kind"` // key sjs replace match proxy wire relay conc
	S    string `json:"s,omitempty"`
	A    string `json:"a,omitempty"`
	B    string `json:"b,omitempty"`

	Froms []string `json:"froms,omitempty"` // match

	Dirs    []c04Dir    `json:"dirs,omitempty"`
	Targets []string    `json:"targets,omitempty"`
	Method  string      `json:"method,omitempty"`
	Host    string      `json:"host,omitempty"`
	Remote  string      `json:"remote,omitempty"`
	Target  string      `json:"target,omitempty"` // request-target
	Hdr     [][2]string `json:"hdr,omitempty"`    // header lines as the client sends them
	Body    string      `json:"body,omitempty"`
	BodyLen int         `json:"bodylen,omitempty"` // wire: body is bodyOf(BodyLen)
	Chunked bool        `json:"chunked,omitempty"`
	Chunks  []int       `json:"chunks,omitempty"` // wire: chunk sizes of a chunked request
	Pre     [][2]string `json:"pre,omitempty"`

	RStatus   int         `json:"rstatus,omitempty"`
	RHdr      [][2]string `json:"rhdr,omitempty"`
	RBody     string      `json:"rbody,omitempty"`
	RBodyLen  int         `json:"rbodylen,omitempty"` // wire
	RFlush    []int       `json:"rflush,omitempty"`   // wire: flush after these many bytes
	RCL       bool        `json:"rcl,omitempty"`      // wire: backend sets Content-Length
	RAnn      []string    `json:"rann,omitempty"`
	RTrailers [][2]string `json:"rtrailers,omitempty"`

	Conc  *c04Conc  `json:"conc,omitempty"`  // kind conc: see c04_conc.go
	Relay *c04Relay `json:"relay,omitempty"` // kind relay: see c04_relay.go
	Seq   *c04Seq   `json:"seq,omitempty"`   // kind seq: see c04_seq.go

	Fails         int  `json:"fails,omitempty"`
	FailAfterRead bool `json:"fail_after_read,omitempty"`
	// FailRead[i] >= 0: the backend of failing attempt i reads that many bytes of the body, then fails
	// (a backend that dies mid-body); -1 or absent: Fails/FailAfterRead decide
	FailRead []int `json:"fail_read,omitempty"`
	Salt     int   `json:"salt,omitempty"`      // retrybody: pattern of the body (BodyLen bytes)
	RealWire bool  `json:"real_wire,omitempty"` // retrybody: real http.Transport against loopback backends that reset the connection
	Retry         bool `json:"retry,omitempty"`
}

// ---- Coq emitters ----
func c04Hdr(h http.Header) string {
	keys := make([]string, 0, len(h))
	for k := range h {
		keys = append(keys, k)
	}
	sort.Strings(keys)
	it := make([]string, len(keys))
	for i, k := range keys {
		it[i] = cPair(c04S(k), c04SList(h[k]))
	}
	return cList(it)
}

func c04Lines(lines [][2]string) http.Header {
	h := http.Header{}
	for _, l := range lines {
		h[l[0]] = append(h[l[0]], l[1])
	}
	return h
}

func c04Dirs(ds []c04Dir) string {
	var it []string
	for _, d := range ds {
		switch d.K {
		case "up":
			it = append(it, cApp("DUp", c04S(d.A), c04S(d.B)))
		case "down":
			it = append(it, cApp("DDown", c04S(d.A), c04S(d.B)))
		case "upre":
			it = append(it, cApp("DUpRe", c04S(d.A), c04S(d.B), c04S(d.C)))
		case "downre":
			it = append(it, cApp("DDownRe", c04S(d.A), c04S(d.B), c04S(d.C)))
		case "transparent":
			it = append(it, "DTransparent")
		case "websocket":
			it = append(it, "DWebsocket")
		case "without":
			it = append(it, cApp("DWithout", c04S(d.A)))
		}
	}
	return cList(it)
}

func c04Quote(s string) string {
	if s == "" || strings.ContainsAny(s, " \t\"") {
		return "\"" + strings.ReplaceAll(s, "\"", "\\\"") + "\""
	}
	return s
}

func c04BlockText(ds []c04Dir) string {
	var sb strings.Builder
	for _, d := range ds {
		switch d.K {
		case "up", "down":
			name := "header_upstream"
			if d.K == "down" {
				name = "header_downstream"
			}
			if d.B == "" && strings.HasPrefix(d.A, "-") {
				fmt.Fprintf(&sb, "  %s %s\n", name, d.A)
			} else {
				fmt.Fprintf(&sb, "  %s %s %s\n", name, d.A, c04Quote(d.B))
			}
		case "upre":
			fmt.Fprintf(&sb, "  header_upstream %s %s %s\n", d.A, c04Quote(d.B), c04Quote(d.C))
		case "downre":
			fmt.Fprintf(&sb, "  header_downstream %s %s %s\n", d.A, c04Quote(d.B), c04Quote(d.C))
		case "transparent":
			sb.WriteString("  transparent\n")
		case "websocket":
			sb.WriteString("  websocket\n")
		case "without":
			fmt.Fprintf(&sb, "  without %s\n", d.A)
		}
	}
	return sb.String()
}

func c04Url(path, rawpath, query string) string {
	return cApp("Build_urlst", c04S(path), c04S(rawpath), c04S(query))
}

func c04TargetTerm(addr string) (string, string, error) {
	u, err := url.Parse(addr)
	if err != nil {
		return "", "", err
	}
	auth := "None"
	if u.User != nil {
		pw, _ := u.User.Password()
		auth = "(Some " + c04S("Basic "+base64.StdEncoding.EncodeToString([]byte(u.User.Username()+":"+pw))) + ")"
	}
	return cApp("Build_target", c04S(u.Host), c04S(u.Path), c04S(u.RawPath), c04S(u.RawQuery), auth), u.Host, nil
}

func c04Bresp(status int, hdr http.Header, ann []string, trailers http.Header) string {
	return cApp("Build_bresp", cN(uint64(status)), c04Hdr(hdr), c04SList(ann), c04Hdr(trailers))
}

// ---- vocabulary: strings of the generator pools are referenced as (w i) (table in Gen_C04.v,
// regenerated from this very list on every run) instead of hex literals: case files stay small ----
var c04Voc []string
var c04VocIdx = map[string]int{}

func c04VocAdd(xs ...string) {
	for _, x := range xs {
		if _, ok := c04VocIdx[x]; !ok && len(x) > 0 {
			c04VocIdx[x] = len(c04Voc)
			c04Voc = append(c04Voc, x)
		}
	}
}

func c04BuildVoc() {
	if len(c04Voc) > 0 {
		return
	}
	var names []string
	names = append(names, c04Hop...)
	names = append(names, c04E2E...)
	names = append(names, c04HopNames...)
	names = append(names, c04DirNamesUp...)
	names = append(names, c04DirNamesDown...)
	names = append(names, c04RespNames...)
	names = append(names, "X-T1", "X-T2", "X-U1", "Content-Length", "X-Real-IP", "X-Forwarded-Proto", "X-Forwarded-Port", "Host", "Vary", "Date", "Server", "X-Drop", "Trailer")
	for _, n := range names {
		c04VocAdd(n, textproto.CanonicalMIMEHeaderKey(n), "+"+n, "-"+n)
	}
	c04VocAdd(c04Vals...)
	c04VocAdd(c04ConnVals...)
	c04VocAdd(c04DirVals...)
	c04VocAdd(c04ReTo...)
	c04VocAdd(c04RePat...)
	c04VocAdd(c04Withouts...)
	c04VocAdd(c04Methods...)
	c04VocAdd(c04Hosts...)
	c04VocAdd(c04Remotes...)
	c04VocAdd(c04Bodies...)
	c04VocAdd(c04RBodies...)
	c04VocAdd(c04Queries...)
	for _, n := range append(append([]string{"Origin"}, c04SeqDownNames...), c04SeqUpNames...) {
		c04VocAdd(n, textproto.CanonicalMIMEHeaderKey(n), "+"+n)
	}
	c04VocAdd(c04SeqVals...)
	c04VocAdd(c04SeqOrigins...)
	c04VocAdd(c04SeqLocations...)
	c04VocAdd(c04SeqRePat...)
	c04VocAdd("pending")
	c04VocAdd("t1", "t2", "t3", "pre", "text/pre", "Casket", "pre=1", "http", "https", "80", "0", "1", "11", "40", "k=v", "tq=1")
	for _, t := range c04ReqTargets {
		c04VocAdd(t)
		if u, err := url.ParseRequestURI(t); err == nil {
			c04VocAdd(u.Path, u.RawPath)
		}
	}
	for i := 0; i < 3; i++ {
		for _, tp := range c04TargetPool {
			if u, err := url.Parse(fmt.Sprintf(tp, i)); err == nil {
				c04VocAdd(u.Host, u.Path, u.RawPath, u.RawQuery)
			}
		}
	}
	for _, r := range c04Remotes {
		if h, _, err := net.SplitHostPort(r); err == nil {
			c04VocAdd(h)
		}
	}
}

// c04S emits a string: vocabulary reference when possible
func c04S(s string) string {
	if i, ok := c04VocIdx[s]; ok {
		return fmt.Sprintf("(w %d)", i)
	}
	return cStr(s)
}
func c04SList(xs []string) string {
	it := make([]string, len(xs))
	for i, x := range xs {
		it[i] = c04S(x)
	}
	return cList(it)
}

var c04DirNamesUp = []string{"X-A", "X-New", "Host", "Authorization", "Connection", "x-lower", "X-B", "Upgrade", "X-Real-IP", "Cookie"}
var c04DirNamesDown = []string{"X-A", "X-New", "Server", "Content-Type", "Set-Cookie", "x-lower", "X-B", "Connection", "Cache-Control", "Location"}
var c04DirVals = []string{"lit", "other", "{>X-A}", "{host}", "{remote}", "pre-{>X-B}-post", "{nope}", "{>Missing}", "{method}", "{hostonly}:{server_port}", "two words", "{>Connection}", "{scheme}", "{port}"}
var c04RePat = []string{"a", "ab", "1", "v", "Basic", "b, "}
var c04ReTo = []string{"Z", "{host}", "__", "{>X-B}"}
var c04Withouts = []string{"/api", "/a", "/api/", "/x%2Fy", "/api/x"}
var c04Methods = []string{"GET", "GET", "POST", "PUT", "DELETE", "HEAD", "PATCH", "OPTIONS"}
var c04Hosts = []string{"front.test", "front.test:8443", "127.0.0.1:2015", "[::1]:80"}
var c04Remotes = []string{"192.0.2.7:4711", "10.0.0.1:80", "[2001:db8::1]:555", "noport", "192.0.2.9:1"}
var c04Bodies = []string{"", "x", "hello world", "0123456789012345678901234567890123456789"}
var c04RBodies = []string{"", "ok", "response body 0123456789"}
var c04RespNames = []string{"Content-Type", "X-A", "X-B", "Set-Cookie", "Server", "Cache-Control", "Location", "Vary", "Etag", "Content-Disposition", "Accept-Ranges", "Expires"}
var c04RespHop = []string{"Connection", "Keep-Alive", "Proxy-Authenticate", "Proxy-Connection", "Te", "Trailer", "Transfer-Encoding", "Upgrade", "Alt-Svc", "Alternate-Protocol", "Proxy-Authorization"}

const c04Trivial = "(CKey [] [])"

// ---- scripted transport ----
type c04Sent struct {
	Target  int
	Method  string
	Host    string
	URLHost string
	Path    string
	RawPath string
	Query   string
	Header  http.Header
	Body    []byte
	Read    bool
	Asked   int64 // body bytes the backend asked for before failing; -1: it read to EOF
	CL      int64
	Chunked bool
}

type c04Transport struct {
	in    *c04In
	hosts []string // URL.Host of each target
	sent  []c04Sent
}

type c04TrailerBody struct {
	r    io.Reader
	res  *http.Response
	tr   http.Header
	done bool
}

func (b *c04TrailerBody) Read(p []byte) (int, error) {
	n, err := b.r.Read(p)
	if err == io.EOF && !b.done {
		b.done = true
		// what net/http's transport does when the chunked body hits EOF: merge the received trailer
		for k, vv := range b.tr {
			if b.res.Trailer == nil {
				b.res.Trailer = http.Header{}
			}
			b.res.Trailer[k] = append([]string(nil), vv...)
		}
	}
	return n, err
}
func (b *c04TrailerBody) Close() error { return nil }

func (t *c04Transport) RoundTrip(r *http.Request) (*http.Response, error) {
	s := c04Sent{Target: len(t.hosts), Method: r.Method, Host: r.Host, URLHost: r.URL.Host, Path: r.URL.Path, RawPath: r.URL.RawPath,
		Query: r.URL.RawQuery, Header: r.Header.Clone(), CL: r.ContentLength}
	for i, h := range t.hosts {
		if h == r.URL.Host {
			s.Target = i
			break
		}
	}
	for _, te := range r.TransferEncoding {
		if te == "chunked" {
			s.Chunked = true
		}
	}
	failing := len(t.sent) < t.in.Fails
	s.Asked = -1
	if idx := len(t.sent); failing && idx < len(t.in.FailRead) && t.in.FailRead[idx] >= 0 {
		// the backend dies mid-body: it reads k bytes, then the attempt fails
		s.Read, s.Asked = true, int64(t.in.FailRead[idx])
		if r.Body != nil {
			buf := make([]byte, t.in.FailRead[idx])
			n, _ := io.ReadFull(r.Body, buf)
			s.Body = buf[:n]
		}
	} else if !failing || t.in.FailAfterRead {
		s.Read = true
		if r.Body != nil {
			s.Body, _ = io.ReadAll(r.Body)
		}
	}
	t.sent = append(t.sent, s)
	if failing {
		return nil, errors.New("scripted backend failure")
	}
	res := &http.Response{StatusCode: t.in.RStatus, Status: fmt.Sprintf("%d status", t.in.RStatus), Proto: "HTTP/1.1", ProtoMajor: 1, ProtoMinor: 1,
		Header: c04Lines(t.in.RHdr), Request: r, ContentLength: -1}
	if len(t.in.RAnn) > 0 {
		res.Trailer = http.Header{}
		for _, k := range t.in.RAnn {
			res.Trailer[k] = nil
		}
	}
	res.Body = &c04TrailerBody{r: strings.NewReader(t.in.RBody), res: res, tr: c04Lines(t.in.RTrailers)}
	return res, nil
}

func c04ParseRequest(in *c04In) (*http.Request, error) {
	var sb bytes.Buffer
	fmt.Fprintf(&sb, "%s %s HTTP/1.1\r\nHost: %s\r\n", in.Method, in.Target, in.Host)
	for _, l := range in.Hdr {
		fmt.Fprintf(&sb, "%s: %s\r\n", l[0], l[1])
	}
	if in.Chunked {
		sb.WriteString("Transfer-Encoding: chunked\r\n\r\n")
		if len(in.Body) > 0 {
			fmt.Fprintf(&sb, "%x\r\n%s\r\n", len(in.Body), in.Body)
		}
		sb.WriteString("0\r\n\r\n")
	} else {
		if len(in.Body) > 0 || in.Method == "POST" || in.Method == "PUT" {
			fmt.Fprintf(&sb, "Content-Length: %d\r\n", len(in.Body))
		}
		sb.WriteString("\r\n")
		sb.WriteString(in.Body)
	}
	req, err := http.ReadRequest(bufio.NewReader(&sb))
	if err != nil {
		return nil, err
	}
	req.RemoteAddr = in.Remote
	return req, nil
}

func c04RequestTerm(req *http.Request) string {
	return cApp("Build_request", c04S(req.Method), c04S(req.Host), c04S(req.RemoteAddr), c04Url(req.URL.Path, req.URL.RawPath, req.URL.RawQuery), c04Hdr(req.Header))
}

func c04Upstreams(text string) ([]proxy.Upstream, error) {
	return proxy.NewStaticUpstreams(casketfile.NewDispenser("Testfile", strings.NewReader(text)), "")
}

func c04HasDir(ds []c04Dir, f func(c04Dir) bool) bool {
	for _, d := range ds {
		if f(d) {
			return true
		}
	}
	return false
}

func c04RunProxy(in *c04In) Result {
	req, err := c04ParseRequest(in)
	if err != nil {
		return Result{Term: c04Trivial, Obs: "request rejected by net/http: " + err.Error(), Class: "proxy:request-rejected", Sig: "proxy:request-rejected"}
	}
	if c04WebsocketCase(in, req.Header) {
		return Result{Term: c04Trivial, Obs: "websocket upgrade through the websocket preset: outside the model", Class: "proxy:websocket-out-of-scope", Sig: "proxy:websocket-out-of-scope"}
	}
	qterm := c04RequestTerm(req)
	hadHop := false
	for _, h := range c04HopNames {
		if _, ok := req.Header[h]; ok {
			hadHop = true
		}
	}
	trig := c04Triggers(in, req.Header) // computed before ServeHTTP, on the header map as parsed
	fixedCl := c04RepairedClasses(in, req.Header)
	text := c04ProxyBlockText(in)
	ups, err := c04Upstreams(text)
	if err != nil || len(ups) != 1 {
		return Result{Term: c04Trivial, Obs: fmt.Sprint("setup error: ", err, " for ", text), Class: "proxy:setup-error", Sig: "proxy:setup-error"}
	}
	defer ups[0].Stop()
	tr := &c04Transport{in: in}
	var tterms []string
	for _, a := range in.Targets {
		tt, h, err := c04TargetTerm(a)
		if err != nil {
			return Result{Term: c04Trivial, Obs: "bad target", Class: "proxy:setup-error", Sig: "proxy:setup-error"}
		}
		tterms = append(tterms, tt)
		tr.hosts = append(tr.hosts, h)
	}
	for _, h := range hostsOf(ups[0]) {
		h.ReverseProxy.Transport = tr
		h.ReverseProxy.FlushInterval = 0
	}
	nextCalled := false
	p := proxy.Proxy{Next: handlerFunc(func(w http.ResponseWriter, r *http.Request) (int, error) { nextCalled = true; return 404, nil }), Upstreams: ups}
	rec := httptest.NewRecorder()
	for _, l := range in.Pre {
		rec.Header().Add(l[0], l[1])
	}
	pre := rec.Header().Clone()
	direct := ""
	var ret int
	func() {
		defer func() {
			if e := recover(); e != nil {
				direct = fmt.Sprint("panic in Proxy.ServeHTTP: ", e)
			}
		}()
		ret, _ = p.ServeHTTP(rec, req)
	}()
	if nextCalled {
		direct = "request was not proxied (Next called)"
	}
	var sents []string
	for _, s := range tr.sent {
		sent := cApp("Build_sent", c04S(s.Host), c04S(s.URLHost), c04Url(s.Path, s.RawPath, s.Query), c04Hdr(s.Header))
		sents = append(sents, cApp("Build_sent_obs", cNat(s.Target), c04S(s.Method), sent, cBool(s.Read), cZ(s.Asked), c04S(string(s.Body)), cZ(s.CL), cBool(s.Chunked)))
	}
	answered := len(tr.sent) > in.Fails
	var cobs string
	obs := map[string]interface{}{"ret": ret, "sent": tr.sent}
	if answered {
		res := rec.Result()
		body, _ := io.ReadAll(res.Body)
		cobs = cApp("Build_client_obs", cN(uint64(res.StatusCode)), c04Hdr(res.Header), c04Hdr(res.Trailer), c04S(string(body)))
		obs["client"] = map[string]interface{}{"status": res.StatusCode, "header": res.Header, "trailer": res.Trailer, "body": string(body)}
	} else {
		cobs = "(Build_client_obs 0%N [] [] [])"
	}
	term := cApp("CProxy", c04Dirs(in.Dirs), cList(tterms), qterm, c04S(in.Body), cBool(in.Chunked), c04Hdr(pre),
		c04Bresp(in.RStatus, c04Lines(in.RHdr), in.RAnn, c04Lines(in.RTrailers)), c04S(in.RBody), cNat(in.Fails), cBool(in.Retry),
		cList(sents), cobs, cN(uint64(ret)))

	// ---- signature: the class of the input (what a known finding is matched on) ----
	sig := "proxy:plain"
	if len(tr.sent) >= 2 {
		sig = "proxy:retry"
	}
	if len(trig) > 0 {
		sig = "proxy:" + strings.Join(trig, "+")
	} else if len(fixedCl) > 0 {
		sig = "proxy:" + strings.Join(fixedCl, "+")
	}
	if sig == "proxy:plain" && c04DownRuleOnHop(in) {
		sig = "proxy:response:downstream-rule-on-hop-header" // the rules run after the hop-by-hop removal
	}
	for _, k := range in.FailRead {
		if k > 0 && k < len(in.Body) && len(tr.sent) >= 2 {
			sig = "proxy:retry:backend-died-mid-body" // an earlier attempt read only part of the body
			break
		}
	}
	if answered && c04TrailerSharesHeader(in, rec.Result().Header) {
		sig = c04SigSharedTrailer
	}
	class := "proxy:"
	switch {
	case len(tr.sent) >= 2:
		class += "retry"
	case !answered:
		class += "502"
	case hadHop:
		class += "hop"
	default:
		class += "nohop"
	}
	if len(in.RAnn) > 0 || len(in.RTrailers) > 0 {
		class += "+trailers"
	}
	nt := len(in.Hdr) > 0 && (len(in.Dirs) > 0 || hadHop)
	return Result{Term: term, Obs: obs, Sig: sig, Direct: direct, Nontrivial: nt, Class: class}
}

// c04DownRuleOnHop: a header_downstream rule targets a header that is hop-by-hop for the scripted
// response (hop-by-hop table, or named in one of its Connection lines), Connection included
func c04DownRuleOnHop(in *c04In) bool {
	hop := map[string]bool{}
	for _, h := range c04RespHop {
		hop[textproto.CanonicalMIMEHeaderKey(h)] = true
	}
	for _, l := range in.RHdr {
		if textproto.CanonicalMIMEHeaderKey(l[0]) == "Connection" {
			for _, tok := range strings.Split(l[1], ",") {
				hop[textproto.CanonicalMIMEHeaderKey(strings.TrimSpace(tok))] = true
			}
		}
	}
	for _, d := range in.Dirs {
		if (d.K == "down" || d.K == "downre") && hop[textproto.CanonicalMIMEHeaderKey(strings.TrimLeft(d.A, "+-"))] {
			return true
		}
	}
	return false
}

var c04HopNames = []string{"Connection", "Keep-Alive", "Proxy-Authenticate", "Proxy-Authorization", "Proxy-Connection", "Te", "Trailer", "Transfer-Encoding", "Upgrade", "Alt-Svc", "Alternate-Protocol"}

// c04Triggers lists the input conditions under which the tree is known to deviate from the
// property (each is one OPEN known finding); reqHdr is the header map net/http parsed. All proxy-case
// findings (F-C04-1..5) are repaired: none is left, see c04RepairedClasses.
func c04Triggers(in *c04In, reqHdr http.Header) []string {
	return nil
}

// c04RepairedClasses names the input classes of REPAIRED findings (status "fixed" in
// known_findings.json; witnesses in corpus/C04). They exempt nothing and do not restrict the
// generator: they only label Sig, so that a regression is reported under the class it belongs to.
func c04RepairedClasses(in *c04In, reqHdr http.Header) []string {
	var t []string
	if in.Fails > 0 && in.Retry && c04NonIdempotent(in) {
		t = append(t, "retry:rewrite-reapplied") // F-C04-4
	}
	if cv := reqHdr["Connection"]; len(cv) >= 2 && c04LaterConnNames(cv, reqHdr) {
		t = append(t, "request:second-connection-line") // F-C04-1
	}
	for _, h := range c04HopNames {
		if vv, ok := reqHdr[h]; ok && len(vv) > 0 && vv[0] == "" {
			t = append(t, "request:hop-header-empty-first-value") // F-C04-2
			break
		}
	}
	if rc := c04Lines(in.RHdr)["Connection"]; len(rc) >= 2 && c04LaterConnNames(rc, c04Lines(in.RHdr)) {
		t = append(t, "response:second-connection-line") // F-C04-3
	}
	hadHop := false
	for _, h := range c04HopNames {
		if _, ok := reqHdr[h]; ok {
			hadHop = true
		}
	}
	if c04AliasSensitive(in, hadHop) {
		t = append(t, "request:placeholder-reads-mutated-headers") // F-C04-5
	}
	return t
}

// a later Connection line names a header that is present (before the repair of F-C04-1/F-C04-3 only
// the first line was honoured)
func c04LaterConnNames(vals []string, h http.Header) bool {
	for _, v := range vals[1:] {
		for _, f := range strings.Split(v, ",") {
			f = strings.TrimSpace(f)
			if f == "" {
				continue
			}
			if _, ok := h[textproto.CanonicalMIMEHeaderKey(f)]; ok {
				return true
			}
		}
	}
	return false
}

// would re-running the director / the rules on an already rewritten request change it? (before the
// repair of F-C04-4 a retry did just that)
func c04NonIdempotent(in *c04In) bool {
	for _, a := range in.Targets {
		u, err := url.Parse(a)
		if err != nil {
			continue
		}
		if (u.Path != "" && u.Path != "/") || u.RawQuery != "" {
			return true
		}
	}
	return c04HasDir(in.Dirs, func(d c04Dir) bool {
		return d.K == "without" || d.K == "upre" || (d.K == "up" && strings.HasPrefix(d.A, "+"))
	})
}

// header_upstream/header_downstream values that read a request header the proxy itself rewrites
// (X-Forwarded-For, Authorization from the upstream URL, or a header targeted by another
// header_upstream rule) in a request without hop-by-hop header (before the repair of F-C04-5
// outreq.Header then shared the map of r.Header and the placeholder read the rewritten value)
func c04AliasSensitive(in *c04In, hadHop bool) bool {
	if hadHop {
		return false
	}
	targets := map[string]bool{"x-forwarded-for": true}
	for _, a := range in.Targets {
		if u, err := url.Parse(a); err == nil && u.User != nil {
			targets["authorization"] = true
		}
	}
	for _, d := range in.Dirs {
		switch d.K {
		case "up":
			targets[strings.ToLower(strings.TrimLeft(d.A, "+-"))] = true
		case "upre":
			targets[strings.ToLower(d.A)] = true
		case "transparent":
			targets["host"], targets["x-real-ip"], targets["x-forwarded-proto"], targets["x-forwarded-port"] = true, true, true, true
		case "websocket":
			targets["connection"], targets["upgrade"] = true, true
		}
	}
	reads := func(v string) bool {
		for t := range targets {
			if strings.Contains(strings.ToLower(v), "{>"+t+"}") {
				return true
			}
		}
		return false
	}
	return c04HasDir(in.Dirs, func(d c04Dir) bool {
		switch d.K {
		case "up", "down":
			return reads(d.B)
		case "upre", "downre":
			return reads(d.C)
		}
		return false
	})
}

// ---- match: several proxy blocks, which one gets the request ----
func c04RunMatch(in *c04In) Result {
	var sb strings.Builder
	for i, f := range in.Froms {
		fmt.Fprintf(&sb, "proxy %s http://b%d.test\n", f, i)
	}
	ups, err := c04Upstreams(sb.String())
	if err != nil || len(ups) != len(in.Froms) {
		return Result{Term: c04Trivial, Obs: fmt.Sprint("setup error: ", err), Class: "match:setup-error", Sig: "match:setup-error"}
	}
	got := -1
	rt := roundTripFunc(func(r *http.Request) (*http.Response, error) {
		fmt.Sscanf(r.URL.Host, "b%d.test", &got)
		return &http.Response{StatusCode: 204, Header: http.Header{}, Body: io.NopCloser(strings.NewReader("")), Request: r}, nil
	})
	for _, u := range ups {
		defer u.Stop()
		for _, h := range hostsOf(u) {
			h.ReverseProxy.Transport = rt
			h.ReverseProxy.FlushInterval = 0
		}
	}
	p := proxy.Proxy{Next: handlerFunc(func(w http.ResponseWriter, r *http.Request) (int, error) { return 404, nil }), Upstreams: ups}
	req := &http.Request{Method: "GET", URL: &url.URL{Path: in.A}, Header: http.Header{}, Host: "front.test", RemoteAddr: "192.0.2.1:1", Proto: "HTTP/1.1", ProtoMajor: 1, ProtoMinor: 1}
	req = req.WithContext(req.Context())
	p.ServeHTTP(httptest.NewRecorder(), req)
	return Result{Term: cApp("CMatch", c04S(in.A), c04SList(in.Froms), cOptNat(got)), Obs: got, Sig: "match", Nontrivial: got >= 0 && len(in.Froms) > 1, Class: "match"}
}

type roundTripFunc func(*http.Request) (*http.Response, error)

func (f roundTripFunc) RoundTrip(r *http.Request) (*http.Response, error) { return f(r) }

// ---- wire: real casket site in front of a real backend ----
type c04Backend struct {
	mu   sync.Mutex
	srv  *httptest.Server
	in   *c04In
	seen []c04Sent
}

var c04BE *c04Backend

func c04BodyOf(n, salt int) []byte {
	b := make([]byte, n)
	for i := range b {
		b[i] = byte((i*7 + i/251 + salt) % 253)
	}
	return b
}

func c04GetBackend() *c04Backend {
	if c04BE != nil {
		return c04BE
	}
	be := &c04Backend{}
	be.srv = httptest.NewServer(http.HandlerFunc(func(w http.ResponseWriter, r *http.Request) {
		body, _ := io.ReadAll(r.Body)
		be.mu.Lock()
		in := be.in
		s := c04Sent{Method: r.Method, Host: r.Host, Path: r.URL.Path, RawPath: r.URL.RawPath, Query: r.URL.RawQuery, Header: r.Header.Clone(), Body: body, CL: r.ContentLength}
		for _, te := range r.TransferEncoding {
			if te == "chunked" {
				s.Chunked = true
			}
		}
		be.seen = append(be.seen, s)
		be.mu.Unlock()
		if in == nil {
			w.WriteHeader(500)
			return
		}
		for _, l := range in.RHdr {
			w.Header().Add(l[0], l[1])
		}
		if len(in.RAnn) > 0 {
			w.Header().Set("Trailer", strings.Join(in.RAnn, ", "))
		}
		rb := c04BodyOf(in.RBodyLen, 3)
		if in.RCL {
			w.Header().Set("Content-Length", fmt.Sprint(len(rb)))
		}
		w.WriteHeader(in.RStatus)
		if len(in.RAnn) > 0 || len(in.RTrailers) > 0 {
			// trailers need a chunked response: make sure net/http does not compute a Content-Length
			if f, ok := w.(http.Flusher); ok {
				f.Flush()
			}
		}
		off := 0
		for _, n := range in.RFlush {
			if off+n > len(rb) {
				break
			}
			w.Write(rb[off : off+n])
			off += n
			if f, ok := w.(http.Flusher); ok {
				f.Flush()
			}
		}
		w.Write(rb[off:])
		ann := map[string]bool{}
		for _, k := range in.RAnn {
			ann[k] = true
			// the header section is on the wire: a trailer that shares its name with a response header
			// is sent with the trailer's values only (this backend assigns, as the term handed to Coq says)
			w.Header().Del(k)
		}
		for _, l := range in.RTrailers {
			if ann[l[0]] {
				w.Header().Add(l[0], l[1])
			} else {
				w.Header().Add(http.TrailerPrefix+l[0], l[1])
			}
		}
	}))
	c04BE = be
	return be
}

func c04FirstDiff(a, b []byte) string {
	n := len(a)
	if len(b) < n {
		n = len(b)
	}
	for i := 0; i < n; i++ {
		if a[i] != b[i] {
			return "(Some " + cN(uint64(i)) + ")"
		}
	}
	return "None"
}

// c04RunWire retries a case whose relay looked broken (truncated body, no response): loopback
// hiccups on a loaded machine must not be reported; a real defect fails every time.
func c04RunWire(in *c04In) Result {
	var res Result
	for try := 0; try < 3; try++ {
		var ok bool
		res, ok = c04RunWire1(in)
		if ok {
			break
		}
		time.Sleep(50 * time.Millisecond)
	}
	return res
}

func c04RunWire1(in *c04In) (Result, bool) {
	be := c04GetBackend()
	be.mu.Lock()
	be.in = in
	be.seen = nil
	be.mu.Unlock()
	site, err := getSite("proxy / " + be.srv.URL + " {\n" + c04BlockText(in.Dirs) + "}\n")
	if err != nil {
		return Result{Term: c04Trivial, Obs: "site error: " + err.Error(), Class: "wire:setup-error", Sig: "wire:setup-error", Direct: "site did not start: " + err.Error()}, false
	}
	body := c04BodyOf(in.BodyLen, 0)
	conn, err := net.DialTimeout("tcp", site.addr, 2*time.Second)
	if err != nil {
		return Result{Term: c04Trivial, Obs: "dial: " + err.Error(), Class: "wire:setup-error", Sig: "wire:setup-error", Direct: "dial failed"}, false
	}
	defer conn.Close()
	conn.SetDeadline(time.Now().Add(10 * time.Second))
	var sb bytes.Buffer
	fmt.Fprintf(&sb, "%s %s HTTP/1.1\r\nHost: %s\r\n", in.Method, in.Target, site.addr)
	for _, l := range in.Hdr {
		fmt.Fprintf(&sb, "%s: %s\r\n", l[0], l[1])
	}
	if in.Chunked {
		sb.WriteString("Transfer-Encoding: chunked\r\n\r\n")
		off := 0
		for _, n := range in.Chunks {
			if n <= 0 || off+n > len(body) {
				continue
			}
			fmt.Fprintf(&sb, "%x\r\n", n)
			sb.Write(body[off : off+n])
			sb.WriteString("\r\n")
			off += n
		}
		if off < len(body) {
			fmt.Fprintf(&sb, "%x\r\n", len(body)-off)
			sb.Write(body[off:])
			sb.WriteString("\r\n")
		}
		sb.WriteString("0\r\n\r\n")
	} else {
		if len(body) > 0 || in.Method == "POST" || in.Method == "PUT" {
			fmt.Fprintf(&sb, "Content-Length: %d\r\n", len(body))
		}
		sb.WriteString("\r\n")
		sb.Write(body)
	}
	go conn.Write(sb.Bytes())
	resp, err := http.ReadResponse(bufio.NewReader(conn), &http.Request{Method: in.Method})
	if err != nil {
		return Result{Term: c04Trivial, Obs: "read response: " + err.Error(), Class: "wire:no-response", Sig: "wire:no-response", Direct: "no response from the site: " + err.Error()}, false
	}
	got, rerr := io.ReadAll(resp.Body)
	resp.Body.Close()
	be.mu.Lock()
	seen := append([]c04Sent(nil), be.seen...)
	be.mu.Unlock()
	if len(seen) != 1 {
		return Result{Term: c04Trivial, Obs: fmt.Sprint("backend saw ", len(seen), " requests; status ", resp.StatusCode), Class: "wire:backend-count", Sig: "wire:backend-count",
			Direct: fmt.Sprintf("backend saw %d requests instead of 1 (client status %d)", len(seen), resp.StatusCode)}, false
	}
	s := seen[0]
	rb := c04BodyOf(in.RBodyLen, 3)
	if in.Method == "HEAD" {
		rb = nil
	}
	direct := ""
	if rerr != nil {
		direct = "client could not read the relayed body: " + rerr.Error()
	}
	bh := c04Lines(in.RHdr)
	if in.RCL {
		bh["Content-Length"] = []string{fmt.Sprint(in.RBodyLen)} // what the backend sets itself
	}
	cchunked := false
	for _, te := range resp.TransferEncoding {
		if te == "chunked" {
			cchunked = true
		}
	}
	term := cApp("CWire", c04S(in.Method), cN(uint64(len(body))), cBool(in.Chunked), c04S(s.Method), cN(uint64(len(s.Body))), c04FirstDiff(body, s.Body),
		cZ(s.CL), c04Bresp(in.RStatus, bh, in.RAnn, c04Lines(in.RTrailers)), cN(uint64(len(rb))), cN(uint64(resp.StatusCode)),
		cN(uint64(len(got))), c04FirstDiff(rb, got), c04Hdr(resp.Header), c04Hdr(resp.Trailer), cBool(cchunked))
	obs := map[string]interface{}{"up_len": len(s.Body), "up_cl": s.CL, "up_chunked": s.Chunked, "status": resp.StatusCode, "len": len(got), "header": resp.Header, "trailer": resp.Trailer}
	class := "wire:cl"
	if in.Chunked {
		class = "wire:chunked"
	}
	if len(in.RAnn) > 0 || len(in.RTrailers) > 0 {
		class += "+trailers"
	}
	sig := "wire:relay"
	respConn := c04Lines(in.RHdr)["Connection"]
	if len(respConn) >= 2 && c04LaterConnNames(respConn, c04Lines(in.RHdr)) {
		sig = "wire:response:second-connection-line" // class of the repaired F-C04-3 (label only)
	}
	if len(in.RAnn) == 0 && len(in.RTrailers) > 0 && in.RBodyLen <= 2048 {
		// the front response is not chunked yet when the proxy learns about the trailers: class of
		// the repaired F-C04-6 (label only; the proxy now flushes before setting such trailers)
		sig = "wire:response:unannounced-trailers-short-body"
	}
	if c04TrailerSharesHeader(in, resp.Header) {
		sig = c04SigSharedTrailer
	}
	looksFine := rerr == nil && len(got) == len(rb) && len(s.Body) == len(body) && resp.StatusCode == in.RStatus
	return Result{Term: term, Obs: obs, Sig: sig, Direct: direct, Nontrivial: in.BodyLen > 0 || in.RBodyLen > 0, Class: class}, looksFine
}

func c04Run(in0 interface{}) Result {
	in := in0.(*c04In)
	switch in.Kind {
	case "key":
		o := textproto.CanonicalMIMEHeaderKey(in.S)
		return Result{Term: cApp("CKey", c04S(in.S), c04S(o)), Obs: o, Sig: "key", Nontrivial: o != in.S, Class: "key"}
	case "sjs":
		// singleJoiningSlash through the director: target path a, request path b
		u, err := url.Parse("http://h.test")
		if err != nil {
			panic(err)
		}
		u.Path = in.A
		rp := proxy.NewSingleHostReverseProxy(u, "", http.DefaultMaxIdleConnsPerHost, 30*time.Second, 0)
		r := &http.Request{URL: &url.URL{Path: in.B}, Header: http.Header{}}
		rp.Director(r)
		return Result{Term: cApp("CSjs", c04S(in.A), c04S(in.B), c04S(r.URL.Path)), Obs: r.URL.Path, Sig: "sjs", Nontrivial: true, Class: "sjs"}
	case "replace":
		req, err := c04ParseRequest(in)
		if err != nil {
			return Result{Term: c04Trivial, Obs: "rejected", Class: "replace:rejected", Sig: "replace:rejected"}
		}
		qterm := c04RequestTerm(req)
		o := httpserver.NewReplacer(req, nil, "").Replace(in.S)
		return Result{Term: cApp("CReplace", qterm, c04S(in.S), c04S(o)), Obs: o, Sig: "replace", Nontrivial: o != in.S, Class: "replace"}
	case "match":
		return c04RunMatch(in)
	case "proxy":
		return c04RunProxy(in)
	case "wire":
		return c04RunWire(in)
	case "conc":
		return c04RunConc(in)
	case "relay":
		return c04RunRelay(in)
	case "retrybody":
		return c04RunRetryBody(in)
	case "seq":
		return c04RunSeq(in)
	}
	panic("bad kind " + in.Kind)
}

// ================= generators =================
var c04Hop = []string{"Connection", "Keep-Alive", "Proxy-Authenticate", "Proxy-Authorization", "Proxy-Connection", "TE", "Trailer", "Upgrade", "Alt-Svc", "Alternate-Protocol", "te", "keep-alive"}
var c04E2E = []string{"Accept", "X-A", "X-B", "x-lower", "User-Agent", "Cookie", "Authorization", "X-Forwarded-For", "Content-Type", "Cache-Control", "X-Secret", "Accept-Encoding", "X-Real-IP", "X-Forwarded-Proto"}
var c04Vals = []string{"v1", "v2", "a, b", "abc1ab", "timeout=5", "Basic abc", "1.1.1.1", "gzip", "websocket", "x y"}
var c04ConnVals = []string{"close", "keep-alive", "X-A", "x-b, X-Secret", " X-A ,, Keep-Alive", "Upgrade", "", "x-lower,Cookie", "X-Forwarded-For", "TE, X-B", "upgrade", "X-T1", "Set-Cookie, X-B",
	// headers the proxy itself adds (X-Forwarded-For always; X-Real-IP / X-Forwarded-Proto / X-Forwarded-Port / Host under
	// `transparent`) named hop-by-hop by the client: the removal runs before the prior value is read (C04_xff_listed_in_connection)
	"close, x-forwarded-for", "X-Forwarded-For, X-Real-IP", "X-Forwarded-Proto, X-Forwarded-Port, Host", "x-real-ip"}

func c04GenLines(r *Rand, e2e, hop []string, n int, connP int) [][2]string {
	var out [][2]string
	for i := 0; i < n; i++ {
		var name string
		switch {
		case len(out) > 0 && r.Chance(15):
			name = out[r.Intn(len(out))][0] // second line of the same field
		case r.Chance(connP):
			name = "Connection"
		case r.Chance(35):
			name = r.Pick(hop)
		default:
			name = r.Pick(e2e)
		}
		v := r.Pick(c04Vals)
		if strings.EqualFold(name, "Connection") {
			v = r.Pick(c04ConnVals)
		}
		if r.Chance(4) {
			v = ""
		}
		out = append(out, [2]string{name, v})
	}
	return out
}

func c04GenDirs(r *Rand) []c04Dir {
	var ds []c04Dir
	names := c04DirNamesUp
	vals := c04DirVals
	n := 0
	switch {
	case r.Chance(25):
		n = 0
	case r.Chance(60):
		n = r.Range(1, 2)
	default:
		n = r.Range(3, 5)
	}
	for i := 0; i < n; i++ {
		k := "up"
		if r.Chance(40) {
			k = "down"
		}
		name := r.Pick(names)
		if k == "down" {
			name = r.Pick(c04DirNamesDown)
		}
		if len(ds) > 0 && r.Chance(25) {
			// same field again (later assignment must win; +/- on the same header)
			prev := ds[r.Intn(len(ds))]
			if prev.K == "up" || prev.K == "down" {
				k = prev.K
				name = strings.TrimLeft(prev.A, "+-")
			}
		}
		switch {
		case r.Chance(8):
			re := c04Dir{K: k + "re", A: name, B: r.Pick(c04RePat), C: r.Pick(c04ReTo)}
			ds = append(ds, re)
			continue
		case r.Chance(25):
			name = "+" + name
		case r.Chance(20):
			name = "-" + name
		}
		v := r.Pick(vals)
		if strings.HasPrefix(name, "-") && r.Chance(70) {
			v = ""
		}
		ds = append(ds, c04Dir{K: k, A: name, B: v})
	}
	if r.Chance(15) {
		ds = append(ds, c04Dir{K: "transparent"})
	}
	if r.Chance(8) {
		ds = append(ds, c04Dir{K: "websocket"})
	}
	if r.Chance(30) {
		ds = append(ds, c04Dir{K: "without", A: r.Pick(c04Withouts)})
	}
	// shuffle: preset and explicit rules in any order
	p := r.Perm(len(ds))
	out := make([]c04Dir, len(ds))
	for i, j := range p {
		out[i] = ds[j]
	}
	return out
}

var c04TargetPool = []string{"http://h%d.test", "http://h%d.test/", "http://h%d.test/base", "http://h%d.test/base/", "http://h%d.test:8080/b%%2Fc",
	"http://h%d.test/base?tq=1", "http://user:pw@h%d.test/x", "http://h%d.test?k=v", "https://h%d.test/s/"}
var c04ReqTargets = []string{"/", "/x", "/api", "/api/x", "/apix", "/api/x%2Fy", "/a%20b", "/x/", "//double", "/api//x", "/a/b/c", "/API/x", "/x%2Fy/z", "/api/", "/x/api/y", "/b/a/c", "/api/api/x", "/v%2F1/api/x"}
var c04Queries = []string{"", "", "a=b", "a=b&c=d", "q=%20x", "", "a=b?c"}

// c04WebsocketCase: the `websocket` preset copies the client's Connection and Upgrade headers to the
// upstream request; when those ask for a websocket upgrade ReverseProxy.ServeHTTP takes the
// connection-hijacking path (needs a real *http.Transport and a hijackable client connection), which
// is outside the model and the scripted transport.
func c04WebsocketCase(in *c04In, reqHdr http.Header) bool {
	if !c04HasDir(in.Dirs, func(d c04Dir) bool { return d.K == "websocket" }) {
		return false
	}
	if !strings.EqualFold(reqHdr.Get("Upgrade"), "websocket") {
		return false
	}
	for _, v := range reqHdr["Connection"] {
		if strings.Contains(strings.ToLower(v), "upgrade") {
			return true
		}
	}
	return false
}

// c04GenProxy draws cases until at most one known-deviation trigger is present, so that every
// failing class stays attributable to exactly one signature.
func c04GenProxy(r *Rand) *c04In {
	for {
		in := c04GenProxy1(r)
		req, err := c04ParseRequest(in)
		if err != nil {
			return in
		}
		if c04WebsocketCase(in, req.Header) {
			continue // websocket tunnelling (hijacked connections) is outside the model
		}
		if len(c04Triggers(in, req.Header)) <= 1 {
			return in
		}
	}
}

func c04GenProxy1(r *Rand) *c04In {
	in := &c04In{Kind: "proxy", Method: r.Pick(c04Methods), Host: r.Pick(c04Hosts), Remote: r.Pick(c04Remotes)}
	nt := 1
	if r.Chance(25) {
		nt = r.Range(2, 3)
	}
	for i := 0; i < nt; i++ {
		in.Targets = append(in.Targets, fmt.Sprintf(r.Pick(c04TargetPool), i))
	}
	if r.Chance(40) {
		in.Targets[0] = fmt.Sprintf(c04TargetPool[r.Intn(2)], 0)
	}
	in.Target = r.Pick(c04ReqTargets)
	if q := r.Pick(c04Queries); q != "" {
		in.Target += "?" + q
	} else if r.Chance(5) {
		in.Target += "?"
	}
	nl := r.Range(0, 6)
	in.Hdr = c04GenLines(r, c04E2E, c04Hop, nl, 12)
	if r.Chance(10) {
		// several hop-by-hop headers and no Connection header
		in.Hdr = nil
		for _, i := range r.Perm(len(c04Hop))[:r.Range(2, 4)] {
			if c04Hop[i] != "Connection" {
				in.Hdr = append(in.Hdr, [2]string{c04Hop[i], r.Pick(c04Vals)})
			}
		}
		in.Hdr = append(in.Hdr, [2]string{"X-A", "v1"})
	}
	in.Dirs = c04GenDirs(r)
	switch in.Method {
	case "POST", "PUT", "PATCH":
		in.Body = r.Pick(c04Bodies)
		in.Chunked = r.Chance(40)
	default:
		if r.Chance(10) {
			in.Body = "b"
			in.Chunked = r.Chance(50)
		}
	}
	if r.Chance(25) {
		for _, l := range [][2]string{{"Content-Type", "text/pre"}, {"Server", "Casket"}, {"X-A", "pre"}, {"Cache-Control", "pre"}, {"Vary", "pre"}, {"Set-Cookie", "pre=1"}} {
			if r.Chance(40) {
				in.Pre = append(in.Pre, l)
			}
		}
	}
	in.RStatus = []int{200, 200, 201, 204, 301, 404, 500, 503, 299, 206}[r.Intn(10)]
	in.RHdr = c04GenLines(r, c04RespNames, c04RespHop, r.Range(0, 6), 12)
	for i := range in.RHdr {
		in.RHdr[i][0] = textproto.CanonicalMIMEHeaderKey(in.RHdr[i][0]) // what net/http's transport delivers
	}
	if r.Chance(12) {
		// header_downstream on a header that is hop-by-hop for this response: by the table, or because
		// the backend names it in a Connection line (the rules run AFTER the removal: they must win)
		name := r.Pick([]string{"Alt-Svc", "Keep-Alive", "Proxy-Authenticate", "Alternate-Protocol", "Proxy-Connection", "X-B", "X-A", "Connection"})
		if name == "X-A" || name == "X-B" {
			in.RHdr = append(in.RHdr, [2]string{"Connection", name}, [2]string{name, "from-backend"})
		} else if name != "Connection" && r.Chance(60) {
			in.RHdr = append(in.RHdr, [2]string{name, "from-backend"})
		}
		switch {
		case name == "Connection":
			in.RHdr = append(in.RHdr, [2]string{"Connection", "X-Tok"}, [2]string{"X-Tok", "internal"})
			in.Dirs = append(in.Dirs, c04Dir{K: "down", A: "-Connection", B: ""})
		case r.Chance(30):
			in.Dirs = append(in.Dirs, c04Dir{K: "down", A: "+" + name, B: r.Pick([]string{"lit", "h3=:443", "{host}"})})
		default:
			in.Dirs = append(in.Dirs, c04Dir{K: "down", A: name, B: r.Pick([]string{"lit", "h3=:443", "{host}"})})
		}
	}
	in.RBody = r.Pick(c04RBodies)
	if r.Chance(25) {
		tk := []string{"X-T1", "X-T2", "X-U1"}
		for _, k := range tk {
			if r.Chance(45) {
				in.RAnn = append(in.RAnn, k)
			}
		}
		for _, k := range tk {
			if r.Chance(55) {
				in.RTrailers = append(in.RTrailers, [2]string{k, r.Pick([]string{"t1", "t2"})})
				if r.Chance(20) {
					in.RTrailers = append(in.RTrailers, [2]string{k, "t3"})
				}
			}
		}
		c04ShareTrailerNames(r, in, true, []string{"pending", "t1", "v1"})
	}
	if r.Chance(18) {
		in.Fails = r.Range(1, 2)
		in.Retry = r.Chance(80)
		in.FailAfterRead = len(in.Targets) > 1 && r.Bool()
		if r.Chance(55) {
			// backends that die MID-BODY: each failing attempt reads k bytes of the body first
			if in.Body == "" {
				in.Method, in.Body, in.Chunked = r.Pick([]string{"POST", "PUT", "PATCH"}), r.Pick(c04Bodies[1:]), r.Chance(50)
			}
			n := len(in.Body)
			for i := 0; i < in.Fails; i++ {
				in.FailRead = append(in.FailRead, c04PickInt(r, []int{0, 1, n / 2, n - 1, n, n + 3, -1}))
			}
		}
		if r.Chance(65) {
			// configuration on which re-running the rewrite would be harmless: isolates body re-sending
			for i := range in.Targets {
				in.Targets[i] = fmt.Sprintf(c04TargetPool[r.Intn(2)], i)
			}
			var ds []c04Dir
			for _, d := range in.Dirs {
				if d.K == "without" || d.K == "upre" || (d.K == "up" && strings.HasPrefix(d.A, "+")) {
					continue
				}
				ds = append(ds, d)
			}
			in.Dirs = ds
		}
	}
	return in
}

func c04GenWire(r *Rand, i int) *c04In {
	sizes := []int{0, 1, 2, 100, 4095, 4096, 4097, 32767, 32768, 32769, 65535, 65536, 65537, 3*32768 + 7, 2 * 65536}
	in := &c04In{Kind: "wire", Method: r.Pick([]string{"POST", "PUT", "POST", "PATCH"}), Target: r.Pick([]string{"/up", "/a/b?x=1", "/"})}
	in.BodyLen = sizes[i%len(sizes)]
	if r.Chance(30) {
		in.BodyLen = r.Range(0, 70000)
	}
	in.Chunked = r.Chance(50)
	if in.Chunked {
		for k := r.Intn(4); k > 0; k-- {
			in.Chunks = append(in.Chunks, c04PickInt(r, []int{1, 7, 4096, 32768, 32767, 100}))
		}
	}
	if r.Chance(20) {
		in.Method = r.Pick([]string{"GET", "DELETE", "HEAD"})
		in.BodyLen = 0
		in.Chunked = false
		in.Chunks = nil
	}
	in.Hdr = [][2]string{{"X-A", "v1"}}
	if r.Chance(50) {
		in.Hdr = append(in.Hdr, [2]string{"Content-Type", "application/octet-stream"})
	}
	in.RStatus = []int{200, 200, 201, 404, 500, 206}[r.Intn(6)]
	in.RBodyLen = sizes[(i/2+3)%len(sizes)]
	if r.Chance(30) {
		in.RBodyLen = r.Range(0, 70000)
	}
	in.RCL = r.Chance(35)
	for k := r.Intn(3); k > 0; k-- {
		in.RFlush = append(in.RFlush, c04PickInt(r, []int{1, 10, 4096, 32768, 32769}))
	}
	in.RHdr = [][2]string{{"Content-Type", "application/x-test"}, {"X-B", "b1"}}
	for _, l := range [][2]string{{"X-B", "b2"}, {"Set-Cookie", "a=1"}, {"Keep-Alive", "timeout=5"}, {"Proxy-Authenticate", "Basic"}, {"Connection", "X-Drop"}, {"X-Drop", "1"}, {"Cache-Control", "no-store"}, {"Alt-Svc", "h3=\":443\""}} {
		if r.Chance(35) {
			in.RHdr = append(in.RHdr, l)
		}
	}
	if !in.RCL && in.Method != "HEAD" && r.Chance(50) {
		tk := []string{"X-T1", "X-T2", "X-U1"}
		for _, k := range tk {
			if r.Chance(45) {
				in.RAnn = append(in.RAnn, k)
			}
		}
		for _, k := range tk {
			if r.Chance(60) {
				in.RTrailers = append(in.RTrailers, [2]string{k, r.Pick([]string{"t1", "t2"})})
			}
		}
		c04ShareTrailerNames(r, in, false, []string{"pending", "t1", "v1"})
	}
	if r.Chance(30) {
		in.Dirs = []c04Dir{{K: r.Pick([]string{"transparent", "websocket"})}}
	}
	return in
}

// c04ShareTrailerNames lets trailer names - announced or not - occur among the response HEADERS too (a
// provisional value in the header, the final one in the trailer; same name, different values), and,
// where the kind has rules, puts header_downstream rules on such names.
func c04ShareTrailerNames(r *Rand, in *c04In, rules bool, vals []string) {
	if len(in.RAnn)+len(in.RTrailers) == 0 || !r.Chance(50) {
		return
	}
	seen := map[string]bool{}
	var names []string
	for _, k := range in.RAnn {
		if !seen[k] {
			seen[k] = true
			names = append(names, k)
		}
	}
	for _, l := range in.RTrailers {
		if !seen[l[0]] {
			seen[l[0]] = true
			names = append(names, l[0])
		}
	}
	for _, k := range names {
		if r.Chance(60) {
			in.RHdr = append(in.RHdr, [2]string{k, r.Pick(vals)})
			if r.Chance(20) {
				in.RHdr = append(in.RHdr, [2]string{k, "v2"})
			}
		}
		if rules && r.Chance(25) {
			switch r.Intn(3) {
			case 0:
				in.Dirs = append(in.Dirs, c04Dir{K: "down", A: k, B: r.Pick([]string{"lit", "{host}"})})
			case 1:
				in.Dirs = append(in.Dirs, c04Dir{K: "down", A: "+" + k, B: r.Pick([]string{"lit", "{host}"})})
			default:
				in.Dirs = append(in.Dirs, c04Dir{K: "down", A: "-" + k, B: ""})
			}
		}
	}
}

// class of the finding F-C04-7
const c04SigSharedTrailer = "response:announced-trailer-shares-header-name+unannounced-trailers"

// c04TrailerSharesHeader: some unannounced trailer arrived (all trailers travel under the TrailerPrefix,
// the declared keys are looked up in the header map as well) while an ANNOUNCED trailer's name is also a
// header of the client response
func c04TrailerSharesHeader(in *c04In, clientHdr http.Header) bool {
	ann := map[string]bool{}
	for _, k := range in.RAnn {
		ann[k] = true
	}
	forced := false
	for _, l := range in.RTrailers {
		if !ann[l[0]] {
			forced = true
		}
	}
	if !forced {
		return false
	}
	for k := range ann {
		if _, ok := clientHdr[k]; ok {
			return true
		}
	}
	return false
}

func c04PickInt(r *Rand, xs []int) int { return xs[r.Intn(len(xs))] }

func c04Gen(r *Rand, tier string) []interface{} {
	var out []interface{}
	nProxy, nWire, nKey, nRepl, nMatch, nConc, nRelay, nRetry, nSeq := 2600, 90, 250, 150, 200, 40, 60, 160, 240
	if tier == "thorough" {
		nProxy, nWire, nKey, nRepl, nMatch, nConc, nRelay, nRetry, nSeq = 26000, 900, 2500, 1500, 2000, 400, 600, 1600, 2400
	}
	// helper functions: exhaustive small enumerations + random
	for _, a := range []string{"", "/", "a", "/a", "a/", "/a/", "//", "/a//"} {
		for _, b := range []string{"", "/", "b", "/b", "b/", "/b/", "//", "//b"} {
			out = append(out, &c04In{Kind: "sjs", A: a, B: b})
		}
	}
	keyAlpha := []byte("aZ-x_ 1:é.+")
	for i := 0; i < nKey; i++ {
		n := r.Range(0, 8)
		b := make([]byte, n)
		for j := range b {
			b[j] = keyAlpha[r.Intn(len(keyAlpha))]
		}
		out = append(out, &c04In{Kind: "key", S: string(b)})
	}
	for _, k := range append(append([]string{}, c04Hop...), c04E2E...) {
		out = append(out, &c04In{Kind: "key", S: k}, &c04In{Kind: "key", S: strings.ToLower(k)}, &c04In{Kind: "key", S: strings.ToUpper(k)})
	}
	replVals := []string{"lit", "{>X-A}", "{host}", "{remote}", "pre-{>X-B}-post", "{nope}", "{>Missing}", "{method}", "{hostonly}:{server_port}", "{>x-a}{>X-B}", "{unclosed", "closed}", "}{", "{}", "{>}", "a{b}c{host}d", "{scheme}", "{port}", "{>Connection}"}
	for i := 0; i < nRepl; i++ {
		p := c04GenProxy(r)
		p.Kind = "replace"
		p.S = r.Pick(replVals)
		if r.Chance(30) {
			p.S += r.Pick(replVals)
		}
		out = append(out, p)
	}
	fromPool := []string{"/", "/a", "/a/", "/a/b", "/A", "/ab", "/b", "/a/b/c", "/x"}
	for i := 0; i < nMatch; i++ {
		in := &c04In{Kind: "match", A: r.Pick([]string{"/", "/a", "/a/", "/a/b", "/a/b/c", "/ab", "/b/x", "/A/b", "/a/../b", "/c", "/a//b"})}
		for k := r.Range(1, 4); k > 0; k-- {
			in.Froms = append(in.Froms, r.Pick(fromPool))
		}
		out = append(out, in)
	}
	// the heavier cases (whole bodies inside Coq, child processes) are spread evenly over the proxy
	// cases, so that they land in different Coq shards
	var heavy []interface{}
	for i := 0; i < nRelay; i++ {
		heavy = append(heavy, c04GenRelay(r, i))
	}
	for i := 0; i < nConc; i++ {
		heavy = append(heavy, c04GenConc(r, i))
	}
	for i := 0; i < nRetry; i++ {
		heavy = append(heavy, c04GenRetryBody(r, i))
	}
	every := nProxy / (len(heavy) + 1)
	for i := 0; i < nProxy; i++ {
		out = append(out, c04GenProxy(r))
		if every > 0 && i%every == every-1 && len(heavy) > 0 {
			out = append(out, heavy[0])
			heavy = heavy[1:]
		}
	}
	out = append(out, heavy...)
	// sequences of requests through one parsed upstream block (own random stream: the cases above
	// do not depend on how many of these are drawn)
	rs := NewRand(r.U64())
	for i := 0; i < nSeq; i++ {
		out = append(out, c04GenSeq(rs, i))
	}
	var wires []*c04In
	for i := 0; i < nWire; i++ {
		wires = append(wires, c04GenWire(r, i))
	}
	// same block text consecutively: the in-process site is restarted only when the block changes
	sort.SliceStable(wires, func(i, j int) bool { return c04BlockText(wires[i].Dirs) < c04BlockText(wires[j].Dirs) })
	for _, w := range wires {
		out = append(out, w)
	}
	return out
}

func init() {
	c04BuildVoc()
	register(&Property{
		ID: "C04", Imports: "V.Lib V.Gen_C04 V.C04_Model", Judge: "judge",
		Rule: "cases = real proxy directive parser + Proxy.ServeHTTP with a scripted recording transport (every attempt of the retry loop) and a recorder client; relay: scripted backend body reader segmentations through the real copyResponse/pooledIoCopy into a recording ResponseWriter (every WriteHeader/Write/Flush call, trailers keys); conc: N parallel requests with unique body patterns through one proxy with 2-3 hosts and try_duration > 0 in a child process (GOMAXPROCS/GC pinned), first attempts failing after the body was read while other responses are relayed through the pooled buffers (barrier transport or real http.Transport + loopback backends that accept, read, drop); seq: 2-4 different requests (method, Host, client address, headers, body, backend response), one after the other or concurrently, through ONE parsed upstream block with header_upstream and header_downstream rules on request-dependent placeholders, each request judged against model and spec evaluated on that request alone; real casket site + loopback backend with raw HTTP/1.1 for body framing/trailers; helper functions (CanonicalMIMEHeaderKey, singleJoiningSlash, Replacer, Proxy.match). non-trivial = proxied request carrying header lines and (directives or hop-by-hop headers), wire/relay case with a body, conc case with a non-empty retried body and at least one relayed response, seq case with >= 2 requests and a header rule with a placeholder, helper case whose output differs from its input; distinct = distinct Coq case term",
		Gen: c04Gen,
		Decode: func(raw json.RawMessage) (interface{}, error) {
			in := &c04In{}
			return in, json.Unmarshal(raw, in)
		},
		Run:   c04Run,
		Shard: 200,
	})

	// Gen_C04.v: hopHeaders and skipHeaders of reverseproxy.go
	registerGen("Gen_C04.v", func(repo string) (string, error) {
		_, f, err := parseGo(filepath.Join(repo, "caskethttp/proxy/reverseproxy.go"))
		if err != nil {
			return "", err
		}
		var hop, skip []string
		foundHop, foundSkip := false, false
		ast.Inspect(f, func(n ast.Node) bool {
			vs, ok := n.(*ast.ValueSpec)
			if !ok || len(vs.Names) != 1 || len(vs.Values) != 1 {
				return true
			}
			switch vs.Names[0].Name {
			case "hopHeaders":
				if l, ok := stringSliceLits(vs.Values[0]); ok {
					hop, foundHop = l, true
				}
			case "skipHeaders":
				if cl, ok := vs.Values[0].(*ast.CompositeLit); ok {
					foundSkip = true
					for _, el := range cl.Elts {
						if kv, ok := el.(*ast.KeyValueExpr); ok {
							if bl, ok := kv.Key.(*ast.BasicLit); ok {
								skip = append(skip, strings.Trim(bl.Value, "\""))
							}
						}
					}
				}
			}
			return true
		})
		if !foundHop || !foundSkip {
			return "", fmt.Errorf("hopHeaders/skipHeaders not found in reverseproxy.go")
		}
		sort.Strings(skip)
		c04BuildVoc()
		return "Definition gen_hop_headers : list bytes := " + cStrList(hop) + ".\nDefinition gen_skip_headers : list bytes := " + cStrList(skip) +
			".\n(* vocabulary of the case generator (harness/c04.go): case files refer to these strings by index *)\nDefinition voc : list bytes := Eval vm_compute in " + cStrList(c04Voc) +
			".\nDefinition w (i : N) : bytes := nth (N.to_nat i) voc [].\n", nil
	})
}
