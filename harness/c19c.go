package main

// C19, connection sequences through the REAL tlsHelloListener.Accept (Server.Serve over a scripted
// net.Listener): every connection is a scripted net.Conn with its own remote address whose Reads
// deliver exactly the scheduled segments, in the scheduled interleaving with the other connections.
// What is recorded for each connection is read from the listener's helloInfos when the connection
// has consumed its last segment (before the server closes it).  Also: {hostonly} / {server_port}
// on hostile Host values.

import (
	"fmt"
	"io"
	"net"
	"net/http/httptest"
	"strings"
	"sync"
	"time"

	"github.com/tmpim/casket/caskethttp/httpserver"
)

type c19ScriptConn struct {
	addr     net.Addr
	feed     chan []byte   // segments handed over by the schedule
	want     chan struct{} // signalled at every Read entry and at Close
	mu       sync.Mutex
	rest     []byte
	got      [][]byte // what each Read actually delivered
	closed   bool
	snap     func() *c19Info
	last     *c19Info // what the listener had recorded for this connection when it last asked for bytes / was closed
	closedCh chan struct{}
}

func (c *c19ScriptConn) Read(b []byte) (int, error) {
	c.mu.Lock()
	if len(c.rest) == 0 {
		if o := c.snap(); o != nil {
			c.last = o
		}
		c.mu.Unlock()
		select {
		case c.want <- struct{}{}:
		default:
		}
		select {
		case seg, ok := <-c.feed:
			if !ok {
				return 0, io.EOF
			}
			c.mu.Lock()
			c.rest = seg
		case <-c.closedCh:
			return 0, io.EOF
		}
	}
	n := copy(b, c.rest)
	c.got = append(c.got, append([]byte(nil), c.rest[:n]...))
	c.rest = c.rest[n:]
	c.mu.Unlock()
	return n, nil
}
func (c *c19ScriptConn) Write(b []byte) (int, error) { return len(b), nil }
func (c *c19ScriptConn) Close() error {
	c.mu.Lock()
	if !c.closed {
		c.closed = true
		if o := c.snap(); o != nil {
			c.last = o
		}
		close(c.closedCh)
	}
	c.mu.Unlock()
	return nil
}
func (c *c19ScriptConn) LocalAddr() net.Addr                { return &net.TCPAddr{IP: net.IPv4(127, 0, 0, 1), Port: 443} }
func (c *c19ScriptConn) RemoteAddr() net.Addr               { return c.addr }
func (c *c19ScriptConn) SetDeadline(t time.Time) error      { return nil }
func (c *c19ScriptConn) SetReadDeadline(t time.Time) error  { return nil }
func (c *c19ScriptConn) SetWriteDeadline(t time.Time) error { return nil }

type c19ScriptListener struct{ ch chan net.Conn }

func (l *c19ScriptListener) Accept() (net.Conn, error) {
	c, ok := <-l.ch
	if !ok {
		return nil, fmt.Errorf("closed")
	}
	return c, nil
}
func (l *c19ScriptListener) Close() error   { return nil }
func (l *c19ScriptListener) Addr() net.Addr { return &net.TCPAddr{IP: net.IPv4(127, 0, 0, 1), Port: 443} }

var (
	c19SeqSrv  *httpserver.Server
	c19SeqLn   *c19ScriptListener
	c19SeqPort = 1000
)

func c19GetSeqServer() (*httpserver.Server, *c19ScriptListener) {
	if c19SeqSrv != nil {
		return c19SeqSrv, c19SeqLn
	}
	c19GetTLSServer() // logging, Quiet
	s := c19NewTLSServer()
	c19SeqLn = &c19ScriptListener{ch: make(chan net.Conn)}
	go s.Serve(c19SeqLn)
	c19SeqSrv = s
	return s, c19SeqLn
}

// idle: the connection asks for more bytes (or was closed) — everything delivered so far has gone
// through clientHelloConn.Read
func (c *c19ScriptConn) idle() bool {
	select {
	case <-c.want:
		return true
	case <-c.closedCh:
		return true
	case <-time.After(2 * time.Second):
		return false
	}
}

func c19RunSeq(in *c19In) Result {
	s, ln := c19GetSeqServer()
	c19Log.take()
	n := len(in.Conns)
	conns := make([]*c19ScriptConn, n)
	next := make([]int, n)
	var evs []string
	stuck := false
	obs := make([]*c19Info, n)
	seen := make([]int, n) // Reads already turned into events
	flush := func(i int) {
		c := conns[i]
		c.mu.Lock()
		for ; seen[i] < len(c.got); seen[i]++ {
			evs = append(evs, cApp("EvRead", cNat(i), c19Bytes(c.got[seen[i]])))
		}
		c.mu.Unlock()
	}
	for _, i := range in.Sizes {
		if i < 0 || i >= n {
			continue
		}
		if conns[i] == nil {
			c19SeqPort++
			addr := &net.TCPAddr{IP: net.IPv4(10, 9, byte(c19SeqPort>>24), byte(c19SeqPort>>16)), Port: 1 + c19SeqPort&0xffff}
			conns[i] = &c19ScriptConn{addr: addr, feed: make(chan []byte), want: make(chan struct{}, 1), closedCh: make(chan struct{}),
				snap: func() *c19Info {
					if info, have := httpserver.VerifC19HelloInfoOf(s, addr.String()); have {
						return c19InfoOf(info)
					}
					return nil
				}}
			ln.ch <- conns[i]
			evs = append(evs, cApp("EvAccept", cNat(i), cNat(0)))
			if !conns[i].idle() {
				stuck = true
				break
			}
		}
		if next[i] >= len(in.Conns[i]) {
			continue
		}
		seg := c19Hex(in.Conns[i][next[i]])
		next[i]++
		if len(seg) == 0 {
			continue
		}
		c := conns[i]
		select {
		case c.feed <- seg:
		case <-c.closedCh:
			continue
		}
		// the whole segment goes through Reads (several when the TLS layer's buffer is smaller)
		for {
			if !c.idle() {
				stuck = true
				break
			}
			c.mu.Lock()
			left := len(c.rest)
			cl := c.closed
			c.mu.Unlock()
			if left == 0 || cl {
				break
			}
		}
		flush(i)
		// recorded info is kept until the server closes the connection: look before that
		c.mu.Lock()
		obs[i] = c.last
		c.mu.Unlock()
		if stuck {
			break
		}
	}
	for i := range conns {
		if conns[i] != nil {
			conns[i].Close()
		}
	}
	var obsT, dirT []string
	complete := 0
	for i := 0; i < n; i++ {
		obsT = append(obsT, c19OptInfo(obs[i]))
		direct := &c19Info{}
		if conns[i] != nil {
			var w []byte
			for _, g := range conns[i].got[:seen[i]] {
				w = append(w, g...)
			}
			if len(w) >= 5 {
				bl := int(w[3])<<8 | int(w[4])
				if len(w) >= 5+bl {
					complete++
					c19Try(func() { direct = c19InfoOf(httpserver.VerifC19ParseRawClientHello(w[5 : 5+bl])) })
				}
			}
		}
		dirT = append(dirT, direct.term())
	}
	time.Sleep(2 * time.Millisecond)
	logs := c19Log.take()
	p := strings.Contains(logs, "panic")
	res := Result{Term: cApp("CSeq", cList(evs), cList(obsT), cList(dirT), cBool(p)),
		Obs: map[string]interface{}{"recorded": obs, "conns": n, "complete": complete, "stuck": stuck},
		Sig: "seq:other-connections-bytes", Nontrivial: complete >= 2 && !stuck,
		Class: fmt.Sprintf("seq:conns%d:complete%d", c19Bucket(n), c19Bucket(complete))}
	if p {
		res.Direct = "TLS connection handling panicked: " + c19Trunc(logs, 300)
	}
	if stuck {
		res.Direct = "scripted connection was not read from within 2s"
	}
	return res
}

// {hostonly} and {server_port}: net.SplitHostPort of the peer's Host
func c19RunHostOnly(in *c19In) Result {
	host := string(c19Hex(in.Data))
	req := httptest.NewRequest("GET", "http://example.test/", nil)
	req.Host = host
	var ho, sp string
	p, msg := c19Try(func() {
		rep := httpserver.NewReplacer(req, nil, "-")
		ho = rep.Replace("{hostonly}")
		sp = rep.Replace("{server_port}")
	})
	res := Result{Term: cApp("CHostOnly", cStr(host), cBool(p), cStr(ho), cStr(sp)),
		Obs: map[string]interface{}{"hostonly": ho, "server_port": sp, "panic": msg, "host": host}, Sig: "hostonly",
		Nontrivial: ho != host, Class: fmt.Sprintf("hostonly:split=%v", ho != host)}
	if p {
		res.Direct = "replacer {hostonly}/{server_port} panicked: " + msg
	}
	return res
}

func c19GenC(r *Rand, tier string, add func(*c19In)) {
	mult := 1
	if tier == "thorough" {
		mult = 10
	}
	record := func(h []byte) []byte { return append([]byte{22, 3, 1, byte(len(h) >> 8), byte(len(h))}, h...) }
	cutUp := func(w []byte) []string {
		var out []string
		for len(w) > 0 {
			k := len(w)
			switch r.Intn(4) {
			case 0:
				k = r.Range(1, 6)
			case 1:
				k = r.Range(1, c19Max(len(w)/2, 1))
			case 2:
				k = r.Range(1, len(w))
			}
			if k > len(w) {
				k = len(w)
			}
			out = append(out, c19H(w[:k]))
			w = w[k:]
		}
		return out
	}
	for i := 0; i < 40*mult; i++ {
		n := r.Range(2, 5)
		in := &c19In{Kind: "seq"}
		for c := 0; c < n; c++ {
			var first []byte
			if r.Intn(3) == 0 {
				first = record(c19Hex(c19Seeds[r.Intn(len(c19Seeds))].hex))
			} else {
				first = record(c19GenHelloRich(r).encode())
			}
			var more []byte
			switch r.Intn(5) {
			case 0: // a second complete record in the same stream
				more = record(c19GenHello(r).encode())
			case 1: // early data / garbage
				more = c19RandBytes(r, r.Range(1, 80))
			case 2: // another hello's record, cut
				m := record(c19Hex(c19Seeds[r.Intn(len(c19Seeds))].hex))
				more = m[:r.Range(1, len(m)-1)]
			case 3: // the connection never completes its record
				first = first[:r.Range(0, len(first)-1)]
			}
			w := append(append([]byte(nil), first...), more...)
			var segs []string
			if r.Intn(3) == 0 && len(more) > 0 {
				// the record's last bytes and what follows arrive in ONE read (the leftover that goes to the pool)
				k := r.Range(0, len(first)-1)
				segs = append(cutUp(w[:k]), c19H(w[k:]))
			} else {
				segs = cutUp(w)
			}
			in.Conns = append(in.Conns, segs)
		}
		// schedule: sequential (pool reuse after completion), or interleaved
		if r.Intn(2) == 0 {
			for c := 0; c < n; c++ {
				for range in.Conns[c] {
					in.Sizes = append(in.Sizes, c)
				}
			}
		} else {
			left := make([]int, n)
			tot := 0
			for c := range left {
				left[c] = len(in.Conns[c])
				tot += left[c]
			}
			for tot > 0 {
				c := r.Intn(n)
				if left[c] > 0 {
					left[c]--
					tot--
					in.Sizes = append(in.Sizes, c)
				}
			}
		}
		add(in)
	}
	// --- {labelN} with N around the number of dot-separated pieces, on Hosts whose port contains dots,
	// with empty labels, trailing dots, IPv6 literals: N = 1, pieces-1, pieces, pieces+1 for each
	lhosts := []string{"a.b:1.2", "shop.example:80.80", "a.b:80", "a:1.2.3", "a.b.:80", "a.b.:8.0.", ".:.", "a..b:1..2", "[::1]:80", "[::1]:8.0",
		"[fe80::1%eth0]:80", "[2001:db8::1.2.3.4]:443", "[2001:db8::1.2.3.4]:4.4.3", "1.2.3.4:80", "1.2.3.4:8.0", "a.b:", "a.b:.", ":80", ":8.0", "a.b.c",
		"a.b.c.", "..", "a.b:80:90", "a.b:80.90:1", "x", "", "a.b]:8.0", "[a.b:8.0"}
	for i := 0; i < 12*mult; i++ {
		lab := []string{"a", "", "b-c", "xn--1", "1"}
		h := ""
		for k := r.Range(1, 4); k > 0; k-- {
			h += lab[r.Intn(len(lab))] + "."
		}
		h = h[:len(h)-r.Intn(2)]
		if r.Intn(4) > 0 {
			h += ":" + []string{"80", "8.0", "1.2.3", ".", "80.", ".80", ""}[r.Intn(7)]
		}
		lhosts = append(lhosts, h)
	}
	for _, h := range lhosts {
		pieces := strings.Count(h, ".") + 1
		seenN := map[int]bool{}
		for _, n := range []int{1, pieces - 1, pieces, pieces + 1} {
			if n < 0 || seenN[n] {
				continue
			}
			seenN[n] = true
			add(&c19In{Kind: "label", Data: c19H([]byte(h)), Name: c19H([]byte(fmt.Sprint(n)))})
		}
	}
	// --- {hostonly} / {server_port}
	parts := []string{"", "a", "example.com", "a.b.", ".a", "a..b", "[::1]", "[fe80::1%eth0]", "::1", "[", "]", "[]", "[a]b", "1.2.3.4", "x:y"}
	ports := []string{"", ":", ":80", ":8.0", ":80:", "::", ":[", ":]", ":443.", ":a.b.c", ":0x50"}
	for _, h := range parts {
		for _, p := range ports {
			add(&c19In{Kind: "hostonly", Data: c19H([]byte(h + p))})
		}
	}
	alpha := []byte("a.:[]%1")
	for i := 0; i < 80*mult; i++ {
		k := r.Range(0, 10)
		b := make([]byte, k)
		for j := range b {
			if r.Intn(12) == 0 {
				b[j] = byte(r.Intn(256))
			} else {
				b[j] = alpha[r.Intn(len(alpha))]
			}
		}
		add(&c19In{Kind: "hostonly", Data: c19H(b)})
	}
}
