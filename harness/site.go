package main

// In-process casket instances on loopback + raw HTTP/1.1 requests (no redirect following, no
// transparent decompression, odd request-targets sent verbatim).

import (
	"archive/tar"
	"archive/zip"
	"bufio"
	"bytes"
	"compress/gzip"
	"fmt"
	"io"
	"net"
	"net/http"
	"os"
	"sort"
	"strings"
	"time"

	"github.com/tmpim/casket"
	_ "github.com/tmpim/casket/caskethttp"
)

type liveSite struct {
	inst *casket.Instance
	addr string // 127.0.0.1:port
	text string
}

var siteCache *liveSite

// getSite starts (or reuses) an instance serving the given server-block body on 127.0.0.1:0.
func getSite(body string) (*liveSite, error) { return getSiteAt(body, "Casketfile") }

// getSiteAt is getSite with the path the configuration claims to have been loaded from (the
// origin Casketfile, which the http server hides when it lies inside the site root).
func getSiteAt(body, originPath string) (*liveSite, error) {
	if siteCache != nil && siteCache.text == body+"@"+originPath {
		return siteCache, nil
	}
	stopSite()
	casket.Quiet = true
	text := "127.0.0.1:0 {\n" + body + "\n}\n"
	inst, err := casket.Start(casket.CasketfileInput{Contents: []byte(text), Filepath: originPath, ServerTypeName: "http"})
	if err != nil {
		return nil, err
	}
	srvs := inst.Servers()
	if len(srvs) == 0 {
		inst.Stop()
		return nil, fmt.Errorf("no servers")
	}
	_, port, _ := net.SplitHostPort(srvs[0].Addr().String())
	siteCache = &liveSite{inst: inst, addr: "127.0.0.1:" + port, text: body + "@" + originPath}
	return siteCache, nil
}

func stopSite() {
	if siteCache != nil {
		siteCache.inst.Stop()
		siteCache = nil
	}
}

type rawResp struct {
	Status int
	Header http.Header
	Body   []byte // as on the wire after de-chunking, NOT content-decoded
	Err    string
}

// doRaw sends "METHOD target HTTP/1.1" verbatim. hdr keys are sent as given (sorted for determinism).
func doRaw(addr, method, target string, hdr map[string]string, body []byte) rawResp {
	conn, err := net.DialTimeout("tcp", addr, 2*time.Second)
	if err != nil {
		return rawResp{Err: err.Error()}
	}
	defer conn.Close()
	conn.SetDeadline(time.Now().Add(5 * time.Second))
	var sb bytes.Buffer
	fmt.Fprintf(&sb, "%s %s HTTP/1.1\r\n", method, target)
	if _, ok := hdr["Host"]; !ok {
		fmt.Fprintf(&sb, "Host: %s\r\n", addr)
	}
	keys := make([]string, 0, len(hdr))
	for k := range hdr {
		keys = append(keys, k)
	}
	sort.Strings(keys)
	for _, k := range keys {
		fmt.Fprintf(&sb, "%s: %s\r\n", k, hdr[k])
	}
	if body != nil {
		fmt.Fprintf(&sb, "Content-Length: %d\r\n", len(body))
	}
	sb.WriteString("Connection: close\r\n\r\n")
	sb.Write(body)
	if _, err := conn.Write(sb.Bytes()); err != nil {
		return rawResp{Err: err.Error()}
	}
	resp, err := http.ReadResponse(bufio.NewReader(conn), &http.Request{Method: method})
	if err != nil {
		return rawResp{Err: err.Error()}
	}
	defer resp.Body.Close()
	b, _ := io.ReadAll(resp.Body)
	return rawResp{Status: resp.StatusCode, Header: resp.Header, Body: b}
}

// decodedViews returns every decoding of the body a client could obtain: the bytes themselves,
// their gunzip (if they are gzip), and the concatenated members of a zip or tar archive
// (recursively gunzipped). Used to look for planted tokens.
func decodedViews(b []byte) [][]byte {
	views := [][]byte{b}
	if len(b) > 2 && b[0] == 0x1f && b[1] == 0x8b {
		if zr, err := gzip.NewReader(bytes.NewReader(b)); err == nil {
			if d, err := io.ReadAll(zr); err == nil || len(d) > 0 {
				views = append(views, decodedViews(d)...)
			}
		}
	}
	if zr, err := zip.NewReader(bytes.NewReader(b), int64(len(b))); err == nil {
		var all bytes.Buffer
		for _, f := range zr.File {
			all.WriteString("\x00NAME:" + f.Name + "\x00")
			if rc, err := f.Open(); err == nil {
				io.Copy(&all, rc)
				rc.Close()
			}
		}
		views = append(views, all.Bytes())
	}
	if len(b) > 262 && string(b[257:262]) == "ustar" {
		tr := tar.NewReader(bytes.NewReader(b))
		var all bytes.Buffer
		for {
			h, err := tr.Next()
			if err != nil {
				break
			}
			all.WriteString("\x00NAME:" + h.Name + "\x00")
			io.Copy(&all, tr)
		}
		views = append(views, all.Bytes())
	}
	return views
}

func containsAny(views [][]byte, tok string) bool {
	for _, v := range views {
		if bytes.Contains(v, []byte(tok)) {
			return true
		}
	}
	return false
}

func writeFixture(root string, files map[string]string) error {
	for name, content := range files {
		p := root + "/" + name
		if i := strings.LastIndex(p, "/"); i >= 0 {
			if err := os.MkdirAll(p[:i], 0o755); err != nil {
				return err
			}
		}
		if err := os.WriteFile(p, []byte(content), 0o644); err != nil {
			return err
		}
	}
	return nil
}

func gzipBytes(s string) string {
	var b bytes.Buffer
	w := gzip.NewWriter(&b)
	w.Write([]byte(s))
	w.Close()
	return b.String()
}
