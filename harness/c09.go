package main

// C09 — directives act in the fixed documented order, not in file order.
//
// Case classes (see coq/C09_Model.v):
//   parse : casketfile.Parse on one generated server block (well-formed lines in random admissible and
//           inadmissible orders, repeated directives interleaved with others, brace blocks, quoted and
//           multi-line tokens, comments; plus a malformed token-soup stream)  vs  the token-level model
//   exec  : casket.Start / ValidateAndExecuteDirectives on a probe server type registered through the
//           public plugin API (own directive list per case, recording setup functions and parsing
//           callbacks)  vs  the model of executeDirectives
//   site  : a real http site written in two line orders (admissible permutation), full request battery,
//           access log, compiled middleware stack (by reflection), ValidDirectives("http")
//   order : behavioural probes of the documented nesting of one pair of directives, lines in random order,
//           optionally after earlier loads in the same process
//   dirs  : ValidDirectives("http"), the registered http plugins and the compiled stack of a fixed site after
//           a history of http loads (valid / validate-only / reload; refused for a misspelt directive, a
//           syntax error, a failing setup)
//   hist  : a history of loads of the probe server type in one process over one shared directive slice
//   text  : a configuration printed by C10's printer in two line orders through casketfile.Parse: the
//           Dispenser view of every directive group  vs  C10's parser model and C09's grouping of the AST

import (
	"bytes"
	"compress/gzip"
	"crypto/sha256"
	"encoding/base64"
		"encoding/json"
	"fmt"
	"go/ast"
	"io"
	"net"
	"log"
	"net/http"
	"net/http/fcgi"
	"net/http/httptest"
	"os"
	"path/filepath"
	"reflect"
	"regexp"
	"runtime"
	"sort"
	"strings"
	"sync"
	"time"
	"unsafe"

	"github.com/tmpim/casket"
	"github.com/tmpim/casket/casketfile"
	"github.com/tmpim/casket/caskethttp/httpserver"
)

type c09Line struct {
	D  string   `json:"d"`
	T  []string `json:"t"`            // token texts, T[0] = directive name (site/order lines: T[0] = source text)
	NL []int    `json:"nl,omitempty"` // indices of tokens written at the start of a new physical line
	// site cases: the line is not written in the block but in the snippet of this name, defined in front of the
	// site and imported by it; consecutive lines of one snippet are ONE `import` line of the block
	S string `json:"s,omitempty"`
}
type c09Block struct {
	Keys  []string  `json:"keys"`
	Lines []c09Line `json:"lines"`
}
type c09In struct {
	Kind string `json:"kind"`
	// parse
	Src      string    `json:"src,omitempty"`
	Braced   bool      `json:"braced,omitempty"`
	Valid    []string  `json:"valid,omitempty"`
	HasValid bool      `json:"has_valid,omitempty"`
	Lines    []c09Line `json:"lines,omitempty"`
	HasLines bool      `json:"has_lines,omitempty"`
	// exec
	Dirs     []string   `json:"dirs,omitempty"`
	Blocks   []c09Block `json:"blocks,omitempty"`
	Validate bool       `json:"validate,omitempty"`
	CbFail   string     `json:"cbfail,omitempty"`
	// site
	Perm []int `json:"perm,omitempty"`
	// order
	Probe int      `json:"probe,omitempty"`
	Pre   []string `json:"pre,omitempty"` // server-block bodies loaded before the case; prefix "S:" start+stop, "R:" reload of a running site, "V:" or none: validate only
	// hist
	Steps []c09Step `json:"steps,omitempty"`
	// text
	TPre  []c09ABlock `json:"tpre,omitempty"`
	TPost []c09ABlock `json:"tpost,omitempty"`
	TMain *c09ABlock  `json:"tmain,omitempty"`
}

// text cases: tokens as written (text, followed by a line break), lines, blocks
type c09LT struct {
	T  string `json:"t"`
	NL bool   `json:"nl,omitempty"`
}
type c09ALine struct {
	H c09LT   `json:"h"`
	R []c09LT `json:"r,omitempty"`
}
type c09ABlock struct {
	Key   c09LT      `json:"key"`
	Keys  []c09LT    `json:"keys,omitempty"`
	Lines []c09ALine `json:"lines"`
}

type c09Step struct {
	K      int        `json:"k"`   // 0 casket.Start, 1 ValidateAndExecuteDirectives, 2 Instance.Restart of the running instance
	Syn    bool       `json:"syn"` // false: the text ends with an unclosed server block
	Blocks []c09Block `json:"blocks"`
	CbFail string     `json:"cbfail,omitempty"`
}


// ------------------------------------------------------------------ dictionary encoding
// Case files are dominated by the cost of elaborating string literals; words of a fixed vocabulary
// (emitted into Gen_C09.v as c09_vocab by the same binary) are written as (W n).
var c09VocabList []string
var c09VocabIdx map[string]int

var c09StdNames = strings.Fields("root index bind limits timeouts tls startup shutdown on supervisor request_id realip git proxyprotocol locale log cache tryfiles rewrite ext minify gzip header geoip errors authz filter ipfilter ratelimit recaptcha expires forwardproxy basicauth redir status cors s3browser nobots mime tmpauth chuieauth login reauth extauth jwt permission jsonp upload multipass internal pprof expvar push datadog prometheus templates proxy pubsub fastcgi cgi websocket filebrowser webdav markdown browse mailout awses awslambda grpc gopkg restic wkd dyndns")

func c09Vocab() []string {
	if c09VocabList != nil {
		return c09VocabList
	}
	var v []string
	seen := map[string]bool{}
	add := func(xs ...string) {
		for _, x := range xs {
			if !seen[x] {
				seen[x] = true
				v = append(v, x)
			}
		}
	}
	add(c09StdNames...)
	add(c09Words...)
	add(c09ProbeNames...)
	add(c09TextWords...)
	add("a.example", "a.example,", "b.example", ":80", "z.example", "{$C09D}", "{%C09D%}", "log", "imported")
	add("alpha", "beta", "gamma", "Delta", "e.f", "x-y", "imported", "x", "y", "/p", "two words", "z", "sub", "v", "FAIL", "pz", "127.0.0.1:0",
		"q r", "m\nn", "bogus", "/x", "a", "<no context>", "")
	for i := 0; i < 12; i++ {
		add(fmt.Sprintf("k%d", i))
	}
	for _, p := range c09Pool {
		add(p.Text)
	}
	for _, l := range c09FixedSite {
		add(l.T...)
	}
	c09VocabList = v
	c09VocabIdx = map[string]int{}
	for i, x := range v {
		c09VocabIdx[x] = i
	}
	return v
}

func c09S(s string) string {
	c09Vocab()
	if i, ok := c09VocabIdx[s]; ok {
		return fmt.Sprintf("(W %d%%N)", i)
	}
	return cStr(s)
}
func c09SList(xs []string) string {
	it := make([]string, len(xs))
	for i, x := range xs {
		it[i] = c09S(x)
	}
	return cList(it)
}

// ------------------------------------------------------------------ rendering
func c09Quote(t string) string {
	if t == "" || strings.ContainsAny(t, " \t\n\"#") {
		return `"` + strings.ReplaceAll(t, `"`, `\"`) + `"`
	}
	return t
}

func c09RenderLine(l c09Line, indent string) string {
	var sb strings.Builder
	nl := map[int]bool{}
	for _, i := range l.NL {
		nl[i] = true
	}
	for i, t := range l.T {
		if i > 0 {
			if nl[i] {
				sb.WriteString("\n" + indent + "  ")
			} else {
				sb.WriteString(" ")
			}
		}
		sb.WriteString(c09Quote(t))
	}
	return sb.String()
}

func c09LineTerm(l c09Line) string { return cPair(c09S(l.D), c09SList(l.T)) }
func c09LinesTerm(ls []c09Line) string {
	it := make([]string, len(ls))
	for i, l := range ls {
		it[i] = c09LineTerm(l)
	}
	return cList(it)
}
func c09Tok(line int, text string) string {
	return cApp("mkTok", cN(uint64(line)), c09S(text))
}

// ------------------------------------------------------------------ parse cases
func c09ErrClass(err error) int {
	if err == nil {
		return 0
	}
	m := err.Error()
	switch {
	case strings.Contains(m, "Unknown directive"):
		return 1
	case strings.Contains(m, "Unexpected '}'"):
		return 2
	case strings.Contains(m, "Unexpected EOF"):
		return 3
	case strings.Contains(m, "Syntax error: Unexpected token"):
		return 4
	case strings.Contains(m, "mport"):
		return 5
	}
	return 9
}

func c09RunParse(in *c09In) Result {
	// the token stream as the real lexer delivers it
	d := casketfile.NewDispenser("Casketfile", strings.NewReader(in.Src))
	type tk struct {
		line int
		text string
	}
	var toks []tk
	for d.Next() {
		toks = append(toks, tk{d.Line(), d.Val()})
	}
	skip := 1 // address
	braced := len(toks) > 1 && toks[1].text == "{" // openCurlyBrace looks at the token after the address
	if braced {
		skip = 2
	}
	if len(toks) < skip {
		return Result{Term: `(CDirs gen_directives)`, Obs: "degenerate source", Class: "parse:degenerate", Sig: "parse:degenerate"}
	}
	first := toks[skip-1]
	var tt []string
	for _, t := range toks[skip:] {
		tt = append(tt, c09Tok(t.line, t.text))
	}
	var valid []string
	if in.HasValid {
		valid = in.Valid
		if valid == nil {
			valid = []string{}
		}
	}
	blocks, err := casketfile.Parse("Casketfile", strings.NewReader(in.Src), valid)
	code := c09ErrClass(err)
	var obsItems []string
	obsHuman := map[string]string{}
	if err == nil {
		if len(blocks) != 1 {
			code = 6
		} else {
			keys := make([]string, 0, len(blocks[0].Tokens))
			for k := range blocks[0].Tokens {
				keys = append(keys, k)
			}
			sort.Strings(keys)
			for _, k := range keys {
				var ts, hs []string
				for _, t := range blocks[0].Tokens[k] {
					ts = append(ts, c09Tok(t.Line, t.Text))
					hs = append(hs, fmt.Sprintf("%d:%q", t.Line, t.Text))
				}
				obsItems = append(obsItems, cPair(c09S(k), cList(ts)))
				obsHuman[k] = strings.Join(hs, " ")
			}
		}
	}
	validTerm := "None"
	if in.HasValid {
		validTerm = "(Some " + c09SList(valid) + ")"
	}
	linesTerm := "None"
	if in.HasLines {
		linesTerm = "(Some " + c09LinesTerm(in.Lines) + ")"
	}
	term := cApp("CParse", cBool(braced), validTerm, c09Tok(first.line, first.text), cList(tt), linesTerm, cList(obsItems), cN(uint64(code)))
	sig := "parse:malformed"
	nontrivial := false
	if in.HasLines {
		sig = "parse:grouping"
		// a repeated directive with a line of another directive in between
		last := map[string]int{}
		for i, l := range in.Lines {
			if j, ok := last[l.D]; ok && j < i-1 {
				nontrivial = true
				sig = "parse:grouping:interleaved"
			}
			last[l.D] = i
		}
	}
	errs := ""
	if err != nil {
		errs = err.Error()
	}
	return Result{Term: term, Obs: map[string]interface{}{"tokens": obsHuman, "err": errs, "class": code}, Sig: sig,
		Nontrivial: nontrivial || (!in.HasLines && code != 0), Class: fmt.Sprintf("%s:err%d", sig, code)}
}

// ------------------------------------------------------------------ exec cases: probe server type
type c09Event struct {
	Setup bool
	D     string
	I, J  int
	Key   string
	Toks  []string
	Seen  int
	Once  bool
}

var (
	c09Once       sync.Once
	c09ProbeNames = []string{"pa", "pb", "pc", "pd", "pe", "pf", "pg", "ph", "pi", "pj", "pk", "pl"}
	c09Backing    = make([]string, 0, 32)
	c09ProbeDirs  []string // what Directives() of the probe server type returns (never copied, like httpserver's)
	c09Trace      []c09Event
	c09CbFail     string
	c09HTTPCtx    casket.Context
)

// every second probe directive has a parsing callback
func c09HasCb(name string) bool { return (name[1]-'a')%2 == 0 }
func c09CbSet() []string {
	var out []string
	for _, n := range c09ProbeNames {
		if c09HasCb(n) {
			out = append(out, n)
		}
	}
	return out
}

type c09Ctx struct{}

func (c09Ctx) InspectServerBlocks(f string, sb []casketfile.ServerBlock) ([]casketfile.ServerBlock, error) {
	return sb, nil
}
func (c09Ctx) MakeServers() ([]casket.Server, error) { return nil, nil }

const c09Type = "verifc09"

func c09Register() {
	c09Once.Do(func() {
		casket.Quiet = true
		log.SetOutput(io.Discard)
		for _, kv := range c09Env {
			os.Setenv(kv[0], kv[1])
		}
		casket.RegisterServerType(c09Type, casket.ServerType{
			Directives: func() []string { return c09ProbeDirs },
			NewContext: func(inst *casket.Instance) casket.Context { return c09Ctx{} },
		})
		for _, n := range c09ProbeNames {
			name := n
			casket.RegisterPlugin(name, casket.Plugin{ServerType: c09Type, Action: func(c *casket.Controller) error {
				var toks []string
				for c.Next() {
					toks = append(toks, c.Val())
				}
				seen := 0
				if v, ok := c.ServerBlockStorage.(int); ok {
					seen = v
				}
				c.ServerBlockStorage = seen + 1
				once := false
				c.OncePerServerBlock(func() error { once = true; return nil })
				c09Trace = append(c09Trace, c09Event{Setup: true, D: name, I: c.ServerBlockIndex, J: c.ServerBlockKeyIndex, Key: c.Key, Toks: toks, Seen: seen, Once: once})
				for _, t := range toks {
					if t == "FAIL" {
						return fmt.Errorf("probe %s told to fail", name)
					}
				}
				return nil
			}})
			if !c09HasCb(name) {
				continue
			}
			casket.RegisterParsingCallback(c09Type, name, func(casket.Context) error {
				c09Trace = append(c09Trace, c09Event{D: name})
				if c09CbFail == name {
					return fmt.Errorf("callback %s told to fail", name)
				}
				return nil
			})
		}
		// http: remember the context of every load so that the compiled site configs can be inspected
		casket.RegisterParsingCallback("http", "root", func(ctx casket.Context) error {
			c09HTTPCtx = ctx
			return nil
		})
	})
}

func c09RenderBlocks(bs []c09Block) string {
	var sb strings.Builder
	for _, b := range bs {
		sb.WriteString(strings.Join(b.Keys, ", "))
		sb.WriteString(" {\n")
		for _, l := range b.Lines {
			sb.WriteString("  " + c09RenderLine(l, "  ") + "\n")
		}
		sb.WriteString("}\n")
	}
	return sb.String()
}

func c09RunExec(in *c09In) Result {
	c09Register()
	// the probe type hands out the same slice on every call, exactly as httpserver does
	c09Backing = append(c09Backing[:0], in.Dirs...)
	c09ProbeDirs = c09Backing // spare capacity behind the list
	c09Trace = nil
	c09CbFail = in.CbFail
	src := c09RenderBlocks(in.Blocks)
	input := casket.CasketfileInput{Contents: []byte(src), Filepath: "Casketfile", ServerTypeName: c09Type}
	var err error
	if in.Validate {
		err = casket.ValidateAndExecuteDirectives(input, nil, true)
	} else {
		var inst *casket.Instance
		inst, err = casket.Start(input)
		if err == nil && inst != nil {
			inst.Stop()
		}
	}
	after := append([]string(nil), c09ProbeDirs...)
	var evs []string
	var human []string
	for _, e := range c09Trace {
		if e.Setup {
			evs = append(evs, cApp("ESetup", c09S(e.D), cNat(e.I), cNat(e.J), c09S(e.Key), c09SList(e.Toks), cNat(e.Seen), cBool(e.Once)))
			human = append(human, fmt.Sprintf("%s[%d.%d %s](%s)", e.D, e.I, e.J, e.Key, strings.Join(e.Toks, " ")))
		} else {
			evs = append(evs, cApp("ECallback", c09S(e.D)))
			human = append(human, "cb:"+e.D)
		}
	}
	var bts []string
	for _, b := range in.Blocks {
		bts = append(bts, cPair(c09SList(b.Keys), c09LinesTerm(b.Lines)))
	}
	cbf := "None"
	if in.CbFail != "" {
		cbf = "(Some " + c09S(in.CbFail) + ")"
	}
	term := cApp("CExec", c09SList(in.Dirs), cList(bts), cBool(in.Validate), c09SList(c09CbSet()), cbf, cList(evs), cBool(err == nil), c09SList(after))
	errs := ""
	if err != nil {
		errs = err.Error()
	}
	sig := "exec"
	if strings.Join(after, " ") != strings.Join(in.Dirs, " ") {
		sig = "exec:directive-list-changed"
	}
	return Result{Term: term, Obs: map[string]interface{}{"trace": human, "err": errs, "dirs_after": after}, Sig: sig,
		Nontrivial: len(c09Trace) >= 2, Class: fmt.Sprintf("exec:validate=%v:ok=%v", in.Validate, err == nil)}
}

// ------------------------------------------------------------------ http sites
const (
	c09SECRET = "SECRETTOKq1"
	c09MD     = "MDTOKq2"
	c09TPL    = "TPLTOKq3"
	c09E401   = "E401TOKq4"
	c09E502   = "E502TOKq5"
	c09E404   = "E404TOKq6"
	c09E500   = "E500TOKq7"
	c09E501   = "E501TOKq8"
	c09E405   = "E405TOKq9"
	c09FCGITOK = "FCGITOKq0"
)

var (
	c09Fix     string
	c09Backend *httptest.Server
	c09FCGI    string
)

func c09Fixture() string {
	if c09Fix != "" {
		return c09Fix
	}
	base := os.Getenv("VERIF_ROOT")
	if base == "" {
		base = os.TempDir()
	}
	rundir := filepath.Join(base, "run")
	os.MkdirAll(rundir, 0o755)
	// drop fixtures of earlier runs
	if old, _ := filepath.Glob(filepath.Join(rundir, "c09fix*")); old != nil {
		for _, o := range old {
			if st, err := os.Stat(o); err == nil && time.Since(st.ModTime()) > 30*time.Minute {
				os.RemoveAll(o)
			}
		}
	}
	root, err := os.MkdirTemp(rundir, "c09fix")
	if err != nil {
		panic(err)
	}
	big := strings.Repeat("compressible static text ", 80)
	writeFixture(root, map[string]string{
		"index.html":     "<html>INDEXq</html>",
		"idx.html":       "<html>IDXq</html>",
		"a.txt":          "file a",
		"b.txt":          "file b",
		"a.html":         "<html>a-html</html>",
		"big.txt":        big,
		"fallback.txt":   "fallback file",
		"docs/readme.md": "# " + c09MD + "\n\nsome *text*\n",
		"docs/index.html": "<html>docs index</html>",
		"dir/f1.txt":     "one",
		"dir/f2.txt":     "two",
		"secret/s.txt":   c09SECRET,
		"int/h.txt":      "internal only",
		"hidden/x.txt":   "hidden x",
		"tpl/t.html":     "<html>" + c09TPL + " {{.Method}} {{.URI}}</html>",
		"tpl/big.html":   "<html>{{.Method}} " + big + "</html>",
		"tpl/bad.html":   "<html>{{.Nope</html>",
		"e500.html":      c09E500,
		"e501.html":      c09E501,
		"e405.html":      c09E405,
		"e401.html":      c09E401,
		"e404.html":      c09E404,
		"e502.html":      c09E502,
	})
	// stable mtimes: Last-Modified / browse listings must not depend on when the run started
	t0 := time.Date(2020, 1, 2, 3, 4, 5, 0, time.UTC)
	filepath.Walk(root, func(p string, _ os.FileInfo, _ error) error { os.Chtimes(p, t0, t0); return nil })
	c09Fix = root
	c09Backend = httptest.NewServer(http.HandlerFunc(func(w http.ResponseWriter, r *http.Request) {
		b, _ := io.ReadAll(r.Body)
		if strings.Contains(r.URL.Path, "big") {
			w.Header().Set("Content-Type", "text/plain; charset=utf-8")
			io.WriteString(w, strings.Repeat("backend big body ", 120))
			return
		}
		w.Header().Set("Content-Type", "text/plain; charset=utf-8")
		fmt.Fprintf(w, "backend %s %s len=%d", r.Method, r.URL.Path, len(b))
	}))
	// a live FastCGI responder (net/http/fcgi) so that the fastcgi directive has real content to serve
	if ln, err := net.Listen("tcp", "127.0.0.1:0"); err == nil {
		c09FCGI = ln.Addr().String()
		go fcgi.Serve(ln, http.HandlerFunc(func(w http.ResponseWriter, r *http.Request) {
			w.Header().Set("Content-Type", "text/plain; charset=utf-8")
			if strings.Contains(r.URL.Path, "big") {
				io.WriteString(w, strings.Repeat("fastcgi big body ", 120))
				return
			}
			io.WriteString(w, c09FCGITOK+" "+r.Method)
		}))
	}
	return root
}

func c09Subst(s string) string {
	root := c09Fixture()
	s = strings.ReplaceAll(s, "FIX", root)
	s = strings.ReplaceAll(s, "LOGFILE", filepath.Join(root, "access.log"))
	s = strings.ReplaceAll(s, "BACKEND", c09Backend.URL)
	s = strings.ReplaceAll(s, "DEAD", "127.0.0.1:1")
	s = strings.ReplaceAll(s, "FCGI", c09FCGI)
	return s
}

type c09Site struct {
	inst *casket.Instance
	addr string
}

func c09Start(body string) (*c09Site, error) { return c09StartWith("", body) }

func c09StartWith(prefix, body string) (*c09Site, error) {
	c09Register()
	c09Fixture()
	os.Remove(filepath.Join(c09Fix, "access.log"))
	c09HTTPCtx = nil
	text := c09Subst(prefix) + "127.0.0.1:0 {\n" + c09Subst(body) + "\n}\n"
	inst, err := casket.Start(casket.CasketfileInput{Contents: []byte(text), Filepath: "Casketfile", ServerTypeName: "http"})
	if err != nil {
		return nil, err
	}
	srvs := inst.Servers()
	if len(srvs) == 0 {
		inst.Stop()
		return nil, fmt.Errorf("no servers")
	}
	_, port, _ := net.SplitHostPort(srvs[0].Addr().String())
	return &c09Site{inst: inst, addr: "127.0.0.1:" + port}, nil
}

func (s *c09Site) stop() string {
	s.inst.ShutdownCallbacks()
	s.inst.Stop()
	b, _ := os.ReadFile(filepath.Join(c09Fix, "access.log"))
	return string(b)
}

var c09PkgDir = map[string]string{"extensions": "ext", "internalsrv": "internal", "requestid": "request_id", "redirect": "redir"}

// c09Stack names the middleware of the (single) site of the last http load, outermost first.
func c09Stack() []string {
	if c09HTTPCtx == nil {
		return []string{"<no context>"}
	}
	v := reflect.ValueOf(c09HTTPCtx)
	if v.Kind() != reflect.Ptr {
		return []string{"<context not a pointer>"}
	}
	f := v.Elem().FieldByName("siteConfigs")
	if !f.IsValid() {
		return []string{"<no siteConfigs field>"}
	}
	f = reflect.NewAt(f.Type(), unsafe.Pointer(f.UnsafeAddr())).Elem()
	cfgs, ok := f.Interface().([]*httpserver.SiteConfig)
	if !ok || len(cfgs) == 0 {
		return []string{"<no site config>"}
	}
	out := []string{}
	for _, m := range cfgs[0].Middleware() {
		name := runtime.FuncForPC(reflect.ValueOf(m).Pointer()).Name()
		// github.com/tmpim/casket/caskethttp/gzip.setup.func1 -> gzip
		if i := strings.LastIndex(name, "/"); i >= 0 {
			name = name[i+1:]
		}
		if i := strings.Index(name, "."); i >= 0 {
			name = name[:i]
		}
		if d, ok := c09PkgDir[name]; ok {
			name = d
		}
		out = append(out, name)
	}
	return out
}

type c09Req struct {
	Method, Target, Creds, AE string
	Body                      []byte
	Volatile                  bool
}

var c09Battery = []c09Req{
	{Method: "GET", Target: "/"}, {Method: "GET", Target: "/a.txt"}, {Method: "GET", Target: "/a"}, {Method: "GET", Target: "/b.txt"},
	{Method: "GET", Target: "/docs/readme.md"}, {Method: "GET", Target: "/docs/"}, {Method: "GET", Target: "/dir/"},
	{Method: "GET", Target: "/r1"}, {Method: "GET", Target: "/r2"}, {Method: "GET", Target: "/r2", Creds: "u:p"}, {Method: "GET", Target: "/re/a.txt"},
	{Method: "GET", Target: "/old"}, {Method: "GET", Target: "/old2"},
	{Method: "GET", Target: "/secret/s.txt"}, {Method: "GET", Target: "/secret/s.txt", Creds: "u:p"}, {Method: "GET", Target: "/secret/s", Creds: "u:p"},
	{Method: "GET", Target: "/api/x"}, {Method: "GET", Target: "/api/x", Creds: "v:q"}, {Method: "GET", Target: "/api2/y"}, {Method: "GET", Target: "/dead/z"},
	{Method: "GET", Target: "/int/h.txt"}, {Method: "GET", Target: "/hidden/x.txt"}, {Method: "GET", Target: "/tpl/t.html"}, {Method: "GET", Target: "/nope"},
	{Method: "GET", Target: "/php/x.php"}, {Method: "GET", Target: "/stats", Volatile: true}, {Method: "HEAD", Target: "/a.txt"},
	{Method: "POST", Target: "/api/up", Creds: "v:q", Body: []byte("0123456789012345678901234")},
	{Method: "GET", Target: "/big.txt", AE: "gzip"}, {Method: "GET", Target: "/api/big", Creds: "v:q", AE: "gzip"},
	{Method: "GET", Target: "/tpl/big.html", AE: "gzip"}, {Method: "OPTIONS", Target: "/secret/s.txt"},
}

func c09Do(addr string, rq c09Req) rawResp {
	hdr := map[string]string{}
	if rq.Creds != "" {
		hdr["Authorization"] = "Basic " + base64.StdEncoding.EncodeToString([]byte(rq.Creds))
	}
	if rq.AE != "" {
		hdr["Accept-Encoding"] = rq.AE
	}
	return doRaw(addr, rq.Method, rq.Target, hdr, rq.Body)
}

func c09Gunzip(b []byte) []byte {
	zr, err := gzip.NewReader(bytes.NewReader(b))
	if err != nil {
		return b
	}
	d, _ := io.ReadAll(zr)
	return d
}

// canonical response: status, sorted headers (Date dropped, instance port masked), decoded body
func c09Canon(rq c09Req, r rawResp, addr string) (int, string, string) {
	if r.Err != "" {
		return 0, "error: " + r.Err, ""
	}
	keys := make([]string, 0, len(r.Header))
	for k := range r.Header {
		if k == "Date" {
			continue
		}
		keys = append(keys, k)
	}
	sort.Strings(keys)
	var hb strings.Builder
	for _, k := range keys {
		v := strings.Join(r.Header[k], ",")
		if rq.Volatile && k == "Content-Length" {
			v = "*"
		}
		hb.WriteString(k + ": " + strings.ReplaceAll(v, addr, "ADDR") + "\n")
	}
	body := r.Body
	if strings.Contains(r.Header.Get("Content-Encoding"), "gzip") {
		body = c09Gunzip(body)
	}
	bs := strings.ReplaceAll(string(body), addr, "ADDR")
	if rq.Volatile {
		bs = "<volatile>"
	}
	return r.Status, hb.String(), bs
}

// 63-bit digest passed to Coq instead of the text (full texts stay in the replay record)
func c09Digest(s string) string {
	h := sha256.Sum256([]byte(s))
	var x uint64
	for i := 0; i < 8; i++ {
		x = x<<8 | uint64(h[i])
	}
	return cN(x >> 1)
}

func c09BodyOf(lines []c09Line, perm []int) string {
	var sb strings.Builder
	prev := -2
	for _, i := range perm {
		if i >= 0 && i < len(lines) {
			switch {
			case lines[i].S == "":
				sb.WriteString(lines[i].T[0] + "\n")
			case i > 0 && lines[i-1].S == lines[i].S && prev == i-1:
				// a further line of the snippet whose import is already written
			default:
				sb.WriteString("import " + lines[i].S + "\n")
			}
			prev = i
		}
	}
	return sb.String()
}

// c09SnippetDefs: the snippet definitions of a site case, in the order of their first line
func c09SnippetDefs(lines []c09Line) string {
	var names []string
	body := map[string]string{}
	for _, l := range lines {
		if l.S == "" {
			continue
		}
		if _, ok := body[l.S]; !ok {
			names = append(names, l.S)
		}
		body[l.S] += l.T[0] + "\n"
	}
	out := ""
	for _, n := range names {
		out += "(" + n + ") {\n" + body[n] + "}\n"
	}
	return out
}

type c09SiteObs struct {
	ok    bool
	err   string
	resps []string // Coq terms
	human []string
	full  []string
	log   string
	stack []string
}

func c09Observe(body string) c09SiteObs { return c09ObserveWith("", body) }

func c09ObserveWith(prefix, body string) c09SiteObs {
	st, err := c09StartWith(prefix, body)
	if err != nil {
		return c09SiteObs{err: err.Error(), stack: []string{}}
	}
	o := c09SiteObs{ok: true, stack: c09Stack()}
	for _, rq := range c09Battery {
		code, h, b := c09Canon(rq, c09Do(st.addr, rq), st.addr)
		o.resps = append(o.resps, "("+cN(uint64(code))+", "+c09Digest(h)+", "+c09Digest(b)+")")
		o.human = append(o.human, fmt.Sprintf("%s %s %s -> %d", rq.Method, rq.Target, rq.Creds, code))
		o.full = append(o.full, fmt.Sprintf("%s %s %s -> %d\n%s\n%s", rq.Method, rq.Target, rq.Creds, code, h, b))
	}
	o.log = st.stop()
	return o
}

func c09VD() []string { return append([]string(nil), casket.ValidDirectives("http")...) }

// the list as it was when the harness started (before any load of this process)
var c09VD0 = c09VD()

func c09RunSite(in *c09In) Result {
	id := make([]int, len(in.Lines))
	for i := range id {
		id[i] = i
	}
	defs := c09SnippetDefs(in.Lines)
	a := c09ObserveWith(defs, c09BodyOf(in.Lines, id))
	b := c09ObserveWith(defs, c09BodyOf(in.Lines, in.Perm))
	vd := c09VD()
	term := cApp("CSite", c09LinesTerm(in.Lines), cNatList(in.Perm), cBool(a.ok), cBool(b.ok), cList(a.resps), cList(b.resps),
		c09Digest(a.log), c09Digest(b.log), c09SList(a.stack), c09SList(b.stack), c09SList(vd))
	diff := []string{}
	for i := range a.human {
		if i < len(b.human) && (a.human[i] != b.human[i] || a.resps[i] != b.resps[i]) {
			diff = append(diff, "A: "+a.full[i]+"\n---- B: "+b.full[i])
		}
	}
	dirs := map[string]bool{}
	for _, l := range in.Lines {
		dirs[l.D] = true
	}
	return Result{Term: term, Obs: map[string]interface{}{"okA": a.ok, "okB": b.ok, "errA": a.err, "errB": b.err, "stackA": a.stack, "stackB": b.stack,
		"differing": diff, "logA": a.log, "logB": b.log, "statuses": a.human, "snippets": defs, "bodyA": c09BodyOf(in.Lines, id), "bodyB": c09BodyOf(in.Lines, in.Perm)},
		Sig: c09SiteSig(defs), Nontrivial: a.ok && len(dirs) >= 3, Class: fmt.Sprintf("site:ok=%v:dirs=%d%s", a.ok, len(dirs)/3*3, c09ImpClass(strings.Count(defs, "(")))}
}

// ---- behavioural order probes
type c09Probe struct {
	ID    int
	Lines []string
	Req   c09Req
	Flag  func(r rawResp, body string, log string) bool
}

func c09Has(tok string) func(rawResp, string, string) bool {
	return func(_ rawResp, body, _ string) bool { return strings.Contains(body, tok) }
}
func c09LogHas(s string) func(rawResp, string, string) bool {
	return func(_ rawResp, _, log string) bool { return strings.Contains(log, s) }
}
func c09HdrHas(k string) func(rawResp, string, string) bool {
	return func(r rawResp, _, _ string) bool { return r.Header.Get(k) != "" }
}
func c09Gz(r rawResp, _, _ string) bool { return strings.Contains(r.Header.Get("Content-Encoding"), "gzip") }

var c09Probes = []c09Probe{
	{1, []string{"root FIX", "rewrite /pub/x /secret/s.txt", "basicauth /secret u p"}, c09Req{Method: "GET", Target: "/pub/x"}, c09Has(c09SECRET)},
	{2, []string{"root FIX", "tryfiles {path} /secret/s.txt", "basicauth /secret u p"}, c09Req{Method: "GET", Target: "/nonexistent"}, c09Has(c09SECRET)},
	{3, []string{"root FIX", "ext .txt", "basicauth /secret/s.txt u p"}, c09Req{Method: "GET", Target: "/secret/s"}, c09Has(c09SECRET)},
	{4, []string{"basicauth /api v q", "proxy /api BACKEND"}, c09Req{Method: "GET", Target: "/api/x"}, c09Has("backend")},
	{5, []string{"redir /api/old /new 301", "proxy /api BACKEND"}, c09Req{Method: "GET", Target: "/api/old"}, c09Has("backend")},
	{6, []string{"internal /api/int", "proxy /api BACKEND"}, c09Req{Method: "GET", Target: "/api/int/x"}, c09Has("backend")},
	{7, []string{"status 410 /api/gone", "proxy /api BACKEND"}, c09Req{Method: "GET", Target: "/api/gone"}, c09Has("backend")},
	{8, []string{"root FIX", "basicauth /docs u p", "markdown /docs"}, c09Req{Method: "GET", Target: "/docs/readme.md"}, c09Has(c09MD)},
	{9, []string{"root FIX", "basicauth /dir u p", "browse /dir"}, c09Req{Method: "GET", Target: "/dir/"}, c09Has("f1.txt")},
	{10, []string{"root FIX", "basicauth /tpl u p", "templates /tpl"}, c09Req{Method: "GET", Target: "/tpl/t.html"}, c09Has(c09TPL)},
	{11, []string{"root FIX", "basicauth /php u p", "fastcgi /php DEAD"}, c09Req{Method: "GET", Target: "/php/x.php"}, c09Has("never")},
	{12, []string{"basicauth /stats u p", "expvar /stats"}, c09Req{Method: "GET", Target: "/stats"}, c09Has("never")},
	{13, []string{"log / LOGFILE \"{uri} {status}\"", "proxy /api BACKEND"}, c09Req{Method: "GET", Target: "/api/x"}, c09LogHas("/api/x 200")},
	{14, []string{"gzip", "proxy /api BACKEND"}, c09Req{Method: "GET", Target: "/api/big.txt", AE: "gzip"}, c09Gz},
	{15, []string{"header /api X-Hdr yes", "proxy /api BACKEND"}, c09Req{Method: "GET", Target: "/api/x"}, c09HdrHas("X-Hdr")},
	{16, []string{"root FIX", "errors {\n 502 FIX/e502.html\n}", "proxy /dead DEAD"}, c09Req{Method: "GET", Target: "/dead/x"}, c09Has(c09E502)},
	{17, []string{"root FIX", "header /secret X-Hdr yes", "basicauth /secret u p"}, c09Req{Method: "GET", Target: "/secret/s.txt"}, c09HdrHas("X-Hdr")},
	{18, []string{"root FIX", "errors {\n 401 FIX/e401.html\n}", "basicauth /secret u p"}, c09Req{Method: "GET", Target: "/secret/s.txt"}, c09Has(c09E401)},
	{19, []string{"root FIX", "log / LOGFILE \"{uri} {status}\"", "basicauth /secret u p"}, c09Req{Method: "GET", Target: "/secret/s.txt"}, c09LogHas("/secret/s.txt 401")},
	{20, []string{"root FIX", "internal /dir", "browse /dir"}, c09Req{Method: "GET", Target: "/dir/"}, c09Has("f1.txt")},
	{21, []string{"root FIX", "redir /docs/readme.md /x 301", "markdown /docs"}, c09Req{Method: "GET", Target: "/docs/readme.md"}, c09Has(c09MD)},
	{22, []string{"root FIX", "gzip", "templates /tpl"}, c09Req{Method: "GET", Target: "/tpl/big.html", AE: "gzip"}, c09Gz},
}

// ---- generated probes: every pair the property names (ids as in C09_Model.gen_probe_table)
type c09Content struct {
	Name          string
	Lines         []string // site lines that serve Target
	Prefix        string   // path prefix the gates / header are configured on
	Target        string
	Tok           string // in the body when the content handler served the request
	Big           string // a compressible target
	FailLines     []string
	FailReq       c09Req
	FailStatus    int
	FailPage, Tok2 string
}

var c09Contents = []c09Content{
	{"proxy", []string{"proxy /api BACKEND"}, "/api", "/api/x", "backend", "/api/big.txt", []string{"proxy /dead DEAD"}, c09Req{Method: "GET", Target: "/dead/x"}, 502, "e502.html", c09E502},
	{"fastcgi", []string{"root FIX", "fastcgi /php FCGI"}, "/php", "/php/x.php", c09FCGITOK, "/php/big.php", []string{"root FIX", "fastcgi /php DEAD"}, c09Req{Method: "GET", Target: "/php/x.php"}, 502, "e502.html", c09E502},
	{"browse", []string{"root FIX", "browse /dir"}, "/dir", "/dir/", "f1.txt", "/dir/", []string{"root FIX", "browse /dir"}, c09Req{Method: "OPTIONS", Target: "/dir/"}, 501, "e501.html", c09E501},
	{"markdown", []string{"root FIX", "markdown /docs"}, "/docs", "/docs/readme.md", c09MD, "/docs/readme.md", []string{"root FIX", "markdown /docs"}, c09Req{Method: "POST", Target: "/docs/readme.md"}, 405, "e405.html", c09E405},
	{"templates", []string{"root FIX", "templates /tpl"}, "/tpl", "/tpl/t.html", c09TPL, "/tpl/big.html", []string{"root FIX", "templates /tpl"}, c09Req{Method: "GET", Target: "/tpl/bad.html"}, 500, "e500.html", c09E500},
	{"static", []string{"root FIX"}, "/a.txt", "/a.txt", "file a", "/big.txt", []string{"root FIX"}, c09Req{Method: "GET", Target: "/nope"}, 404, "e404.html", c09E404},
}

var c09ReqIDRe = regexp.MustCompile(`id=[0-9a-f]{8}-[0-9a-f]{4}-`)

func c09GenProbes() []c09Probe {
	var out []c09Probe
	join := func(a []string, b ...string) []string { return append(append([]string(nil), a...), b...) }
	for ci, c := range c09Contents {
		gates := []string{"basicauth " + c.Prefix + " u p", "redir " + c.Target + " /new 301", "status 410 " + c.Prefix, "internal " + c.Prefix}
		for gi, g := range gates {
			out = append(out, c09Probe{100 + 6*gi + ci, join(c.Lines, g), c09Req{Method: "GET", Target: c.Target}, c09Has(c.Tok)})
		}
		out = append(out,
			c09Probe{200 + ci, join(c.Lines, `log / LOGFILE "{uri} {status}"`), c09Req{Method: "GET", Target: c.Target}, c09LogHas(c.Target + " 200")},
			c09Probe{206 + ci, join(c.Lines, "gzip {\n ext *\n}"), c09Req{Method: "GET", Target: c.Big, AE: "gzip"}, c09Gz},
			c09Probe{212 + ci, join(c.Lines, "header "+c.Prefix+" X-Hdr yes"), c09Req{Method: "GET", Target: c.Target}, c09HdrHas("X-Hdr")},
			c09Probe{218 + ci, join(c.FailLines, fmt.Sprintf("errors {\n %d FIX/%s\n}", c.FailStatus, c.FailPage)), c.FailReq, c09Has(c.Tok2)})
	}
	out = append(out,
		c09Probe{300, []string{"root FIX", "tryfiles {path} /int/h.txt", "internal /int"}, c09Req{Method: "GET", Target: "/nonexistent"}, c09Has("internal only")},
		c09Probe{301, []string{"root FIX", "rewrite /pub/x /int/h.txt", "internal /int"}, c09Req{Method: "GET", Target: "/pub/x"}, c09Has("internal only")},
		c09Probe{302, []string{"root FIX", "ext .txt", "internal /int/h.txt"}, c09Req{Method: "GET", Target: "/int/h"}, c09Has("internal only")},
		c09Probe{400, []string{"root FIX", "request_id", `log / LOGFILE "{uri} id={request_id}"`}, c09Req{Method: "GET", Target: "/a.txt"},
			func(_ rawResp, _, log string) bool { return c09ReqIDRe.MatchString(log) }})
	sort.Slice(out, func(a, b int) bool { return out[a].ID < out[b].ID })
	return out
}

func init() { c09Probes = append(c09Probes, c09GenProbes()...) }

// c09LoadClass: 0 loaded, 1 unknown directive, 2 other parse error, 3 a setup function / callback failed
func c09LoadClass(err error) int {
	if err == nil {
		return 0
	}
	m := err.Error()
	switch {
	case strings.Contains(m, "Unknown directive"):
		return 1
	case strings.Contains(m, "Syntax error") || strings.Contains(m, "Unexpected EOF") || strings.Contains(m, "Unexpected '}'") || strings.Contains(m, "Unexpected token"):
		return 2
	}
	return 3
}

// c09Preload runs a history of http loads in this process; it returns the outcome class of each.
func c09Preload(pre []string) []int {
	c09Register()
	c09Fixture()
	var classes []int
	for _, body := range pre {
		kind := "V"
		if len(body) > 2 && body[1] == ':' && strings.ContainsRune("VSR", rune(body[0])) {
			kind, body = body[:1], body[2:]
		}
		text := "127.0.0.1:0 {\n" + c09Subst(body) + "\n}\n"
		input := casket.CasketfileInput{Contents: []byte(text), Filepath: "Casketfile", ServerTypeName: "http"}
		var err error
		switch kind {
		case "V":
			err = casket.ValidateAndExecuteDirectives(input, nil, true)
		case "S":
			var inst *casket.Instance
			if inst, err = casket.Start(input); err == nil {
				inst.ShutdownCallbacks()
				inst.Stop()
			}
		case "R": // a running site is asked to reload this text; a refused reload leaves it running
			base := casket.CasketfileInput{Contents: []byte("127.0.0.1:0 {\n" + c09Subst("root FIX") + "\n}\n"), Filepath: "Casketfile", ServerTypeName: "http"}
			inst, e0 := casket.Start(base)
			if e0 != nil {
				err = e0
				break
			}
			// (the generator only asks for reloads that are refused: a successful in-process reload of
			// a listening http server can block in Server.Stop of the replaced instance — guarded anyway)
			done := make(chan struct{})
			var ni *casket.Instance
			var rerr error
			go func() { ni, rerr = inst.Restart(input); close(done) }()
			select {
			case <-done:
				err = rerr
				if err == nil && ni != nil {
					inst = ni
				}
				inst.ShutdownCallbacks()
				inst.Stop()
			case <-time.After(5 * time.Second):
				err = fmt.Errorf("reload did not return within 5s")
			}
		}
		classes = append(classes, c09LoadClass(err))
	}
	return classes
}

func c09RunOrder(in *c09In) Result {
	var pr *c09Probe
	for i := range c09Probes {
		if c09Probes[i].ID == in.Probe {
			pr = &c09Probes[i]
		}
	}
	if pr == nil {
		return Result{Term: "(COrder 0%N (0%N, false) [])", Obs: "unknown probe", Class: "order:unknown", Sig: "order:unknown", Direct: "unknown probe id"}
	}
	c09Preload(in.Pre)
	var body strings.Builder
	for _, i := range in.Perm {
		if i >= 0 && i < len(pr.Lines) {
			body.WriteString(pr.Lines[i] + "\n")
		}
	}
	st, err := c09Start(body.String())
	if err != nil {
		return Result{Term: cApp("COrder", cN(uint64(pr.ID)), "(0%N, false)", c09SList(c09VD())), Obs: "start error: " + err.Error(),
			Class: "order:start-error", Sig: fmt.Sprintf("order:probe%d", pr.ID)}
	}
	r := c09Do(st.addr, pr.Req)
	log := st.stop()
	bodyDec := r.Body
	if c09Gz(r, "", "") {
		bodyDec = c09Gunzip(bodyDec)
	}
	flag := pr.Flag(r, string(bodyDec), log)
	term := cApp("COrder", cN(uint64(pr.ID)), "("+cN(uint64(r.Status))+", "+cBool(flag)+")", c09SList(c09VD()))
	return Result{Term: term, Obs: map[string]interface{}{"status": r.Status, "flag": flag, "err": r.Err, "log": log, "body": string(bodyDec[:c09min(len(bodyDec), 120)])},
		Sig: fmt.Sprintf("order:probe%d", pr.ID), Nontrivial: true, Key: fmt.Sprintf("%d|%v|%v", pr.ID, in.Perm, in.Pre),
		Class: fmt.Sprintf("order:probe%02d", pr.ID)}
}

func c09min(a, b int) int {
	if a < b {
		return a
	}
	return b
}

// the fixed probe site whose compiled middleware order is read after every history (written in
// roughly reverse documented order)
var c09FixedSite = []c09Line{
	{D: "browse", T: []string{"browse /dir"}}, {D: "markdown", T: []string{"markdown /docs"}}, {D: "websocket", T: []string{"websocket /ws cat"}},
	{D: "fastcgi", T: []string{"fastcgi /php DEAD"}}, {D: "proxy", T: []string{"proxy /api BACKEND"}}, {D: "templates", T: []string{"templates /tpl"}},
	{D: "push", T: []string{"push /a.txt /b.txt"}}, {D: "expvar", T: []string{"expvar /stats"}}, {D: "pprof", T: []string{"pprof"}},
	{D: "internal", T: []string{"internal /int"}}, {D: "mime", T: []string{"mime .txt text/x-custom"}}, {D: "status", T: []string{"status 410 /hidden"}},
	{D: "redir", T: []string{"redir /old /a.txt 301"}}, {D: "basicauth", T: []string{"basicauth /secret u p"}},
	{D: "errors", T: []string{"errors {\n 404 FIX/e404.html\n}"}}, {D: "header", T: []string{"header / X-A 1"}}, {D: "gzip", T: []string{"gzip"}},
	{D: "ext", T: []string{"ext .txt .html"}}, {D: "rewrite", T: []string{"rewrite /r1 /a.txt"}}, {D: "tryfiles", T: []string{"tryfiles {path} {path}.txt /fallback.txt"}},
	{D: "log", T: []string{"log / LOGFILE \"{method} {uri} {status}\""}}, {D: "request_id", T: []string{"request_id"}},
	{D: "limits", T: []string{"limits {\n body /api 10\n}"}}, {D: "root", T: []string{"root FIX"}},
}

// http directive plugins registered in this process (the generic ones — tls, on — count for every
// server type)
func c09Registered() []string {
	var out []string
	for _, n := range casket.ListPlugins()["others"] {
		switch {
		case strings.HasPrefix(n, "http."):
			out = append(out, strings.TrimPrefix(n, "http."))
		case !strings.Contains(n, "."):
			out = append(out, n)
		}
	}
	sort.Strings(out)
	return out
}

func c09RunDirs(in *c09In) Result {
	classes := c09Preload(in.Pre)
	vd := c09VD()
	reg := c09Registered()
	id := make([]int, len(c09FixedSite))
	for i := range id {
		id[i] = i
	}
	st, err := c09Start(c09BodyOf(c09FixedSite, id))
	stack := []string{}
	errs := ""
	if err == nil {
		stack = c09Stack()
		st.stop()
	} else {
		errs = err.Error()
	}
	sig := "dirs"
	if strings.Join(vd, " ") != strings.Join(c09VD0, " ") {
		sig = "dirs:directive-list-changed"
	}
	return Result{Term: cApp("CDirs", c09SList(vd), c09SList(reg), c09LinesTerm(c09FixedSite), cBool(err == nil), c09SList(stack)),
		Obs: map[string]interface{}{"valid_directives": strings.Join(vd, " "), "registered": strings.Join(reg, " "), "stack": strings.Join(stack, " "), "err": errs, "history_classes": classes},
		Sig: sig, Nontrivial: len(in.Pre) > 0, Key: strings.Join(in.Pre, "|"), Class: fmt.Sprintf("dirs:hist=%d", c09min(len(in.Pre), 3))}
}

// ---- histories of loads of the probe server type in one process
func c09RunHist(in *c09In) Result {
	c09Register()
	c09Backing = append(c09Backing[:0], in.Dirs...)
	c09ProbeDirs = c09Backing
	var cur *casket.Instance
	var steps, human []string
	changed := false
	for _, stp := range in.Steps {
		c09Trace = nil
		c09CbFail = stp.CbFail
		src := c09RenderBlocks(stp.Blocks)
		if !stp.Syn {
			src += "k99 {\n"
		}
		input := casket.CasketfileInput{Contents: []byte(src), Filepath: "Casketfile", ServerTypeName: c09Type}
		var err error
		switch {
		case stp.K == 1:
			err = casket.ValidateAndExecuteDirectives(input, nil, true)
		case stp.K == 2 && cur != nil:
			var ni *casket.Instance
			ni, err = cur.Restart(input)
			if err == nil && ni != nil {
				cur = ni
			}
		default:
			var ni *casket.Instance
			ni, err = casket.Start(input)
			if err == nil && ni != nil {
				if cur != nil {
					cur.Stop()
				}
				cur = ni
			}
		}
		cls := c09LoadClass(err)
		after := append([]string(nil), c09ProbeDirs...)
		if strings.Join(after, " ") != strings.Join(in.Dirs, " ") {
			changed = true
		}
		var evs []string
		for _, e := range c09Trace {
			if e.Setup {
				evs = append(evs, cApp("ESetup", c09S(e.D), cNat(e.I), cNat(e.J), c09S(e.Key), c09SList(e.Toks), cNat(e.Seen), cBool(e.Once)))
			} else {
				evs = append(evs, cApp("ECallback", c09S(e.D)))
			}
		}
		var bts []string
		for _, b := range stp.Blocks {
			bts = append(bts, cPair(c09SList(b.Keys), c09LinesTerm(b.Lines)))
		}
		cbf := "None"
		if stp.CbFail != "" {
			cbf = "(Some " + c09S(stp.CbFail) + ")"
		}
		steps = append(steps, fmt.Sprintf("(%s, %s, %s, %s, (%s, %s), %s)", cN(uint64(stp.K)), cBool(stp.Syn), cList(bts), cbf, cN(uint64(cls)), cList(evs), c09SList(after)))
		es := ""
		if err != nil {
			es = err.Error()
		}
		human = append(human, fmt.Sprintf("k=%d class=%d calls=%d dirs_after=%s err=%s", stp.K, cls, len(c09Trace), strings.Join(after, " "), es))
	}
	if cur != nil {
		cur.Stop()
	}
	sig := "hist"
	if changed {
		sig = "hist:directive-list-changed"
	}
	return Result{Term: cApp("CHist", c09SList(in.Dirs), c09SList(c09CbSet()), cList(steps)), Obs: human, Sig: sig,
		Nontrivial: len(in.Steps) >= 2, Class: fmt.Sprintf("hist:steps=%d", len(in.Steps))}
}

// ---- text cases: a block printed by C10's printer (every token quoted; a space or a line break
// after it) in two line orders, through casketfile.Parse; observed: the Dispenser view of each group
var c09Env = [][2]string{{"C09D", "header"}, {"C09V", "two\nlines"}}

func c09PrintToks(ts []c09LT) string {
	var sb strings.Builder
	for _, t := range ts {
		sb.WriteString(`"` + strings.ReplaceAll(t.T, `"`, `\"`) + `"`)
		if t.NL {
			sb.WriteString("\n")
		} else {
			sb.WriteString(" ")
		}
	}
	return sb.String()
}
func c09FlatBlock(b c09ABlock) []c09LT {
	out := append([]c09LT{b.Key}, b.Keys...)
	out = append(out, c09LT{"{", true})
	for _, l := range b.Lines {
		out = append(out, l.H)
		out = append(out, l.R...)
	}
	return append(out, c09LT{"}", true})
}
func c09LTTerm(t c09LT) string { return cPair(c09S(t.T), cBool(t.NL)) }
func c09LTList(ts []c09LT) string {
	it := make([]string, len(ts))
	for i, t := range ts {
		it[i] = c09LTTerm(t)
	}
	return cList(it)
}
func c09ALinesTerm(ls []c09ALine) string {
	it := make([]string, len(ls))
	for i, l := range ls {
		it[i] = cPair(c09LTTerm(l.H), c09LTList(l.R))
	}
	return cList(it)
}
func c09ABlocksTerm(bs []c09ABlock) string {
	it := make([]string, len(bs))
	for i, b := range bs {
		it[i] = "(" + c09LTTerm(b.Key) + ", " + c09LTList(b.Keys) + ", " + c09ALinesTerm(b.Lines) + ")"
	}
	return cList(it)
}

func c09TextObserve(text string, nblocks, idx int) (string, map[string][]string, string) {
	blocks, err := casketfile.Parse("Casketfile", strings.NewReader(text), nil)
	if err != nil {
		return "None", nil, err.Error()
	}
	if len(blocks) != nblocks {
		return "None", nil, fmt.Sprintf("%d blocks, expected %d", len(blocks), nblocks)
	}
	b := blocks[idx]
	var dirs []string
	for d := range b.Tokens {
		dirs = append(dirs, d)
	}
	sort.Strings(dirs)
	human := map[string][]string{}
	var groups []string
	for _, d := range dirs {
		toks := b.Tokens[d]
		dl := casketfile.NewDispenserTokens("", toks)
		da := casketfile.NewDispenserTokens("", toks)
		dl.Next()
		da.Next()
		var it []string
		for k, t := range toks {
			nl, sa := false, false
			if k > 0 {
				if nl = dl.NextLine(); !nl {
					dl.Next()
				}
				if sa = da.NextArg(); !sa {
					da.Next()
				}
			}
			it = append(it, cPair(c09S(t.Text), cPair(cBool(nl), cBool(sa))))
			human[d] = append(human[d], fmt.Sprintf("%q nl=%v arg=%v", t.Text, nl, sa))
		}
		groups = append(groups, cPair(c09S(d), cList(it)))
	}
	return "(Some " + cList(groups) + ")", human, ""
}

func c09RunText(in *c09In) Result {
	c09Register()
	if in.TMain == nil {
		return Result{Term: "(COrder 0%N (0%N, false) [])", Obs: "no block", Class: "text:bad", Sig: "text:bad", Direct: "text case without a block"}
	}
	build := func(lines []c09ALine) string {
		var ts []c09LT
		for _, b := range in.TPre {
			ts = append(ts, c09FlatBlock(b)...)
		}
		ts = append(ts, c09FlatBlock(c09ABlock{in.TMain.Key, in.TMain.Keys, lines})...)
		for _, b := range in.TPost {
			ts = append(ts, c09FlatBlock(b)...)
		}
		return c09PrintToks(ts)
	}
	var permuted []c09ALine
	for _, i := range in.Perm {
		if i >= 0 && i < len(in.TMain.Lines) {
			permuted = append(permuted, in.TMain.Lines[i])
		}
	}
	tA, tB := build(in.TMain.Lines), build(permuted)
	// a block in front whose only key is written (name) defines a snippet: it is no server block of the result
	isSnip := func(b c09ABlock) bool {
		return len(b.Keys) == 0 && strings.HasPrefix(b.Key.T, "(") && strings.HasSuffix(b.Key.T, ")")
	}
	n, idx, nimp := 1, 0, 0
	for _, b := range in.TPre {
		if !isSnip(b) {
			n++
			idx++
		}
	}
	for _, b := range in.TPost {
		if !isSnip(b) {
			n++
		}
	}
	for _, l := range in.TMain.Lines {
		if l.H.T == "import" {
			nimp++
		}
	}
	oA, hA, eA := c09TextObserve(tA, n, idx)
	oB, hB, eB := c09TextObserve(tB, n, idx)
	var env []string
	for _, kv := range c09Env {
		env = append(env, cPair(cStr(kv[0]), cStr(kv[1])))
	}
	term := cApp("CText", cList(env), c09ABlocksTerm(in.TPre), c09ABlocksTerm(in.TPost), c09LTTerm(in.TMain.Key), c09LTList(in.TMain.Keys),
		c09ALinesTerm(in.TMain.Lines), cNatList(in.Perm), cStr(tA), cStr(tB), oA, oB)
	names := map[string]int{}
	for _, l := range in.TMain.Lines {
		names[os.Expand(strings.NewReplacer("{$", "${").Replace(l.H.T), os.Getenv)]++
	}
	rep := false
	for _, c := range names {
		if c >= 2 {
			rep = true
		}
	}
	return Result{Term: term, Obs: map[string]interface{}{"textA": tA, "textB": tB, "groupsA": hA, "groupsB": hB, "errA": eA, "errB": eB},
		Sig: c09TextSig(nimp), Nontrivial: (rep || nimp > 0) && len(names) >= 2, Class: fmt.Sprintf("text:lines=%d:repeated=%v%s", len(in.TMain.Lines), rep, c09ImpClass(nimp))}
}

func c09SiteSig(defs string) string {
	if defs != "" {
		return "site:snippet-imports"
	}
	return "site"
}
func c09TextSig(nimp int) string {
	if nimp > 0 {
		return "text:snippet-imports"
	}
	return "text"
}
func c09ImpClass(nimp int) string {
	if nimp > 0 {
		return fmt.Sprintf(":imports=%d", nimp)
	}
	return ""
}

func c09Run(in0 interface{}) Result {
	in := in0.(*c09In)
	switch in.Kind {
	case "parse":
		return c09RunParse(in)
	case "exec":
		return c09RunExec(in)
	case "site":
		return c09RunSite(in)
	case "order":
		return c09RunOrder(in)
	case "dirs":
		return c09RunDirs(in)
	case "hist":
		return c09RunHist(in)
	case "text":
		return c09RunText(in)
	}
	panic("bad kind " + in.Kind)
}

// ------------------------------------------------------------------ generators
// admissible permutation: random merge that keeps lines of equal directive in order
func c09AdmissiblePerm(r *Rand, dirs []string) []int {
	n := len(dirs)
	p := r.Perm(n)
	// positions are shuffled freely, then the indices of each directive are re-sorted in place
	byDir := map[string][]int{}
	for pos, i := range p {
		byDir[dirs[i]] = append(byDir[dirs[i]], pos)
	}
	out := make([]int, n)
	copy(out, p)
	for _, poss := range byDir {
		idx := make([]int, len(poss))
		for k, pos := range poss {
			idx[k] = p[pos]
		}
		sort.Ints(idx)
		for k, pos := range poss {
			out[pos] = idx[k]
		}
	}
	return out
}

var c09Words = []string{"/", "/a", "/api", "X-A", "1", "{path}", "a b", "x\ny", "", `say "hi"`, "import", "-Server", "*.txt", "on", "é", "k=v", "{", "}",
	// quoted values continued over a line break with a trailing backslash inside the quotes, and longer multi-line values
	"long \\\n value", "a\\\nb\nc", "three\nline\nvalue"}

func c09GenLine(r *Rand, d string) c09Line {
	l := c09Line{D: d, T: []string{d}}
	arg := func() string {
		for {
			w := r.Pick(c09Words)
			if w != "{" && w != "}" {
				return w
			}
		}
	}
	for k := r.Intn(4); k > 0; k-- {
		l.T = append(l.T, arg())
	}
	var block func(depth int)
	block = func(depth int) {
		l.T = append(l.T, "{")
		for k := r.Intn(4); k > 0; k-- {
			l.NL = append(l.NL, len(l.T))
			w := arg()
			if w == "import" {
				w = "imported"
			}
			l.T = append(l.T, w)
			for a := r.Intn(3); a > 0; a-- {
				l.T = append(l.T, arg())
			}
			if depth < 2 && r.Chance(15) {
				block(depth + 1)
			}
		}
		if r.Chance(85) {
			l.NL = append(l.NL, len(l.T))
		}
		l.T = append(l.T, "}")
	}
	if r.Chance(35) {
		if r.Chance(8) { // brace opens on the next physical line: still collected by the same directive
			l.NL = append(l.NL, len(l.T))
		}
		block(0)
	}
	return l
}

func c09GenParse(r *Rand, out *[]interface{}) {
	httpDirs := casket.ValidDirectives("http")
	nd := r.Range(1, 5)
	var names []string
	custom := r.Chance(30)
	for len(names) < nd {
		n := r.Pick(httpDirs)
		if custom {
			n = r.Pick([]string{"alpha", "beta", "gamma", "Delta", "e.f", "root", "header", "x-y"})
		}
		names = append(names, n)
	}
	nl := r.Range(1, 8)
	var lines []c09Line
	for i := 0; i < nl; i++ {
		lines = append(lines, c09GenLine(r, names[r.Intn(len(names))]))
	}
	in := &c09In{Kind: "parse", Braced: r.Chance(80), HasLines: true}
	switch r.Intn(4) {
	case 0: // no validation
	case 1:
		in.HasValid, in.Valid = true, append([]string(nil), httpDirs...)
		if custom {
			in.Valid = append(in.Valid, "alpha", "beta", "gamma", "Delta", "e.f", "x-y")
		}
	default:
		in.HasValid = true
		in.Valid = dedupe(names)
		sort.Strings(in.Valid)
	}
	render := func(ls []c09Line) string {
		var sb strings.Builder
		sb.WriteString("127.0.0.1:0")
		if in.Braced {
			sb.WriteString(" {")
		}
		sb.WriteString("\n")
		for _, l := range ls {
			switch r.Intn(8) {
			case 0:
				sb.WriteString("\n")
			case 1:
				sb.WriteString("  # a comment { with braces }\n")
			}
			sb.WriteString("  " + c09RenderLine(l, "  "))
			if r.Chance(10) {
				sb.WriteString("   # trailing")
			}
			sb.WriteString("\n")
		}
		if in.Braced {
			sb.WriteString("}\n")
		}
		return sb.String()
	}
	in.Lines = lines
	in.Src = render(lines)
	*out = append(*out, in)
	// the same lines in an admissible order, and in an arbitrary order (each judged against its own lines)
	ds := make([]string, len(lines))
	for i, l := range lines {
		ds[i] = l.D
	}
	for _, p := range [][]int{c09AdmissiblePerm(r, ds), r.Perm(len(lines))} {
		ls := make([]c09Line, len(lines))
		for a, b := range p {
			ls[a] = lines[b]
		}
		in2 := *in
		in2.Lines = ls
		in2.Src = render(ls)
		*out = append(*out, &in2)
	}
}

func c09GenMalformed(r *Rand, out *[]interface{}) {
	words := []string{"root", "header", "gzip", "{", "}", "}", "{", "/x", "a", "\"q r\"", "\"m\nn\"", "bogus", "import", "#c", "\"c \\\n d\""}
	var sb strings.Builder
	braced := r.Chance(85)
	sb.WriteString("127.0.0.1:0")
	if braced {
		sb.WriteString(" {")
	}
	sb.WriteString("\n")
	n := r.Range(1, 14)
	lineStart := true
	for i := 0; i < n; i++ {
		w := r.Pick(words)
		if w == "import" && lineStart { // import at the start of a line is the import statement: outside the model
			w = "gzip"
		}
		sb.WriteString(w)
		if r.Chance(40) {
			sb.WriteString("\n")
			lineStart = true
		} else {
			sb.WriteString(" ")
			lineStart = false
		}
	}
	if braced && r.Chance(85) {
		sb.WriteString("\n}\n")
	}
	in := &c09In{Kind: "parse", Braced: braced, Src: sb.String()}
	if r.Chance(50) {
		in.HasValid, in.Valid = true, []string{"root", "header", "gzip"}
	}
	*out = append(*out, in)
}

func c09GenExec(r *Rand, out *[]interface{}) {
	c09Register()
	nd := r.Range(1, 8)
	perm := r.Perm(len(c09ProbeNames))
	var dirs []string
	for i := 0; i < nd; i++ {
		dirs = append(dirs, c09ProbeNames[perm[i]])
	}
	nb := r.Range(1, 3)
	var blocks []c09Block
	keyN := 0
	for b := 0; b < nb; b++ {
		var blk c09Block
		for k := r.Range(1, 3); k > 0; k-- {
			blk.Keys = append(blk.Keys, fmt.Sprintf("k%d", keyN))
			keyN++
		}
		// lines in any file order: the canonical order is the directive list's, not the file's
		for k := r.Range(0, 6); k > 0; k-- {
			d := dirs[r.Intn(len(dirs))]
			if r.Chance(2) {
				d = "pz" // not in the list: parse error
			}
			l := c09Line{D: d, T: []string{d}}
			for a := r.Intn(3); a > 0; a-- {
				l.T = append(l.T, r.Pick([]string{"x", "y", "/p", "1", "two words", "z"}))
			}
			if r.Chance(15) {
				l.T = append(l.T, "{")
				l.NL = append(l.NL, len(l.T))
				l.T = append(l.T, "sub", "v")
				l.NL = append(l.NL, len(l.T))
				l.T = append(l.T, "}")
			}
			if r.Chance(3) {
				l.T = append(l.T, "FAIL")
			}
			blk.Lines = append(blk.Lines, l)
		}
		blocks = append(blocks, blk)
	}
	in := &c09In{Kind: "exec", Dirs: dirs, Blocks: blocks, Validate: r.Chance(30)}
	if r.Chance(5) {
		in.CbFail = dirs[r.Intn(len(dirs))]
	}
	*out = append(*out, in)
	if r.Chance(50) { // the same blocks with admissibly reordered lines: identical trace expected
		in2 := *in
		in2.Blocks = nil
		for _, b := range blocks {
			ds := make([]string, len(b.Lines))
			for i, l := range b.Lines {
				ds[i] = l.D
			}
			p := c09AdmissiblePerm(r, ds)
			nbk := c09Block{Keys: b.Keys}
			for _, i := range p {
				nbk.Lines = append(nbk.Lines, b.Lines[i])
			}
			in2.Blocks = append(in2.Blocks, nbk)
		}
		*out = append(*out, &in2)
	}
}

type c09PoolLine struct {
	D, Text string
	Weight  int
}

var c09Pool = []c09PoolLine{
	{"root", "root FIX", 95},
	{"index", "index idx.html index.html", 15},
	{"log", "log / LOGFILE \"{method} {uri} {status}\"", 40},
	{"gzip", "gzip", 25}, {"gzip", "gzip {\n min_length 8\n ext .txt .md\n}", 10}, {"gzip", "gzip {\n not /big.txt\n}", 10},
	{"header", "header / X-A 1", 25}, {"header", "header /docs X-B 2", 15},
	// a long value continued with a trailing backslash inside the quotes; a multi-line value; both
	// inside a block. WHICH line stands directly below such a value differs between the two orders
	{"header", "header / X-Long \"default-src 'self'; \\\n img-src *\"", 30}, {"header", "header /docs X-Doc \"line1\nline2\"", 12},
	{"header", "header /dir {\n X-Wrap \"w1 \\\n w2 \\\n w3\"\n X-D 4\n}", 12},
	{"mime", "mime .html \"text/html; \\\n charset=utf-8\"", 15},
	{"basicauth", "basicauth /int \"u\" \"p\\\nq\"", 8}, {"header", "header / {\n X-C 3\n -X-Nope\n}", 15}, {"header", "header /api X-Api yes", 15}, {"header", "header / X-A 2", 10},
	{"rewrite", "rewrite /r1 /a.txt", 20}, {"rewrite", "rewrite /r2 /secret/s.txt", 20}, {"rewrite", "rewrite {\n regexp ^/re/(.*)$\n to /{1}\n}", 15}, {"rewrite", "rewrite /r1 /b.txt", 15},
	{"redir", "redir /old /a.txt 301", 20}, {"redir", "redir /old2 /docs/ 302", 15}, {"redir", "redir /r1 /elsewhere 307", 8},
	{"basicauth", "basicauth /secret u p", 30}, {"basicauth", "basicauth /api v q", 25},
	{"internal", "internal /int", 20}, {"internal", "internal /api2", 8},
	{"status", "status 410 /hidden", 20}, {"status", "status 404 /b.txt", 8},
	{"mime", "mime .txt text/x-custom", 15}, {"mime", "mime .md text/x-md", 10},
	{"ext", "ext .txt .html", 20},
	{"tryfiles", "tryfiles {path} {path}.txt /fallback.txt", 12},
	{"errors", "errors {\n 404 FIX/e404.html\n 502 FIX/e502.html\n 401 FIX/e401.html\n}", 25},
	{"templates", "templates /tpl", 20},
	{"markdown", "markdown /docs", 20},
	{"browse", "browse /dir", 20},
	{"proxy", "proxy /api BACKEND", 35}, {"proxy", "proxy /api2 BACKEND {\n without /api2\n}", 20}, {"proxy", "proxy /dead DEAD", 15},
	{"limits", "limits {\n body /api 10\n}", 15},
	{"timeouts", "timeouts 30s", 8},
	{"bind", "bind 127.0.0.1", 8},
	{"request_id", "request_id", 8},
	{"expvar", "expvar /stats", 10},
	{"pprof", "pprof", 6},
	{"push", "push /a.txt /b.txt", 8},
	{"fastcgi", "fastcgi /php DEAD", 12},
	{"websocket", "websocket /ws cat", 8},
	{"tls", "tls off", 8},
	// configuration errors: both orders must fail alike
	{"gzip", "gzip {\n level 99\n}", 1}, {"basicauth", "basicauth /x", 1},
}

func c09GenSite(r *Rand, out *[]interface{}) {
	var lines []c09Line
	scale := r.Pick([]string{"1", "2", "3"})
	for _, p := range c09Pool {
		w := p.Weight
		switch scale {
		case "1":
			w = w / 2
		case "3":
			w = w * 3 / 2
		}
		if p.Weight == 1 {
			w = 1
		}
		if r.Chance(w) {
			lines = append(lines, c09Line{D: p.D, T: []string{p.Text}})
		}
	}
	if len(lines) < 2 {
		return
	}
	// file order of the first variant is itself arbitrary (not canonical)
	p0 := r.Perm(len(lines))
	ls := make([]c09Line, len(lines))
	for a, b := range p0 {
		ls[a] = lines[b]
	}
	// ... but lines of one directive stay in pool order so that both variants are comparable with other cases
	ds := make([]string, len(ls))
	for i, l := range ls {
		ds[i] = l.D
	}
	perm := c09AdmissiblePerm(r, ds)
	if r.Chance(15) { // canonical order reversed as far as admissible: stable sort by descending position
		vd := casket.ValidDirectives("http")
		pos := map[string]int{}
		for i, d := range vd {
			pos[d] = i
		}
		perm = make([]int, len(ls))
		for i := range perm {
			perm[i] = i
		}
		sort.SliceStable(perm, func(a, b int) bool { return pos[ds[perm[a]]] > pos[ds[perm[b]]] })
	}
	*out = append(*out, &c09In{Kind: "site", Lines: ls, Perm: perm})
}

// site cases whose block mixes its own lines with imports of snippets that contribute lines of the SAME directives:
// the case holds the expanded lines (a snippet's lines stand where its import stands); the reordering permutes own
// lines and import lines and keeps the expanded lines of every directive in their relative order; which import is
// the first import statement of the input differs between the two orders whenever two imports change places
func c09GenSiteImports(r *Rand, out *[]interface{}) {
	var lines []c09Line
	for _, p := range c09Pool {
		w := p.Weight / 2
		if p.D == "header" || p.D == "rewrite" || p.D == "mime" || p.D == "redir" {
			w = p.Weight * 2
		}
		if p.Weight == 1 {
			w = 0
		}
		if p.D == "root" || r.Chance(w) {
			lines = append(lines, c09Line{D: p.D, T: []string{p.Text}})
		}
	}
	if len(lines) < 4 {
		return
	}
	// arrange: lines of one directive stay in pool order
	ds := make([]string, len(lines))
	for i, l := range lines {
		ds[i] = l.D
	}
	p0 := c09AdmissiblePerm(r, ds)
	ls := make([]c09Line, len(lines))
	for a, b := range p0 {
		ls[a] = lines[b]
	}
	// one or two snippets: runs of one or two lines; preferably a line whose directive also has an own line above
	nsn := r.Range(1, 2)
	for k := 0; k < nsn; k++ {
		var cand []int
		for j := 1; j < len(ls); j++ {
			if ls[j].S != "" {
				continue
			}
			for i := 0; i < j; i++ {
				if ls[i].D == ls[j].D && ls[i].S == "" {
					cand = append(cand, j)
					break
				}
			}
		}
		j := r.Intn(len(ls))
		if len(cand) > 0 && r.Chance(75) {
			j = cand[r.Intn(len(cand))]
		}
		if ls[j].S != "" {
			continue
		}
		name := fmt.Sprintf("snip%d", k+1)
		ls[j].S = name
		if j+1 < len(ls) && ls[j+1].S == "" && r.Chance(40) {
			ls[j+1].S = name
		}
	}
	// units: own lines and snippet runs
	var units [][]int
	for i := 0; i < len(ls); i++ {
		if ls[i].S != "" && i > 0 && ls[i-1].S == ls[i].S {
			units[len(units)-1] = append(units[len(units)-1], i)
		} else {
			units = append(units, []int{i})
		}
	}
	admissible := func(perm []int) bool {
		last := map[string]int{}
		for _, i := range perm {
			if p, ok := last[ls[i].D]; ok && p > i {
				return false
			}
			last[ls[i].D] = i
		}
		return true
	}
	var perm []int
	for try := 0; try < 60; try++ {
		up := r.Perm(len(units))
		perm = perm[:0]
		for _, u := range up {
			perm = append(perm, units[u]...)
		}
		moved := false
		for i, x := range perm {
			if x != i {
				moved = true
			}
		}
		if moved && (admissible(perm) || try == 59) {
			break
		}
	}
	*out = append(*out, &c09In{Kind: "site", Lines: append([]c09Line(nil), ls...), Perm: append([]int(nil), perm...)})
}

var c09BadUnknown = []string{"rewrit /a /b", "gzipp", "basicauht /x u p", "heade / X-A 1", "prox /api BACKEND", "zzz", "Root FIX"}
var c09BadSyntax = []string{"gzip {", "header / {\n X-A 1", "root FIX\n}\n}"}
var c09BadSetup = []string{"gzip {\n level 99\n}", "basicauth /x", "status abc /x", "redir", "errors {\n 404\n}"}

// a history of http loads: valid configurations, validate-only calls, started and stopped sites,
// reloads of a running site — and loads refused for an unknown (misspelt) directive, a syntax error
// or a failing setup function
func c09PreBodies(r *Rand) []string {
	var pre []string
	for k := r.Range(1, 4); k > 0; k-- {
		pr := c09Probes[r.Intn(len(c09Probes))]
		var body string
		bad := 0
		switch x := r.Intn(10); {
		case x < 2: // a single late directive
			body = pr.Lines[len(pr.Lines)-1]
		case x < 5: // a full probe config
			body = strings.Join(pr.Lines, "\n")
		case x < 8: // misspelt directive behind / in front of valid lines
			bad = 1
			if r.Bool() {
				body = strings.Join(pr.Lines, "\n") + "\n" + r.Pick(c09BadUnknown)
			} else {
				body = r.Pick(c09BadUnknown) + "\n" + strings.Join(pr.Lines, "\n")
			}
		case x < 9:
			bad = 2
			body = pr.Lines[0] + "\n" + r.Pick(c09BadSyntax)
		default:
			body = pr.Lines[0] + "\n" + r.Pick(c09BadSetup)
		}
		kind := r.Pick([]string{"V:", "S:", "R:", ""})
		if kind == "R:" && bad == 0 { // reloads of a running site: refused ones only (see c09Preload)
			kind = "S:"
		}
		pre = append(pre, kind+body)
	}
	return pre
}

func c09GenBlocks(r *Rand, dirs []string) []c09Block {
	var blocks []c09Block
	keyN := 0
	for b := r.Range(1, 2); b > 0; b-- {
		var blk c09Block
		for k := r.Range(1, 2); k > 0; k-- {
			blk.Keys = append(blk.Keys, fmt.Sprintf("k%d", keyN))
			keyN++
		}
		for k := r.Range(0, 4); k > 0; k-- {
			d := dirs[r.Intn(len(dirs))]
			if r.Chance(6) {
				d = "pz" // misspelt / unknown: the load is refused by the parser
			}
			l := c09Line{D: d, T: []string{d}}
			for a := r.Intn(3); a > 0; a-- {
				l.T = append(l.T, r.Pick([]string{"x", "y", "/p", "1", "two words", "z"}))
			}
			if r.Chance(4) {
				l.T = append(l.T, "FAIL")
			}
			blk.Lines = append(blk.Lines, l)
		}
		blocks = append(blocks, blk)
	}
	return blocks
}

var c09TextWords = []string{"/", "/a", "X-A", "1", "{path}", "a b", "x\ny", "", `say "hi"`, "import", "-Server", "é", "k=v", "{$C09V}", "{%C09D%}", "a{$C09E}b", "#x", "two  spaces",
	// values continued with a backslash directly in front of the line break (inside the quotes), longer multi-line values
	"long \\\n value", "\\\nx", "p1 \\\n p2 \\\n p3", "three\nline\nvalue", "{$C09V}\\\nz"}

func c09GenALine(r *Rand, name string) c09ALine {
	var ts []c09LT
	arg := func() string { return r.Pick(c09TextWords) }
	for k := r.Intn(4); k > 0; k-- {
		ts = append(ts, c09LT{arg(), false})
	}
	var block func(depth int)
	block = func(depth int) {
		ts = append(ts, c09LT{"{", true})
		for k := r.Intn(4); k > 0; k-- {
			w := arg()
			if w == "import" {
				w = "imported"
			}
			ts = append(ts, c09LT{w, false})
			for a := r.Intn(3); a > 0; a-- {
				ts = append(ts, c09LT{arg(), false})
			}
			if depth < 2 && r.Chance(15) {
				block(depth + 1)
			} else {
				ts[len(ts)-1].NL = true
			}
		}
		ts = append(ts, c09LT{"}", true})
	}
	l := c09ALine{H: c09LT{name, false}}
	if r.Chance(35) {
		if len(ts) > 0 && r.Chance(10) { // the brace opens on the next physical line
			ts[len(ts)-1].NL = true
		}
		block(0)
	}
	if len(ts) == 0 {
		l.H.NL = true
	} else {
		ts[len(ts)-1].NL = true
	}
	l.R = ts
	return l
}

func c09GenText(r *Rand, out *[]interface{}) {
	pool := []string{"header", "root", "gzip", "{$C09D}", "x-y", "log", "{%C09D%}"}
	var names []string
	for k := r.Range(1, 4); k > 0; k-- {
		names = append(names, r.Pick(pool))
	}
	main := &c09ABlock{Key: c09LT{"a.example", false}}
	if r.Chance(30) {
		main.Key = c09LT{"a.example,", r.Bool()}
		main.Keys = []c09LT{{"b.example", false}}
	}
	var ds []string
	for k := r.Range(1, 7); k > 0; k-- {
		n := r.Pick(names)
		main.Lines = append(main.Lines, c09GenALine(r, n))
		ds = append(ds, os.Expand(strings.NewReplacer("{$", "${", "{%", "${", "%}", "}").Replace(n), func(k string) string {
			for _, kv := range c09Env {
				if kv[0] == k {
					return kv[1]
				}
			}
			return ""
		}))
	}
	in := &c09In{Kind: "text", TMain: main}
	small := func(key string) c09ABlock {
		return c09ABlock{Key: c09LT{key, false}, Lines: []c09ALine{c09GenALine(r, "gzip"), c09GenALine(r, "root")}}
	}
	if r.Chance(40) {
		in.TPre = []c09ABlock{small(":80")}
	}
	if r.Chance(40) {
		in.TPost = []c09ABlock{small("z.example")}
	}
	if r.Chance(70) {
		in.Perm = c09AdmissiblePerm(r, ds)
	} else {
		in.Perm = r.Perm(len(ds))
	}
	*out = append(*out, in)
}

// text cases with snippets: blocks in front define one or two snippets whose lines are of the SAME directives as the
// block's own lines; the block mixes own lines and `import <snippet>` lines (the same snippet possibly twice); a
// server block in front sometimes imports a snippet itself, so that the block's imports are / are not the first
// import statements of the input; the reordering permutes own lines and import lines and is admissible when the
// expanded lines of every directive keep their sequence (the judge decides that)
func c09GenTextImports(r *Rand, out *[]interface{}) {
	pool := []string{"header", "root", "gzip", "{$C09D}", "x-y", "log"}
	var names []string
	for k := r.Range(1, 3); k > 0; k-- {
		names = append(names, r.Pick(pool))
	}
	simple := func(n string) c09ALine {
		if r.Chance(50) {
			return c09GenALine(r, n)
		}
		return c09ALine{H: c09LT{n, false}, R: []c09LT{{"/", false}, {r.Pick([]string{"X-A", "X-B", "k=v", "1"}), true}}}
	}
	in := &c09In{Kind: "text"}
	nsn := r.Range(1, 2)
	var snames []string
	for i := 0; i < nsn; i++ {
		sn := fmt.Sprintf("s%d", i+1)
		snames = append(snames, sn)
		b := c09ABlock{Key: c09LT{"(" + sn + ")", false}}
		for k := r.Range(1, 2); k > 0; k-- {
			b.Lines = append(b.Lines, simple(r.Pick(names)))
		}
		in.TPre = append(in.TPre, b)
	}
	if r.Chance(30) { // a server block in front that imports: the block's imports are not the first of the input
		in.TPre = append(in.TPre, c09ABlock{Key: c09LT{":80", false}, Lines: []c09ALine{simple("gzip"), {H: c09LT{"import", false}, R: []c09LT{{r.Pick(snames), true}}}}})
	}
	main := &c09ABlock{Key: c09LT{"a.example", false}}
	imp := func(sn string) c09ALine { return c09ALine{H: c09LT{"import", false}, R: []c09LT{{sn, true}}} }
	// at least one own line in front of an import, further lines of both kinds
	main.Lines = append(main.Lines, simple(r.Pick(names)), imp(r.Pick(snames)))
	for k := r.Range(0, 3); k > 0; k-- {
		if r.Chance(40) {
			main.Lines = append(main.Lines, imp(r.Pick(snames)))
		} else {
			main.Lines = append(main.Lines, simple(r.Pick(names)))
		}
	}
	if r.Chance(50) {
		p := r.Perm(len(main.Lines))
		ls := make([]c09ALine, len(p))
		for a, b := range p {
			ls[a] = main.Lines[b]
		}
		main.Lines = ls
	}
	in.TMain = main
	if r.Chance(30) {
		in.TPost = []c09ABlock{{Key: c09LT{"z.example", false}, Lines: []c09ALine{simple("root")}}}
	}
	// candidate reorderings: move the import lines about while the own lines keep their order, rotate, or any
	n := len(main.Lines)
	switch r.Intn(3) {
	case 0:
		var own, imps []int
		for i, l := range main.Lines {
			if l.H.T == "import" {
				imps = append(imps, i)
			} else {
				own = append(own, i)
			}
		}
		perm := append([]int(nil), own...)
		for _, i := range imps {
			at := r.Intn(len(perm) + 1)
			perm = append(perm[:at], append([]int{i}, perm[at:]...)...)
		}
		in.Perm = perm
	case 1:
		k := r.Range(1, n)
		for i := 0; i < n; i++ {
			in.Perm = append(in.Perm, (i+k)%n)
		}
	default:
		in.Perm = r.Perm(n)
	}
	*out = append(*out, in)
}

func c09GenHist(r *Rand, out *[]interface{}) {
	c09Register()
	nd := r.Range(2, 8)
	perm := r.Perm(len(c09ProbeNames))
	var dirs []string
	for i := 0; i < nd; i++ {
		dirs = append(dirs, c09ProbeNames[perm[i]])
	}
	in := &c09In{Kind: "hist", Dirs: dirs}
	for k := r.Range(2, 6); k > 0; k-- {
		st := c09Step{K: r.Intn(3), Syn: !r.Chance(8), Blocks: c09GenBlocks(r, dirs)}
		if r.Chance(6) {
			st.CbFail = dirs[r.Intn(len(dirs))]
		}
		in.Steps = append(in.Steps, st)
	}
	*out = append(*out, in)
}

func c09GenOrder(r *Rand, out *[]interface{}, all bool) {
	for _, pr := range c09Probes {
		if !all && !r.Chance(50) {
			continue
		}
		in := &c09In{Kind: "order", Probe: pr.ID, Perm: r.Perm(len(pr.Lines))}
		if r.Chance(50) {
			in.Pre = c09PreBodies(r)
		}
		*out = append(*out, in)
	}
}

func c09Gen(r *Rand, tier string) []interface{} {
	c09Register()
	var out []interface{}
	nParse, nMal, nExec, nSite, nOrderRounds, nDirs, nHist, nText := 500, 500, 900, 110, 2, 40, 250, 300
	if tier == "thorough" {
		nParse, nMal, nExec, nSite, nOrderRounds, nDirs, nHist, nText = 6000, 6000, 10000, 1200, 20, 400, 2500, 3000
	}
	out = append(out, &c09In{Kind: "dirs"})
	// every probe once in written-canonical and once in reversed file order
	for _, pr := range c09Probes {
		id := make([]int, len(pr.Lines))
		rev := make([]int, len(pr.Lines))
		for i := range id {
			id[i] = i
			rev[i] = len(pr.Lines) - 1 - i
		}
		out = append(out, &c09In{Kind: "order", Probe: pr.ID, Perm: id}, &c09In{Kind: "order", Probe: pr.ID, Perm: rev})
	}
	for i := 0; i < nParse; i++ {
		c09GenParse(r, &out)
	}
	for i := 0; i < nMal; i++ {
		c09GenMalformed(r, &out)
	}
	for i := 0; i < nExec; i++ {
		c09GenExec(r, &out)
	}
	for i := 0; i < nSite; i++ {
		c09GenSite(r, &out)
	}
	for i := 0; i < nSite/2; i++ {
		c09GenSiteImports(r, &out)
	}
	for i := 0; i < nOrderRounds; i++ {
		c09GenOrder(r, &out, false)
	}
	for i := 0; i < nDirs; i++ {
		out = append(out, &c09In{Kind: "dirs", Pre: c09PreBodies(r)})
	}
	for i := 0; i < nHist; i++ {
		c09GenHist(r, &out)
	}
	for i := 0; i < nText; i++ {
		c09GenText(r, &out)
	}
	for i := 0; i < nText/2; i++ {
		c09GenTextImports(r, &out)
	}
	out = append(out, &c09In{Kind: "dirs"})
	return out
}

func init() {
	register(&Property{
		ID: "C09", Imports: "V.Lib V.Gen_C09 V.C09_Model", Judge: "judge", Shard: 150,
		Rule: "snippet imports: text cases and started sites whose block mixes own lines with `import <snippet>` lines, the snippets (defined in front) contributing lines of the SAME directives, a snippet possibly imported twice, the block's imports being / not being the first import statements of the input; judged on the expanded lines (a snippet's lines stand where its import stands), reorderings exchange own lines and imports; parse: generated server blocks (1-8 lines over 1-5 directive names, brace blocks, quoted/multi-line tokens, comments) through casketfile.Parse in written, admissibly permuted and arbitrarily permuted line order + a malformed token stream; text: C10-printed configurations (every token quoted; 1-7 lines over 1-4 names incl. names written as environment references, sub-blocks to depth 3, multi-line / backslash-newline-continued / empty / env-valued tokens, optional blocks in front and behind, 1-2 keys) in two line orders (70% admissible) through casketfile.Parse — Dispenser view (text, NextLine, NextArg) of every group vs the C10 parser model on the model-printed text and vs C09 grouping of the AST; exec: casket.Start/ValidateAndExecuteDirectives on a probe server type with a per-case directive list (1-8 names), 1-3 blocks x 1-3 keys, failing setups/callbacks; hist: 2-6 loads (Start / validate-only / Instance.Restart) of the probe server type in one process over one shared directive slice, with unknown directives, syntax errors, failing setups and callbacks — outcome class, trace and the slice after every load vs the state-threaded model and vs the fresh-process oracle; site: real http sites from a pool of 50 directive lines (incl. quoted values continued with a trailing backslash-newline inside the quotes and multi-line quoted values, as the last token of their line and inside blocks) in two admissible line orders, 32-request battery + access log + compiled middleware stack (= documented sequence); order: 74 behavioural probes (22 hand-written + every pair the property names: 4 gates x 6 content handlers incl. the static file server and a live FastCGI responder, 4 wrappers x 6, 3 rewriters x internal, request_id x log) with lines in written, reversed and random order, optionally after a history of http loads; dirs: ValidDirectives, the registered http directive plugins and the compiled stack of a fixed 24-directive site after histories of 0-4 http loads (validate / start+stop / reload of a running site; valid, misspelt directive, syntax error, failing setup). non-trivial = parse: a repeated directive interleaved with another one or a parse error; text: a repeated directive and >= 2 names; exec: >= 2 calls; hist: >= 2 loads; site: starts and uses >= 3 directives; order: always; dirs: after >= 1 load",
		Gen:    c09Gen,
		Decode: func(raw json.RawMessage) (interface{}, error) { in := &c09In{}; return in, json.Unmarshal(raw, in) },
		Run:    c09Run,
	})

	// Gen_C09.v: the canonical directive list of the http server type, from plugin.go
	registerGen("Gen_C09.v", func(repo string) (string, error) {
		_, f, err := parseGo(filepath.Join(repo, "caskethttp/httpserver/plugin.go"))
		if err != nil {
			return "", err
		}
		var dirs []string
		found := false
		for _, decl := range f.Decls {
			gd, ok := decl.(*ast.GenDecl)
			if !ok {
				continue
			}
			for _, sp := range gd.Specs {
				vs, ok := sp.(*ast.ValueSpec)
				if !ok {
					continue
				}
				for i, n := range vs.Names {
					if n.Name == "directives" && i < len(vs.Values) {
						if l, ok := stringSliceLits(vs.Values[i]); ok {
							dirs, found = l, true
						}
					}
				}
			}
		}
		if !found {
			return "", fmt.Errorf("var directives = []string{...} not found in plugin.go")
		}
		return "Definition gen_directives : list bytes := " + cStrList(dirs) + ".\n" +
			"Definition c09_vocab : list bytes := " + cStrList(c09Vocab()) + ".\n", nil
	})
}
