package main

import (
	"encoding/json"
	"fmt"
	"go/ast"
	"go/parser"
	"go/token"
	"os"
	"path/filepath"
	"sort"
	"strconv"
	"strings"
	"time"

	"github.com/tmpim/casket"
	"github.com/tmpim/casket/casketfile"
)

type c11Tok struct {
	File string `json:"f,omitempty"`
	Line int    `json:"l"`
	Text string `json:"t"`
}
type c11In struct {
	Kind string   `json:"kind"` // disp | conf
	Toks []c11Tok `json:"toks,omitempty"`
	Ops  []int    `json:"ops,omitempty"` // 0 Next 1 NextArg 2 NextLine 3 NextBlock 4 RemainingArgs 5 Val
	Dir  string   `json:"dir,omitempty"`
	Keys string   `json:"keys,omitempty"`
	Body string   `json:"body,omitempty"` // the directive's lines (inside the server block)
}

func c11FileID(f string) uint64 {
	if f == "" {
		return 0
	}
	return uint64(len(f))
}

func c11RunDisp(in *c11In) Result {
	var toks []casketfile.Token
	var tt []string
	for _, t := range in.Toks {
		toks = append(toks, casketfile.Token{File: t.File, Line: t.Line, Text: t.Text})
		tt = append(tt, fmt.Sprintf("{| t_file := %s; t_line := %s; t_text := %s |}", cN(c11FileID(t.File)), cZ(int64(t.Line)), cStr(t.Text)))
	}
	d := casketfile.NewDispenserTokens("Testfile", toks)
	var obs []string
	panicked := ""
	func() {
		defer func() {
			if r := recover(); r != nil {
				panicked = fmt.Sprint(r)
			}
		}()
		for _, op := range in.Ops {
			var code uint64
			var payload []string
			switch op {
			case 0:
				code = b2u(d.Next())
			case 1:
				code = b2u(d.NextArg())
			case 2:
				code = b2u(d.NextLine())
			case 3:
				code = b2u(d.NextBlock())
			case 4:
				payload = d.RemainingArgs()
				code = uint64(len(payload))
			case 5:
				payload = []string{d.Val()}
			}
			obs = append(obs, cPair(cPair(cN(uint64(op)), cN(code)), cPair(cStrList(payload), cZ(int64(d.Nesting())))))
		}
	}()
	var ops []string
	for _, o := range in.Ops {
		ops = append(ops, cN(uint64(o)))
	}
	direct := ""
	if panicked != "" {
		direct = "Dispenser panicked: " + panicked
	}
	return Result{Term: cApp("CDisp", cList(tt), cList(ops), cList(obs), cBool(panicked != "")), Obs: map[string]interface{}{"n": len(obs), "panic": panicked},
		Sig: "disp", Direct: direct, Nontrivial: len(in.Toks) >= 2, Class: fmt.Sprintf("disp:%dtok", min(len(in.Toks), 6))}
}

func b2u(b bool) uint64 {
	if b {
		return 1
	}
	return 0
}

var c11Slow = map[string]bool{}

// c11Exec runs ValidateAndExecuteDirectives under recover and a watchdog.
func c11Exec(text string, validate bool) string {
	ch := make(chan string, 1)
	go func() {
		defer func() {
			if r := recover(); r != nil {
				ch <- "panic:" + fmt.Sprint(r)
			}
		}()
		cf := casket.CasketfileInput{Contents: []byte(text), Filepath: "Casketfile", ServerTypeName: "http"}
		var err error
		if validate {
			err = casket.ValidateAndExecuteDirectives(cf, nil, true)
		} else {
			err = casket.ValidateAndExecuteDirectives(cf, casket.VerifNewInstance("http"), false)
		}
		if err != nil {
			ch <- "error:" + err.Error()
		} else {
			ch <- "ok"
		}
	}()
	select {
	case r := <-ch:
		return r
	case <-time.After(3 * time.Second):
		return "timeout"
	}
}

func c11Class(r string) uint64 {
	switch {
	case r == "ok":
		return 0
	case strings.HasPrefix(r, "error:"):
		return 1
	case strings.HasPrefix(r, "panic:"):
		return 2
	}
	return 3
}

func c11RunConf(in *c11In) Result {
	if c11Slow[in.Dir] {
		return Result{Term: "(CConf 0 0)", Obs: "skipped: directive already timed out in this run", Class: "conf:skipped", Sig: "conf:skipped"}
	}
	casket.Quiet = true
	text := in.Keys + " {\n" + in.Body + "\n}\n"
	v := c11Exec(text, true)
	x := c11Exec(text, false)
	if v == "timeout" || x == "timeout" {
		c11Slow[in.Dir] = true
	}
	cv, cx := c11Class(v), c11Class(x)
	sig := fmt.Sprintf("conf:%s:validate=%d:execute=%d", in.Dir, cv, cx)
	if cv == 2 || cx == 2 {
		// name the panicking line so different panics of one directive are different findings
		first := strings.SplitN(strings.TrimSpace(in.Body), "\n", 3)
		key := first[0]
		if len(first) > 1 {
			key += " | " + strings.TrimSpace(first[1])
		}
		sig = fmt.Sprintf("conf:%s:panic:%s", in.Dir, strings.Join(strings.Fields(key), " "))
	}
	return Result{Term: cApp("CConf", cN(cv), cN(cx)), Obs: map[string]interface{}{"validate": trunc(v, 200), "execute": trunc(x, 200)},
		Sig: sig, Nontrivial: cv != cx || cv == 0, Key: text, Class: fmt.Sprintf("conf:%s:%d%d", in.Dir, cv, cx)}
}

func trunc(s string, n int) string {
	if len(s) > n {
		return s[:n]
	}
	return s
}

func c11Run(in0 interface{}) Result {
	in := in0.(*c11In)
	if in.Kind == "disp" {
		return c11RunDisp(in)
	}
	return c11RunConf(in)
}

// directive -> package directory (relative to the repository root)
var c11Pkg = map[string]string{
	"basicauth": "caskethttp/basicauth", "browse": "caskethttp/browse", "errors": "caskethttp/errors", "expvar": "caskethttp/expvar",
	"ext": "caskethttp/extensions", "fastcgi": "caskethttp/fastcgi", "gzip": "caskethttp/gzip", "header": "caskethttp/header",
	"index": "caskethttp/index", "internal": "caskethttp/internalsrv", "limits": "caskethttp/limits", "log": "caskethttp/log",
	"markdown": "caskethttp/markdown", "mime": "caskethttp/mime", "pprof": "caskethttp/pprof", "proxy": "caskethttp/proxy",
	"push": "caskethttp/push", "redir": "caskethttp/redirect", "request_id": "caskethttp/requestid", "rewrite": "caskethttp/rewrite",
	"root": "caskethttp/root", "status": "caskethttp/status", "templates": "caskethttp/templates", "timeouts": "caskethttp/timeouts",
	"tryfiles": "caskethttp/tryfiles", "websocket": "caskethttp/websocket", "bind": "caskethttp/bind", "tls": "caskettls", "on": "onevent",
}

// c11Vocab harvests the string literals used in `case "..."` clauses and comparisons of a package:
// the sub-directive keyword vocabulary of that directive.
func c11Vocab(dir string) []string {
	repo := os.Getenv("VERIF_REPO")
	if repo == "" {
		repo = "/repo"
	}
	seen := map[string]bool{}
	files, _ := filepath.Glob(filepath.Join(repo, dir, "*.go"))
	if dir == "caskethttp/log" || dir == "caskethttp/errors" {
		files = append(files, filepath.Join(repo, "caskethttp/httpserver/roller.go"), filepath.Join(repo, "caskethttp/httpserver/logger.go"))
	}
	for _, f := range files {
		if strings.HasSuffix(f, "_test.go") {
			continue
		}
		fset := token.NewFileSet()
		af, err := parser.ParseFile(fset, f, nil, 0)
		if err != nil {
			continue
		}
		add := func(e ast.Expr) {
			if bl, ok := e.(*ast.BasicLit); ok && bl.Kind == token.STRING {
				if s, err := strconv.Unquote(bl.Value); err == nil && len(s) > 0 && len(s) < 30 && !strings.ContainsAny(s, " \n\t\"{}") {
					seen[s] = true
				}
			}
		}
		ast.Inspect(af, func(n ast.Node) bool {
			switch v := n.(type) {
			case *ast.CaseClause:
				for _, e := range v.List {
					add(e)
				}
			case *ast.BinaryExpr:
				if v.Op == token.EQL || v.Op == token.NEQ {
					add(v.X)
					add(v.Y)
				}
			case *ast.ValueSpec:
				for _, e := range v.Values {
					add(e)
				}
			}
			return true
		})
	}
	var out []string
	for s := range seen {
		out = append(out, s)
	}
	sort.Strings(out)
	return out
}

func c11Gen(r *Rand, tier string) []interface{} {
	var out []interface{}
	nDisp, perDir := 900, 25
	if tier == "thorough" {
		nDisp, perDir = 12000, 600
	}
	texts := []string{"a", "b", "{", "}", "{", "}", "x y", "multi\nline", "", "dir", "import", "arg1", "two\n\nbreaks"}
	for i := 0; i < nDisp; i++ {
		in := &c11In{Kind: "disp"}
		line := 1
		n := r.Range(0, 9)
		for k := 0; k < n; k++ {
			t := c11Tok{Line: line, Text: r.Pick(texts)}
			if r.Chance(8) {
				t.File = "other.conf"
			}
			if r.Chance(5) {
				t.Line = r.Range(0, 4) // spliced tokens keep foreign line numbers
			}
			in.Toks = append(in.Toks, t)
			if r.Chance(45) {
				line += 1 + strings.Count(t.Text, "\n")
			} else if r.Chance(30) {
				line += strings.Count(t.Text, "\n")
			}
		}
		for k := r.Range(1, 14); k > 0; k-- {
			in.Ops = append(in.Ops, r.Intn(6))
		}
		out = append(out, in)
	}
	// configurations
	fix := os.Getenv("VERIF_ROOT")
	if fix == "" {
		fix = os.TempDir()
	}
	fixDir, _ := os.MkdirTemp(filepath.Join(fix, "run"), "c11fix")
	os.WriteFile(filepath.Join(fixDir, "htpasswd"), []byte("user:{SHA}W6ph5Mm5Pz8GgiULbPgzG37mj9g=\n"), 0o644)
	os.WriteFile(filepath.Join(fixDir, "page.html"), []byte("<html></html>"), 0o644)
	lex := []string{"", "x", "/", "/path", "123", "-1", "0", "1h", "10s", "none", "off", "on", "*.txt", ".html", "two words", "a=b", "http://127.0.0.1:9", "127.0.0.1:9",
		"localhost:80-81", "{", "404", "999", "5MB", "1kb", fixDir, filepath.Join(fixDir, "page.html"), "htpasswd=" + filepath.Join(fixDir, "htpasswd"), "htpasswd=/nonexistent/file",
		"+Header", "-Header", "{>X}", "unix:/tmp/x.sock", "*", "gzip", "9", "visible", "stdout", "syslog", "{path}", "^/re(.*)$", "-"}
	dirs := make([]string, 0, len(c11Pkg))
	for d := range c11Pkg {
		dirs = append(dirs, d)
	}
	sort.Strings(dirs)
	q := func(s string) string {
		if s == "" || strings.ContainsAny(s, " \t\n") {
			return `"` + s + `"`
		}
		return s
	}
	keysPool := []string{"127.0.0.1:0", "127.0.0.1:0", "a.b.example.test:0, example.test:0", "localhost:0", "http://x.test:0"}
	for _, d := range dirs {
		vocab := c11Vocab(c11Pkg[d])
		// systematic: every keyword of the directive's vocabulary with 0..3 arguments, as a
		// sub-directive and as a first argument
		for _, kw := range vocab {
			for na := 0; na <= 3; na++ {
				args := ""
				for k := 0; k < na; k++ {
					args += " " + q(r.Pick(lex))
				}
				out = append(out, &c11In{Kind: "conf", Dir: d, Keys: keysPool[0], Body: d + " {\n  " + q(kw) + args + "\n}\n"})
				if na <= 1 {
					// several keys in one block: acceptance may depend on a key that is not the first
					out = append(out, &c11In{Kind: "conf", Dir: d, Keys: keysPool[2], Body: d + " {\n  " + q(kw) + args + "\n}\n"})
					out = append(out, &c11In{Kind: "conf", Dir: d, Keys: "example.test:0, a.b.example.test:0", Body: d + " {\n  " + q(kw) + args + "\n}\n"})
				}
				if na <= 2 {
					out = append(out, &c11In{Kind: "conf", Dir: d, Keys: keysPool[0], Body: d + " " + q(kw) + args + "\n"})
				}
			}
		}
		for i := 0; i < perDir; i++ {
			var sb strings.Builder
			nLines := 1
			if r.Chance(15) {
				nLines = 2
			}
			for l := 0; l < nLines; l++ {
				sb.WriteString(d)
				na := r.Intn(5)
				if i < 5 {
					na = i
				}
				for k := 0; k < na; k++ {
					sb.WriteString(" " + q(r.Pick(lex)))
				}
				if r.Chance(55) && len(vocab) > 0 {
					sb.WriteString(" {\n")
					for k := r.Range(0, 3); k > 0; k-- {
						kw := r.Pick(vocab)
						if r.Chance(10) {
							kw = r.Pick(lex)
						}
						sb.WriteString("  " + q(kw))
						for j := r.Intn(4); j > 0; j-- {
							if r.Chance(20) && len(vocab) > 0 {
								sb.WriteString(" " + q(r.Pick(vocab)))
							} else {
								sb.WriteString(" " + q(r.Pick(lex)))
							}
						}
						if r.Chance(8) {
							sb.WriteString(" {\n    " + q(r.Pick(vocab)) + " " + q(r.Pick(lex)) + "\n  }")
						}
						sb.WriteString("\n")
					}
					sb.WriteString("}")
				}
				sb.WriteString("\n")
			}
			out = append(out, &c11In{Kind: "conf", Dir: d, Keys: r.Pick(keysPool), Body: sb.String()})
		}
	}
	return out
}

func init() {
	register(&Property{
		ID: "C11", Imports: "V.Lib V.C11_Model V.C11_Cases", Judge: "judge", Shard: 300,
		Rule: "Dispenser: random token lists (incl. foreign files / non-monotone lines as spliced imports produce) x random operation sequences on the real casketfile.Dispenser vs the model; configurations: for every registered directive, argument counts 0..4 over lexical classes and sub-blocks over the directive's own keyword vocabulary (harvested from its package's case labels), each run through ValidateAndExecuteDirectives in validate and in execute mode under recover + watchdog; non-trivial = >=2 tokens / accepted or mode-dependent configuration; distinct = distinct configuration text",
		Gen:    c11Gen,
		Decode: func(raw json.RawMessage) (interface{}, error) { in := &c11In{}; return in, json.Unmarshal(raw, in) },
		Run:    c11Run,
	})
}
