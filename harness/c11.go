package main

import (
	"regexp"
	"bytes"
	"encoding/json"
	"fmt"
	"io"
	"os/exec"
	"runtime"
	"go/ast"
	"go/parser"
	"go/token"
	"os"
	"path/filepath"
	"sort"
	"strconv"
	"strings"
	"sync"
	"time"

	"github.com/tmpim/casket"
	"github.com/tmpim/casket/casketfile"
)

type c11Tok struct {
	File string `json:"f,omitempty"`
	Line int    `json:"l"`
	Text string `json:"t"`
}
type c11In struct {
	Kind string   `json:"kind"` // disp | conf | cost
	Toks []c11Tok `json:"toks,omitempty"`
	Ops  []int    `json:"ops,omitempty"` // 0 Next 1 NextArg 2 NextLine 3 NextBlock 4 RemainingArgs 5 Val
	Dir  string   `json:"dir,omitempty"`
	Keys string   `json:"keys,omitempty"`
	Body string   `json:"body,omitempty"` // the directive's lines (inside the server block)
	Ops2 string   `json:"shape,omitempty"` // cost cases: the shape of the data-dependent argument (histogram / finding class)
	// conf cases of the targeted search with composed arguments: the unproved obligation they were made for; a panic
	// is then named by that site and the (digit-free) panic message, not by the configuration line
	Site string `json:"site,omitempty"`
	// seq cases: configurations loaded one after the other in ONE child process; {FIX} in their text stands for a
	// scratch directory holding Files (name -> contents) and being the directory of the Casketfile
	Steps []c11Step         `json:"steps,omitempty"`
	Files map[string]string `json:"files,omitempty"`
	// multi cases: a WHOLE Casketfile (snippets, several server blocks, the same directive line in effect more than
	// once) and, when it has several server blocks, each of them as a file of its own (with the snippets)
	Text  string   `json:"text,omitempty"`
	Parts []string `json:"parts,omitempty"`
}

type c11Step struct {
	Keys     string `json:"keys"`
	Body     string `json:"body"`
	Validate bool   `json:"validate,omitempty"` // ValidateAndExecuteDirectives(justValidate) / execute mode
}

var c11DigitsRe = regexp.MustCompile(`[0-9]+`)
var c11UUIDRe = regexp.MustCompile(`[0-9a-f]{8}-[0-9a-f]{4}-[0-9a-f]{4}-[0-9a-f]{4}-[0-9a-f]{12}`)

func c11FileID(f string) uint64 {
	if f == "" {
		return 0
	}
	return uint64(len(f))
}

func c11RunDisp(in *c11In) Result {
	var toks []casketfile.Token
	var tt []string
	for _, t := range in.Toks {
		toks = append(toks, casketfile.Token{File: t.File, Line: t.Line, Text: t.Text})
		tt = append(tt, fmt.Sprintf("{| t_file := %s; t_line := %s; t_text := %s |}", cN(c11FileID(t.File)), cZ(int64(t.Line)), cStr(t.Text)))
	}
	d := casketfile.NewDispenserTokens("Testfile", toks)
	var obs []string
	panicked := ""
	func() {
		defer func() {
			if r := recover(); r != nil {
				panicked = fmt.Sprint(r)
			}
		}()
		for _, op := range in.Ops {
			var code uint64
			var payload []string
			switch op {
			case 0:
				code = b2u(d.Next())
			case 1:
				code = b2u(d.NextArg())
			case 2:
				code = b2u(d.NextLine())
			case 3:
				code = b2u(d.NextBlock())
			case 4:
				payload = d.RemainingArgs()
				code = uint64(len(payload))
			case 5:
				payload = []string{d.Val()}
			}
			obs = append(obs, cPair(cPair(cN(uint64(op)), cN(code)), cPair(cStrList(payload), cZ(int64(d.Nesting())))))
		}
	}()
	var ops []string
	for _, o := range in.Ops {
		ops = append(ops, cN(uint64(o)))
	}
	direct := ""
	if panicked != "" {
		direct = "Dispenser panicked: " + panicked
	}
	return Result{Term: cApp("CDisp", cList(tt), cList(ops), cList(obs), cBool(panicked != "")), Obs: map[string]interface{}{"n": len(obs), "panic": panicked},
		Sig: "disp", Direct: direct, Nontrivial: len(in.Toks) >= 2, Class: fmt.Sprintf("disp:%dtok", min(len(in.Toks), 6))}
}

func b2u(b bool) uint64 {
	if b {
		return 1
	}
	return 0
}

var c11Slow = map[string]bool{}

// c11Exec runs ValidateAndExecuteDirectives under recover and a watchdog.
func c11Exec(text string, validate bool) string {
	ch := make(chan string, 1)
	go func() {
		defer func() {
			if r := recover(); r != nil {
				ch <- "panic:" + fmt.Sprint(r)
			}
		}()
		cf := casket.CasketfileInput{Contents: []byte(text), Filepath: "Casketfile", ServerTypeName: "http"}
		var err error
		if validate {
			err = casket.ValidateAndExecuteDirectives(cf, nil, true)
		} else {
			err = casket.ValidateAndExecuteDirectives(cf, casket.VerifNewInstance("http"), false)
		}
		if err != nil {
			ch <- "error:" + err.Error()
		} else {
			ch <- "ok"
		}
	}()
	select {
	case r := <-ch:
		return r
	case <-time.After(3 * time.Second):
		return "timeout"
	}
}

func c11Class(r string) uint64 {
	switch {
	case r == "ok":
		return 0
	case strings.HasPrefix(r, "error:"):
		return 1
	case strings.HasPrefix(r, "panic:"):
		return 2
	}
	return 3
}

// c11KeydepTag names, for the histogram, the blocks of the key-dependent stream: how many keys, and whether the keys
// answer differently when set up alone (the verdict really depended on the key)
func c11KeydepTag(in *c11In, perkey []string) string {
	if in.Ops2 != "keydep" {
		return ""
	}
	mixed := "same"
	for _, p := range perkey {
		if p != perkey[0] {
			mixed = "key-dependent"
		}
	}
	return fmt.Sprintf("-keydep-%dkeys-%s", len(perkey), mixed)
}

func c11RunConf(in *c11In) Result {
	if c11Slow[in.Dir] {
		return Result{Term: "(CConf 0 0)", Obs: "skipped: directive already timed out in this run", Class: "conf:skipped", Sig: "conf:skipped"}
	}
	casket.Quiet = true
	text := in.Keys + " {\n" + in.Body + "\n}\n"
	v := c11Exec(text, true)
	x := c11Exec(text, false)
	if v == "timeout" || x == "timeout" {
		c11Slow[in.Dir] = true
	}
	cv, cx := c11Class(v), c11Class(x)
	// several keys: the directive set up for each key alone (validate mode) — the oracle of the model's prediction
	var perkey []string
	keys := strings.Split(in.Keys, ",")
	if len(keys) > 1 && v != "timeout" && x != "timeout" {
		for _, k := range keys {
			r := c11Exec(strings.TrimSpace(k)+" {\n"+in.Body+"\n}\n", true)
			if r == "timeout" {
				c11Slow[in.Dir] = true
			}
			perkey = append(perkey, cN(c11Class(r)))
		}
	}
	sig := fmt.Sprintf("conf:%s:validate=%d:execute=%d", in.Dir, cv, cx)
	if cv == 2 || cx == 2 {
		// name the panicking line so different panics of one directive are different findings
		first := strings.SplitN(strings.TrimSpace(in.Body), "\n", 3)
		key := first[0]
		if len(first) > 1 {
			key += " | " + strings.TrimSpace(first[1])
		}
		sig = fmt.Sprintf("conf:%s:panic:%s", in.Dir, strings.Join(strings.Fields(key), " "))
		if in.Site != "" {
			msg := v
			if cv != 2 {
				msg = x
			}
			sig = fmt.Sprintf("conf:%s:panic:unproved-obligation %s: %s", in.Dir, in.Site, c11DigitsRe.ReplaceAllString(trunc(strings.TrimPrefix(msg, "panic:"), 80), "N"))
		}
	}
	if len(perkey) > 0 && cv < 2 && cx < 2 {
		// the block against its keys alone: accepted exactly when every key alone is (when every key alone answered)
		known, every := true, true
		for _, p := range perkey {
			if p != cN(0) && p != cN(1) {
				known = false
			}
			if p != cN(0) {
				every = false
			}
		}
		if known && ((cv == 0) != every || (cx == 0) != every) {
			ke := "some-key-alone-rejected"
			if every {
				ke = "every-key-alone-accepted"
			}
			sig = fmt.Sprintf("confkeys:%s:validate=%d:execute=%d:%s", in.Dir, cv, cx, ke)
		}
	}
	if len(perkey) > 0 {
		return Result{Term: cApp("CConfKeys", cList(perkey), cN(cv), cN(cx)), Obs: map[string]interface{}{"validate": trunc(v, 200), "execute": trunc(x, 200), "perkey": perkey},
			Sig: sig, Nontrivial: true, Key: text, Class: fmt.Sprintf("confkeys%s:%s:%d%d", c11KeydepTag(in, perkey), in.Dir, cv, cx)}
	}
	return Result{Term: cApp("CConf", cN(cv), cN(cx)), Obs: map[string]interface{}{"validate": trunc(v, 200), "execute": trunc(x, 200)},
		Sig: sig, Nontrivial: cv != cx || cv == 0, Key: text, Class: fmt.Sprintf("conf:%s:%d%d", in.Dir, cv, cx)}
}

// ---- configurations whose setup does data-dependent work: each mode runs in a child process of the harness
// binary under a wall-clock limit (the parent kills it) and a heap limit (the child watches its own heap and
// gives up), so that a setup that loops or allocates without bound is an observation and not the end of the run.

const (
	c11MaxMs   = 2000       // a directive line must be set up within 2 s ...
	c11MaxKiB  = 256 * 1024 // ... allocating at most 256 MiB (the full port range 1-65535 of one upstream takes ~150 MiB)
	c11KillMs  = 6000
	c11HeapCap = 320 << 20 // the child gives up at 320 MiB of live heap
)

type c11CostWire struct {
	Result string `json:"result"`
	Ms     int64  `json:"ms"`
	KiB    uint64 `json:"kib"`
}

func init() {
	extraCommands["c11child"] = func(args []string) int {
		raw, err := io.ReadAll(os.Stdin)
		if err != nil {
			return 3
		}
		var req struct {
			Text     string `json:"text"`
			Validate bool   `json:"validate"`
		}
		if json.Unmarshal(raw, &req) != nil {
			return 3
		}
		casket.Quiet = true
		var m0 runtime.MemStats
		runtime.ReadMemStats(&m0)
		t0 := time.Now()
		report := func(res string) {
			var m runtime.MemStats
			runtime.ReadMemStats(&m)
			b, _ := json.Marshal(c11CostWire{Result: res, Ms: time.Since(t0).Milliseconds(), KiB: (m.TotalAlloc - m0.TotalAlloc) / 1024})
			os.Stdout.Write(append([]byte("C11RESULT "), append(b, '\n')...))
		}
		go func() {
			for {
				time.Sleep(10 * time.Millisecond)
				var m runtime.MemStats
				runtime.ReadMemStats(&m)
				if m.HeapAlloc > c11HeapCap {
					report("memlimit")
					os.Exit(0)
				}
			}
		}()
		done := make(chan string, 1)
		go func() {
			defer func() {
				if r := recover(); r != nil {
					done <- "panic:" + fmt.Sprint(r)
				}
			}()
			cf := casket.CasketfileInput{Contents: []byte(req.Text), Filepath: "Casketfile", ServerTypeName: "http"}
			var err error
			if req.Validate {
				err = casket.ValidateAndExecuteDirectives(cf, nil, true)
			} else {
				err = casket.ValidateAndExecuteDirectives(cf, casket.VerifNewInstance("http"), false)
			}
			if err != nil {
				done <- "error:" + err.Error()
			} else {
				done <- "ok"
			}
		}()
		report(<-done)
		return 0
	}
}

func c11Child(text string, validate bool) c11CostWire {
	exe, err := os.Executable()
	if err != nil {
		return c11CostWire{Result: "harness:" + err.Error()}
	}
	req, _ := json.Marshal(map[string]interface{}{"text": text, "validate": validate})
	cmd := exec.Command(exe, "c11child")
	cmd.Stdin = bytes.NewReader(req)
	var out bytes.Buffer
	cmd.Stdout = &out
	t0 := time.Now()
	if err := cmd.Start(); err != nil {
		return c11CostWire{Result: "harness:" + err.Error()}
	}
	done := make(chan error, 1)
	go func() { done <- cmd.Wait() }()
	select {
	case <-done:
	case <-time.After(c11KillMs * time.Millisecond):
		cmd.Process.Kill()
		<-done
		return c11CostWire{Result: "timeout", Ms: time.Since(t0).Milliseconds()}
	}
	for _, l := range strings.Split(out.String(), "\n") {
		if strings.HasPrefix(l, "C11RESULT ") {
			var w c11CostWire
			if json.Unmarshal([]byte(strings.TrimPrefix(l, "C11RESULT ")), &w) == nil {
				return w
			}
		}
	}
	return c11CostWire{Result: "crash:" + trunc(out.String(), 200), Ms: time.Since(t0).Milliseconds()}
}

func c11RunCost(in *c11In) Result {
	text := in.Keys + " {\n" + in.Body + "\n}\n"
	v := c11Child(text, true)
	x := c11Child(text, false)
	cv, cx := c11Class(v.Result), c11Class(x.Result)
	ms, kib := v.Ms, v.KiB
	if x.Ms > ms {
		ms = x.Ms
	}
	if x.KiB > kib {
		kib = x.KiB
	}
	within := cv < 2 && cx < 2 && ms <= c11MaxMs && kib <= c11MaxKiB
	sig := "cost:" + in.Dir + ":" + in.Ops2
	if !within {
		sig += ":unbounded"
	}
	return Result{Term: cApp("CConfCost", cN(cv), cN(cx), cN(uint64(ms)), cN(kib), cN(c11MaxMs), cN(c11MaxKiB)),
		Obs:  map[string]interface{}{"validate": trunc(v.Result, 120), "execute": trunc(x.Result, 120), "ms": ms, "kib": kib, "max_ms": c11MaxMs, "max_kib": c11MaxKiB},
		Sig:  sig, Nontrivial: true, Key: text, Class: "cost:" + in.Dir + ":" + in.Ops2}
}

func trunc(s string, n int) string {
	if len(s) > n {
		return s[:n]
	}
	return s
}

func c11Run(in0 interface{}) Result {
	in := in0.(*c11In)
	if in.Kind == "disp" {
		return c11RunDisp(in)
	}
	if in.Kind == "cost" {
		return c11RunCost(in)
	}
	if in.Kind == "seq" {
		return c11RunSeq(in)
	}
	if in.Kind == "multi" {
		return c11RunMulti(in)
	}
	return c11RunConf(in)
}

// ---- whole files: several server blocks, snippets imported more than once, the SAME directive line in effect twice
// within one load (twice in a block, in two blocks, through a snippet imported by two sites or twice by one).
// Spec: neither mode panics or hangs and the modes agree.  Model (CConfSites): the blocks are set up in order, a
// block does what it does as a file of its own, the first rejected one ends the load - in both modes.
// The cases run in the harness process (fast); what earlier loads left behind in the process can make a load
// panic that would not in a fresh process, so a panic is re-examined in a child process and only then reported.
var (
	c11PartMemo   = map[string]uint64{}
	c11PartMemoMu sync.Mutex
)

func c11RunMulti(in *c11In) Result {
	casket.Quiet = true
	v := c11Exec(in.Text, true)
	x := c11Exec(in.Text, false)
	if c11Class(v) >= 2 || c11Class(x) >= 2 {
		v = c11Child(in.Text, true).Result
		x = c11Child(in.Text, false).Result
	}
	cv, cx := c11Class(v), c11Class(x)
	var persite []string
	if cv < 2 && cx < 2 {
		for _, p := range in.Parts {
			c11PartMemoMu.Lock()
			c, ok := c11PartMemo[p]
			c11PartMemoMu.Unlock()
			if !ok {
				r := c11Exec(p, true)
				if c11Class(r) >= 2 {
					r = c11Child(p, true).Result
				}
				c = c11Class(r)
				c11PartMemoMu.Lock()
				c11PartMemo[p] = c
				c11PartMemoMu.Unlock()
			}
			persite = append(persite, cN(c))
		}
	}
	sig := fmt.Sprintf("multi:%s:%s:validate=%d:execute=%d", in.Dir, in.Ops2, cv, cx)
	if cv >= 2 || cx >= 2 {
		msg := v
		if cv < 2 {
			msg = x
		}
		sig = fmt.Sprintf("multi:%s:%s:%s", in.Dir, in.Ops2, c11DigitsRe.ReplaceAllString(trunc(c11UUIDRe.ReplaceAllString(msg, "ID"), 60), "N"))
	}
	obs := map[string]interface{}{"validate": trunc(v, 200), "execute": trunc(x, 200), "persite": persite}
	if len(persite) > 0 {
		return Result{Term: cApp("CConfSites", cList(persite), cN(cv), cN(cx)), Obs: obs, Sig: sig, Nontrivial: true, Key: in.Text,
			Class: fmt.Sprintf("multi:%s:%d%d", in.Ops2, cv, cx)}
	}
	return Result{Term: cApp("CConf", cN(cv), cN(cx)), Obs: obs, Sig: sig, Nontrivial: true, Key: in.Text, Class: fmt.Sprintf("multi:%s:%d%d", in.Ops2, cv, cx)}
}

type c11Blk struct {
	Keys  string
	Lines []string
}

// c11File writes a Casketfile of snippets and server blocks, and every server block as a file of its own
func c11File(snips [][2]string, blks []c11Blk) (string, []string) {
	head := ""
	for _, sn := range snips {
		head += "(" + sn[0] + ") {\n" + sn[1] + "\n}\n"
	}
	text := head
	var parts []string
	for _, b := range blks {
		t := b.Keys + " {\n" + strings.Join(b.Lines, "\n") + "\n}\n"
		text += t
		parts = append(parts, head+t)
	}
	if len(blks) < 2 {
		parts = nil
	}
	return text, parts
}

// c11GenMulti: for every directive a few lines (the spelling meant to be accepted, the bare name, lines drawn over its
// vocabulary), each in effect TWICE within one load in every way a Casketfile can do that, plus files of two and three
// sites mixing directives, own lines and shared snippets
func c11GenMulti(r *Rand, tier string, dirs []string, fixDir string, vocabOf func(string) []string, lex []string, q func(string) string) []*c11In {
	var out []*c11In
	keys := []string{"127.0.0.1:0", "localhost:0", "a.b.example.test:0"}
	accepted := func(d string) string {
		s := c11SeqAccepted[d]
		if s == "" {
			return d
		}
		s = strings.ReplaceAll(s, "{FIX}", fixDir)
		s = strings.ReplaceAll(s, "htpasswd=htpasswd", "htpasswd="+filepath.Join(fixDir, "htpasswd"))
		s = strings.ReplaceAll(s, " page.html", " "+filepath.Join(fixDir, "page.html"))
		return s
	}
	add := func(d, shape string, snips [][2]string, blks []c11Blk) {
		text, parts := c11File(snips, blks)
		out = append(out, &c11In{Kind: "multi", Dir: d, Ops2: shape, Text: text, Parts: parts})
	}
	nRand := 2
	if tier == "thorough" {
		nRand = 12
	}
	for _, d := range dirs {
		vocab := vocabOf(d)
		lines := []string{accepted(d), d}
		for i := 0; i < nRand; i++ {
			l := d
			for k := r.Intn(3); k > 0; k-- {
				l += " " + q(r.Pick(lex))
			}
			if len(vocab) > 0 && r.Chance(60) {
				l += " {\n  " + q(r.Pick(vocab)) + " " + q(r.Pick(lex)) + "\n}"
			}
			lines = append(lines, l)
		}
		for _, l := range lines {
			sn := [][2]string{{"shared", l}}
			add(d, "twice-in-one-block", nil, []c11Blk{{keys[0], []string{l, l}}})
			add(d, "in-two-blocks", nil, []c11Blk{{keys[0], []string{l}}, {keys[1], []string{l}}})
			add(d, "in-three-blocks", nil, []c11Blk{{keys[0], []string{l}}, {keys[1], []string{l}}, {keys[2], []string{l}}})
			add(d, "snippet-imported-by-two-sites", sn, []c11Blk{{keys[0], []string{"import shared"}}, {keys[1], []string{"import shared"}}})
			add(d, "snippet-imported-twice-by-one-site", sn, []c11Blk{{keys[0], []string{"import shared", "import shared"}}})
			add(d, "own-line-and-snippet", sn, []c11Blk{{keys[0], []string{l, "import shared"}}})
			add(d, "one-block-two-keys", nil, []c11Blk{{keys[0] + ", " + keys[1], []string{l}}})
			add(d, "snippet-site-and-own-line-site", sn, []c11Blk{{keys[0], []string{"import shared"}}, {keys[1], []string{l}}, {keys[2], []string{"import shared"}}})
		}
	}
	// files of two and three sites in general: every site a few lines of different directives, some through a snippet
	nMixed := 150
	if tier == "thorough" {
		nMixed = 1500
	}
	for i := 0; i < nMixed; i++ {
		line := func() string {
			d := r.Pick(dirs)
			if r.Chance(70) {
				return accepted(d)
			}
			l := d
			for k := r.Intn(3); k > 0; k-- {
				l += " " + q(r.Pick(lex))
			}
			return l
		}
		sn := [][2]string{{"shared", line()}}
		if r.Chance(40) {
			sn[0][1] += "\n" + line()
		}
		nb := r.Range(2, 3)
		var blks []c11Blk
		for b := 0; b < nb; b++ {
			var ls []string
			for k := r.Range(1, 3); k > 0; k-- {
				if r.Chance(35) {
					ls = append(ls, "import shared")
				} else {
					ls = append(ls, line())
				}
			}
			blks = append(blks, c11Blk{keys[b], ls})
		}
		add("mixed", fmt.Sprintf("mixed-%d-sites", nb), sn, blks)
	}
	return out
}

// ---- sequences: configurations loaded one after the other in ONE process.  A setup that is rejected must leave
// nothing behind that makes a later setup hang, crash or answer differently: every step is held against the same
// configuration loaded alone in a fresh process.

const c11StepMs = 3000

type c11SeqReq struct {
	Dir   string    `json:"dir"`
	Steps []c11Step `json:"steps"`
}

func init() {
	extraCommands["c11seq"] = func(args []string) int {
		raw, err := io.ReadAll(os.Stdin)
		var req c11SeqReq
		if err != nil || json.Unmarshal(raw, &req) != nil {
			return 3
		}
		casket.Quiet = true
		for i, st := range req.Steps {
			text := st.Keys + " {\n" + st.Body + "\n}\n"
			done := make(chan string, 1)
			go func() {
				defer func() {
					if r := recover(); r != nil {
						done <- "panic:" + fmt.Sprint(r)
					}
				}()
				cf := casket.CasketfileInput{Contents: []byte(text), Filepath: filepath.Join(req.Dir, "Casketfile"), ServerTypeName: "http"}
				var err error
				if st.Validate {
					err = casket.ValidateAndExecuteDirectives(cf, nil, true)
				} else {
					err = casket.ValidateAndExecuteDirectives(cf, casket.VerifNewInstance("http"), false)
				}
				if err != nil {
					done <- "error:" + err.Error()
				} else {
					done <- "ok"
				}
			}()
			res := ""
			select {
			case res = <-done:
			case <-time.After(c11StepMs * time.Millisecond):
				res = "timeout"
			}
			b, _ := json.Marshal(map[string]interface{}{"step": i, "result": trunc(res, 300)})
			os.Stdout.Write(append([]byte("C11STEP "), append(b, '\n')...))
			if res == "timeout" {
				return 0 // the process is wedged: nothing after a hang is meaningful
			}
		}
		return 0
	}
}

// c11SeqChild runs the steps in one child process; a step the child did not report is "timeout" (it hung
// there or died) and the steps after it "notrun"
func c11SeqChild(dir string, steps []c11Step) []string {
	out := make([]string, len(steps))
	for i := range out {
		out[i] = "notrun"
	}
	exe, err := os.Executable()
	if err != nil {
		return out
	}
	req, _ := json.Marshal(c11SeqReq{Dir: dir, Steps: steps})
	cmd := exec.Command(exe, "c11seq")
	cmd.Stdin = bytes.NewReader(req)
	cmd.Dir = dir
	var buf bytes.Buffer
	cmd.Stdout = &buf
	if err := cmd.Start(); err != nil {
		return out
	}
	done := make(chan error, 1)
	go func() { done <- cmd.Wait() }()
	select {
	case <-done:
	case <-time.After(time.Duration(len(steps)*c11StepMs+3000) * time.Millisecond):
		cmd.Process.Kill()
		<-done
	}
	n := 0
	for _, l := range strings.Split(buf.String(), "\n") {
		if strings.HasPrefix(l, "C11STEP ") {
			var w struct {
				Step   int    `json:"step"`
				Result string `json:"result"`
			}
			if json.Unmarshal([]byte(strings.TrimPrefix(l, "C11STEP ")), &w) == nil && w.Step < len(out) {
				out[w.Step] = w.Result
				n = w.Step + 1
			}
		}
	}
	if n < len(out) && (n == 0 || out[n-1] != "timeout") {
		out[n] = "crash:" + trunc(buf.String(), 120) // the child died in this step
	}
	return out
}

var c11SeqN struct {
	sync.Mutex
	n int
}

func c11SeqScratch() string { return fmt.Sprintf("/var/tmp/verif-C11-%d", os.Getpid()) }

// c11Fixture makes a scratch directory holding the files of the case
func c11Fixture(files map[string]string) string {
	c11SeqN.Lock()
	c11SeqN.n++
	dir := filepath.Join(c11SeqScratch(), fmt.Sprintf("s%d", c11SeqN.n))
	c11SeqN.Unlock()
	os.MkdirAll(dir, 0o755)
	for name, body := range files {
		os.MkdirAll(filepath.Dir(filepath.Join(dir, name)), 0o755)
		os.WriteFile(filepath.Join(dir, name), []byte(body), 0o644)
	}
	return dir
}

func c11SeqClass(r string) uint64 {
	if r == "notrun" {
		return 4
	}
	return c11Class(r)
}

func c11RunSeqOne(in *c11In) Result {
	subst := func(dir string) []c11Step {
		st := make([]c11Step, len(in.Steps))
		for i, x := range in.Steps {
			st[i] = c11Step{Keys: strings.ReplaceAll(x.Keys, "{FIX}", dir), Body: strings.ReplaceAll(x.Body, "{FIX}", dir), Validate: x.Validate}
		}
		return st
	}
	dir := c11Fixture(in.Files)
	inseq := c11SeqChild(dir, subst(dir))
	os.RemoveAll(dir)
	// each configuration alone, in a fresh process with a fresh copy of the files
	alone := make([]string, len(in.Steps))
	fkey, _ := json.Marshal(in.Files)
	for i := range in.Steps {
		mk, _ := json.Marshal(in.Steps[i])
		memo := string(fkey) + "|" + string(mk)
		c11AloneMu.Lock()
		r, ok := c11Alone[memo]
		c11AloneMu.Unlock()
		if !ok {
			d := c11Fixture(in.Files)
			r = strings.ReplaceAll(c11SeqChild(d, subst(d)[i:i+1])[0], d, "{FIX}")
			os.RemoveAll(d)
			c11AloneMu.Lock()
			c11Alone[memo] = r
			c11AloneMu.Unlock()
		}
		alone[i] = r
	}
	var pairs []string
	sig, bad := "seq:"+in.Dir, -1
	rejectedBefore, nontrivial := false, false
	for i := range in.Steps {
		a, s := c11SeqClass(alone[i]), c11SeqClass(inseq[i])
		pairs = append(pairs, cPair(cN(a), cN(s)))
		if bad < 0 && (a != s || s >= 2) {
			bad = i
		}
		if rejectedBefore && a == 0 {
			nontrivial = true
		}
		if a == 1 {
			rejectedBefore = true
		}
	}
	direct := ""
	if bad >= 0 {
		names := []string{"accepted", "rejected", "panic", "hang", "not-run"}
		first := strings.Fields(in.Steps[bad].Body + " ?")[0]
		sig = fmt.Sprintf("seq:%s:step%d-of-%d:%s:%s-instead-of-%s", in.Dir, bad+1, len(in.Steps), first, names[c11SeqClass(inseq[bad])], names[c11SeqClass(alone[bad])])
	}
	var lines []string
	for i, st := range in.Steps {
		mode := "execute"
		if st.Validate {
			mode = "validate"
		}
		lines = append(lines, fmt.Sprintf("step %d (%s): %s { %s } -> %s (alone: %s)", i+1, mode, st.Keys, strings.Join(strings.Fields(st.Body), " "), trunc(inseq[i], 160), trunc(alone[i], 160)))
	}
	key, _ := json.Marshal(in)
	return Result{Term: cApp("CSeq", cList(pairs)), Obs: map[string]interface{}{"steps": lines}, Sig: sig, Direct: direct,
		Nontrivial: nontrivial, Key: string(key), Class: fmt.Sprintf("seq:%s:%dsteps", in.Dir, len(in.Steps))}
}

var (
	c11Alone       = map[string]string{}
	c11AloneMu     sync.Mutex
	c11SeqBatch    []*c11In
	c11SeqBatchRes = map[*c11In]Result{}
	c11SeqOnce     sync.Once
)

func c11RunSeq(in *c11In) Result {
	if len(c11SeqBatch) > 0 {
		c11SeqOnce.Do(func() {
			var mu sync.Mutex
			var wg sync.WaitGroup
			sem := make(chan struct{}, 8)
			for _, x := range c11SeqBatch {
				x := x
				wg.Add(1)
				sem <- struct{}{}
				go func() {
					defer wg.Done()
					defer func() { <-sem }()
					res := c11RunSeqOne(x)
					mu.Lock()
					c11SeqBatchRes[x] = res
					mu.Unlock()
				}()
			}
			wg.Wait()
			os.RemoveAll(c11SeqScratch())
		})
		if res, ok := c11SeqBatchRes[in]; ok {
			return res
		}
	}
	res := c11RunSeqOne(in)
	os.RemoveAll(c11SeqScratch())
	return res
}

// directive -> package directory (relative to the repository root)
var c11Pkg = map[string]string{
	"basicauth": "caskethttp/basicauth", "browse": "caskethttp/browse", "errors": "caskethttp/errors", "expvar": "caskethttp/expvar",
	"ext": "caskethttp/extensions", "fastcgi": "caskethttp/fastcgi", "gzip": "caskethttp/gzip", "header": "caskethttp/header",
	"index": "caskethttp/index", "internal": "caskethttp/internalsrv", "limits": "caskethttp/limits", "log": "caskethttp/log",
	"markdown": "caskethttp/markdown", "mime": "caskethttp/mime", "pprof": "caskethttp/pprof", "proxy": "caskethttp/proxy",
	"push": "caskethttp/push", "redir": "caskethttp/redirect", "request_id": "caskethttp/requestid", "rewrite": "caskethttp/rewrite",
	"root": "caskethttp/root", "status": "caskethttp/status", "templates": "caskethttp/templates", "timeouts": "caskethttp/timeouts",
	"tryfiles": "caskethttp/tryfiles", "websocket": "caskethttp/websocket", "bind": "caskethttp/bind", "tls": "caskettls", "on": "onevent",
}

// c11Vocab harvests the string literals used in `case "..."` clauses and comparisons of a package:
// the sub-directive keyword vocabulary of that directive.
func c11Vocab(dir string) []string {
	repo := os.Getenv("VERIF_REPO")
	if repo == "" {
		repo = "/repo"
	}
	seen := map[string]bool{}
	files, _ := filepath.Glob(filepath.Join(repo, dir, "*.go"))
	if dir == "caskethttp/log" || dir == "caskethttp/errors" {
		files = append(files, filepath.Join(repo, "caskethttp/httpserver/roller.go"), filepath.Join(repo, "caskethttp/httpserver/logger.go"))
	}
	for _, f := range files {
		if strings.HasSuffix(f, "_test.go") {
			continue
		}
		fset := token.NewFileSet()
		af, err := parser.ParseFile(fset, f, nil, 0)
		if err != nil {
			continue
		}
		add := func(e ast.Expr) {
			if bl, ok := e.(*ast.BasicLit); ok && bl.Kind == token.STRING {
				if s, err := strconv.Unquote(bl.Value); err == nil && len(s) > 0 && len(s) < 30 && !strings.ContainsAny(s, " \n\t\"{}") {
					seen[s] = true
				}
			}
		}
		ast.Inspect(af, func(n ast.Node) bool {
			switch v := n.(type) {
			case *ast.CaseClause:
				for _, e := range v.List {
					add(e)
				}
			case *ast.BinaryExpr:
				if v.Op == token.EQL || v.Op == token.NEQ {
					add(v.X)
					add(v.Y)
				}
			case *ast.ValueSpec:
				for _, e := range v.Values {
					add(e)
				}
			}
			return true
		})
	}
	var out []string
	for s := range seen {
		out = append(out, s)
	}
	sort.Strings(out)
	return out
}

// c11Unproved: the obligations of this run that lia could not prove and that are not pinned (lib/c11.py left
// them as comments in coq/Gen_C11.v; the translator wrote their sites to run/c11_obligations.json). For each
// one the generator adds a targeted search: the directives whose code holds the site get many more
// configurations, with argument strings taken from the enclosing function's own string literals and their
// boundary variants (empty, one character, a literal cut short or extended).
type c11Target struct {
	dirs []string
	lex  []string
	comp []string // structured arguments composed from the function's own separators (c11Compose)
	site string
}

// c11Compose: the function cuts its argument at separators it searches for (strings.Index / LastIndex / HasPrefix
// of ":" "/" "://" "-" "unix:" ...).  Which bound crosses which depends on the ORDER in which the separators occur
// in the argument, so the targeted search composes arguments from the function's own separator literals in every
// relative order: [prefix] atom sep atom [sep atom [sep atom]] over all sequences of 1..3 separators, e.g. for
// parseUpstream scheme://host:port/path:with:colons, host/a:b, [::1]:80/x:y, unix:/p:q.
func c11Compose(lits []string) []string {
	isPunct := func(s string) bool {
		for _, c := range s {
			if c > 127 || c == '_' || (c >= '0' && c <= '9') || (c >= 'a' && c <= 'z') || (c >= 'A' && c <= 'Z') {
				return false
			}
		}
		return s != ""
	}
	seen := map[string]bool{}
	var seps, pres []string
	add := func(l *[]string, s string, max int) {
		if !seen[s] && len(*l) < max {
			seen[s] = true
			*l = append(*l, s)
		}
	}
	for _, s := range []string{":", "/"} {
		add(&seps, s, 5)
	}
	add(&pres, "", 6)
	for _, s := range lits {
		switch {
		case len(s) <= 3 && isPunct(s) && !strings.ContainsAny(s, " \t#"):
			add(&seps, s, 5)
		case len(s) >= 2 && len(s) <= 9 && isPunct(s[len(s)-1:]) && !isPunct(s[:1]) && !strings.ContainsAny(s, " \t#"):
			add(&pres, s, 6) // "unix:", "srv://", "https://"
		}
	}
	for _, s := range seps {
		if s == "://" {
			add(&pres, "http://", 6)
		}
	}
	atoms := [][]string{{"localhost", "8080", "api", "v1"}, {"[::1]", "80", "x", "y"}, {"a", "b", "c", "d"}, {"h", "1-2", "p", "3-4"}}
	var out []string
	var rec func(cur string, depth, k int, at []string)
	for _, pre := range pres {
		for ai, at := range atoms {
			if ai >= 2 && pre != "" {
				continue
			}
			rec = func(cur string, depth, k int, at []string) {
				if depth > 0 {
					out = append(out, cur)
				}
				if depth == 3 {
					return
				}
				for _, sp := range seps {
					rec(cur+sp+at[depth+1], depth+1, k, at)
				}
			}
			rec(pre+at[0], 0, 0, at)
		}
	}
	return out
}

func c11Unproved() []c11Target {
	root, repo := os.Getenv("VERIF_ROOT"), os.Getenv("VERIF_REPO")
	if root == "" {
		return nil
	}
	if repo == "" {
		repo = "/repo"
	}
	gen, err := os.ReadFile(filepath.Join(root, "coq", "Gen_C11.v"))
	if err != nil {
		return nil
	}
	var meta []struct {
		ID, File, Func, Expr string
		Line                 int
		Hash                 string `json:"func_hash"`
	}
	raw, err := os.ReadFile(filepath.Join(root, "run", "c11_obligations.json"))
	if err != nil || json.Unmarshal(raw, &meta) != nil {
		return nil
	}
	var pins struct {
		Pins []struct {
			File, Func, Expr string
			Hash             string `json:"func_hash"`
		}
	}
	if raw, err := os.ReadFile(filepath.Join(root, "lib", "c11_pins.json")); err == nil {
		json.Unmarshal(raw, &pins)
	}
	pinned := map[string]bool{}
	for _, p := range pins.Pins {
		pinned[p.File+"|"+p.Func+"|"+p.Hash+"|"+p.Expr] = true
	}
	var out []c11Target
	for _, o := range meta {
		if !strings.Contains(string(gen), "removed: Lemma "+o.ID+" ") || pinned[o.File+"|"+o.Func+"|"+o.Hash+"|"+o.Expr] {
			continue
		}
		t := c11Target{site: fmt.Sprintf("%s:%d %s", o.File, o.Line, o.Expr)}
		pkg := filepath.ToSlash(filepath.Dir(o.File))
		for d, p := range c11Pkg {
			if p == pkg {
				t.dirs = append(t.dirs, d)
			}
		}
		if len(t.dirs) == 0 {
			// shared code (httpserver, casketfile, the root package): every directive may reach it
			for d := range c11Pkg {
				t.dirs = append(t.dirs, d)
			}
		}
		sort.Strings(t.dirs)
		// string literals of the enclosing function
		var raw []string
		fset := token.NewFileSet()
		if af, err := parser.ParseFile(fset, filepath.Join(repo, o.File), nil, 0); err == nil {
			for _, decl := range af.Decls {
				fd, ok := decl.(*ast.FuncDecl)
				if !ok || fd.Name.Name != o.Func || fd.Body == nil {
					continue
				}
				ast.Inspect(fd.Body, func(n ast.Node) bool {
					if bl, ok := n.(*ast.BasicLit); ok && bl.Kind == token.STRING {
						if s, err := strconv.Unquote(bl.Value); err == nil && len(s) < 24 && !strings.ContainsAny(s, "\n{}\"") {
							t.lex = append(t.lex, s, s+"x", s+s)
						raw = append(raw, s)
							if len(s) > 0 {
								t.lex = append(t.lex, s[:len(s)-1], s[1:], "x"+s, s[:1])
							}
						}
					}
					return true
				})
			}
		}
		t.comp = c11Compose(raw)
		t.lex = append(t.lex, "", "a", "ab", "abc", "!", "!a", "/", ".", ":", "-", "=")
		out = append(out, t)
	}
	return out
}

// c11SeqFiles: the fixture of every sequence case (the working directory of the child and the directory of its
// Casketfile): htpasswd files that are well-formed / malformed (a line without separator after a good one, a hash
// its parser rejects) / lacking the user, a certificate file that is not one, a page
var c11SeqFiles = map[string]string{
	"htpasswd":       "user:{SHA}W6ph5Mm5Pz8GgiULbPgzG37mj9g=\nother:{SHA}W6ph5Mm5Pz8GgiULbPgzG37mj9g=\n",
	"malformed":      "other:{SHA}W6ph5Mm5Pz8GgiULbPgzG37mj9g=\nthis line lost its colon\nuser:{SHA}W6ph5Mm5Pz8GgiULbPgzG37mj9g=\n",
	"malformed-hash": "user:{SHA}W6ph5Mm5Pz8GgiULbPgzG37mj9g=\nother:$2y$05$c4WoMPo3SXsafkva.HHa6uXQZWr7oboPiC2bT/r7q1BB8I2s0BRqC\n",
	"nouser":         "other:{SHA}W6ph5Mm5Pz8GgiULbPgzG37mj9g=\n",
	"garbage.pem":    "-----BEGIN CERTIFICATE-----\nnot a certificate\n-----END CERTIFICATE-----\n",
	"page.html":      "<html></html>\n",
	"page.md":        "# page\n",
}

// spellings that are (meant to be) accepted, per directive; whether they are is observed, not assumed
var c11SeqAccepted = map[string]string{
	"basicauth": "basicauth / user htpasswd=htpasswd", "browse": "browse", "errors": "errors {\n  404 page.html\n}", "expvar": "expvar", "ext": "ext .html",
	"fastcgi": "fastcgi / 127.0.0.1:9000 php", "gzip": "gzip", "header": "header / X-A b", "index": "index index.html", "internal": "internal /secret",
	"limits": "limits 1mb", "log": "log / {FIX}/access.log", "markdown": "markdown / {\n  template page.html\n}", "mime": "mime .txt text/plain", "pprof": "pprof", "proxy": "proxy / 127.0.0.1:9",
	"push": "push", "redir": "redir /a /b", "request_id": "request_id", "rewrite": "rewrite /a /b", "root": "root {FIX}", "status": "status 404 /x",
	"templates": "templates", "timeouts": "timeouts 10s", "tryfiles": "tryfiles /a /b", "websocket": "websocket /ws cat", "bind": "bind 127.0.0.1",
	"tls": "tls off", "on": "on startup /bin/true",
}

// spellings that are (meant to be) rejected for a reason of the ENVIRONMENT (a file that is missing, malformed or
// lacks what is asked of it) - the error paths that run after a resource was taken
var c11SeqRejected = map[string][]string{
	"basicauth": {"basicauth / user htpasswd=missing", "basicauth / user htpasswd=malformed", "basicauth / user htpasswd=malformed-hash", "basicauth / user htpasswd=nouser",
		"basicauth / user htpasswd=htpasswd {\n  realm\n}"},
	"tls":       {"tls garbage.pem garbage.pem", "tls missing.pem missing.key", "tls {\n  load missing-dir\n}", "tls {\n  clients garbage.pem\n}"},
	"markdown":  {"markdown / {\n  template missing.html\n}", "markdown / {\n  template a b c d\n}"},
	"errors":    {"errors {\n  404 missing.html\n}", "errors {\n  rotate_size bogus\n}"},
	"log":       {"log / {FIX}/access.log {\n  rotate_size bogus\n}", "log / {FIX}/access.log {\n  ipmask\n}"},
	"proxy":     {"proxy / 127.0.0.1:9 {\n  policy bogus\n}", "proxy / 127.0.0.1:9 {\n  health_check_interval bogus\n}", "proxy / unix:\n"},
	"templates": {"templates {\n  between a\n}"},
	"on":        {"on startup /bin/true\non no-such-event /bin/true", "on startup"},
	"root":      {"root a b", "root"},
	"fastcgi":   {"fastcgi / 127.0.0.1:9000 {\n  pool bogus\n}", "fastcgi /"},
	"rewrite":   {"rewrite {\n  regexp (\n  to /x\n}", "rewrite /a"},
	"redir":     {"redir / /elsewhere 999"},
	"gzip":      {"gzip {\n  level 99\n}"},
	"timeouts":  {"timeouts bogus"},
	"limits":    {"limits bogus"},
	"status":    {"status bogus /x"},
	"websocket": {"websocket /ws"},
	"bind":      {"bind"},
	"header":    {"header /"},
	"mime":      {"mime txt text/plain"},
	"ext":       {"ext"},
	"index":     {"index"},
	"internal":  {"internal"},
	"push":      {"push / {\n  method\n}"},
	"browse":    {"browse / missing-template.html"},
	"expvar":    {"expvar /a /b"},
	"pprof":     {"pprof x"},
	"request_id": {"request_id a b"},
	"tryfiles":  {"tryfiles"},
}

func c11GenSeqs(dirs []string, tier string) []*c11In {
	var out []*c11In
	const key = "127.0.0.1:0"
	mk := func(d string, steps ...c11Step) {
		out = append(out, &c11In{Kind: "seq", Dir: d, Files: c11SeqFiles, Steps: steps})
	}
	st := func(body string, validate bool) c11Step { return c11Step{Keys: key, Body: body, Validate: validate} }
	for di, d := range dirs {
		ok := c11SeqAccepted[d]
		if ok == "" {
			ok = d
		}
		rej := append([]string{}, c11SeqRejected[d]...)
		// generic: a sub-directive nobody knows, surplus arguments, file arguments that do not exist
		rej = append(rej, d+" {\n  c11_no_such_subdirective x\n}", d+" a b c d e f g", d+" / missing")
		other := dirs[(di+1)%len(dirs)]
		okOther := c11SeqAccepted[other]
		if okOther == "" {
			okOther = other
		}
		for ri, r := range rej {
			if tier != "thorough" && ri >= len(c11SeqRejected[d])+1 && ri%2 == di%2 {
				continue // quick: one or two of the three generic ones
			}
			mk(d, st(r, true), st(ok, true))
			mk(d, st(r, false), st(ok, false))
			mk(d, st(r, true), st(r, false), st(ok, false))
			if d != "basicauth" {
				mk(d, st(r, ri%2 == 0), st(c11SeqAccepted["basicauth"], ri%2 == 1), st(okOther, false))
			} else {
				mk(d, st(r, ri%2 == 0), st(okOther, false), st("basicauth / other htpasswd=nouser", ri%2 == 1))
			}
			if tier == "thorough" {
				mk(d, st(ok, false), st(r, false), st(ok, true))
				mk(d, st(r, false), st(ok, true))
				mk(d, st(r, true), st(ok, false))
				for _, o2 := range dirs {
					if o2 != d && c11SeqAccepted[o2] != "" {
						mk(d, st(r, false), st(c11SeqAccepted[o2], false))
					}
				}
			}
		}
	}
	return out
}

func c11Gen(r *Rand, tier string) []interface{} {
	var out []interface{}
	nDisp, perDir := 900, 25
	if tier == "thorough" {
		nDisp, perDir = 12000, 600
	}
	texts := []string{"a", "b", "{", "}", "{", "}", "x y", "multi\nline", "", "dir", "import", "arg1", "two\n\nbreaks"}
	for i := 0; i < nDisp; i++ {
		in := &c11In{Kind: "disp"}
		line := 1
		n := r.Range(0, 9)
		for k := 0; k < n; k++ {
			t := c11Tok{Line: line, Text: r.Pick(texts)}
			if r.Chance(8) {
				t.File = "other.conf"
			}
			if r.Chance(5) {
				t.Line = r.Range(0, 4) // spliced tokens keep foreign line numbers
			}
			in.Toks = append(in.Toks, t)
			if r.Chance(45) {
				line += 1 + strings.Count(t.Text, "\n")
			} else if r.Chance(30) {
				line += strings.Count(t.Text, "\n")
			}
		}
		for k := r.Range(1, 14); k > 0; k-- {
			in.Ops = append(in.Ops, r.Intn(6))
		}
		out = append(out, in)
	}
	// configurations
	fix := os.Getenv("VERIF_ROOT")
	if fix == "" {
		fix = os.TempDir()
	}
	fixDir, _ := os.MkdirTemp(filepath.Join(fix, "run"), "c11fix")
	os.WriteFile(filepath.Join(fixDir, "htpasswd"), []byte("user:{SHA}W6ph5Mm5Pz8GgiULbPgzG37mj9g=\n"), 0o644)
	os.WriteFile(filepath.Join(fixDir, "page.html"), []byte("<html></html>"), 0o644)
	lex := []string{"", "x", "/", "/path", "123", "-1", "0", "1h", "10s", "none", "off", "on", "*.txt", ".html", "two words", "a=b", "http://127.0.0.1:9", "127.0.0.1:9",
		"localhost:80-81", "{", "404", "999", "5MB", "1kb", fixDir, filepath.Join(fixDir, "page.html"), "htpasswd=" + filepath.Join(fixDir, "htpasswd"), "htpasswd=/nonexistent/file",
		"+Header", "-Header", "{>X}", "unix:/tmp/x.sock", "*", "gzip", "9", "visible", "stdout", "syslog", "{path}", "^/re(.*)$", "-"}
	dirs := make([]string, 0, len(c11Pkg))
	for d := range c11Pkg {
		dirs = append(dirs, d)
	}
	sort.Strings(dirs)
	q := func(s string) string {
		if s == "" || strings.ContainsAny(s, " \t\n") {
			return `"` + s + `"`
		}
		return s
	}
	keysPool := []string{"127.0.0.1:0", "127.0.0.1:0", "a.b.example.test:0, example.test:0", "localhost:0", "http://x.test:0"}
	// single keys of different shapes: setup of some directives depends on the key it runs for (tls wildcard on
	// the number of labels / an existing wildcard label, scheme, path); blocks with several keys draw from here.
	// No name that qualifies for a managed certificate (a bare "test"): the start-only callback would go to the network for it
	keyShapes := []string{"a.b.example.test:0", "example.test:0", "*.example.test:0", "c.d.e.example.test:0", "localhost:0", "127.0.0.1:0",
		"http://x.test:0", "y.example.test:0/sub", "http://z.example.test:0/p"}
	multiKeys := func() string {
		n := 2
		if r.Chance(35) {
			n = 3
		}
		perm := make([]int, len(keyShapes))
		for i := range perm {
			perm[i] = i
		}
		for i := len(perm) - 1; i > 0; i-- {
			j := r.Intn(i + 1)
			perm[i], perm[j] = perm[j], perm[i]
		}
		var ks []string
		for _, i := range perm[:n] {
			ks = append(ks, keyShapes[i])
		}
		return strings.Join(ks, ", ")
	}
	targets := c11Unproved()
	for _, d := range dirs {
		vocab := c11Vocab(c11Pkg[d])
		// systematic: every keyword of the directive's vocabulary with 0..3 arguments, as a
		// sub-directive and as a first argument
		for _, kw := range vocab {
			for na := 0; na <= 3; na++ {
				args := ""
				for k := 0; k < na; k++ {
					args += " " + q(r.Pick(lex))
				}
				out = append(out, &c11In{Kind: "conf", Dir: d, Keys: keysPool[0], Body: d + " {\n  " + q(kw) + args + "\n}\n"})
				if na <= 1 {
					// several keys in one block: acceptance may depend on a key that is not the first
					out = append(out, &c11In{Kind: "conf", Dir: d, Keys: keysPool[2], Body: d + " {\n  " + q(kw) + args + "\n}\n"})
					out = append(out, &c11In{Kind: "conf", Dir: d, Keys: "example.test:0, a.b.example.test:0", Body: d + " {\n  " + q(kw) + args + "\n}\n"})
				}
				if na <= 2 {
					out = append(out, &c11In{Kind: "conf", Dir: d, Keys: keysPool[0], Body: d + " " + q(kw) + args + "\n"})
				}
			}
		}
		nRand, dlex := perDir, lex
		for _, t := range targets {
			for _, td := range t.dirs {
				if td == d && len(t.dirs) <= 2 {
					// systematic: every composed argument as first / second argument and as the argument of a sub-directive
					for i, c := range t.comp {
						out = append(out, &c11In{Kind: "conf", Dir: d, Keys: keysPool[0], Site: t.site, Body: d + " " + q(c) + "\n"})
						out = append(out, &c11In{Kind: "conf", Dir: d, Keys: keysPool[0], Site: t.site, Body: d + " / " + q(c) + "\n"})
						if len(vocab) > 0 {
							kw := vocab[i%len(vocab)]
							out = append(out, &c11In{Kind: "conf", Dir: d, Keys: keysPool[0], Site: t.site, Body: d + " / 127.0.0.1:9 {\n  " + q(kw) + " " + q(c) + "\n}\n"})
						}
					}
				}
				if td == d {
					if len(t.dirs) <= 2 {
						nRand += 12 * perDir
					} else {
						nRand += perDir
					}
					dlex = append(append([]string(nil), dlex...), t.lex...)
					dlex = append(dlex, t.lex...) // twice: half of the draws come from the targeted strings
				}
			}
		}
		for i := 0; i < nRand; i++ {
			lex := dlex
			var sb strings.Builder
			nLines := 1
			if r.Chance(15) {
				nLines = 2
			}
			for l := 0; l < nLines; l++ {
				sb.WriteString(d)
				na := r.Intn(5)
				if i < 5 {
					na = i
				}
				for k := 0; k < na; k++ {
					sb.WriteString(" " + q(r.Pick(lex)))
				}
				if r.Chance(55) && len(vocab) > 0 {
					sb.WriteString(" {\n")
					for k := r.Range(0, 3); k > 0; k-- {
						kw := r.Pick(vocab)
						if r.Chance(10) {
							kw = r.Pick(lex)
						}
						sb.WriteString("  " + q(kw))
						for j := r.Intn(4); j > 0; j-- {
							if r.Chance(20) && len(vocab) > 0 {
								sb.WriteString(" " + q(r.Pick(vocab)))
							} else {
								sb.WriteString(" " + q(r.Pick(lex)))
							}
						}
						if r.Chance(8) {
							sb.WriteString(" {\n    " + q(r.Pick(vocab)) + " " + q(r.Pick(lex)) + "\n  }")
						}
						sb.WriteString("\n")
					}
					sb.WriteString("}")
				}
				sb.WriteString("\n")
			}
			keys := r.Pick(keysPool)
			if r.Chance(20) {
				keys = multiKeys()
			}
			out = append(out, &c11In{Kind: "conf", Dir: d, Keys: keys, Body: sb.String()})
		}
	}
	// server blocks with 2..6 keys of ODD shapes and directive lines whose verdict depends on the key the setup runs
	// for (controller.Key / ServerBlockKeyIndex / OncePerServerBlock): tls wildcard (number of labels, an existing
	// wildcard label, a name that qualifies), tls self_signed (the host name as SAN of the generated certificate),
	// placeholders of the host, bind, `on` (first key only) - and every other directive once.  Each block runs through
	// the real ValidateAndExecuteDirectives in both modes and carries the outcome of every key alone; the model
	// (C11_validation_accepts_iff_every_key_accepts / predict_block) says: accepted exactly when every key is, the
	// first rejected key ends the load, in both modes.
	oddKeys := []string{"a.b.example.test:0", "example.test:0", "*.example.test:0", "*.*.example.test:0", "a.*.example.test:0", "c.d.e.example.test:0",
		"localhost:0", "127.0.0.1:0", "[::1]:0", ":0", "http://x.test:0", "y.example.test:0/sub", "http://z.example.test:0/p", "UPPER.Example.Test:0",
		"a_b.example.test:0", "xn--bcher-kva.example.test:0", "a..b.example.test:0", "dot.example.test.:0", "-a.example.test:0",
		strings.Repeat("l", 64) + ".example.test:0", "0.0.0.0:0", "a.b.c.d.e.f.g.h.example.test:0", "http://q.test:0/a/b"}
	keyDepBodies := [][2]string{
		{"tls", "tls self_signed"}, {"tls", "tls off"}, {"tls", "tls self_signed {\n  wildcard\n}"}, {"tls", "tls {\n  wildcard\n}"},
		{"tls", "tls self_signed {\n  wildcard\n  alpn h2\n}"}, {"tls", "tls off {\n  wildcard\n}"}, {"tls", "tls {\n  wildcard\n  wildcard\n}"},
		{"tls", "tls self_signed {\n  wildcard\n}\nredir https://{host}{uri}"}, {"tls", "tls off\nbind 127.0.0.1"},
		{"bind", "bind 127.0.0.1"}, {"bind", "bind ::1"}, {"bind", "bind"}, {"bind", "bind {host}"},
		{"redir", "redir https://{host}{uri}"}, {"redir", "redir / https://{host}/x 301"}, {"redir", "redir {\n  if {host} is a.b\n  / /x\n}"}, {"redir", "redir / /"},
		{"on", "on startup /bin/true"}, {"on", "on shutdown /bin/true &"}, {"on", "on"},
		{"log", "log / stdout \"{host}\""}, {"header", "header / X-Host {host}"}, {"rewrite", "rewrite / /{host}"},
		{"proxy", "proxy / 127.0.0.1:9 {\n  header_upstream Host {host}\n}"}, {"basicauth", "basicauth / u p"}, {"root", "root ."},
		{"limits", "limits 1kb"}, {"timeouts", "timeouts 1s"}, {"index", "index a.html"}, {"gzip", "gzip"}, {"internal", "internal /x"},
		{"status", "status 404 /x"}, {"templates", "templates"}, {"browse", "browse"}, {"errors", "errors"}, {"ext", "ext .html"},
		{"mime", "mime .x text/x"}, {"expvar", "expvar"}, {"pprof", "pprof"}, {"push", "push"}, {"request_id", "request_id"},
		{"websocket", "websocket /ws cat"}, {"markdown", "markdown"}, {"fastcgi", "fastcgi / 127.0.0.1:9 php"}, {"tryfiles", "tryfiles"},
	}
	nDraw := 3
	if tier == "thorough" {
		nDraw = 30
	}
	for _, b := range keyDepBodies {
		if _, ok := c11Pkg[b[0]]; !ok {
			continue
		}
		for i := 0; i < nDraw; i++ {
			n := []int{2, 6, 4, 3, 5}[i%5] // 2..6 keys
			perm := make([]int, len(oddKeys))
			for k := range perm {
				perm[k] = k
			}
			for k := len(perm) - 1; k > 0; k-- {
				j := r.Intn(k + 1)
				perm[k], perm[j] = perm[j], perm[k]
			}
			var ks []string
			for _, k := range perm[:n] {
				ks = append(ks, oddKeys[k])
			}
			out = append(out, &c11In{Kind: "conf", Dir: b[0], Keys: strings.Join(ks, ", "), Body: b[1] + "\n", Ops2: "keydep"})
		}
	}
	// ... and, systematically, the ONE rejected key at every position among accepted ones (and none): `tls self_signed
	// { wildcard }` accepts a key exactly when its host name has three labels or more, no wildcard label and qualifies
	goodKeys := []string{"a.b.example.test:0", "c.d.e.example.test:0", "y.example.test:0/sub", "a.b.c.d.e.f.g.h.example.test:0", "xn--bcher-kva.example.test:0", "http://z.example.test:0/p"}
	badKeys := []string{"example.test:0", "*.example.test:0", "localhost:0", "127.0.0.1:0", ":0", "a.*.example.test:0"}
	if _, ok := c11Pkg["tls"]; ok {
		for _, body := range []string{"tls self_signed {\n  wildcard\n}\n", "tls self_signed {\n  alpn h2\n  wildcard\n}\nredir https://{host}{uri}\n"} {
			for n := 1; n <= 5; n++ {
				for pos := -1; pos <= n; pos++ {
					if tier != "thorough" && (n+pos)%2 == 1 && pos >= 0 && n > 2 {
						continue
					}
					off := r.Intn(len(goodKeys))
					var ks []string
					for k := 0; k < n; k++ {
						ks = append(ks, goodKeys[(off+k)%len(goodKeys)])
					}
					if pos >= 0 {
						bad := r.Pick(badKeys)
						ks = append(ks[:pos], append([]string{bad}, ks[pos:]...)...)
					}
					if len(ks) < 2 {
						continue
					}
					out = append(out, &c11In{Kind: "conf", Dir: "tls", Keys: strings.Join(ks, ", "), Body: body, Ops2: "keydep"})
				}
			}
		}
	}
	// `root` and every other directive with arguments that name the Casketfile itself, its directory, parents,
	// children and name-prefix siblings (the parsing callback of `root` compares the two paths; it runs in execute
	// mode only).  The Casketfile of a conf case is ./Casketfile of the harness's working directory.
	cwd, _ := os.Getwd()
	base := filepath.Base(cwd)
	selfPaths := []string{"Casketfile", "./Casketfile", filepath.Join(cwd, "Casketfile"), "../" + base + "/Casketfile", "Casketfile/", "Casketfile/sub", filepath.Join(cwd, "Casketfile", "sub"),
		".", "./", cwd, cwd + "/", "..", filepath.Dir(cwd), "/", "Casketfil", "Casketfile2", filepath.Join(cwd, "Casketfile-conf"), cwd + "-conf", "C", ""}
	for _, d := range dirs {
		site := ""
		for _, t := range targets {
			for _, td := range t.dirs {
				if td == d && site == "" {
					site = t.site
				}
			}
		}
		for _, p := range selfPaths {
			if d != "root" && site == "" && tier != "thorough" && !(p == "Casketfile" || p == cwd || p == "/") {
				continue
			}
			out = append(out, &c11In{Kind: "conf", Dir: d, Keys: keysPool[0], Site: site, Body: d + " " + q(p) + "\n"})
			if d != "root" {
				out = append(out, &c11In{Kind: "conf", Dir: "root", Keys: keysPool[0], Site: site, Body: "root " + q(p) + "\n" + d + " / " + q(p) + "\n"})
			}
		}
	}
	for _, x := range c11GenMulti(r, tier, dirs, fixDir, func(d string) []string { return c11Vocab(c11Pkg[d]) }, lex, q) {
		out = append(out, x)
	}
	// sequences in ONE process: a rejected configuration of every directive followed by accepted ones of the same
	// directive and of others (two and three steps, every pair of modes)
	seqs := c11GenSeqs(dirs, tier)
	c11SeqBatch = seqs
	for _, x := range seqs {
		out = append(out, x)
	}
	// data-dependent work in setup: upstream port ranges of proxy (one upstream host per port)
	type rg struct{ lo, hi int }
	ranges := []rg{{1, 1}, {1, 2}, {80, 90}, {8000, 8100}, {1, 1000}, {1, 65535}, {5, 4}, {0, 0}}
	hostile := []rg{{1, 70000}, {1, 999999999}}
	if tier == "thorough" {
		hostile = append(hostile, rg{1, 200000}, rg{65000, 999999999})
		for i := 0; i < 40; i++ {
			lo := r.Range(0, 65535)
			ranges = append(ranges, rg{lo, lo + r.Range(0, 65535-lo)})
		}
		hostile = append(hostile, rg{1, 2147483647}, rg{1, 5000000})
	}
	shape := func(g rg) string {
		switch n := g.hi - g.lo; {
		case n < 0:
			return "range-empty"
		case g.hi <= 65535:
			return "range<=65535"
		}
		return "range>65535"
	}
	for _, g := range append(ranges, hostile...) {
		up := fmt.Sprintf("127.0.0.1:%d-%d", g.lo, g.hi)
		out = append(out, &c11In{Kind: "cost", Dir: "proxy", Keys: keysPool[0], Ops2: shape(g), Body: "proxy / " + up + "\n"})
		if g.hi-g.lo < 2000 || g.hi > 100000000 {
			out = append(out, &c11In{Kind: "cost", Dir: "proxy", Keys: keysPool[0], Ops2: shape(g), Body: "proxy / 127.0.0.1:9 {\n  upstream " + up + "\n}\n"})
		}
	}
	return out
}

func init() {
	register(&Property{
		ID: "C11", Imports: "V.Lib V.C11_Model V.C11_Cases", Judge: "judge", Shard: 300,
		Rule: "(targeted search: for every obligation of this run that lia does not prove and that is not pinned, the directives holding the site get 13x the configurations with the enclosing function's own string literals and their boundary variants as arguments, and every argument composed from the function's own separator literals in every relative order - [prefix] atom sep atom [sep atom [sep atom]], e.g. scheme://host:port/path:with:colons, host/a:b, [::1]:80/x:y, unix:/p:q - as first / second argument and as argument of a sub-directive; cost cases: proxy upstream port ranges, each mode in a child process under 2 s / 256 MiB, killed at 6 s / 320 MiB live heap; blocks with 2-3 keys of different shapes carry the per-key outcomes and are held against the executeDirectives model) whole files: for every registered directive a few lines, each in effect twice or more within ONE load - twice in one block, in two / three blocks, in a block with two keys, through a snippet imported by two sites / twice by one site / next to the site's own copy - and files of 2-3 sites mixing directives, own lines and shared snippets, both modes; files of several sites carry the class of each site loaded alone and are held against the executeDirectives model; a panic is re-examined in a fresh child process; Dispenser: random token lists (incl. foreign files / non-monotone lines as spliced imports produce) x random operation sequences on the real casketfile.Dispenser vs the model; sequences: for every registered directive a rejected configuration (environment faults where the directive reads files - htpasswd missing / malformed after a good line / with a hash its parser rejects / lacking the user, certificate files that are not, missing templates and pages - bad values, an unknown sub-directive, surplus arguments) followed by accepted configurations of the same directive and of others, two and three steps, every pair of modes, ALL IN ONE child process with a watchdog per step; each step is held against the same configuration loaded alone in a fresh process (a hang, a crash or a different answer after a rejected setup is reported with the sequence); `root` (and, sampled, every directive) with arguments naming the Casketfile itself, its directory, parents, children and name-prefix siblings; configurations: for every registered directive, argument counts 0..4 over lexical classes and sub-blocks over the directive's own keyword vocabulary (harvested from its package's case labels), each run through ValidateAndExecuteDirectives in validate and in execute mode under recover + watchdog; non-trivial = >=2 tokens / accepted or mode-dependent configuration; distinct = distinct configuration text",
		Gen:    c11Gen,
		Decode: func(raw json.RawMessage) (interface{}, error) { in := &c11In{}; return in, json.Unmarshal(raw, in) },
		Run:    c11Run,
	})
}
