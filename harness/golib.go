package main

import (
	"encoding/json"
	"fmt"
	"net"
	"path"
	"strings"
)

// LIB: differential test of the Coq models of Go standard-library functions that the
// property models build on.  A disagreement here is a defect of the model, not of casket.
type libIn struct {
	Kind string `json:"kind"`
	A    string `json:"a"`
	B    string `json:"b,omitempty"`
}

func libRun(in0 interface{}) Result {
	in := in0.(*libIn)
	switch in.Kind {
	case "clean":
		return Result{Term: cApp("LClean", cStr(in.A), cStr(path.Clean(in.A))), Obs: path.Clean(in.A), Nontrivial: path.Clean(in.A) != in.A, Class: "clean"}
	case "lower":
		return Result{Term: cApp("LLower", cStr(in.A), cStr(strings.ToLower(in.A))), Obs: strings.ToLower(in.A), Nontrivial: true, Class: "lower"}
	case "prefix":
		o := strings.HasPrefix(in.A, in.B)
		return Result{Term: cApp("LHasPrefix", cStr(in.A), cStr(in.B), cBool(o)), Obs: o, Nontrivial: o, Class: "prefix"}
	case "suffix":
		o := strings.HasSuffix(in.A, in.B)
		return Result{Term: cApp("LHasSuffix", cStr(in.A), cStr(in.B), cBool(o)), Obs: o, Nontrivial: o, Class: "suffix"}
	case "shp":
		h, p, err := net.SplitHostPort(in.A)
		return Result{Term: cApp("LSplitHostPort", cStr(in.A), cBool(err == nil), cStr(h), cStr(p)), Obs: []string{h, p, fmt.Sprint(err)}, Nontrivial: err == nil, Class: "shp"}
	case "split":
		parts := strings.Split(in.A, in.B)
		return Result{Term: cApp("LSplit", cN(uint64(in.B[0])), cStr(in.A), cStrList(parts)), Obs: parts, Nontrivial: len(parts) > 1, Class: "split"}
	}
	panic("bad kind")
}

func libGen(r *Rand, tier string) []interface{} {
	var out []interface{}
	alpha := []byte{'/', '.', 'a', 'B'}
	maxLen := 6
	if tier == "thorough" {
		maxLen = 8
	}
	var rec func(prefix []byte)
	rec = func(prefix []byte) {
		out = append(out, &libIn{Kind: "clean", A: string(prefix)})
		if len(prefix) == maxLen {
			return
		}
		for _, c := range alpha {
			rec(append(append([]byte(nil), prefix...), c))
		}
	}
	rec(nil)
	// net.SplitHostPort: exhaustive over {a : [ ] 1} up to length 5 (6 thorough) + random
	{
		al := []byte{'a', ':', '[', ']', '1'}
		ml := 5
		if tier == "thorough" {
			ml = 7
		}
		var rec2 func(prefix []byte)
		rec2 = func(prefix []byte) {
			out = append(out, &libIn{Kind: "shp", A: string(prefix)})
			if len(prefix) == ml {
				return
			}
			for _, c := range al {
				rec2(append(append([]byte(nil), prefix...), c))
			}
		}
		rec2(nil)
		for _, s := range []string{"example.com:80", "[::1]:2015", "[::1]", "::1", "a.b:http", "[fe80::1%eth0]:80", "[]:", ":", "a:", ":1", "[a]b:1", "[a]:1:2", "x[a]:1", "[a:b]:c]"} {
			out = append(out, &libIn{Kind: "shp", A: s})
		}
	}
	rs := func(n int) string {
		b := make([]byte, n)
		a2 := []byte("/./..ab\\AZz%é")
		for i := range b {
			b[i] = a2[r.Intn(len(a2))]
		}
		return string(b)
	}
	for i := 0; i < 600; i++ {
		s := rs(r.Range(0, 24))
		out = append(out, &libIn{Kind: "clean", A: s})
		out = append(out, &libIn{Kind: "split", A: s, B: "/"})
		if i%4 == 0 {
			// ASCII only: the models fold A-Z bytes (strings.ToLower on invalid UTF-8 differs)
			t := strings.ToValidUTF8(s, "")
			out = append(out, &libIn{Kind: "lower", A: t})
			out = append(out, &libIn{Kind: "prefix", A: s, B: s[:r.Intn(len(s)+1)]})
			out = append(out, &libIn{Kind: "prefix", A: s, B: rs(r.Range(0, 3))})
			out = append(out, &libIn{Kind: "suffix", A: s, B: s[r.Intn(len(s)+1):]})
			out = append(out, &libIn{Kind: "suffix", A: s, B: rs(r.Range(0, 3))})
		}
	}
	return out
}

func init() {
	register(&Property{
		ID: "LIB", Imports: "V.Lib V.GoPath V.GoLib_Cases", Judge: "ljudge", Shard: 1000,
		Rule:   "exhaustive strings over {/ . a B} up to the tier's length for path.Clean + random strings for the strings helpers",
		Gen:    libGen,
		Decode: func(raw json.RawMessage) (interface{}, error) { in := &libIn{}; return in, json.Unmarshal(raw, in) },
		Run:    libRun,
	})
}
