package main

// C05 — timed cases: the REAL Proxy.ServeHTTP retry loop against a fault-scripted transport per
// host.  The upstream handed to Proxy is the parsed staticUpstream behind a thin wrapper that only
// observes (time and result of every Select) and plays the "other requests": it makes a host
// unavailable for one Select (health flap / full) and fills a host between Select and acquireConn.
// Real time is mapped to model ticks (half grid units): every event of the loop falls on the grid
// (intervals and forward durations are whole units) while try_duration and fail_timeout are odd
// numbers of half units, so every decision of the code has half a unit of real-time margin.  The
// harness measures the margins it got; a run that missed them is repeated with a longer unit and
// never judged.

import (
	"bytes"
	"errors"
	"fmt"
	"io"
	"net/http"
	"net/http/httptest"
	"strings"
	"sync/atomic"
	"time"

	"github.com/tmpim/casket/casketfile"
	"github.com/tmpim/casket/caskethttp/proxy"
)

type c05Step struct {
	K string `json:"k"` // ok | fb (fail before reading) | fa (fail after reading the body) | rf (acquireConn refused)
	D int    `json:"d,omitempty"`
}
type c05Script struct {
	Pre  []c05Step `json:"pre,omitempty"`
	Dflt c05Step   `json:"dflt"`
}
type c05RT struct {
	MF       int         `json:"mf"`
	FT2      int         `json:"ft2"` // fail_timeout in half units (odd, or 0 = off)
	TD2      int         `json:"td2"` // try_duration in half units (odd, or 0 = no retries)
	TI       int         `json:"ti"`  // try_interval in units (>= 1)
	Unh      []bool      `json:"unh"`
	Scripts  []c05Script `json:"scripts"`
	Env      [][]bool    `json:"env,omitempty"`
	Fx0      [][]int     `json:"fx0,omitempty"` // per host: expiry (odd half units) of failures recorded by other requests
	MaxConns bool        `json:"maxconns,omitempty"`
}

const c05Grid = 8 * time.Millisecond

var c05Kinds = map[string]string{"ok": "KOk", "fb": "KFailBefore", "fa": "KFailAfter", "rf": "KRefuse"}

func (s c05Script) at(k int) c05Step {
	if k < len(s.Pre) {
		return s.Pre[k]
	}
	return s.Dflt
}

// request body with the semantics of a server request body: reads after Close fail
type c05Body struct {
	r      *bytes.Reader
	closed bool
}

func (b *c05Body) Read(p []byte) (int, error) {
	if b.closed {
		return 0, http.ErrBodyReadAfterClose
	}
	return b.r.Read(p)
}
func (b *c05Body) Close() error { b.closed = true; return nil }

type c05Ev struct {
	kind   string // none | refused | attempt
	t      int    // tick
	host   int
	k      string
	rx     string
	ok     bool
	te     int
	rxInfo string
}

type c05TRun struct {
	in      *c05RT
	grid    time.Duration
	t0      time.Time
	hosts   proxy.HostPool
	body    []byte
	uses    []int
	cur     []c05Step
	held    []bool
	it      int
	events  []c05Ev
	fails   [][]time.Duration // harness's own books: real time of every failed forward, per host
	margin  bool              // a measured real-time margin was missed
	books   bool              // Fails differed from the books
	pending int               // host selected and not yet forwarded to (-1 none)
	notes   []string
	lastEnd time.Duration // real offset at which the previous event ended (the code sleeps try_interval from there)
	first   bool
	abort   int32 // set by the watchdog: the next Select / forward panics out of a loop that does not end
}

type c05Abort struct{}

// tick maps a real offset to model ticks (half units) and checks the drift
func (r *c05TRun) tick(d time.Duration) int {
	k := int((d + r.grid/2) / r.grid)
	delta := d - time.Duration(k)*r.grid
	if delta > r.grid/4 || delta < -r.grid/8 {
		r.margin = true
	}
	return 2 * k
}

type c05Up struct {
	proxy.Upstream
	run *c05TRun
}

func (u *c05Up) Select(req *http.Request) *proxy.UpstreamHost {
	r := u.run
	if atomic.LoadInt32(&r.abort) != 0 {
		panic(c05Abort{})
	}
	now := time.Since(r.t0)
	// relative margins: the loop reaches Select try_interval after the previous event ended (at once
	// for the first one); a stall of the machine shows here even when it is a whole number of units
	gap, want := now-r.lastEnd, time.Duration(r.in.TI)*r.grid
	if !r.first {
		want = 0
	}
	r.first = true
	if gap > want+r.grid/4 || gap < want-r.grid/8 {
		r.margin = true
	}
	r.lastEnd = now
	// the other requests let go of what they held during the previous iteration
	for i, h := range r.hosts {
		if r.held[i] {
			atomic.AddInt64(&h.Conns, -1)
			r.held[i] = false
		}
	}
	// Fails against the harness's own books (only meaningful with fail_timeout on)
	if r.in.FT2 > 0 || len(r.in.Fx0) > 0 {
		ft := time.Duration(r.in.FT2) * r.grid / 2
		for i, h := range r.hosts {
			exp := 0
			var expiries []time.Duration
			if r.in.FT2 > 0 {
				for _, at := range r.fails[i] {
					expiries = append(expiries, at+ft)
				}
			}
			if i < len(r.in.Fx0) {
				for _, x := range r.in.Fx0[i] {
					expiries = append(expiries, time.Duration(x)*r.grid/2)
				}
			}
			for _, e := range expiries {
				d := e - now
				if d < r.grid/8 && d > -r.grid/8 {
					r.margin = true
				}
				if d > 0 {
					exp++
				}
			}
			if got := int(atomic.LoadInt32(&h.Fails)); got != exp {
				r.books = true
				r.notes = append(r.notes, fmt.Sprintf("it %d host %d: Fails=%d books=%d", r.it, i, got, exp))
			}
		}
	}
	// interference for this Select: health flap or a full host
	var env []bool
	if r.it < len(r.in.Env) {
		env = r.in.Env[r.it]
	}
	for i, h := range r.hosts {
		down := r.in.Unh[i]
		if i < len(env) && env[i] {
			if r.in.MaxConns && (r.it+i)%2 == 0 {
				atomic.AddInt64(&h.Conns, 1)
				r.held[i] = true
			} else {
				down = true
			}
		}
		v := int32(0)
		if down {
			v = 1
		}
		atomic.StoreInt32(&h.Unhealthy, v)
	}
	h := u.Upstream.Select(req)
	for i, hh := range r.hosts {
		if r.held[i] {
			atomic.AddInt64(&hh.Conns, -1)
			r.held[i] = false
		}
	}
	r.it++
	t := r.tick(now)
	if h == nil {
		r.events = append(r.events, c05Ev{kind: "none", t: t})
		return nil
	}
	idx := -1
	for i, hh := range r.hosts {
		if hh == h {
			idx = i
		}
	}
	if idx < 0 {
		r.notes = append(r.notes, "Select returned a host outside the pool")
		return h
	}
	st := r.in.Scripts[idx].at(r.uses[idx])
	r.uses[idx]++
	r.cur[idx] = st
	if st.K == "rf" {
		// another request takes the last slot between Select and acquireConn
		atomic.AddInt64(&h.Conns, 1)
		r.held[idx] = true
		r.events = append(r.events, c05Ev{kind: "refused", t: t, host: idx})
		r.pending = -1
		return h
	}
	r.pending = idx
	return h
}

type c05Transport struct {
	run  *c05TRun
	host int
}

func (t *c05Transport) RoundTrip(req *http.Request) (*http.Response, error) {
	r := t.run
	if atomic.LoadInt32(&r.abort) != 0 {
		panic(c05Abort{})
	}
	now := time.Since(r.t0)
	k := int((now + r.grid/2) / r.grid)
	tk := r.tick(now)
	if now-r.lastEnd > r.grid/4 {
		r.margin = true // stall between Select and the forward
	}
	st := r.cur[t.host]
	if r.pending != t.host {
		r.notes = append(r.notes, fmt.Sprintf("forward to host %d that was not the pending selection %d", t.host, r.pending))
	}
	r.pending = -1
	rx, info := "RxNotRead", ""
	if st.K == "fb" {
		if req.Body != nil {
			req.Body.Close()
		}
	} else {
		if req.Body == nil {
			if len(r.body) == 0 {
				rx = "RxFull"
			} else {
				rx, info = "RxBad", "no body"
			}
		} else {
			data, err := io.ReadAll(req.Body)
			req.Body.Close()
			switch {
			case err != nil && errors.Is(err, http.ErrBodyReadAfterClose):
				rx, info = "RxClosed", fmt.Sprintf("read %d bytes then: %v", len(data), err)
			case err != nil:
				rx, info = "RxBad", fmt.Sprintf("read %d bytes then: %v", len(data), err)
			case bytes.Equal(data, r.body):
				rx = "RxFull"
			default:
				rx, info = "RxBad", fmt.Sprintf("read %d bytes, want %d", len(data), len(r.body))
			}
		}
	}
	if st.D > 0 {
		time.Sleep(time.Until(r.t0.Add(time.Duration(k+st.D) * r.grid)))
	}
	end := time.Since(r.t0)
	if d := end - now - time.Duration(st.D)*r.grid; d > r.grid/4 || d < -r.grid/4 {
		r.margin = true // the forward did not take its scripted time
	}
	r.lastEnd = end
	ok := st.K == "ok" && rx == "RxFull" || st.K == "rf" // "rf": the code forwarded although the host was full
	ev := c05Ev{kind: "attempt", t: tk, host: t.host, k: c05Kinds[st.K], rx: rx, ok: ok, te: r.tick(end), rxInfo: info}
	r.events = append(r.events, ev)
	if !ok {
		r.fails[t.host] = append(r.fails[t.host], end)
		return nil, fmt.Errorf("scripted failure %s on host %d", st.K, t.host)
	}
	return &http.Response{StatusCode: 200, Status: "200 OK", Proto: "HTTP/1.1", ProtoMajor: 1, ProtoMinor: 1,
		Header: http.Header{"X-Backend": []string{fmt.Sprint(t.host)}}, Body: io.NopCloser(strings.NewReader("ok")),
		ContentLength: 2, Request: req}, nil
}

func c05StepTerm(s c05Step) string {
	return cApp("mk_astep", c05Kinds[s.K], cN(uint64(2*s.D)))
}

func c05SkipT(obs, class string) Result {
	return Result{Term: cApp("CStatic", "PHeaderNoNames", cZ(1), "[]", "None"), Obs: obs, Class: class, Sig: class}
}

// c05Timed runs one timed case with the grid stretched by scale.
// status: 0 usable, 1 Fails differed from the books, 2 a real-time margin was missed.
func c05Timed(in *c05In, scale int) (Result, int) {
	rt := in.RT
	n := len(rt.Scripts)
	if n < 1 || len(rt.Unh) != n || rt.TI < 1 || rt.MF < 1 {
		return c05SkipT("bad input", "retryt:bad-input"), 0
	}
	grid := c05Grid * time.Duration(scale)
	us := func(half int) string { return fmt.Sprintf("%dus", int64(time.Duration(half)*grid/2/time.Microsecond)) }
	names := make([]string, n)
	for i := range names {
		names[i] = fmt.Sprintf("http://127.0.0.1:%d", 10000+i)
	}
	polLine := in.Policy
	if in.Policy == "header" {
		polLine = "header X-Key"
	}
	text := fmt.Sprintf("proxy / %s {\n policy %s\n max_fails %d\n try_interval %s\n", strings.Join(names, " "), polLine, rt.MF, us(2*rt.TI))
	if rt.FT2 > 0 {
		text += " fail_timeout " + us(rt.FT2) + "\n"
	}
	if rt.TD2 > 0 {
		text += " try_duration " + us(rt.TD2) + "\n"
	}
	if rt.MaxConns {
		text += " max_conns 1\n"
	}
	text += "}\n"
	ups, err := proxy.NewStaticUpstreams(casketfile.NewDispenser("Testfile", strings.NewReader(text)), "")
	if err != nil || len(ups) != 1 {
		r := c05SkipT(fmt.Sprint("setup error ", err), "retryt:setup-error")
		r.Direct = fmt.Sprint("proxy block rejected: ", err)
		return r, 0
	}
	defer ups[0].Stop()
	run := &c05TRun{in: rt, grid: grid, hosts: hostsOf(ups[0]), body: bodyOf(in.BodyLen), uses: make([]int, n),
		cur: make([]c05Step, n), held: make([]bool, n), fails: make([][]time.Duration, n), pending: -1}
	for i, h := range run.hosts {
		h.ReverseProxy.Transport = &c05Transport{run: run, host: i}
	}
	var req *http.Request
	hasBody := in.Chunked || in.BodyLen > 0
	if hasBody {
		req = httptest.NewRequest("POST", "http://example.test/up", &c05Body{r: bytes.NewReader(run.body)})
		if in.Chunked {
			req.ContentLength = -1
		} else {
			req.ContentLength = int64(in.BodyLen)
		}
	} else {
		req = httptest.NewRequest("POST", "http://example.test/up", nil)
	}
	req.RemoteAddr = "192.0.2.7:4711"
	req.Header.Set("X-Key", "k-"+in.Key)
	var pterm string
	switch in.Policy {
	case "first":
		pterm = "PFirst"
	case "round_robin":
		pterm = "(PRoundRobin 0%N)"
	case "ip_hash":
		pterm = cApp("PHash", cN(uint64(fnv32a("192.0.2.7"))))
	case "uri_hash":
		pterm = cApp("PHash", cN(uint64(fnv32a(req.RequestURI))))
	case "header":
		pterm = cApp("PHeaderValue", cN(uint64(fnv32a("k-"+in.Key))))
	case "random":
		pterm = "PRandom"
	case "least_conn":
		pterm = "PLeastConn"
	default:
		return c05SkipT("bad policy", "retryt:bad-input"), 0
	}
	p := proxy.Proxy{Next: handlerFunc(func(w http.ResponseWriter, r *http.Request) (int, error) { return 404, nil }),
		Upstreams: []proxy.Upstream{&c05Up{Upstream: ups[0], run: run}}}
	rec := httptest.NewRecorder()
	// watchdog: the model's bound on the request is try_duration + try_interval + longest forward
	dmax := 0
	for _, sc := range rt.Scripts {
		for _, st := range append(append([]c05Step(nil), sc.Pre...), sc.Dflt) {
			if st.D > dmax {
				dmax = st.D
			}
		}
	}
	limit := 3*time.Duration(rt.TD2/2+rt.TI+dmax+4)*grid + 2*time.Second
	var status, tEnd int
	var serr error
	hung, panicked := false, ""
	done := make(chan struct{})
	run.t0 = time.Now()
	// failures other requests recorded earlier: counted now, taken back when they expire
	for i, xs := range rt.Fx0 {
		if i >= n {
			break
		}
		for _, x := range xs {
			h, at := run.hosts[i], run.t0.Add(time.Duration(x)*grid/2)
			atomic.AddInt32(&h.Fails, 1)
			go func() {
				time.Sleep(time.Until(at))
				atomic.AddInt32(&h.Fails, -1)
			}()
		}
	}
	go func() {
		defer close(done)
		defer func() {
			if x := recover(); x != nil {
				if _, ok := x.(c05Abort); ok {
					hung = true
				} else {
					panicked = fmt.Sprint(x)
				}
			}
		}()
		status, serr = p.ServeHTTP(rec, req)
		end := time.Since(run.t0)
		if end-run.lastEnd > grid/4 {
			run.margin = true
		}
		tEnd = run.tick(end)
	}()
	select {
	case <-done:
	case <-time.After(limit):
		atomic.StoreInt32(&run.abort, 1)
		<-done
	}
	for i, h := range run.hosts {
		if run.held[i] {
			atomic.AddInt64(&h.Conns, -1)
			run.held[i] = false
		}
	}
	direct := ""
	if run.pending >= 0 {
		run.notes = append(run.notes, fmt.Sprintf("host %d was selected and neither forwarded to nor scripted as refused", run.pending))
	}
	var out string
	final := -1
	switch {
	case status == 0 && rec.Code == 200:
		fmt.Sscan(rec.Header().Get("X-Backend"), &final)
		out = cApp("TAnswered", cNat(final), cN(uint64(tEnd)))
	case status == http.StatusBadGateway:
		out = cApp("T502", cN(uint64(tEnd)))
	default:
		out = "THang"
		direct = fmt.Sprintf("Proxy.ServeHTTP returned status %d (recorder %d) err %v", status, rec.Code, serr)
	}
	if hung {
		atomic.AddInt32(&c05Hangs, 1)
		out = "THang"
		direct = fmt.Sprintf("Proxy.ServeHTTP did not return within %v (try_duration %s): the retry loop does not end", limit, us(rt.TD2))
		run.margin, run.books = false, false
	} else if panicked != "" {
		out = "THang"
		direct = "Proxy.ServeHTTP panicked: " + panicked
	}
	for i, h := range run.hosts {
		if c := atomic.LoadInt64(&h.Conns); c != 0 {
			direct = fmt.Sprintf("host %d: Conns = %d after the request", i, c)
		}
	}
	var evs []string
	var obsEv []string
	nfailed := 0
	for _, e := range run.events {
		switch e.kind {
		case "none":
			evs = append(evs, cApp("ENone", cN(uint64(e.t))))
			obsEv = append(obsEv, fmt.Sprintf("%d:none", e.t))
		case "refused":
			evs = append(evs, cApp("ERefused", cN(uint64(e.t)), cNat(e.host)))
			obsEv = append(obsEv, fmt.Sprintf("%d:refused h%d", e.t, e.host))
		default:
			evs = append(evs, cApp("EAttempt", cN(uint64(e.t)), cNat(e.host), e.k, e.rx, cBool(e.ok), cN(uint64(e.te))))
			obsEv = append(obsEv, strings.TrimSpace(fmt.Sprintf("%d-%d:h%d %s %s ok=%v %s", e.t, e.te, e.host, e.k, e.rx, e.ok, e.rxInfo)))
			if !e.ok {
				nfailed++
			}
		}
	}
	bs := func(xs []bool) string {
		it := make([]string, len(xs))
		for i, x := range xs {
			it[i] = cBool(x)
		}
		return cList(it)
	}
	var scr []string
	for _, s := range rt.Scripts {
		var pre []string
		for _, st := range s.Pre {
			pre = append(pre, c05StepTerm(st))
		}
		scr = append(scr, cApp("mk_script", cList(pre), c05StepTerm(s.Dflt)))
	}
	var env []string
	for _, row := range rt.Env {
		env = append(env, bs(row))
	}
	cfg := cApp("mk_tcfg", cNat(n), cN(uint64(rt.MF)), cN(uint64(rt.FT2)), cN(uint64(rt.TD2)), cN(uint64(2*rt.TI)), cBool(hasBody))
	status2 := 0
	if run.margin {
		status2 = 2
	} else if run.books {
		status2 = 1
	}
	buffered := rt.TD2 != 0 // requiresBuffering: whenever the request can be retried
	sig := fmt.Sprintf("retryt:%s:buffered=%v:chunked=%v", in.Policy, buffered, in.Chunked)
	if n == 1 && rt.TD2 != 0 {
		for _, e := range run.events {
			if e.kind == "attempt" && e.rx == "RxClosed" {
				// the defect repaired under F-C05-2 (a single-host pool was not buffered, a second
				// forward found the body closed): its own class, so that a regression is reported as that
				sig = "retryt:single-host:body-not-replayed"
			}
		}
	}
	var fx0 []string
	for _, xs := range rt.Fx0 {
		var l []uint64
		for _, x := range xs {
			l = append(l, uint64(x))
		}
		fx0 = append(fx0, cNList(l))
	}
	return Result{Term: cApp("CRetryT", pterm, cfg, bs(rt.Unh), cList(scr), cList(env), cList(fx0), cList(evs), out),
		Obs: map[string]interface{}{"events": obsEv, "status": status, "code": rec.Code, "final_host": final, "end_tick": tEnd,
			"grid_ms": float64(grid) / 1e6, "notes": run.notes},
		Direct: direct, Sig: sig, Nontrivial: nfailed > 0,
		Class: fmt.Sprintf("retryt:%s:n%d:failed%d", in.Policy, n, min(nfailed, 3))}, status2
}

// once a few requests did not return the fact is established; the remaining timed cases would each
// wait for the watchdog
var c05Hangs int32

func c05RunTimed(in *c05In) Result {
	if atomic.LoadInt32(&c05Hangs) >= 3 {
		return c05SkipT("skipped: three earlier requests did not return", "retryt:skipped-after-hangs")
	}
	var res Result
	status := 0
	var terms []string
	for _, scale := range []int{1, 2, 4} {
		res, status = c05Timed(in, scale)
		if status == 0 {
			return res
		}
		terms = append(terms, res.Term)
	}
	if status == 2 {
		if terms[0] == terms[1] && terms[1] == terms[2] {
			// the same deviation from the expected timing at three different units is not the machine:
			// it is how the code behaves, and is judged
			return res
		}
		return c05SkipT("real-time margins missed in 3 runs", "retryt:timing-invalid")
	}
	return res
}

func c05GenStep(r *Rand, refuse bool) c05Step {
	k := r.Pick([]string{"ok", "fb", "fa", "fb", "fa"})
	if refuse && r.Chance(20) {
		return c05Step{K: "rf"}
	}
	return c05Step{K: k, D: r.Pick2(0, 0, 0, 1, 1, 2)}
}

func c05GenTimed(r *Rand, tier string) []interface{} {
	var out []interface{}
	pols := []string{"first", "round_robin", "ip_hash", "uri_hash", "header", "random", "least_conn"}
	// exhaustive: 1..3 hosts, every combination of always-ok / always-fail-before / always-fail-after,
	// body of known and of unknown length, first and round robin
	kinds := []string{"ok", "fb", "fa"}
	for n := 1; n <= 3; n++ {
		total := 1
		for i := 0; i < n; i++ {
			total *= 3
		}
		for code := 0; code < total; code++ {
			scripts := make([]c05Script, n)
			c := code
			for i := range scripts {
				scripts[i] = c05Script{Dflt: c05Step{K: kinds[c%3]}}
				c /= 3
			}
			for pi, pol := range []string{"first", "round_robin"} {
				out = append(out, &c05In{Kind: "retryt", Policy: pol, Chunked: (code+pi)%2 == 0, BodyLen: 64, Key: "x",
					RT: &c05RT{MF: 1, FT2: 201, TD2: 7, TI: 1, Unh: make([]bool, n), Scripts: scripts}})
			}
		}
	}
	nRandom := 520
	if tier == "thorough" {
		nRandom = 6000
	}
	for i := 0; i < nRandom; i++ {
		n := r.Range(1, 4)
		rt := &c05RT{MF: r.Pick2(1, 1, 1, 2, 3), TI: r.Pick2(1, 1, 2), Unh: make([]bool, n), MaxConns: r.Chance(35)}
		rt.TD2 = r.Pick2(0, 3, 5, 7, 9, 11, 13)
		rt.FT2 = r.Pick2(0, 3, 5, 7, 201, 201, 201)
		in := &c05In{Kind: "retryt", Policy: r.Pick(pols), Chunked: r.Bool(), BodyLen: r.Pick2(0, 1, 100, 40000), Key: fmt.Sprint(r.Intn(50)), RT: rt}
		for j := 0; j < n; j++ {
			rt.Unh[j] = r.Chance(12)
			s := c05Script{Dflt: c05GenStep(r, false)}
			for k := r.Intn(4); k > 0; k-- {
				s.Pre = append(s.Pre, c05GenStep(r, rt.MaxConns))
			}
			rt.Scripts = append(rt.Scripts, s)
		}
		if r.Chance(25) {
			for it := r.Range(1, 5); it > 0; it-- {
				row := make([]bool, n)
				for j := range row {
					row[j] = r.Chance(25)
				}
				rt.Env = append(rt.Env, row)
			}
		}
		if r.Chance(25) {
			rt.Fx0 = make([][]int, n)
			for j := range rt.Fx0 {
				for k := r.Intn(3); k > 0; k-- {
					rt.Fx0[j] = append(rt.Fx0[j], 2*r.Intn(8)+1)
				}
			}
		}
		if r.Chance(55) {
			// a host that stays healthy, fail_timeout on and a budget that covers the others:
			// the hypotheses of C05_retry_reaches_healthy
			g := r.Intn(n)
			rt.Unh[g] = false
			rt.Scripts[g] = c05Script{Dflt: c05Step{K: "ok", D: r.Pick2(0, 1)}}
			for _, row := range rt.Env {
				row[g] = false
			}
			if g < len(rt.Fx0) && r.Chance(70) {
				rt.Fx0[g] = nil
			}
			rt.FT2 = 201
			rt.TD2 = r.Pick2(9, 13, 17, 23)
		}
		out = append(out, in)
	}
	return out
}
