package main

// C02 — served file content stays inside the root and never includes hidden files.
//
// Real in-process casket sites (casket.Start on loopback) rooted in a fixture under
// /var/tmp/verif-C02-<pid>/root whose origin Casketfile lies INSIDE the root (so hideCasketfile
// applies) and which also hides files through `internal` (the only directive that appends to
// SiteConfig.HiddenFiles). Every regular file of the fixture carries a unique token, so the
// provenance of every returned byte run is decidable; token files also exist OUTSIDE the root.
// Requests are raw request lines (no client-side cleaning) over an adversarial segment alphabet.
// The fixture tree is a Go table: it is written to disk, re-read from disk (stat + lstat
// identities) and compared with the table on every run, and emitted to coq/Gen_C02b.v so that
// the Coq model and spec judge the very same tree.

import (
	"archive/tar"
	"archive/zip"
	"bytes"
	"compress/bzip2"
	"compress/gzip"
	"encoding/json"
	"fmt"
	"go/ast"
	"go/token"
	"html"
	"io"
	"net"
	"net/url"
	"os"
	"os/exec"
	"path"
	"path/filepath"
	"regexp"
	"sort"
	"strconv"
	"strings"
	"syscall"

	"github.com/andybalholm/brotli"
	"github.com/golang/snappy"
	"github.com/klauspost/compress/zstd"
	"github.com/pierrec/lz4/v4"
	"github.com/tmpim/casket"
	"github.com/tmpim/casket/caskethttp/httpserver"
	"github.com/ulikunitz/xz"
)

// ---------------------------------------------------------------------------------------------
// fixture table

type c02Ent struct {
	Path string // cleaned rooted path inside the root
	Kind byte   // 'd' directory, 'f' regular file, 'h' hard link (no symlinks: the jail is lexical, as http.Dir is)
	Tok  string // token name of a regular file ("" for directories / links)
	Enc  string // "", gz, br, zst: the file's bytes are the token text in that coding
	To   string // link target: rooted path inside the root
}

var c02Table = []c02Ent{
	{Path: "/", Kind: 'd'},
	{Path: "/Casketfile", Kind: 'f', Tok: "CASKET"},
	{Path: "/secret.txt", Kind: 'f', Tok: "SECRET"},
	{Path: "/hsib.txt", Kind: 'f', Tok: "HSIB"},
	{Path: "/hsib.txt.gz", Kind: 'f', Tok: "HSIBGZ", Enc: "gz"},
	{Path: "/a.txt", Kind: 'f', Tok: "A"},
	{Path: "/a.txt.gz", Kind: 'f', Tok: "AGZ", Enc: "gz"},
	{Path: "/a.txt.br", Kind: 'f', Tok: "ABR", Enc: "br"},
	{Path: "/a.txt.zst", Kind: 'f', Tok: "AZST", Enc: "zst"},
	{Path: "/b.txt", Kind: 'f', Tok: "B"},
	{Path: "/b.txt.gz", Kind: 'f', Tok: "BGZ", Enc: "gz"},
	{Path: "/UP.txt", Kind: 'f', Tok: "UP"},
	{Path: "/dir", Kind: 'd'},
	{Path: "/dir/c.txt", Kind: 'f', Tok: "C"},
	{Path: "/dir/c.txt.zst", Kind: 'f', Tok: "CZST", Enc: "zst"},
	{Path: "/dir/e", Kind: 'f', Tok: "E"},
	{Path: "/dir/e.gz", Kind: 'd'},
	{Path: "/dir/e.gz/inner.txt", Kind: 'f', Tok: "EGZIN"},
	{Path: "/dir/sub", Kind: 'd'},
	{Path: "/dir/sub/d.txt", Kind: 'f', Tok: "D"},
	{Path: "/dir/sub/d.txt.br", Kind: 'f', Tok: "DBR", Enc: "br"},
	{Path: "/idx", Kind: 'd'},
	{Path: "/idx/index.html", Kind: 'f', Tok: "IDX"},
	{Path: "/idx/index.html.gz", Kind: 'f', Tok: "IDXGZ", Enc: "gz"},
	{Path: "/idx/other.txt", Kind: 'f', Tok: "OTHER"},
	{Path: "/idx2", Kind: 'd'},
	{Path: "/idx2/index.txt", Kind: 'f', Tok: "IDXTWO"},
	{Path: "/idx2/default.html", Kind: 'f', Tok: "DEF"},
	{Path: "/idir", Kind: 'd'},
	{Path: "/idir/index.html", Kind: 'd'},
	{Path: "/idir/index.html/x.txt", Kind: 'f', Tok: "IDIRX"},
	{Path: "/idir/index.htm", Kind: 'f', Tok: "IDIR"},
	{Path: "/hdir", Kind: 'd'}, // hidden directory (`internal /hdir`): not listed, not archived, nothing below it archived
	{Path: "/hdir/in.txt", Kind: 'f', Tok: "HDIRIN"},
	{Path: "/hidx", Kind: 'd'},
	{Path: "/hidx/index.html", Kind: 'f', Tok: "HIDX"},
	{Path: "/hidx/index.htm", Kind: 'f', Tok: "HIDXB"},
	{Path: "/sp ace.txt", Kind: 'f', Tok: "SP"},
	{Path: "/\xc3\xa9.txt", Kind: 'f', Tok: "U"},
	{Path: "/b\\s.txt", Kind: 'f', Tok: "BS"},
	{Path: "/.dot", Kind: 'f', Tok: "DOT"},
	{Path: "/pc%41.txt", Kind: 'f', Tok: "PC"},
	{Path: "/empty", Kind: 'd'},
	{Path: "/sub2", Kind: 'd'},
	{Path: "/sub2/Casketfile", Kind: 'f', Tok: "SUBCASKET"},
	{Path: "/x", Kind: 'd'},
	{Path: "/x/Casketfile", Kind: 'f', Tok: "XCASKET"},
	{Path: "/links", Kind: 'd'},
	{Path: "/links/plain.txt", Kind: 'f', Tok: "PLAIN"},
	{Path: "/links/hard-casket", Kind: 'h', To: "/Casketfile"},
	{Path: "/links/hard-a", Kind: 'h', To: "/a.txt"},
}

// the hide list the sites end up with: hideCasketfile's entry first, then the `internal` paths
var c02Internal = []string{"/secret.txt", "/hsib.txt.gz", "/hidx/index.html", "/hdir"}

func c02Hide() []string { return c02HideOf("static") }

// c02Origin is where a site kind claims its configuration was loaded from, relative to the
// fixture's base directory: inside the root (hidden by hideCasketfile), in a sub-directory of the
// root, outside the root, and in a sibling directory whose name extends the root's (rootx).
func c02Origin(site string) string {
	switch site {
	case "origin-sub":
		return "root/sub2/Casketfile"
	case "origin-out":
		return "outside/Casketfile"
	case "origin-rootx":
		return "rootx/Casketfile"
	}
	return "root/Casketfile"
}

// c02HideOf is the hide list of a site kind as hideCasketfile computes it (string prefix test on
// the absolute paths, then TrimPrefix), followed by the `internal` paths.
func c02HideOf(site string) []string {
	var out []string
	if o := c02Origin(site); strings.HasPrefix(o, "root") {
		out = append(out, strings.TrimPrefix(o, "root"))
	}
	return append(out, c02Internal...)
}

const (
	c02OutsideID = 1 // tokens of files outside the root
	c02UnknownID = 2 // a TOK…z9q run that is not in the table
)

var c02OutsideToks = []string{"OUTSIDE", "ROOTX", "ROOTTXT"}

func c02TokText(name string) string { return "TOK" + name + "z9q" }

func c02All() []c02Ent {
	all := append([]c02Ent{}, c02Table...)
	sort.Slice(all, func(i, j int) bool { return all[i].Path < all[j].Path })
	return all
}

// c02Node is the model's view of an entry: cleaned path, directory bit, identity (what
// os.SameFile compares; hard links share it).
type c02Node struct {
	Path string
	Dir  bool
	ID   uint64
}

// c02Nodes derives identities from the table: every entry gets its own identity (10 + index in
// path order), a hard link has its target's.
func c02Nodes() []c02Node {
	all := c02All()
	own := map[string]uint64{}
	for i, e := range all {
		own[e.Path] = uint64(10 + i)
	}
	var out []c02Node
	for _, e := range all {
		n := c02Node{Path: e.Path, Dir: e.Kind == 'd', ID: own[e.Path]}
		if e.Kind == 'h' {
			n.ID = own[e.To]
		}
		out = append(out, n)
	}
	return out
}

func c02TokIDs() map[string]uint64 {
	m := map[string]uint64{}
	all := c02All()
	for i, e := range all {
		if e.Tok != "" {
			m[c02TokText(e.Tok)] = uint64(10 + i)
		}
	}
	for _, t := range c02OutsideToks {
		m[c02TokText(t)] = c02OutsideID
	}
	return m
}

func c02Encode(enc, s string) string {
	switch enc {
	case "gz":
		return string(c18Gzip([]byte(s)))
	case "br":
		return string(c18Brotli([]byte(s)))
	case "zst":
		return string(c18Zstd([]byte(s)))
	}
	return s
}

type c02Fix struct {
	base, root string
	err        string
}

var c02F *c02Fix

func c02Fixture() *c02Fix {
	if c02F != nil {
		return c02F
	}
	// fixtures of dead harness processes
	if old, _ := filepath.Glob("/var/tmp/verif-C02-fix-*"); len(old) > 0 {
		for _, d := range old {
			pid, _ := strconv.Atoi(strings.TrimPrefix(filepath.Base(d), "verif-C02-fix-"))
			if pid <= 0 || syscall.Kill(pid, 0) != nil {
				os.RemoveAll(d)
			}
		}
	}
	base := fmt.Sprintf("/var/tmp/verif-C02-fix-%d", os.Getpid())
	os.RemoveAll(base)
	root := filepath.Join(base, "root")
	f := &c02Fix{base: base, root: root}
	c02F = f
	fail := func(err error) *c02Fix { f.err = err.Error(); return f }
	all := c02All()
	for _, e := range all {
		p := filepath.Join(root, filepath.FromSlash(e.Path))
		var err error
		switch e.Kind {
		case 'd':
			err = os.MkdirAll(p, 0o755)
		case 'f':
			content := c02TokText(e.Tok)
			if e.Path == "/Casketfile" {
				content = "# " + content + "\n"
			} else if strings.HasSuffix(e.Path, ".html") {
				content = "<html>" + content + "</html>"
			}
			err = os.WriteFile(p, []byte(c02Encode(e.Enc, content)), 0o644)
		}
		if err != nil {
			return fail(err)
		}
	}
	for _, e := range all { // links after their targets
		p := filepath.Join(root, filepath.FromSlash(e.Path))
		var err error
		switch e.Kind {
		case 'h':
			err = os.Link(filepath.Join(root, filepath.FromSlash(e.To)), p)
		}
		if err != nil {
			return fail(err)
		}
	}
	if err := writeFixture(base, map[string]string{
		"outside/o.txt": c02TokText("OUTSIDE"), "rootx/x.txt": c02TokText("ROOTX"), "root.txt": c02TokText("ROOTTXT"),
		"outside/Casketfile": "# " + c02TokText("OUTSIDE") + "\n",
	}); err != nil {
		return fail(err)
	}
	// a reaper removes the fixture when this process is gone (however it ends)
	reap := exec.Command("sh", "-c", fmt.Sprintf("while kill -0 %d 2>/dev/null; do sleep 1; done; rm -rf %s", os.Getpid(), base))
	reap.SysProcAttr = &syscall.SysProcAttr{Setsid: true}
	reap.Start()
	if msg := c02VerifyDisk(root); msg != "" {
		f.err = "fixture on disk differs from the table: " + msg
	}
	return f
}

// c02VerifyDisk re-reads the tree (kinds and stat identities; a symlink anywhere is an error)
// and compares its shape with c02Nodes(): same paths, same directory bits, same identity partition.
func c02VerifyDisk(root string) string {
	want := c02Nodes()
	type dn struct {
		dir bool
		ino uint64
	}
	got := map[string]dn{}
	err := filepath.Walk(root, func(p string, li os.FileInfo, err error) error {
		if err != nil {
			return err
		}
		if !li.IsDir() && !li.Mode().IsRegular() {
			return fmt.Errorf("%s is neither a directory nor a regular file", p)
		}
		rel, _ := filepath.Rel(root, p)
		jp := "/" + filepath.ToSlash(rel)
		if rel == "." {
			jp = "/"
		}
		got[jp] = dn{dir: li.IsDir(), ino: li.Sys().(*syscall.Stat_t).Ino}
		return nil
	})
	if err != nil {
		return err.Error()
	}
	if len(got) != len(want) {
		return fmt.Sprintf("%d entries on disk, %d in the table", len(got), len(want))
	}
	ino2id := map[uint64]uint64{}
	id2ino := map[uint64]uint64{}
	for _, n := range want {
		g, ok := got[n.Path]
		if !ok {
			return "missing " + n.Path
		}
		if x, ok := ino2id[g.ino]; ok && x != n.ID {
			return "identity of " + n.Path
		}
		if x, ok := id2ino[n.ID]; ok && x != g.ino {
			return "identity of " + n.Path
		}
		ino2id[g.ino], id2ino[n.ID] = n.ID, g.ino
		if g.dir != n.Dir {
			return "kind of " + n.Path
		}
	}
	return ""
}

// ---------------------------------------------------------------------------------------------
// sites

var c02SiteKinds = []string{"static", "browse", "scoped"}
var c02OriginKinds = []string{"origin-sub", "origin-out", "origin-rootx"}

// browse configuration of a site kind: scope and archive types ("" = no browse)
func c02Browse(site string) (scope string, types []string) {
	switch site {
	case "browse":
		return "/", c02ArchiveTypes
	case "scoped":
		return "/dir", []string{"zip", "tar.gz"}
	case "prefix-browse":
		return "/", nil
	case "origin-sub", "origin-out", "origin-rootx":
		return "/", []string{"zip"}
	}
	return "", nil
}

var c02ArchiveTypes = []string{"zip", "tar", "tar.gz", "tar.xz", "tar.br", "tar.bz2", "tar.lz4", "tar.sz", "tar.zst"}

var c02Sites = map[string]*liveSite{}

func c02Site(kind string) (*liveSite, error) {
	if s, ok := c02Sites[kind]; ok {
		return s, nil
	}
	fx := c02Fixture()
	if fx.err != "" {
		return nil, fmt.Errorf("%s", fx.err)
	}
	httpserver.CaseSensitivePath = false
	body := "root " + fx.root + "\n"
	for _, p := range c02Internal {
		body += "internal " + p + "\n"
	}
	switch kind {
	case "browse":
		body += "browse / {\n servearchive\n}\n"
	case "scoped":
		body += "browse /dir {\n servearchive zip tar.gz\n}\n"
	case "origin-sub", "origin-out", "origin-rootx":
		body += "browse / {\n servearchive zip\n}\n"
	}
	casket.Quiet = true
	text := "127.0.0.1:0 {\n" + body + "}\n"
	if kind == "prefix" || kind == "prefix-browse" { // a site with a path prefix
		if kind == "prefix-browse" {
			body += "browse /\n"
		}
		text = "127.0.0.1:0/pre {\n" + body + "}\n"
	}
	inst, err := casket.Start(casket.CasketfileInput{Contents: []byte(text), Filepath: filepath.Join(fx.base, c02Origin(kind)), ServerTypeName: "http"})
	if err != nil {
		return nil, err
	}
	srvs := inst.Servers()
	if len(srvs) == 0 {
		inst.Stop()
		return nil, fmt.Errorf("no servers")
	}
	_, port, _ := net.SplitHostPort(srvs[0].Addr().String())
	s := &liveSite{inst: inst, addr: "127.0.0.1:" + port, text: body}
	c02Sites[kind] = s
	return s, nil
}

// ---------------------------------------------------------------------------------------------
// observation

type c02In struct {
	Site   string `json:"site"`   // static | browse | scoped
	Method string `json:"method"` // GET HEAD POST OPTIONS PROPFIND
	Target string `json:"target"` // raw request-target (path, may carry ?query)
	AE     string `json:"ae,omitempty"`
	JSON   bool   `json:"json,omitempty"` // Accept: application/json
}

type c02Member struct {
	Name string
	Dir  bool
	Data []byte
}

type c02Obs struct {
	Status  int      `json:"status"`
	Loc     string   `json:"location,omitempty"`
	CE      string   `json:"ce,omitempty"`
	CT      string   `json:"ct,omitempty"`
	Kind    int      `json:"kind"` // 0 plain, 1 listing, 2 archive
	IDs     []uint64 `json:"ids,omitempty"`
	Toks    []string `json:"tokens,omitempty"`
	Names   []string `json:"names,omitempty"`
	BodyLen int      `json:"len"`
	Err     string   `json:"err,omitempty"`
	Note    string   `json:"note,omitempty"`
}

var c02TokRe = regexp.MustCompile(`TOK[A-Z0-9]+z9q`)

// c02Scan collects the tokens visible in b itself and in every decoding of b a client could apply.
func c02Scan(b []byte, into map[string]bool) {
	for _, m := range c02TokRe.FindAll(b, -1) {
		into[string(m)] = true
	}
	for _, coding := range []string{"gzip", "br", "zstd"} {
		if d, _, ok := c18Decode(coding, b); ok && len(d) > 0 {
			for _, m := range c02TokRe.FindAll(d, -1) {
				into[string(m)] = true
			}
		}
	}
}

func c02Untar(r io.Reader) ([]c02Member, bool) {
	tr := tar.NewReader(r)
	var out []c02Member
	for {
		h, err := tr.Next()
		if err == io.EOF {
			return out, true
		}
		if err != nil {
			return out, false
		}
		d, _ := io.ReadAll(tr)
		out = append(out, c02Member{Name: h.Name, Dir: h.Typeflag == tar.TypeDir, Data: d})
	}
}

func c02Unarchive(kind string, b []byte) ([]c02Member, bool) {
	rd := bytes.NewReader(b)
	switch kind {
	case "zip":
		zr, err := zip.NewReader(rd, int64(len(b)))
		if err != nil {
			return nil, false
		}
		var out []c02Member
		for _, f := range zr.File {
			m := c02Member{Name: f.Name, Dir: f.FileInfo().IsDir()}
			if rc, err := f.Open(); err == nil {
				m.Data, _ = io.ReadAll(rc)
				rc.Close()
			}
			out = append(out, m)
		}
		return out, true
	case "tar":
		return c02Untar(rd)
	case "tar.gz":
		zr, err := gzip.NewReader(rd)
		if err != nil {
			return nil, false
		}
		return c02Untar(zr)
	case "tar.bz2":
		return c02Untar(bzip2.NewReader(rd))
	case "tar.xz":
		xr, err := xz.NewReader(rd)
		if err != nil {
			return nil, false
		}
		return c02Untar(xr)
	case "tar.br":
		return c02Untar(brotli.NewReader(rd))
	case "tar.lz4":
		return c02Untar(lz4.NewReader(rd))
	case "tar.sz":
		return c02Untar(snappy.NewReader(rd))
	case "tar.zst":
		zr, err := zstd.NewReader(rd)
		if err != nil {
			return nil, false
		}
		defer zr.Close()
		return c02Untar(zr)
	}
	return nil, false
}

var c02MimeToType = map[string]string{
	"application/zip": "zip", "application/tar": "tar", "application/tar+gzip": "tar.gz", "application/tar+xz": "tar.xz",
	"application/tar+brotli": "tar.br", "application/tar+bzip2": "tar.bz2", "application/tar+lz4": "tar.lz4",
	"application/tar+snappy": "tar.sz", "application/tar+zstd": "tar.zst",
}

var c02NameRe = regexp.MustCompile(`<span class="name">([^<]*)</span>`)

func c02Do(in *c02In) (c02Obs, error) {
	st, err := c02Site(in.Site)
	if err != nil {
		return c02Obs{}, err
	}
	hdr := map[string]string{}
	if in.AE != "" {
		hdr["Accept-Encoding"] = in.AE
	}
	if in.JSON {
		hdr["Accept"] = "application/json"
	}
	resp := doRaw(st.addr, in.Method, in.Target, hdr, nil)
	o := c02Obs{Status: resp.Status, BodyLen: len(resp.Body), Err: resp.Err}
	if resp.Header != nil {
		o.Loc = resp.Header.Get("Location")
		o.CE = resp.Header.Get("Content-Encoding")
		o.CT = resp.Header.Get("Content-Type")
	}
	toks := map[string]bool{}
	body := resp.Body
	// what the client decodes
	if o.CE != "" {
		if d, known, ok := c18Decode(strings.ToLower(strings.TrimSpace(o.CE)), body); known && ok {
			c02Scan(d, toks)
		} else {
			o.Note = "body does not decode as " + o.CE
		}
	}
	c02Scan(body, toks)
	ct := o.CT
	if i := strings.Index(ct, ";"); i >= 0 {
		ct = ct[:i]
	}
	if at, ok := c02MimeToType[ct]; ok && resp.Status == 200 && in.Site != "static" && in.Method != "HEAD" {
		members, complete := c02Unarchive(at, body)
		o.Kind = 2
		if !complete {
			o.Note = "archive truncated or unreadable"
		}
		for _, m := range members {
			name := strings.TrimSuffix(m.Name, "/")
			if p, _, _ := c02Split(in.Target); path.Clean("/"+p) != "/" {
				// members are named <directory name>/<relative path>; the root's have no such folder
				if i := strings.Index(name, "/"); i >= 0 {
					name = name[i+1:]
				} else {
					name = ""
				}
			}
			if name != "" {
				o.Names = append(o.Names, name)
			}
			c02Scan(m.Data, toks)
		}
	} else if resp.Status == 200 && in.Site != "static" && in.Method != "HEAD" {
		if ct == "application/json" {
			var items []struct{ Name string }
			if json.Unmarshal(body, &items) == nil {
				o.Kind = 1
				for _, it := range items {
					o.Names = append(o.Names, it.Name)
				}
			}
		} else if ct == "text/html" && bytes.Contains(body, []byte(`id="filter"`)) {
			o.Kind = 1
			for _, m := range c02NameRe.FindAllSubmatch(body, -1) {
				o.Names = append(o.Names, html.UnescapeString(string(m[1])))
			}
		}
	}
	sort.Strings(o.Names)
	ids := c02TokIDs()
	seen := map[uint64]bool{}
	for t := range toks {
		o.Toks = append(o.Toks, t)
		id, ok := ids[t]
		if !ok {
			id = c02UnknownID
		}
		if !seen[id] {
			seen[id] = true
			o.IDs = append(o.IDs, id)
		}
	}
	sort.Strings(o.Toks)
	sort.Slice(o.IDs, func(i, j int) bool { return o.IDs[i] < o.IDs[j] })
	return o, nil
}

// c02Split separates the request-target into the decoded path net/http hands to the handlers
// and the raw query; ok=false if net/http rejects the target.
func c02Split(target string) (p, query string, ok bool) {
	raw := target
	if i := strings.Index(raw, "?"); i >= 0 {
		raw, query = raw[:i], raw[i+1:]
	}
	var sb strings.Builder
	hv := func(c byte) int {
		switch {
		case c >= '0' && c <= '9':
			return int(c - '0')
		case c >= 'a' && c <= 'f':
			return int(c-'a') + 10
		case c >= 'A' && c <= 'F':
			return int(c-'A') + 10
		}
		return -1
	}
	for i := 0; i < len(raw); i++ {
		if raw[i] == '%' {
			if i+2 >= len(raw) || hv(raw[i+1]) < 0 || hv(raw[i+2]) < 0 {
				return "", "", false
			}
			sb.WriteByte(byte(hv(raw[i+1])*16 + hv(raw[i+2])))
			i += 2
		} else {
			sb.WriteByte(raw[i])
		}
	}
	return sb.String(), query, true
}

// c02PrefixPath is the request path the handlers of the site 127.0.0.1:0/pre see: net/http's
// parse of the request-target, then httpserver.trimPathPrefix (TrimPrefix on the escaped path,
// re-parsed with url.ParseRequestURI, i.e. as a path even if it begins with "//").
func c02PrefixPath(target string) (string, bool) {
	u, err := url.ParseRequestURI(target)
	if err != nil {
		return "", false
	}
	trimmed := strings.TrimPrefix(u.EscapedPath(), "/pre")
	if !strings.HasPrefix(trimmed, "/") {
		trimmed = "/" + trimmed
	}
	uri := trimmed
	if u.RawQuery != "" || u.ForceQuery {
		uri += "?" + u.RawQuery
	}
	t, err := url.ParseRequestURI(uri)
	if err != nil {
		return u.Path, true
	}
	return t.Path, true
}

// c02PrefixMatches: the vhost trie of the server matches the site 127.0.0.1:0/pre iff the decoded
// request path starts with "/pre" (byte-wise).
func c02PrefixMatches(target string) bool {
	u, err := url.ParseRequestURI(target)
	return err == nil && strings.HasPrefix(u.Path, "/pre")
}

func c02EscapedPath(target string) string {
	u, err := url.ParseRequestURI(target)
	if err != nil {
		return target
	}
	return u.EscapedPath()
}

func c02QueryGet(query, key string) string {
	v, _ := url.ParseQuery(query) // what r.URL.Query() does
	return v.Get(key)
}

func c02MethodCode(m string) uint64 {
	switch m {
	case "GET":
		return 0
	case "HEAD":
		return 1
	case "OPTIONS":
		return 2
	case "PROPFIND":
		return 3
	}
	return 4
}

func c02Run(in0 interface{}) Result {
	in := in0.(*c02In)
	skip := func(class, why string) Result {
		return Result{Term: "CSkip", Obs: why, Class: class, Sig: class}
	}
	p, query, ok := c02Split(in.Target)
	prefixSite := strings.HasPrefix(in.Site, "prefix")
	if prefixSite {
		p, ok = c02PrefixPath(in.Target)
	}
	o, err := c02Do(in)
	if err != nil {
		r := skip("start-error", err.Error())
		r.Direct = "site did not start / fixture unusable: " + err.Error()
		return r
	}
	if !ok || o.Status == 400 || o.Status == 0 {
		return Result{Term: "CSkip", Obs: o, Class: "rejected-by-net-http", Sig: "rejected-by-net-http"}
	}
	scope, types := c02Browse(in.Site)
	loc := o.Loc
	if i := strings.Index(loc, "?"); i >= 0 {
		loc = loc[:i]
	}
	req := cApp("mkreq", cN(c02MethodCode(in.Method)), cStr(p), cStr(in.AE), cStr(c02QueryGet(query, "archive")))
	fx := c02Fixture()
	sitePrefix := "/"
	if prefixSite {
		sitePrefix = "/pre"
	}
	site := cApp("mksite", cStr(fx.root), cStr(filepath.Join(fx.base, c02Origin(in.Site))), cStr(sitePrefix), cStr(scope), cStrList(types))
	ob := cApp("mkobs", cN(uint64(o.Status)), cStr(loc), cStr(o.CE), cN(uint64(o.Kind)), cNList(o.IDs), cStrList(o.Names))
	if prefixSite {
		sig := c02Sig(in, p, query)
		if strings.HasPrefix(p, "//") || strings.HasPrefix(strings.TrimPrefix(c02EscapedPath(in.Target), "/pre"), "//") {
			sig = "prefix-site:rest-after-prefix-starts-with-two-slashes"
		}
		term := cApp("CReq", site, req, ob)
		if !c02PrefixMatches(in.Target) {
			// the request path does not start with the site's path prefix: the server answers "no such
			// site" (vhost matching is C01's subject); judged against the executable property only
			term = cApp("CContract", site, req, ob)
		}
		return Result{Term: term, Obs: o, Sig: sig, Nontrivial: o.Status == 200 || o.Status/100 == 3,
			Key: in.Site + "|" + in.Method + "|" + in.Target + "|" + in.AE, Class: fmt.Sprintf("%s:%s:%d:k%d", in.Site, in.Method, o.Status, o.Kind)}
	}
	sig := c02Sig(in, p, query)
	for _, id := range o.IDs {
		if id == c02OutsideID || id == c02UnknownID {
			sig += ":token-from-outside-the-root"
			break
		}
	}
	return Result{Term: cApp("CReq", site, req, ob), Obs: o, Sig: sig, Nontrivial: o.Status == 200 || o.Status/100 == 3,
		Key: in.Site + "|" + in.Method + "|" + in.Target + "|" + in.AE + fmt.Sprint(in.JSON), Class: fmt.Sprintf("%s:%s:%d:k%d", in.Site, in.Method, o.Status, o.Kind)}
}

// c02Sig is the class of the INPUT (site kind, what the cleaned path names, what is asked for).
func c02Sig(in *c02In, p, query string) string {
	c := path.Clean("/" + p)
	nodes := c02Nodes()
	var at *c02Node
	for i := range nodes {
		if nodes[i].Path == c {
			at = &nodes[i]
		}
	}
	hiddenID := map[uint64]bool{}
	for _, h := range c02HideOf(in.Site) {
		for _, n := range nodes {
			if n.Path == path.Clean("/"+h) { // hide entries are opened through the jail
				hiddenID[n.ID] = true
			}
		}
	}
	scope, _ := c02Browse(in.Site)
	inScope := scope != "" && (scope == "/" || strings.HasPrefix(strings.ToLower(c), scope))
	get := in.Method == "GET" || in.Method == "HEAD"
	switch {
	case at == nil:
		return in.Site + ":no-such-file"
	case at.Dir && inScope && get && !strings.HasSuffix(p, "/") && strings.HasPrefix(p, "//") && !strings.HasPrefix(p, "///"):
		return "browse:dir-redirect:path-starts-with-two-slashes"
	case at.Dir && inScope && get && strings.HasSuffix(p, "/") && c02QueryGet(query, "archive") != "":
		for _, n := range nodes {
			if strings.HasPrefix(n.Path, strings.TrimSuffix(c, "/")+"/") && hiddenID[n.ID] {
				return "browse:archive:directory-with-hidden-descendant"
			}
		}
		return "browse:archive"
	case at.Dir:
		return in.Site + ":dir"
	}
	// a file: does an accepted precompressed sibling exist that is itself hidden?
	for _, e := range [][2]string{{"zstd", ".zst"}, {"br", ".br"}, {"gzip", ".gz"}} {
		acc := false
		for _, t := range strings.Split(in.AE, ",") {
			if strings.TrimSpace(t) == e[0] {
				acc = true
			}
		}
		if !acc {
			continue
		}
		for _, n := range nodes {
			if n.Path == c+e[1] && hiddenID[n.ID] && !hiddenID[at.ID] {
				return "static:file-with-hidden-precompressed-sibling"
			}
			if n.Path == c+e[1] && n.Dir && !hiddenID[at.ID] {
				return "static:file-with-directory-named-like-precompressed-sibling"
			}
		}
	}
	if hiddenID[at.ID] {
		return in.Site + ":hidden-file"
	}
	return in.Site + ":file"
}

// ---------------------------------------------------------------------------------------------
// generator

const c02Hex = "0123456789abcdef0123456789ABCDEF"

// c02Render spells a list of decoded segments as a raw request-target path: bytes that cannot
// travel literally are always percent-encoded, others (dots, slashes, letters) with probability enc%.
func c02Render(r *Rand, segs []string, trailing bool, enc int) string {
	var sb strings.Builder
	esc := func(c byte) {
		k := 0
		if r.Bool() {
			k = 16
		}
		sb.WriteByte('%')
		sb.WriteByte(c02Hex[k+int(c>>4)])
		sb.WriteByte(c02Hex[k+int(c&15)])
	}
	put := func(c byte) {
		switch {
		case c <= 0x20 || c == 0x7f || c == '%' || c == '?' || c == '#':
			esc(c)
		case c >= 0x80 && r.Chance(70):
			esc(c)
		case r.Chance(enc):
			esc(c)
		default:
			sb.WriteByte(c)
		}
	}
	for _, s := range segs {
		if r.Chance(enc / 2) {
			sb.WriteString(r.Pick([]string{"%2f", "%2F"})) // decodes to a separator in r.URL.Path
		} else {
			sb.WriteByte('/')
		}
		for i := 0; i < len(s); i++ {
			put(s[i])
		}
	}
	if trailing || len(segs) == 0 {
		sb.WriteByte('/')
	}
	return sb.String()
}

func c02FlipCase(r *Rand, s string) string {
	b := []byte(s)
	var idx []int
	for i, c := range b {
		if (c >= 'a' && c <= 'z') || (c >= 'A' && c <= 'Z') {
			idx = append(idx, i)
		}
	}
	if len(idx) == 0 {
		return s
	}
	i := idx[r.Intn(len(idx))]
	b[i] ^= 0x20
	return string(b)
}

// c02Mutate applies one adversarial respelling to a list of segments.
func c02Mutate(r *Rand, segs []string) []string {
	ins := func(at int, what ...string) []string {
		out := append([]string{}, segs[:at]...)
		out = append(out, what...)
		return append(out, segs[at:]...)
	}
	at := r.Intn(len(segs) + 1)
	switch r.Intn(12) {
	case 0:
		return ins(at, ".")
	case 1:
		return ins(at, "")
	case 2:
		return ins(at, r.Pick([]string{"x", "dir", "a.txt", "evil.example", "Casketfile", ".."}), "..")
	case 3:
		return ins(0, "", "")
	case 4:
		return ins(0, "", r.Pick([]string{"evil.example", "evil.example:80", "@evil.example", "\\evil.example"}), "..")
	case 5:
		return ins(0, "..")
	case 6:
		if len(segs) > 0 {
			i := r.Intn(len(segs))
			out := append([]string{}, segs...)
			out[i] = c02FlipCase(r, out[i])
			return out
		}
	case 7: // a backslash instead of a separator
		if len(segs) > 1 {
			i := r.Intn(len(segs) - 1)
			out := append([]string{}, segs[:i]...)
			out = append(out, segs[i]+"\\"+segs[i+1])
			return append(out, segs[i+2:]...)
		}
	case 8:
		return ins(len(segs), r.Pick([]string{".", "..", "x"}))
	case 9:
		return ins(at, "..", r.Pick([]string{"root", "rootx", "outside"}))
	case 10:
		return ins(0, r.Pick([]string{"\\", "\\evil.example", "..\\..", "\x00"}))
	}
	return segs
}

var c02AEs = []string{"", "", "", "gzip", "br", "zstd", "gzip, br", "zstd, gzip", "br,zstd", "zstd,br,gzip", "gzip, br, zstd", "br;q=1.0, gzip", " gzip ", "GZIP",
	"gzip;q=0", "x-gzip", "*", "identity", "deflate, gzip", "gzip,", ",br", "zstd ,\tbr", "gzipx", "br, br", "xbr", "notzstd", "bro", "gzip2, zstdx", "Br", "ZSTD"}

func c02PickMethod(r *Rand) string {
	switch k := r.Intn(100); {
	case k < 68:
		return "GET"
	case k < 88:
		return "HEAD"
	case k < 92:
		return "POST"
	case k < 96:
		return "OPTIONS"
	}
	return "PROPFIND"
}

func c02PickQuery(r *Rand, site string) string {
	types := append(append([]string{}, c02ArchiveTypes...), "rar", "ZIP", "tar.gz%20", "%7Aip", "")
	switch k := r.Intn(100); {
	case k < 30:
		return ""
	case k < 65:
		return "?archive=" + r.Pick(types)
	case k < 75:
		return "?archive=" + r.Pick([]string{"zip", "tar.gz"})
	case k < 90:
		return "?sort=" + r.Pick([]string{"name", "namedirfirst", "size", "time", "bogus"}) + "&order=" + r.Pick([]string{"asc", "desc", "x"})
	case k < 95:
		return "?sort=" + r.Pick([]string{"name", "size", "time"}) + "&order=desc&archive=" + r.Pick(types)
	}
	return "?x=//evil.example/&y=%2f"
}

func c02Gen(r *Rand, tier string) []interface{} {
	var out []interface{}
	add := func(site, method, target, ae string, js bool) {
		out = append(out, &c02In{Site: site, Method: method, Target: target, AE: ae, JSON: js})
	}
	thorough := tier == "thorough"
	all := c02All()
	var dirs, files []string
	for _, e := range all {
		if e.Kind == 'd' {
			dirs = append(dirs, e.Path)
		} else {
			files = append(files, e.Path)
		}
	}
	segsOf := func(p string) []string {
		if p == "/" {
			return nil
		}
		return strings.Split(strings.TrimPrefix(p, "/"), "/")
	}

	// (1) exhaustive over the adversarial segment alphabet, static GET (depth 2; depth 3 sampled / full)
	alpha := []string{"a.txt", "dir", ".", "..", "", "%2e", "%2E%2e", "%2f", "\\", "%5c", "A.TXT", "Casketfile", "x"}
	var enum func(prefix string, depth int)
	enum = func(prefix string, depth int) {
		for _, a := range alpha {
			t := prefix + "/" + a
			if depth <= 2 || thorough || r.Chance(12) {
				add("static", "GET", t, "", false)
				add("static", "GET", t+"/", "", false)
			}
			if (depth <= 2 && r.Chance(50)) || (thorough && r.Chance(40)) {
				add("browse", "GET", t+r.Pick([]string{"", "/", "/?archive=zip", "/?archive=tar.gz"}), "", r.Chance(20))
			}
			if depth < 3 {
				enum(t, depth+1)
			}
		}
	}
	enum("", 1)

	// (2) directed: every directory x every archive type, listings x sort x json, on both browse sites
	for _, d := range dirs {
		t := c02Render(r, segsOf(d), true, 0)
		for _, at := range append(append([]string{}, c02ArchiveTypes...), "rar") {
			if thorough || d == "/" || d == "/links" || r.Chance(25) {
				add("browse", "GET", t+"?archive="+at, "", false)
			}
		}
		add("scoped", "GET", t+"?archive=zip", "", false)
		add("browse", "HEAD", t+"?archive=tar", "", false)
		for _, q := range []string{"", "?sort=name&order=desc", "?sort=size&order=asc", "?sort=time&order=desc", "?sort=namedirfirst"} {
			add("browse", "GET", t+q, "", false)
			add("browse", "GET", t+q, "", true)
		}
		add("scoped", "GET", t, "", r.Bool())
		add("browse", "GET", c02Render(r, segsOf(d), false, 0), "", false)
		add("static", "GET", c02Render(r, segsOf(d), false, 0), "", false)
	}
	// open-redirect shapes: k leading slashes, a foreign first segment cancelled by "..", directory / file-with-slash targets
	for k := 1; k <= 5; k++ {
		lead := strings.Repeat("/", k)
		for _, host := range []string{"evil.example", "evil.example:8080", "\\evil.example", "%5cevil.example", "@evil.example", "evil.example%2f.."} {
			for _, tail := range []string{"/..", "/%2e%2e", "/../dir", "/../dir/sub", "/../a.txt/", "/%2e%2e/dir/c.txt/", "/../Casketfile/", "/..//dir", "/../idx"} {
				if !thorough && !r.Chance(40) {
					continue
				}
				for _, site := range c02SiteKinds {
					add(site, r.Pick([]string{"GET", "GET", "HEAD"}), lead+host+tail, "", false)
				}
			}
		}
		add("static", "GET", lead+"dir", "", false)
		add("browse", "GET", lead+"dir", "", false)
		add("scoped", "GET", lead+"dir"+lead+"sub", "", false)
		add("static", "GET", lead+"a.txt/", "", false)
		add("browse", "GET", lead+"a.txt/?archive=zip", "", false)
	}
	// every file x every Accept-Encoding subset (order varied), GET and HEAD
	encs := []string{"gzip", "br", "zstd"}
	for _, f := range files {
		for mask := 0; mask < 8; mask++ {
			if !thorough && mask != 0 && mask != 7 && !strings.Contains(f, ".txt") && !r.Chance(30) {
				continue
			}
			var toks []string
			for _, i := range r.Perm(3) {
				if mask&(1<<i) != 0 {
					toks = append(toks, encs[i])
				}
			}
			add(r.Pick(c02SiteKinds), r.Pick([]string{"GET", "GET", "GET", "HEAD"}), c02Render(r, segsOf(f), false, 0), strings.Join(toks, r.Pick([]string{",", ", ", " , "})), false)
		}
	}

	// every file that has a precompressed sibling (or whose index page has) x every Accept-Encoding
	// spelling incl. the decoys that must NOT select a sibling (substring, case, q-values, x-gzip, *)
	for _, f := range []string{"/a.txt", "/b.txt", "/dir/c.txt", "/dir/sub/d.txt", "/idx/index.html", "/idx/", "/hsib.txt", "/dir/e", "/./a.txt", "/dir/../b.txt"} {
		for _, ae := range c02AEs[2:] {
			if thorough || r.Chance(60) {
				add(r.Pick(c02SiteKinds), r.Pick([]string{"GET", "GET", "GET", "HEAD"}), f, ae, false)
			}
		}
	}

	// sites with a path prefix (127.0.0.1:0/pre): the rest after the prefix is re-parsed by the server
	for _, site := range []string{"prefix", "prefix-browse"} {
		for _, t := range []string{"/a.txt", "/dir", "/dir/", "/a.txt/", "/Casketfile", "/./Casketfile", "/links/hard-casket", "/hsib.txt", "/idx/", "/../outside/o.txt", "/%2e%2e/root.txt", "",
			"//evil.example/..", "//evil.example/../dir", "//evil.example/%2e%2e/a.txt/", "///evil.example/../dir", "//dir", "//dir/sub", "/%2fevil.example/..", "/\\evil.example/../dir", "/%5cevil.example/../dir"} {
			add(site, "GET", "/pre"+t, r.Pick([]string{"", "gzip"}), false)
		}
		add(site, "GET", "/a.txt", "", false)
		add(site, "GET", "/pre%2fdir", "", false)
		add(site, "GET", "/pre/..%2fpre/dir", "", false)
	}

	// sites whose origin Casketfile lies elsewhere: in a sub-directory of the root, outside the root,
	// in a sibling directory whose name has the root's as a prefix
	for _, site := range c02OriginKinds {
		for _, t := range []string{"/Casketfile", "/sub2/Casketfile", "/x/Casketfile", "/sub2/./Casketfile", "/x/../sub2/Casketfile/.", "/links/hard-casket", "/", "/sub2/", "/x/",
			"/?archive=zip", "/sub2/?archive=zip", "/x/?archive=zip", "/secret.txt", "/a.txt", "/../outside/Casketfile", "/../rootx/Casketfile"} {
			add(site, "GET", t, r.Pick([]string{"", "gzip"}), r.Chance(30))
		}
	}

	// (3) random respellings of fixture paths and of paths aimed outside the root
	n := 1100
	if thorough {
		n = 22000
	}
	extra := []string{"/x/Casketfile", "/sub2/Casketfile", "/nope", "/dir/nope.txt", "/../outside/o.txt", "/../rootx/x.txt", "/../root.txt", "/../outside/Casketfile", "/dir/../../outside/o.txt", "/CASKETFILE", "/casketfile",
		"/Secret.txt", "/SECRET.TXT", "/hsib.txt.GZ", "/HIDX/", "/hidx/INDEX.HTML", "/a.txt.gz", "/a.txt.zst/", "/dir/e.gz", "/idir/index.html", "/up.txt", "/DIR/c.txt", "/sub2/casketfile"}
	for i := 0; i < n; i++ {
		var p string
		switch k := r.Intn(100); {
		case k < 45:
			p = r.Pick(files)
		case k < 75:
			p = r.Pick(dirs)
		case k < 85:
			p = r.Pick(c02Hide())
		default:
			p = r.Pick(extra)
		}
		segs := segsOf(p)
		for k := r.Intn(4); k > 0; k-- {
			segs = c02Mutate(r, segs)
		}
		trailing := strings.HasSuffix(p, "/") || r.Chance(25)
		enc := 0
		if r.Chance(50) {
			enc = []int{4, 15, 40}[r.Intn(3)]
		}
		target := c02Render(r, segs, trailing, enc)
		site := r.Pick(c02SiteKinds)
		if r.Chance(8) {
			site = r.Pick([]string{"prefix", "prefix-browse"})
			target = "/pre" + target
		} else if r.Chance(8) {
			site = r.Pick(c02OriginKinds)
		}
		if site != "static" || r.Chance(15) {
			target += c02PickQuery(r, site)
		}
		add(site, c02PickMethod(r), target, r.Pick(c02AEs), site != "static" && r.Chance(30))
	}
	return out
}

func init() {
	register(&Property{
		ID: "C02", Imports: "V.Lib V.GoPath V.Gen_C02 V.Gen_C02b V.C02_Model", Judge: "judge", Shard: 150,
		Rule:   "real in-process sites (static; browse / with every archive type; browse /dir with zip, tar.gz; the same root under a site path prefix /pre; the origin Casketfile in a sub-directory of the root / outside it / in a sibling directory named root+x) rooted in a fixture with files, nested directories, index pages (incl. a directory named index.html and a hidden index page), .gz/.br/.zst siblings (incl. a hidden one and a directory named like one), hard links, odd names, the origin Casketfile inside the root, `internal`-hidden files and an `internal`-hidden directory, plus token files outside the root; raw request lines: exhaustive targets of depth <= 2 (3 sampled / full) over the segment alphabet {a.txt, dir, ., .., empty, %2e, %2E%2e, %2f, backslash, %5c, A.TXT, Casketfile, x} x trailing slash (static; sampled on browse with ?archive=); every directory x archive types / sort orders / JSON; open-redirect shapes (1..5 leading slashes x foreign first segment x dot-dot x directory or file-with-slash); every file x Accept-Encoding subsets and decoys; random respellings (dot segments, doubled / encoded slashes and dots, case flips, backslashes, climbing above the root, NUL) x methods x queries. Prefix-site cases are modelled like the others (the path the handlers see is computed as trimPathPrefix does); those whose path does not start with the prefix never reach the site and are judged against the executable property only (CContract). Non-trivial = answers 200 or 3xx",
		Gen:    c02Gen,
		Decode: func(raw json.RawMessage) (interface{}, error) { in := &c02In{}; return in, json.Unmarshal(raw, in) },
		Run:    c02Run,
	})
	// Gen_C02b.v: browse's archive type list (from the sources) and the fixture tree (from c02Table)
	registerGen("Gen_C02b.v", func(repo string) (string, error) {
		_, f, err := parseGo(filepath.Join(repo, "caskethttp/browse/browse.go"))
		if err != nil {
			return "", err
		}
		consts := map[string]string{}
		var order []string
		ast.Inspect(f, func(n ast.Node) bool {
			switch x := n.(type) {
			case *ast.GenDecl:
				if x.Tok == token.CONST {
					for _, sp := range x.Specs {
						vs := sp.(*ast.ValueSpec)
						if id, ok := vs.Type.(*ast.Ident); ok && id.Name == "ArchiveType" && len(vs.Values) == 1 {
							if bl, ok := vs.Values[0].(*ast.BasicLit); ok {
								s, _ := strconv.Unquote(bl.Value)
								consts[vs.Names[0].Name] = s
							}
						}
					}
				}
			case *ast.ValueSpec:
				if len(x.Names) >= 1 && x.Names[0].Name == "ArchiveTypes" && len(x.Values) >= 1 {
					if cl, ok := x.Values[0].(*ast.CompositeLit); ok {
						for _, el := range cl.Elts {
							if id, ok := el.(*ast.Ident); ok {
								order = append(order, consts[id.Name])
							}
						}
					}
				}
			}
			return true
		})
		if len(order) == 0 {
			return "", fmt.Errorf("ArchiveTypes not found in browse.go")
		}
		var nodes []string
		for _, n := range c02Nodes() {
			nodes = append(nodes, fmt.Sprintf("(%s, %s, %s)", cStr(n.Path), cBool(n.Dir), cN(n.ID)))
		}
		return "Definition gen_archive_types : list bytes := " + cStrList(order) + ".\n" +
			"Definition gen_c02_fixture : list (bytes * bool * N) := [\n  " + strings.Join(nodes, ";\n  ") + "].\n" +
			"Definition gen_c02_hide : list bytes := " + cStrList(c02Hide()) + ".\n" +
			"Definition gen_c02_internal : list bytes := " + cStrList(c02Internal) + ".\n", nil
	})
	extraCommands["c02probe"] = func(args []string) int {
		if len(args) < 3 {
			fmt.Fprintln(os.Stderr, "usage: harness c02probe <site> <method> <target> [accept-encoding] [json]")
			return 2
		}
		in := &c02In{Site: args[0], Method: args[1], Target: args[2]}
		if len(args) > 3 {
			in.AE = args[3]
		}
		in.JSON = len(args) > 4
		o, err := c02Do(in)
		if err != nil {
			fmt.Fprintln(os.Stderr, err)
			return 1
		}
		b, _ := json.Marshal(o)
		fmt.Println(string(b))
		p, q, _ := c02Split(in.Target)
		fmt.Println("sig:", c02Sig(in, p, q))
		os.RemoveAll(c02Fixture().base)
		return 0
	}
}
