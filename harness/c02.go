package main

import (
	"encoding/json"
	"fmt"
	"os"
	"path/filepath"
	"sort"
	"strings"
	"syscall"
)

type c02In struct {
	Site   string `json:"site"` // static | browse | browse-noarchive
	Method string `json:"method"`
	Target string `json:"target"` // raw request-target (path, may carry ?query)
	AE     string `json:"ae,omitempty"`
}

type c02Fix struct {
	base, root string
	nodes      string            // Coq fsys term
	tokID      map[string]uint64 // token -> inode id
}

var c02F *c02Fix

const (
	c02TokCasket = "TOKCASKETz1q"
	c02TokOut    = "TOKOUTSIDEz2q"
	c02TokR2     = "TOKROOTTWOz3q"
)

func c02Fixture() *c02Fix {
	if c02F != nil {
		return c02F
	}
	base := os.Getenv("VERIF_ROOT")
	if base == "" {
		base = os.TempDir()
	}
	dir, err := os.MkdirTemp(filepath.Join(base, "run"), "c02fix")
	if err != nil {
		panic(err)
	}
	root := filepath.Join(dir, "root")
	tok := func(s string) string { return "TOK" + s + "z9q" }
	files := map[string]string{
		"Casketfile":             "# " + c02TokCasket + "\n",
		"a.txt":                  tok("A"),
		"a.txt.gz":               gzipBytes(tok("AGZ")),
		"a.txt.br":               tok("ABR"),
		"a.txt.zst":              tok("AZST"),
		"b.txt":                  tok("B"),
		"b.txt.gz":               gzipBytes(tok("BGZ")),
		"dir/c.txt":              tok("C"),
		"dir/sub/d.txt":          tok("D"),
		"dir/sub/d.txt.br":       tok("DBR"),
		"idx/index.html":         "<html>" + tok("IDX") + "</html>",
		"idx/other.txt":          tok("OTHER"),
		"idx2/index.txt":         tok("IDXTWO"),
		"idx2/default.html":      tok("DEF"),
		"idir/index.html/x.txt":  tok("IDIRX"),
		"idir/index.htm":         tok("IDIR"),
		"sp ace.txt":             tok("SP"),
		"é.txt":                  tok("U"),
		"dir/e.gz/inner.txt":     tok("EGZIN"),
		"dir/e":                  tok("E"),
	}
	if err := writeFixture(root, files); err != nil {
		panic(err)
	}
	writeFixture(dir, map[string]string{"outside/o.txt": c02TokOut, "root2/x.txt": c02TokR2})
	os.Symlink("Casketfile", filepath.Join(root, "link-casket"))
	f := &c02Fix{base: dir, root: root, tokID: map[string]uint64{}}
	var nodes []string
	filepath.Walk(root, func(p string, info os.FileInfo, err error) error {
		if err != nil {
			return nil
		}
		st, err := os.Stat(p) // follows symlinks, as http.Dir does
		if err != nil {
			return nil
		}
		rel, _ := filepath.Rel(root, p)
		jp := "/" + filepath.ToSlash(rel)
		if rel == "." {
			jp = "/"
		}
		ino := st.Sys().(*syscall.Stat_t).Ino
		nodes = append(nodes, fmt.Sprintf("{| n_path := %s; n_dir := %s; n_id := %s |}", cStr(jp), cBool(st.IsDir()), cN(ino)))
		if !st.IsDir() {
			b, _ := os.ReadFile(p)
			for t := range tokensIn(string(b), files) {
				f.tokID[t] = ino
			}
		}
		return nil
	})
	sort.Strings(nodes)
	f.nodes = cList(nodes)
	c02F = f
	return f
}

// tokensIn returns the fixture tokens (decoded) that a file's content carries
func tokensIn(content string, files map[string]string) map[string]bool {
	out := map[string]bool{}
	views := decodedViews([]byte(content))
	for _, v := range views {
		s := string(v)
		for i := 0; i+3 < len(s); i++ {
			if strings.HasPrefix(s[i:], "TOK") {
				j := i + 3
				for j < len(s) && ((s[j] >= 'A' && s[j] <= 'Z') || (s[j] >= '0' && s[j] <= '9')) {
					j++
				}
				if strings.HasPrefix(s[j:], "z9q") {
					out[s[i:j+3]] = true
				}
			}
		}
	}
	return out
}

func c02Run(in0 interface{}) Result {
	in := in0.(*c02In)
	fx := c02Fixture()
	body := "root " + fx.root + "\n"
	switch in.Site {
	case "browse":
		body += "browse / {\n servearchive zip tar\n}\n"
	case "browse-noarchive":
		body += "browse /\n"
	}
	st, err := getSiteAt(body, filepath.Join(fx.root, "Casketfile"))
	if err != nil {
		return Result{Term: "(CBrowse 0 [] false false)", Obs: "start error: " + err.Error(), Class: "start-error", Sig: "start-error", Direct: "site did not start: " + err.Error()}
	}
	hdr := map[string]string{}
	if in.AE != "" {
		hdr["Accept-Encoding"] = in.AE
	}
	resp := doRaw(st.addr, in.Method, in.Target, hdr, nil)
	views := decodedViews(resp.Body)
	outside := containsAny(views, c02TokOut) || containsAny(views, c02TokR2)
	hidden := containsAny(views, c02TokCasket) || containsAny(views, "NAME:Casketfile") || containsAny(views, "NAME:link-casket") ||
		containsAny(views, "./Casketfile\"") || containsAny(views, "./link-casket\"") || containsAny(views, "\"Casketfile\"")
	loc := resp.Header.Get("Location")
	obs := map[string]interface{}{"status": resp.Status, "location": loc, "ce": resp.Header.Get("Content-Encoding"), "len": len(resp.Body), "outside": outside, "hidden": hidden, "err": resp.Err}
	if in.Site != "static" {
		sig := "browse"
		switch {
		case hidden && (strings.HasPrefix(resp.Header.Get("Content-Type"), "application/zip") || strings.HasPrefix(resp.Header.Get("Content-Type"), "application/tar")):
			sig = "browse:archive-contains-hidden-file"
		case loc != "" && (strings.HasPrefix(loc, "//") || strings.HasPrefix(loc, "/\\") || !strings.HasPrefix(loc, "/")):
			sig = "browse:redirect-not-same-origin"
		}
		return Result{Term: cApp("CBrowse", cN(uint64(resp.Status)), cStr(loc), cBool(outside), cBool(hidden)), Obs: obs, Sig: sig,
			Nontrivial: resp.Status == 200 || resp.Status == 301, Key: in.Site + in.Method + in.Target + in.AE, Class: fmt.Sprintf("%s:%d", in.Site, resp.Status)}
	}
	// static: which file's token is in the body?
	ofile := "None"
	found := map[uint64]bool{}
	for _, v := range views {
		for t := range tokensIn(string(v), nil) {
			if id, ok := fx.tokID[t]; ok {
				found[id] = true
			}
		}
	}
	// the raw (undecoded) body decides for precompressed siblings: their token lives in the sibling file
	if len(found) == 1 {
		for id := range found {
			ofile = fmt.Sprintf("(Some %s)", cN(id))
		}
	} else if len(found) > 1 {
		obs["multiple_tokens"] = true
	}
	path := in.Target
	if i := strings.Index(path, "?"); i >= 0 {
		path = path[:i]
	}
	upath, uerr := urlUnescapePath(path)
	if uerr != nil || resp.Status == 400 || resp.Status == 0 {
		// net/http rejected the request-target before casket saw it
		return Result{Term: "(CBrowse 0 [] false false)", Obs: obs, Sig: "static:rejected-by-net-http", Class: "static:rejected"}
	}
	sig := "static"
	if loc != "" && (strings.HasPrefix(loc, "//") || strings.HasPrefix(loc, "/\\")) {
		sig = "static:redirect-not-same-origin"
	}
	goh := in.Method == "GET" || in.Method == "HEAD"
	term := cApp("CStatic", fx.nodes, cStrList([]string{"/Casketfile"}), "gen_default_index_pages", cBool(goh), cBool(in.Method == "HEAD"),
		cStr(upath), cStr(in.AE), cN(uint64(resp.Status)), cStr(loc), cStr(resp.Header.Get("Content-Encoding")), ofile, cBool(outside), cBool(hidden))
	return Result{Term: term, Obs: obs, Sig: sig, Nontrivial: resp.Status == 200 || resp.Status == 307, Key: in.Method + in.Target + "|" + in.AE,
		Class: fmt.Sprintf("static:%d", resp.Status)}
}

// urlUnescapePath decodes %XX as net/http does for r.URL.Path
func urlUnescapePath(p string) (string, error) {
	var sb strings.Builder
	for i := 0; i < len(p); i++ {
		if p[i] == '%' {
			if i+2 >= len(p)+0 && i+2 > len(p)-1+0 && i+2 >= len(p) {
				return "", fmt.Errorf("bad escape")
			}
			h := func(c byte) int {
				switch {
				case c >= '0' && c <= '9':
					return int(c - '0')
				case c >= 'a' && c <= 'f':
					return int(c-'a') + 10
				case c >= 'A' && c <= 'F':
					return int(c-'A') + 10
				}
				return -1
			}
			a, b := h(p[i+1]), h(p[i+2])
			if a < 0 || b < 0 {
				return "", fmt.Errorf("bad escape")
			}
			sb.WriteByte(byte(a*16 + b))
			i += 2
		} else {
			sb.WriteByte(p[i])
		}
	}
	return sb.String(), nil
}

func c02Gen(r *Rand, tier string) []interface{} {
	var out []interface{}
	n := 1500
	if tier == "thorough" {
		n = 25000
	}
	targets := []string{"/", "/a.txt", "/b.txt", "/dir", "/dir/", "/dir/c.txt", "/dir/sub/d.txt", "/dir/sub", "/idx", "/idx/", "/idx/index.html", "/idx2/", "/idir/", "/idir/index.html",
		"/Casketfile", "/link-casket", "/sp%20ace.txt", "/%C3%A9.txt", "/dir/e", "/dir/e.gz", "/nope", "/a.txt/", "/Casketfile/", "/dir/c.txt/", "/a.txt.gz", "/idx/other.txt",
		"/../outside/o.txt", "/dir/../../outside/o.txt", "/..%2foutside/o.txt", "/%2e%2e/outside/o.txt", "/../root2/x.txt", "/..%5coutside%5co.txt", "/dir/..%2f..%2foutside/o.txt",
		"//evil.example/..", "///evil.example/%2e%2e", "//evil.example/%2e%2e/a.txt/", "///evil.example/%2e%2e/a.txt/", "////evil.example/%2e%2e/dir", "/%5cevil.example/..", "/%5Cevil.example/%2e%2e/dir",
		"//dir", "///dir", "//a.txt/", "/./dir", "/dir/.", "/dir/sub/..", "/idx/.", "/Casketfile/.", "/Casketfile/%2e", "/x/../Casketfile", "/dir/../Casketfile/.", "/%43asketfile", "/CASKETFILE"}
	spell := func(t string) string {
		switch r.Intn(10) {
		case 0:
			return "/." + t
		case 1:
			return "/" + t
		case 2:
			return "/dir/.." + t
		case 3:
			return strings.Replace(t, "/", "//", 1)
		case 4:
			return t + "/"
		case 5:
			return t + "/."
		case 6:
			return strings.Replace(t, "/", "/%2e/", 1)
		case 7:
			return t + "/x/.."
		}
		return t
	}
	aes := []string{"", "", "gzip", "br", "zstd", "gzip, br", "zstd, gzip", "br;q=1.0, gzip", " gzip ", "GZIP", "identity", "zstd,br,gzip", "deflate, gzip"}
	for i := 0; i < n; i++ {
		in := &c02In{Site: "static", Method: r.Pick([]string{"GET", "GET", "GET", "HEAD", "POST"}), Target: spell(r.Pick(targets)), AE: r.Pick(aes)}
		if r.Chance(30) {
			in.Site = r.Pick([]string{"browse", "browse", "browse-noarchive"})
			if r.Chance(45) {
				in.Target += "?archive=" + r.Pick([]string{"zip", "tar", "tar.gz", "rar"})
			}
		}
		out = append(out, in)
	}
	sort.SliceStable(out, func(i, j int) bool { return out[i].(*c02In).Site < out[j].(*c02In).Site })
	return out
}

func init() {
	register(&Property{
		ID: "C02", Imports: "V.Lib V.GoPath V.Gen_C02 V.C02_Model", Judge: "judge", Shard: 120,
		Rule: "real in-process sites (root = fixture with files, nested dirs, index pages incl. a directory named index.html, .gz/.br/.zst siblings, the origin Casketfile + a symlink to it, and token files OUTSIDE the root) queried over raw request lines: targets x adversarial spellings (dot segments, repeated/encoded slashes and dots, backslashes, case, trailing slashes, //host/.. open-redirect shapes) x Accept-Encoding x methods; with and without browse (+?archive=); the static cases are compared with the model on status/Location/encoding/identity of the served file, all cases against the contract (no outside token, no hidden file or name, same-origin Location); non-trivial = 200/301/307 answers",
		Gen:    c02Gen,
		Decode: func(raw json.RawMessage) (interface{}, error) { in := &c02In{}; return in, json.Unmarshal(raw, in) },
		Run:    c02Run,
	})
}
