package main

// C02 — served file content stays inside the root and never includes hidden files.
//
// Real in-process casket sites (casket.Start on loopback) rooted in a fixture under
// /var/tmp/verif-C02-fix-<pid>/root whose origin Casketfile lies INSIDE the root (so hideCasketfile
// applies) and which also hides files through `internal` (the only directive that appends to
// SiteConfig.HiddenFiles). Multi-site Casketfiles (c02MTable, c02MStart) are written to disk and
// loaded from there; a third tree (c02STable) holds symbolic links. Every regular file of the fixture carries a unique token, so the
// provenance of every returned byte run is decidable; token files also exist OUTSIDE the root.
// Requests are raw request lines (no client-side cleaning) over an adversarial segment alphabet.
// The fixture tree is a Go table: it is written to disk, re-read from disk (stat + lstat
// identities) and compared with the table on every run, and emitted to coq/Gen_C02b.v so that
// the Coq model and spec judge the very same tree.

import (
	"archive/tar"
	"archive/zip"
	"bytes"
	"compress/bzip2"
	"compress/gzip"
	"encoding/json"
	"fmt"
	"go/ast"
	"go/token"
	"html"
	"io"
	"net"
	"net/url"
	"os"
	"os/exec"
	"path"
	"path/filepath"
	"regexp"
	"sort"
	"strconv"
	"strings"
	"syscall"
	"time"
	"net/http"

	"github.com/andybalholm/brotli"
	"github.com/golang/snappy"
	"github.com/klauspost/compress/zstd"
	"github.com/pierrec/lz4/v4"
	"github.com/tmpim/casket"
	"github.com/tmpim/casket/caskethttp/httpserver"
	"github.com/ulikunitz/xz"
)

// ---------------------------------------------------------------------------------------------
// fixture table

type c02Ent struct {
	Path string // cleaned rooted path inside the root
	Kind byte   // 'd' directory, 'f' regular file, 'h' hard link, 'l' symbolic link (only in the tree of the contract-only `symlink` site)
	Tok  string // token name of a regular file ("" for directories / links)
	Enc  string // "", gz, br, zst: the file's bytes are the token text in that coding
	To   string // hard link: rooted path inside the tree; symbolic link: the link text
}

// c02MTable is the tree the MULTI-SITE Casketfiles live in (relative to <base>/m). The origin
// Casketfile is /www/Casketfile; the sites' roots are sub-trees of this tree in every relation to
// the directory of the Casketfile: /www contains it directly, / contains it in a sub-directory,
// /www/pub (below) and /other (beside) do not contain it, /ww is a sibling directory whose name is
// a string prefix of "www" (hideCasketfile's strings.HasPrefix test is true for it).
var c02MTable = []c02Ent{
	{Path: "/", Kind: 'd'},
	{Path: "/top.txt", Kind: 'f', Tok: "MTOP"},
	{Path: "/hid.txt", Kind: 'f', Tok: "MTOPHID"},
	{Path: "/www", Kind: 'd'},
	{Path: "/www/Casketfile", Kind: 'f', Tok: "MCASKET"},
	{Path: "/www/a.txt", Kind: 'f', Tok: "MA"},
	{Path: "/www/a.txt.gz", Kind: 'f', Tok: "MAGZ", Enc: "gz"},
	{Path: "/www/hid.txt", Kind: 'f', Tok: "MHID"},
	{Path: "/www/pub", Kind: 'd'},
	{Path: "/www/pub/p.txt", Kind: 'f', Tok: "MP"},
	{Path: "/www/pub/Casketfile", Kind: 'f', Tok: "MPUBCASKET"},
	{Path: "/www/pub/hid.txt", Kind: 'f', Tok: "MPUBHID"},
	{Path: "/www/links", Kind: 'd'},
	{Path: "/www/links/hard-casket", Kind: 'h', To: "/www/Casketfile"},
	{Path: "/www/links/l.txt", Kind: 'f', Tok: "ML"},
	{Path: "/ww", Kind: 'd'},
	{Path: "/ww/Casketfile", Kind: 'f', Tok: "MWWCASKET"},
	{Path: "/ww/q.txt", Kind: 'f', Tok: "MQ"},
	{Path: "/ww/w", Kind: 'd'},
	{Path: "/ww/w/Casketfile", Kind: 'f', Tok: "MWWWCASKET"}, // what TrimPrefix(".../www/Casketfile", ".../ww") names
	{Path: "/other", Kind: 'd'},
	{Path: "/other/Casketfile", Kind: 'f', Tok: "MOTHERCASKET"},
	{Path: "/other/o.txt", Kind: 'f', Tok: "MO"},
	{Path: "/other/idx", Kind: 'd'},
	{Path: "/other/idx/index.html", Kind: 'f', Tok: "MOIDX"},
}

const c02MOrigin = "/www/Casketfile" // the multi-site origin Casketfile, relative to <base>/m

var c02MInternal = []string{"/hid.txt"}
var c02MArchiveTypes = []string{"zip", "tar.gz"}

// the roots a multi-site Casketfile may give its sites, with their relation to the origin
var c02MRoots = []string{"/www", "/", "/www/pub", "/other", "/ww"}

func c02MRelation(root string) string {
	switch root {
	case "/www":
		return "root-contains-casketfile"
	case "/":
		return "root-contains-casketfile-in-subdirectory"
	case "/ww":
		return "root-is-sibling-with-prefix-name"
	}
	return "root-does-not-contain-casketfile"
}

// c02STable is the tree of the contract-only `symlink` site (relative to <base>/s/root): http.Dir
// follows symbolic links, so the lexical jail of the model does not describe it; the cases on it
// are judged against the executable property only.
var c02STable = []c02Ent{
	{Path: "/", Kind: 'd'},
	{Path: "/Casketfile", Kind: 'f', Tok: "SCASKET"},
	{Path: "/in.txt", Kind: 'f', Tok: "SIN"},
	{Path: "/secret.txt", Kind: 'f', Tok: "SSECRET"},
	{Path: "/d", Kind: 'd'},
	{Path: "/d/f.txt", Kind: 'f', Tok: "SDF"},
	{Path: "/l", Kind: 'd'},
	{Path: "/l/to-in", Kind: 'l', To: "../in.txt"},
	{Path: "/l/to-dir", Kind: 'l', To: "../d"},
	{Path: "/l/to-casket", Kind: 'l', To: "../Casketfile"},
	{Path: "/l/to-secret", Kind: 'l', To: "../secret.txt"},
	{Path: "/l/to-out", Kind: 'l', To: "../../out/o.txt"},
	{Path: "/l/to-outdir", Kind: 'l', To: "../../out"},
	{Path: "/l/to-abs", Kind: 'l', To: "@/s/out/o2.txt"}, // "@": the absolute path of the fixture's base directory
	{Path: "/l/dangling", Kind: 'l', To: "../nope"},
	{Path: "/l/plain.txt", Kind: 'f', Tok: "SPLAIN"},
}

var c02SInternal = []string{"/secret.txt"}

var c02Table = []c02Ent{
	{Path: "/", Kind: 'd'},
	{Path: "/Casketfile", Kind: 'f', Tok: "CASKET"},
	{Path: "/secret.txt", Kind: 'f', Tok: "SECRET"},
	{Path: "/hsib.txt", Kind: 'f', Tok: "HSIB"},
	{Path: "/hsib.txt.gz", Kind: 'f', Tok: "HSIBGZ", Enc: "gz"},
	{Path: "/a.txt", Kind: 'f', Tok: "A"},
	{Path: "/a.txt.gz", Kind: 'f', Tok: "AGZ", Enc: "gz"},
	{Path: "/a.txt.br", Kind: 'f', Tok: "ABR", Enc: "br"},
	{Path: "/a.txt.zst", Kind: 'f', Tok: "AZST", Enc: "zst"},
	{Path: "/b.txt", Kind: 'f', Tok: "B"},
	{Path: "/b.txt.gz", Kind: 'f', Tok: "BGZ", Enc: "gz"},
	{Path: "/UP.txt", Kind: 'f', Tok: "UP"},
	{Path: "/dir", Kind: 'd'},
	{Path: "/dir/c.txt", Kind: 'f', Tok: "C"},
	{Path: "/dir/c.txt.zst", Kind: 'f', Tok: "CZST", Enc: "zst"},
	{Path: "/dir/e", Kind: 'f', Tok: "E"},
	{Path: "/dir/e.gz", Kind: 'd'},
	{Path: "/dir/e.gz/inner.txt", Kind: 'f', Tok: "EGZIN"},
	{Path: "/dir/sub", Kind: 'd'},
	{Path: "/dir/sub/d.txt", Kind: 'f', Tok: "D"},
	{Path: "/dir/sub/d.txt.br", Kind: 'f', Tok: "DBR", Enc: "br"},
	{Path: "/idx", Kind: 'd'},
	{Path: "/idx/index.html", Kind: 'f', Tok: "IDX"},
	{Path: "/idx/index.html.gz", Kind: 'f', Tok: "IDXGZ", Enc: "gz"},
	{Path: "/idx/other.txt", Kind: 'f', Tok: "OTHER"},
	{Path: "/idx2", Kind: 'd'},
	{Path: "/idx2/index.txt", Kind: 'f', Tok: "IDXTWO"},
	{Path: "/idx2/default.html", Kind: 'f', Tok: "DEF"},
	{Path: "/idir", Kind: 'd'},
	{Path: "/idir/index.html", Kind: 'd'},
	{Path: "/idir/index.html/x.txt", Kind: 'f', Tok: "IDIRX"},
	{Path: "/idir/index.htm", Kind: 'f', Tok: "IDIR"},
	{Path: "/hdir", Kind: 'd'}, // hidden directory (`internal /hdir`): not listed, not archived, nothing below it archived
	{Path: "/hdir/in.txt", Kind: 'f', Tok: "HDIRIN"},
	{Path: "/hidx", Kind: 'd'},
	{Path: "/hidx/index.html", Kind: 'f', Tok: "HIDX"},
	{Path: "/hidx/index.htm", Kind: 'f', Tok: "HIDXB"},
	{Path: "/sp ace.txt", Kind: 'f', Tok: "SP"},
	{Path: "/\xc3\xa9.txt", Kind: 'f', Tok: "U"},
	{Path: "/b\\s.txt", Kind: 'f', Tok: "BS"},
	{Path: "/.dot", Kind: 'f', Tok: "DOT"},
	{Path: "/pc%41.txt", Kind: 'f', Tok: "PC"},
	{Path: "/empty", Kind: 'd'},
	{Path: "/sub2", Kind: 'd'},
	{Path: "/sub2/Casketfile", Kind: 'f', Tok: "SUBCASKET"},
	{Path: "/x", Kind: 'd'},
	{Path: "/x/Casketfile", Kind: 'f', Tok: "XCASKET"},
	{Path: "/links", Kind: 'd'},
	{Path: "/links/plain.txt", Kind: 'f', Tok: "PLAIN"},
	{Path: "/links/hard-casket", Kind: 'h', To: "/Casketfile"},
	{Path: "/links/hard-a", Kind: 'h', To: "/a.txt"},
}

// the hide list the sites end up with: hideCasketfile's entry first, then the `internal` paths
var c02Internal = []string{"/secret.txt", "/hsib.txt.gz", "/hidx/index.html", "/hdir"}

func c02Hide() []string { return c02HideOf("static") }

// c02Origin is where a site kind claims its configuration was loaded from, relative to the
// fixture's base directory: inside the root (hidden by hideCasketfile), in a sub-directory of the
// root, outside the root, and in a sibling directory whose name extends the root's (rootx).
func c02Origin(site string) string {
	switch site {
	case "origin-sub":
		return "root/sub2/Casketfile"
	case "origin-out":
		return "outside/Casketfile"
	case "origin-rootx":
		return "rootx/Casketfile"
	}
	return "root/Casketfile"
}

// c02HideOf is the hide list of a site kind as hideCasketfile computes it (string prefix test on
// the absolute paths, then TrimPrefix), followed by the `internal` paths.
func c02HideOf(site string) []string {
	var out []string
	if o := c02Origin(site); strings.HasPrefix(o, "root") {
		out = append(out, strings.TrimPrefix(o, "root"))
	}
	return append(out, c02Internal...)
}

const (
	c02OutsideID = 1 // tokens of files outside the root
	c02UnknownID = 2 // a TOK…z9q run that is not in the table
)

var c02OutsideToks = []string{"OUTSIDE", "ROOTX", "ROOTTXT", "SOUT", "SOUTB"}

func c02TokText(name string) string { return "TOK" + name + "z9q" }

// a fixture tree: a table, the identities it gives its entries (IDBase + index in path order; a
// hard link has its target's), and — once written — where it is on disk and what the response
// headers of a file answer look like for each of its regular files (ETag, Content-Length,
// Last-Modified: every regular file has a size and a modification time of its own, so a header
// alone identifies the file it describes).
type c02Tree struct {
	Name    string
	Table   []c02Ent
	IDBase  uint64
	Dir     string
	etag    map[string]uint64
	size    map[string]uint64
	lastmod map[string]uint64
}

var (
	c02Main = &c02Tree{Name: "root", Table: c02Table, IDBase: 10}
	c02M    = &c02Tree{Name: "m", Table: c02MTable, IDBase: 200}
	c02S    = &c02Tree{Name: "s", Table: c02STable, IDBase: 400}
	// c02Q: a second copy of the main tree (same table, same identities, sizes and modification
	// times, hence the same Gen_C02b.gen_c02_fixture) under <base>/q/root: the root of the sites
	// the request/disk-change SEQUENCES run on (c02_seq.go), so that no other case sees a swap
	c02Q = &c02Tree{Name: "q", Table: c02Table, IDBase: 10}
)

func (t *c02Tree) all() []c02Ent {
	all := append([]c02Ent{}, t.Table...)
	sort.Slice(all, func(i, j int) bool { return all[i].Path < all[j].Path })
	return all
}

func c02All() []c02Ent { return c02Main.all() }

// c02Node is the model's view of an entry: cleaned path, directory bit, identity (what
// os.SameFile compares; hard links share it).
type c02Node struct {
	Path string
	Dir  bool
	ID   uint64
}

// nodes derives identities from the table: every entry gets its own identity (IDBase + index in
// path order), a hard link has its target's. A symbolic link is what os.Stat sees through it: the
// directory bit and identity of its target if that lies inside the tree, identity 1 (content from
// outside the root) if it does not; a dangling link cannot be opened and is no node.
func (t *c02Tree) nodes() []c02Node {
	all := t.all()
	own := map[string]uint64{}
	kind := map[string]byte{}
	for i, e := range all {
		own[e.Path] = t.IDBase + uint64(i)
		kind[e.Path] = e.Kind
	}
	var out []c02Node
	for _, e := range all {
		n := c02Node{Path: e.Path, Dir: e.Kind == 'd', ID: own[e.Path]}
		switch e.Kind {
		case 'h':
			n.ID = own[e.To]
		case 'l':
			// resolved below a sentinel directory, so that climbing above the root shows
			tgt := path.Join("/_", path.Dir(e.Path), e.To)
			inside := !strings.HasPrefix(e.To, "@") && strings.HasPrefix(tgt+"/", "/_/")
			tgt = path.Clean("/" + strings.TrimPrefix(tgt, "/_"))
			if !inside {
				n.ID, n.Dir = c02OutsideID, strings.HasSuffix(e.Path, "dir") // the outside targets named …dir are directories
			} else if id, ok := own[tgt]; ok {
				n.ID, n.Dir = id, kind[tgt] == 'd'
				if n.Dir { // what lies below the directory is reachable below the link too
					for _, d := range all {
						if strings.HasPrefix(d.Path, tgt+"/") && d.Kind != 'l' {
							out = append(out, c02Node{Path: e.Path + strings.TrimPrefix(d.Path, tgt), Dir: d.Kind == 'd', ID: own[d.Path]})
						}
					}
				}
			}
			// else a dangling link: an entry of its directory that cannot be opened; it keeps an identity of its own
		}
		out = append(out, n)
	}
	sort.Slice(out, func(i, j int) bool { return out[i].Path < out[j].Path })
	return out
}

func c02Nodes() []c02Node { return c02Main.nodes() }

// tokIDs: token text -> identity, for the tokens of this tree; every other token of the fixture
// (another tree, the files outside the roots) is content from outside the root (1).
func (t *c02Tree) tokIDs() map[string]uint64 {
	m := map[string]uint64{}
	for _, o := range []*c02Tree{c02Main, c02M, c02S} {
		for _, e := range o.Table {
			if e.Tok != "" {
				m[c02TokText(e.Tok)] = c02OutsideID
			}
		}
	}
	for _, tk := range c02OutsideToks {
		m[c02TokText(tk)] = c02OutsideID
	}
	for i, e := range t.all() {
		if e.Tok != "" {
			m[c02TokText(e.Tok)] = t.IDBase + uint64(i)
		}
	}
	return m
}

func c02TokIDs() map[string]uint64 { return c02Main.tokIDs() }

// c02Etag is staticfiles.calculateEtag, written again.
func c02Etag(fi os.FileInfo) string {
	return `"` + strconv.FormatInt(fi.ModTime().Unix(), 36) + strconv.FormatInt(fi.Size(), 36) + `"`
}

// write puts the tree on disk below dir: contents are the token text (in the entry's coding),
// padded so that every regular file has a size of its own, with a modification time of its own.
func (t *c02Tree) write(base, dir string) error {
	t.Dir = dir
	all := t.all()
	sizes := map[int]bool{}
	for i, e := range all {
		p := filepath.Join(dir, filepath.FromSlash(e.Path))
		switch e.Kind {
		case 'd':
			if err := os.MkdirAll(p, 0o755); err != nil {
				return err
			}
		case 'f':
			content := c02TokText(e.Tok)
			if path.Base(e.Path) == "Casketfile" {
				content = "# " + content + "\n"
			} else if strings.HasSuffix(e.Path, ".html") {
				content = "<html>" + content + "</html>"
			}
			var data string
			for pad := i; ; pad += len(all) {
				data = c02Encode(e.Enc, content+strings.Repeat(" ", pad))
				if e.Path == c02MOrigin && t == c02M {
					data = c02MCasketfileText("")
				}
				if !sizes[len(data)] {
					break
				}
			}
			sizes[len(data)] = true
			if err := os.WriteFile(p, []byte(data), 0o644); err != nil {
				return err
			}
		}
	}
	for _, e := range all { // links after their targets
		p := filepath.Join(dir, filepath.FromSlash(e.Path))
		var err error
		switch e.Kind {
		case 'h':
			err = os.Link(filepath.Join(dir, filepath.FromSlash(e.To)), p)
		case 'l':
			to := e.To
			if strings.HasPrefix(to, "@") {
				to = base + to[1:]
			}
			err = os.Symlink(to, p)
		}
		if err != nil {
			return err
		}
	}
	for i, e := range all {
		if e.Kind == 'f' {
			if err := os.Chtimes(filepath.Join(dir, filepath.FromSlash(e.Path)), c02Mtime(t, i), c02Mtime(t, i)); err != nil {
				return err
			}
		}
	}
	return t.stat(nil)
}

func c02Mtime(t *c02Tree, i int) time.Time {
	return time.Unix(1000000000+int64(t.IDBase)*100000+int64(i)*3607, 0)
}

// stat fills the header maps from the files as they are on disk; outside lists files outside the
// tree whose headers stand for content from outside the root.
func (t *c02Tree) stat(outside []string) error {
	t.etag, t.size, t.lastmod = map[string]uint64{}, map[string]uint64{}, map[string]uint64{}
	put := func(p string, id uint64) error {
		fi, err := os.Stat(p)
		if err != nil {
			return err
		}
		for _, m := range []struct {
			m map[string]uint64
			k string
		}{{t.etag, c02Etag(fi)}, {t.size, strconv.FormatInt(fi.Size(), 10)}, {t.lastmod, fi.ModTime().UTC().Format(http.TimeFormat)}} {
			if old, ok := m.m[m.k]; ok && old != id {
				return fmt.Errorf("%s: header value %s does not identify the file", p, m.k)
			}
			m.m[m.k] = id
		}
		return nil
	}
	for _, o := range outside {
		if err := put(o, c02OutsideID); err != nil {
			return err
		}
	}
	for i, e := range t.all() {
		if e.Kind == 'f' {
			if err := put(filepath.Join(t.Dir, filepath.FromSlash(e.Path)), t.IDBase+uint64(i)); err != nil {
				return err
			}
		}
	}
	return nil
}

// hdrIDs: the identities of the files a response's headers describe (2: a file answer whose
// header matches no file of the fixture). Content-Length only counts on a file answer.
func (t *c02Tree) hdrIDs(h http.Header) []uint64 {
	seen := map[uint64]bool{}
	fileAnswer := h.Get("Etag") != "" || h.Get("Last-Modified") != "" || h.Get("Content-Encoding") != "" || h.Get("Accept-Ranges") != ""
	look := func(m map[string]uint64, v string) {
		if v == "" {
			return
		}
		if id, ok := m[v]; ok {
			seen[id] = true
		} else {
			seen[c02UnknownID] = true
		}
	}
	look(t.etag, h.Get("Etag"))
	look(t.lastmod, h.Get("Last-Modified"))
	if fileAnswer {
		look(t.size, h.Get("Content-Length"))
	}
	var out []uint64
	for id := range seen {
		out = append(out, id)
	}
	sort.Slice(out, func(i, j int) bool { return out[i] < out[j] })
	return out
}

// c02MCasketfileText is the content of the multi-site origin Casketfile for a configuration:
// always the same size (and, after c02WriteMCasketfile, the same modification time), so that the
// headers of an answer carrying it stay recognisable.
func c02MCasketfileText(conf string) string {
	s := "# " + c02TokText("MCASKET") + "\n" + conf
	if len(s) > 5999 {
		panic("multi-site Casketfile too long")
	}
	return s + strings.Repeat("#", 5999-len(s)) + "\n"
}

func c02Encode(enc, s string) string {
	switch enc {
	case "gz":
		return string(c18Gzip([]byte(s)))
	case "br":
		return string(c18Brotli([]byte(s)))
	case "zst":
		return string(c18Zstd([]byte(s)))
	}
	return s
}

type c02Fix struct {
	base, root string
	mbase      string // the tree of the multi-site Casketfiles
	sroot      string // the root of the symlink site
	qroot      string // the root of the sites the sequences run on (c02Q)
	err        string
}

var c02F *c02Fix

func c02Fixture() *c02Fix {
	if c02F != nil {
		return c02F
	}
	// fixtures of dead harness processes
	if old, _ := filepath.Glob("/var/tmp/verif-C02-fix-*"); len(old) > 0 {
		for _, d := range old {
			pid, _ := strconv.Atoi(strings.TrimPrefix(filepath.Base(d), "verif-C02-fix-"))
			if pid <= 0 || syscall.Kill(pid, 0) != nil {
				os.RemoveAll(d)
			}
		}
	}
	base := fmt.Sprintf("/var/tmp/verif-C02-fix-%d", os.Getpid())
	os.RemoveAll(base)
	root := filepath.Join(base, "root")
	f := &c02Fix{base: base, root: root, mbase: filepath.Join(base, "m"), sroot: filepath.Join(base, "s", "root"), qroot: filepath.Join(base, "q", "root")}
	c02F = f
	fail := func(err error) *c02Fix { f.err = err.Error(); return f }
	// a reaper removes the fixture when this process is gone (however it ends)
	reap := exec.Command("sh", "-c", fmt.Sprintf("while kill -0 %d 2>/dev/null; do sleep 1; done; rm -rf %s", os.Getpid(), base))
	reap.SysProcAttr = &syscall.SysProcAttr{Setsid: true}
	reap.Start()
	outside := map[string]string{
		"outside/o.txt": c02TokText("OUTSIDE"), "rootx/x.txt": c02TokText("ROOTX"), "root.txt": c02TokText("ROOTTXT"),
		"outside/Casketfile": "# " + c02TokText("OUTSIDE") + "\n",
		"s/out/o.txt": c02TokText("SOUT"), "s/out/o2.txt": c02TokText("SOUTB"),
	}
	for i, name := range []string{"outside/o.txt", "rootx/x.txt", "root.txt", "outside/Casketfile", "s/out/o.txt", "s/out/o2.txt"} {
		outside[name] += strings.Repeat(" ", 300+7*i) // sizes no file of a tree has
	}
	if err := writeFixture(base, outside); err != nil {
		return fail(err)
	}
	var outs []string
	for name := range outside {
		outs = append(outs, filepath.Join(base, name))
	}
	sort.Strings(outs)
	for i, o := range outs {
		tm := time.Unix(900000000+int64(i)*4001, 0)
		os.Chtimes(o, tm, tm)
	}
	for _, t := range []struct {
		t   *c02Tree
		dir string
	}{{c02Main, root}, {c02M, f.mbase}, {c02S, f.sroot}, {c02Q, f.qroot}} {
		if err := t.t.write(base, t.dir); err != nil {
			return fail(err)
		}
		if err := t.t.stat(outs); err != nil {
			return fail(err)
		}
		if msg := c02VerifyDisk(t.t); msg != "" {
			return fail(fmt.Errorf("fixture on disk differs from the table (%s): %s", t.t.Name, msg))
		}
	}
	return f
}

// c02VerifyDisk re-reads the tree (kinds and stat identities, symbolic links followed as http.Dir
// follows them; a symbolic link in a tree whose table has none is an error) and compares its
// shape with the table's nodes: same paths, same directory bits, same identity partition.
func c02VerifyDisk(t *c02Tree) string {
	root := t.Dir
	want := t.nodes()
	links := false
	for _, e := range t.Table {
		links = links || e.Kind == 'l'
	}
	type dn struct {
		dir bool
		ino uint64
	}
	got := map[string]dn{}
	err := filepath.Walk(root, func(p string, li os.FileInfo, err error) error {
		if err != nil {
			return err
		}
		rel, _ := filepath.Rel(root, p)
		jp := "/" + filepath.ToSlash(rel)
		if rel == "." {
			jp = "/"
		}
		if li.Mode()&os.ModeSymlink != 0 && links {
			fi, err := os.Stat(p)
			if err != nil { // dangling: the link itself
				got[jp] = dn{dir: false, ino: li.Sys().(*syscall.Stat_t).Ino}
				return nil
			}
			real, _ := filepath.EvalSymlinks(p)
			if !strings.HasPrefix(real+"/", root+"/") {
				got[jp] = dn{dir: fi.IsDir(), ino: 0}
				return nil
			}
			li = fi
		}
		if !li.IsDir() && !li.Mode().IsRegular() {
			return fmt.Errorf("%s is neither a directory nor a regular file", p)
		}
		got[jp] = dn{dir: li.IsDir(), ino: li.Sys().(*syscall.Stat_t).Ino}
		return nil
	})
	if err != nil {
		return err.Error()
	}
	wanted := map[string]bool{}
	for _, n := range want {
		wanted[n.Path] = true
	}
	for p := range got {
		if !wanted[p] {
			return p + " is on disk, not in the table"
		}
	}
	ino2id := map[uint64]uint64{}
	id2ino := map[uint64]uint64{}
	for _, n := range want {
		g, ok := got[n.Path]
		if !ok && links { // below a symbolic link to a directory: the walk does not go there
			if fi, err := os.Stat(filepath.Join(root, filepath.FromSlash(n.Path))); err == nil {
				g, ok = dn{dir: fi.IsDir(), ino: fi.Sys().(*syscall.Stat_t).Ino}, true
			}
		}
		if !ok {
			return "missing " + n.Path
		}
		if g.dir != n.Dir {
			return "kind of " + n.Path
		}
		if (g.ino == 0) != (n.ID == c02OutsideID) {
			return "inside/outside of " + n.Path
		}
		if g.ino == 0 {
			continue
		}
		if x, ok := ino2id[g.ino]; ok && x != n.ID {
			return "identity of " + n.Path
		}
		if x, ok := id2ino[n.ID]; ok && x != g.ino {
			return "identity of " + n.Path
		}
		ino2id[g.ino], id2ino[n.ID] = n.ID, g.ino
	}
	return ""
}

// ---------------------------------------------------------------------------------------------
// sites

var c02SiteKinds = []string{"static", "browse", "scoped"}
var c02OriginKinds = []string{"origin-sub", "origin-out", "origin-rootx"}

// browse configuration of a site kind: scope and archive types ("" = no browse)
func c02Browse(site string) (scope string, types []string) {
	switch site {
	case "browse":
		return "/", c02ArchiveTypes
	case "scoped":
		return "/dir", []string{"zip", "tar.gz"}
	case "prefix-browse":
		return "/", nil
	case "origin-sub", "origin-out", "origin-rootx", "symlink":
		return "/", []string{"zip"}
	}
	return "", nil
}

var c02ArchiveTypes = []string{"zip", "tar", "tar.gz", "tar.xz", "tar.br", "tar.bz2", "tar.lz4", "tar.sz", "tar.zst"}

var c02Sites = map[string]*liveSite{}

func c02Site(kind string) (*liveSite, error) { return c02SiteOn(kind, false) }

// c02SiteOn: the site of a kind on the main root, or (seq) its twin rooted in c02Q's copy
func c02SiteOn(kind string, seq bool) (*liveSite, error) {
	regKey := kind
	if seq {
		regKey = "seq:" + kind
	}
	if s, ok := c02Sites[regKey]; ok {
		return s, nil
	}
	fx := c02Fixture()
	if fx.err != "" {
		return nil, fmt.Errorf("%s", fx.err)
	}
	httpserver.CaseSensitivePath = false
	body := "root " + fx.root + "\n"
	internal := c02Internal
	origin := filepath.Join(fx.base, c02Origin(kind))
	if seq {
		body, origin = "root "+fx.qroot+"\n", filepath.Join(fx.base, "q", c02Origin(kind))
	}
	if kind == "symlink" {
		body, internal, origin = "root "+fx.sroot+"\n", c02SInternal, filepath.Join(fx.sroot, "Casketfile")
	}
	for _, p := range internal {
		body += "internal " + p + "\n"
	}
	switch kind {
	case "browse":
		body += "browse / {\n servearchive\n}\n"
	case "scoped":
		body += "browse /dir {\n servearchive zip tar.gz\n}\n"
	case "origin-sub", "origin-out", "origin-rootx", "symlink":
		body += "browse / {\n servearchive zip\n}\n"
	}
	casket.Quiet = true
	text := "127.0.0.1:0 {\n" + body + "}\n"
	if kind == "prefix" || kind == "prefix-browse" { // a site with a path prefix
		if kind == "prefix-browse" {
			body += "browse /\n"
		}
		text = "127.0.0.1:0/pre {\n" + body + "}\n"
	}
	inst, err := casket.Start(casket.CasketfileInput{Contents: []byte(text), Filepath: origin, ServerTypeName: "http"})
	if err != nil {
		return nil, err
	}
	srvs := inst.Servers()
	if len(srvs) == 0 {
		inst.Stop()
		return nil, fmt.Errorf("no servers")
	}
	_, port, _ := net.SplitHostPort(srvs[0].Addr().String())
	s := &liveSite{inst: inst, addr: "127.0.0.1:" + port, text: body}
	c02Sites[regKey] = s
	return s, nil
}

// ---- multi-site Casketfiles --------------------------------------------------------------------
// One Casketfile, written to <base>/m/www/Casketfile and loaded from there, declaring 2-3 sites
// (host names s0.c02.test, s1.c02.test, … in declaration order) on one port or on several, each
// with a root that is a sub-tree of <base>/m. httpserver.hideCasketfile runs ONCE, after the
// `root` directives, over the list of all site configs.

type c02MEl struct {
	Root   string `json:"root"`             // the site root relative to <base>/m: one of c02MRoots
	Spell  int    `json:"spell,omitempty"`  // how the root directive spells it: 0 cleaned, 1 trailing slash, 2 with "/./", 3 with "x/../"; 4: NO root directive, the root is the default one (httpserver.Root, as the -root flag sets it)
	Port   int    `json:"port,omitempty"`   // port group: sites of the same group share a listener
	Keys   int    `json:"keys,omitempty"`   // addresses on the block (1 if 0): every address is a site config of its own
	Browse bool   `json:"browse,omitempty"` // browse / with servearchive zip tar.gz
}

func (e c02MEl) keys() int {
	if e.Keys > 1 {
		return e.Keys
	}
	return 1
}

// c02MSiteOf: the block the pos-th site config comes from (site configs are saved address by
// address, block by block).
func c02MSiteOf(conf []c02MEl, pos int) (c02MEl, bool) {
	for _, e := range conf {
		if pos < e.keys() {
			return e, true
		}
		pos -= e.keys()
	}
	return c02MEl{}, false
}

func c02MAbsRoot(fx *c02Fix, e c02MEl) string {
	r := fx.mbase
	if e.Root != "/" {
		r += e.Root
	}
	switch e.Spell {
	case 1:
		return r + "/"
	case 2:
		return fx.mbase + "/." + strings.TrimPrefix(r, fx.mbase)
	case 3:
		return fx.mbase + "/x/.." + strings.TrimPrefix(r, fx.mbase)
	}
	return r
}

type c02MInst struct {
	key   string
	inst  *casket.Instance
	ports []int
}

var c02MCur *c02MInst

func c02FreePorts(n int) ([]int, error) {
	var ls []net.Listener
	var ports []int
	defer func() {
		for _, l := range ls {
			l.Close()
		}
	}()
	for i := 0; i < n; i++ {
		l, err := net.Listen("tcp", "127.0.0.1:0")
		if err != nil {
			return nil, err
		}
		ls = append(ls, l)
		ports = append(ports, l.Addr().(*net.TCPAddr).Port)
	}
	return ports, nil
}

// c02MText renders the Casketfile of a configuration for the given ports.
func c02MText(fx *c02Fix, conf []c02MEl, ports []int) string {
	var sb strings.Builder
	site := 0
	for _, e := range conf {
		var keys []string
		for k := 0; k < e.keys(); k++ {
			keys = append(keys, fmt.Sprintf("http://s%d.c02.test:%d", site, ports[e.Port]))
			site++
		}
		sb.WriteString(strings.Join(keys, ", ") + " {\n")
		if e.Spell != 4 {
			sb.WriteString("\troot " + c02MAbsRoot(fx, e) + "\n")
		}
		for _, p := range c02MInternal {
			sb.WriteString("\tinternal " + p + "\n")
		}
		if e.Browse {
			sb.WriteString("\tbrowse / {\n\t\tservearchive " + strings.Join(c02MArchiveTypes, " ") + "\n\t}\n")
		}
		sb.WriteString("}\n")
	}
	return sb.String()
}

// c02MStart writes the configuration's Casketfile to disk, reads it back and starts an instance
// from what it read, with the file's path as the origin. One multi-site instance lives at a time
// (the generator emits the cases of a configuration together).
func c02MStart(conf []c02MEl) (*c02MInst, error) {
	kb, _ := json.Marshal(conf)
	if c02MCur != nil && c02MCur.key == string(kb) {
		return c02MCur, nil
	}
	if c02MCur != nil {
		c02MCur.inst.Stop()
		c02MCur = nil
	}
	fx := c02Fixture()
	if fx.err != "" {
		return nil, fmt.Errorf("%s", fx.err)
	}
	httpserver.CaseSensitivePath = false
	casket.Quiet = true
	groups := 0
	for _, e := range conf {
		if e.Port < 0 || e.Port > 3 {
			return nil, fmt.Errorf("port group %d", e.Port)
		}
		if e.Port+1 > groups {
			groups = e.Port + 1
		}
	}
	origin := filepath.Join(fx.mbase, filepath.FromSlash(c02MOrigin))
	httpserver.Root = httpserver.DefaultRoot
	for _, e := range conf {
		if e.Spell == 4 { // the sites without a root directive share the default root
			if httpserver.Root != httpserver.DefaultRoot && httpserver.Root != c02MAbsRoot(fx, e) {
				return nil, fmt.Errorf("two default roots in one configuration")
			}
			httpserver.Root = c02MAbsRoot(fx, e)
		}
	}
	defer func() { httpserver.Root = httpserver.DefaultRoot }()
	var lastErr error
	for try := 0; try < 5; try++ {
		ports, err := c02FreePorts(groups)
		if err != nil {
			return nil, err
		}
		if err := os.WriteFile(origin, []byte(c02MCasketfileText(c02MText(fx, conf, ports))), 0o644); err != nil {
			return nil, err
		}
		idx := 0
		for i, e := range c02M.all() {
			if e.Path == c02MOrigin {
				idx = i
			}
		}
		os.Chtimes(origin, c02Mtime(c02M, idx), c02Mtime(c02M, idx))
		loaded, err := os.ReadFile(origin)
		if err != nil {
			return nil, err
		}
		inst, err := casket.Start(casket.CasketfileInput{Contents: loaded, Filepath: origin, ServerTypeName: "http"})
		if err != nil {
			lastErr = err
			continue
		}
		c02MCur = &c02MInst{key: string(kb), inst: inst, ports: ports}
		return c02MCur, nil
	}
	return nil, lastErr
}

// ---------------------------------------------------------------------------------------------
// observation

type c02In struct {
	Site   string `json:"site"`   // static | browse | scoped
	Method string `json:"method"` // GET HEAD POST OPTIONS PROPFIND
	Target string `json:"target"` // raw request-target (path, may carry ?query)
	AE     string `json:"ae,omitempty"`
	JSON   bool   `json:"json,omitempty"` // Accept: application/json
	// Site == "multi": the Casketfile (blocks in declaration order) and the site config (position in
	// httpContext.siteConfigs) the request is sent to, with that site's Host header
	Multi []c02MEl `json:"multi,omitempty"`
	Pos   int      `json:"pos,omitempty"`
	// a SEQUENCE on one running site (c02_seq.go): the steps (requests, files / directories of the
	// root replaced on disk by new inodes) that come before the judged request. Cases with steps run
	// on sites of their own, rooted in c02Q.
	Pre []c02Step `json:"pre,omitempty"`
	// Range header (verbatim) and symbolic validators (c02_range.go)
	Range   string `json:"range,omitempty"`
	INM     string `json:"inm,omitempty"`
	IMS     string `json:"ims,omitempty"`
	IfRange string `json:"if_range,omitempty"`
}

type c02Member struct {
	Name string
	Dir  bool
	Data []byte
}

type c02Obs struct {
	Status  int      `json:"status"`
	Loc     string   `json:"location,omitempty"`
	CE      string   `json:"ce,omitempty"`
	CT      string   `json:"ct,omitempty"`
	Kind    int      `json:"kind"` // 0 plain, 1 listing, 2 archive
	IDs     []uint64 `json:"ids,omitempty"`
	HIDs    []uint64 `json:"header_ids,omitempty"` // files the ETag / Last-Modified / Content-Length headers describe
	Hdr     string   `json:"headers,omitempty"`
	Toks    []string `json:"tokens,omitempty"`
	Names   []string `json:"names,omitempty"`
	Counts  []uint64 `json:"counts,omitempty"` // HTML listing: the numbers of directories and of files it announces
	BodyLen int      `json:"len"`
	Parts   []c02Part `json:"parts,omitempty"` // range / conditional cases: the pieces of a 200 / 206 file answer
	FileAns bool     `json:"file_answer,omitempty"`
	Err     string   `json:"err,omitempty"`
	Note    string   `json:"note,omitempty"`
}

var c02TokRe = regexp.MustCompile(`TOK[A-Z0-9]+z9q`)

// c02Scan collects the tokens visible in b itself and in every decoding of b a client could apply.
func c02Scan(b []byte, into map[string]bool) {
	for _, m := range c02TokRe.FindAll(b, -1) {
		into[string(m)] = true
	}
	for _, coding := range []string{"gzip", "br", "zstd"} {
		if d, _, ok := c18Decode(coding, b); ok && len(d) > 0 {
			for _, m := range c02TokRe.FindAll(d, -1) {
				into[string(m)] = true
			}
		}
	}
}

func c02Untar(r io.Reader) ([]c02Member, bool) {
	tr := tar.NewReader(r)
	var out []c02Member
	for {
		h, err := tr.Next()
		if err == io.EOF {
			return out, true
		}
		if err != nil {
			return out, false
		}
		d, _ := io.ReadAll(tr)
		out = append(out, c02Member{Name: h.Name, Dir: h.Typeflag == tar.TypeDir, Data: d})
	}
}

func c02Unarchive(kind string, b []byte) ([]c02Member, bool) {
	rd := bytes.NewReader(b)
	switch kind {
	case "zip":
		zr, err := zip.NewReader(rd, int64(len(b)))
		if err != nil {
			return nil, false
		}
		var out []c02Member
		for _, f := range zr.File {
			m := c02Member{Name: f.Name, Dir: f.FileInfo().IsDir()}
			if rc, err := f.Open(); err == nil {
				m.Data, _ = io.ReadAll(rc)
				rc.Close()
			}
			out = append(out, m)
		}
		return out, true
	case "tar":
		return c02Untar(rd)
	case "tar.gz":
		zr, err := gzip.NewReader(rd)
		if err != nil {
			return nil, false
		}
		return c02Untar(zr)
	case "tar.bz2":
		return c02Untar(bzip2.NewReader(rd))
	case "tar.xz":
		xr, err := xz.NewReader(rd)
		if err != nil {
			return nil, false
		}
		return c02Untar(xr)
	case "tar.br":
		return c02Untar(brotli.NewReader(rd))
	case "tar.lz4":
		return c02Untar(lz4.NewReader(rd))
	case "tar.sz":
		return c02Untar(snappy.NewReader(rd))
	case "tar.zst":
		zr, err := zstd.NewReader(rd)
		if err != nil {
			return nil, false
		}
		defer zr.Close()
		return c02Untar(zr)
	}
	return nil, false
}

var c02MimeToType = map[string]string{
	"application/zip": "zip", "application/tar": "tar", "application/tar+gzip": "tar.gz", "application/tar+xz": "tar.xz",
	"application/tar+brotli": "tar.br", "application/tar+bzip2": "tar.bz2", "application/tar+lz4": "tar.lz4",
	"application/tar+snappy": "tar.sz", "application/tar+zstd": "tar.zst",
}

// a row of the HTML listing: the link target and the label of an entry
var c02RowRe = regexp.MustCompile(`(?s)<tr class="file">.*?<a href="([^"]*)">.*?<span class="name">([^<]*)</span>`)
var c02CountRe = regexp.MustCompile(`<b>(\d+)</b> director(?:y|ies)</span>\s*<span class="meta-item"><b>(\d+)</b> file`)

// c02ItemName: the entry an item's link points at ("./name" or "./name/", escaped as URL.String does)
func c02ItemName(href string) string {
	u, err := url.PathUnescape(href)
	if err != nil {
		u = href
	}
	return strings.TrimSuffix(strings.TrimPrefix(u, "./"), "/")
}

// c02Target: where a request of the input goes — the listener, the Host header, the tree the
// site's root is a sub-tree of.
func c02Target(in *c02In) (addr, host string, tree *c02Tree, err error) {
	if in.Site == "multi" {
		el, ok := c02MSiteOf(in.Multi, in.Pos)
		if !ok {
			return "", "", nil, fmt.Errorf("no site config %d in the multi-site Casketfile", in.Pos)
		}
		mi, err := c02MStart(in.Multi)
		if err != nil {
			return "", "", nil, err
		}
		port := mi.ports[el.Port]
		return fmt.Sprintf("127.0.0.1:%d", port), fmt.Sprintf("s%d.c02.test:%d", in.Pos, port), c02M, nil
	}
	if len(in.Pre) > 0 && (in.Site == "symlink" || strings.HasPrefix(in.Site, "prefix")) {
		return "", "", nil, fmt.Errorf("sequences run on the sites of the main tree without a path prefix")
	}
	st, err := c02SiteOn(in.Site, len(in.Pre) > 0)
	if err != nil {
		return "", "", nil, err
	}
	tree = c02Main
	if in.Site == "symlink" {
		tree = c02S
	}
	if len(in.Pre) > 0 {
		tree = c02Q
	}
	return st.addr, st.addr, tree, nil
}

func c02Do(in *c02In) (c02Obs, error) {
	addr, host, tree, err := c02Target(in)
	if err != nil {
		return c02Obs{}, err
	}
	if err := c02RunPre(in, addr, host, tree); err != nil {
		return c02Obs{}, err
	}
	hdr := map[string]string{"Host": host}
	if in.AE != "" {
		hdr["Accept-Encoding"] = in.AE
	}
	if in.JSON { // browse looks for "application/json" anywhere in the lower-cased Accept header
		hdr["Accept"] = []string{"application/json", "text/html, Application/JSON;q=0.9", "application/json, */*"}[len(in.Target)%3]
	}
	if in.isRange() {
		probe := doRaw(addr, "HEAD", in.Target, hdr, nil)
		c02CondHeaders(in, tree, hdr, probe.Header)
	}
	resp := doRaw(addr, in.Method, in.Target, hdr, nil)
	o := c02Obs{Status: resp.Status, BodyLen: len(resp.Body), Err: resp.Err}
	if in.isRange() && resp.Header != nil {
		o.FileAns = resp.Header.Get("Etag") != "" || resp.Status == 206 || resp.Status == 304 || resp.Status == 416
		if o.FileAns {
			// Content-Length describes the piece, not the file: the file is identified by ETag and Last-Modified
			resp.Header.Del("Content-Length")
			if in.Method == "GET" && (resp.Status == 200 || resp.Status == 206) {
				o.Parts = c02Parts(tree, resp.Status, resp.Header, resp.Body)
			}
		}
	}
	if resp.Header != nil {
		o.Loc = resp.Header.Get("Location")
		o.CE = resp.Header.Get("Content-Encoding")
		o.CT = resp.Header.Get("Content-Type")
		o.HIDs = tree.hdrIDs(resp.Header)
		o.Hdr = strings.TrimSpace(resp.Header.Get("Etag") + " " + resp.Header.Get("Content-Length") + " " + resp.Header.Get("Last-Modified"))
	}
	if in.Method == "HEAD" && resp.Header != nil {
		// a HEAD answer must be the GET answer without its body: the same status, redirect and file
		// headers (whatever they disclose, GET discloses). A difference counts as a header of unknown origin.
		get := doRaw(addr, "GET", in.Target, hdr, nil)
		diff := ""
		if get.Status != resp.Status {
			diff = fmt.Sprintf("status %d vs GET %d", resp.Status, get.Status)
		} else if get.Header != nil {
			for _, k := range []string{"Location", "Etag", "Last-Modified", "Content-Encoding", "Content-Type"} {
				if k == "Content-Type" && strings.HasPrefix(resp.Header.Get(k), "multipart/byteranges; boundary=") && strings.HasPrefix(get.Header.Get(k), "multipart/byteranges; boundary=") {
					continue // the boundary is drawn at random for every answer
				}
				if get.Header.Get(k) != resp.Header.Get(k) {
					diff = k + " differs from GET's"
				}
			}
			if !in.isRange() && resp.Header.Get("Etag") != "" && get.Header.Get("Content-Length") != resp.Header.Get("Content-Length") {
				diff = "Content-Length differs from GET's"
			}
		}
		if diff != "" {
			o.Note = "HEAD: " + diff
			o.HIDs = append(o.HIDs, c02UnknownID)
		}
	}
	toks := map[string]bool{}
	body := resp.Body
	// what the client decodes
	if o.CE != "" {
		if d, known, ok := c18Decode(strings.ToLower(strings.TrimSpace(o.CE)), body); known && ok {
			c02Scan(d, toks)
		} else {
			o.Note = "body does not decode as " + o.CE
		}
	}
	c02Scan(body, toks)
	ct := o.CT
	if i := strings.Index(ct, ";"); i >= 0 {
		ct = ct[:i]
	}
	names := map[string]bool{}
	if at, ok := c02MimeToType[ct]; ok && resp.Status == 200 && in.Site != "static" && in.Method != "HEAD" {
		members, complete := c02Unarchive(at, body)
		o.Kind = 2
		if !complete {
			o.Note = "archive truncated or unreadable"
		}
		for _, m := range members {
			name := strings.TrimSuffix(m.Name, "/")
			if p, _, _ := c02Split(in.Target); path.Clean("/"+p) != "/" {
				// members are named <directory name>/<relative path>; the root's have no such folder
				if i := strings.Index(name, "/"); i >= 0 {
					name = name[i+1:]
				} else {
					name = ""
				}
			}
			if name != "" {
				names[name] = true
			}
			c02Scan(m.Data, toks)
		}
	} else if resp.Status == 200 && in.Site != "static" && in.Method != "HEAD" {
		// a listing: every entry is named twice, by its label and by its link
		if ct == "application/json" {
			var items []struct{ Name, URL string }
			if json.Unmarshal(body, &items) == nil {
				o.Kind = 1
				for _, it := range items {
					names[it.Name] = true
					names[c02ItemName(it.URL)] = true
				}
			}
		} else if ct == "text/html" && bytes.Contains(body, []byte(`id="filter"`)) {
			o.Kind = 1
			for _, m := range c02RowRe.FindAllSubmatch(body, -1) {
				names[html.UnescapeString(string(m[2]))] = true
				names[c02ItemName(html.UnescapeString(string(m[1])))] = true
			}
			if bytes.Count(body, []byte(`<tr class="file">`)) != len(c02RowRe.FindAllSubmatch(body, -1)) {
				o.Note = "listing rows not understood"
				names["\x00unparsed-row"] = true
			}
			if m := c02CountRe.FindSubmatch(body); m != nil {
				nd, _ := strconv.ParseUint(string(m[1]), 10, 64)
				nf, _ := strconv.ParseUint(string(m[2]), 10, 64)
				o.Counts = []uint64{nd, nf}
			}
		}
	}
	for n := range names {
		o.Names = append(o.Names, n)
	}
	sort.Strings(o.Names)
	ids := tree.tokIDs()
	seen := map[uint64]bool{}
	for t := range toks {
		o.Toks = append(o.Toks, t)
		id, ok := ids[t]
		if !ok {
			id = c02UnknownID
		}
		if !seen[id] {
			seen[id] = true
			o.IDs = append(o.IDs, id)
		}
	}
	sort.Strings(o.Toks)
	sort.Slice(o.IDs, func(i, j int) bool { return o.IDs[i] < o.IDs[j] })
	return o, nil
}

// c02Split separates the request-target into the decoded path net/http hands to the handlers
// and the raw query; ok=false if net/http rejects the target.
func c02Split(target string) (p, query string, ok bool) {
	raw := target
	if i := strings.Index(raw, "?"); i >= 0 {
		raw, query = raw[:i], raw[i+1:]
	}
	if !strings.HasPrefix(raw, "/") { // not origin-form ("%2f…" is no leading slash): net/http answers 400
		return "", "", false
	}
	var sb strings.Builder
	hv := func(c byte) int {
		switch {
		case c >= '0' && c <= '9':
			return int(c - '0')
		case c >= 'a' && c <= 'f':
			return int(c-'a') + 10
		case c >= 'A' && c <= 'F':
			return int(c-'A') + 10
		}
		return -1
	}
	for i := 0; i < len(raw); i++ {
		if raw[i] == '%' {
			if i+2 >= len(raw) || hv(raw[i+1]) < 0 || hv(raw[i+2]) < 0 {
				return "", "", false
			}
			sb.WriteByte(byte(hv(raw[i+1])*16 + hv(raw[i+2])))
			i += 2
		} else {
			sb.WriteByte(raw[i])
		}
	}
	return sb.String(), query, true
}

// c02PrefixPath is the request path the handlers of the site 127.0.0.1:0/pre see: net/http's
// parse of the request-target, then httpserver.trimPathPrefix (TrimPrefix on the escaped path,
// re-parsed with url.ParseRequestURI, i.e. as a path even if it begins with "//").
func c02PrefixPath(target string) (string, bool) {
	u, err := url.ParseRequestURI(target)
	if err != nil {
		return "", false
	}
	trimmed := strings.TrimPrefix(u.EscapedPath(), "/pre")
	if !strings.HasPrefix(trimmed, "/") {
		trimmed = "/" + trimmed
	}
	uri := trimmed
	if u.RawQuery != "" || u.ForceQuery {
		uri += "?" + u.RawQuery
	}
	t, err := url.ParseRequestURI(uri)
	if err != nil {
		return u.Path, true
	}
	return t.Path, true
}

// c02PrefixMatches: the vhost trie of the server matches the site 127.0.0.1:0/pre iff the decoded
// request path starts with "/pre" (byte-wise).
func c02PrefixMatches(target string) bool {
	u, err := url.ParseRequestURI(target)
	return err == nil && strings.HasPrefix(u.Path, "/pre")
}

func c02EscapedPath(target string) string {
	u, err := url.ParseRequestURI(target)
	if err != nil {
		return target
	}
	return u.EscapedPath()
}

func c02QueryGet(query, key string) string {
	v, _ := url.ParseQuery(query) // what r.URL.Query() does
	return v.Get(key)
}

func c02MethodCode(m string) uint64 {
	switch m {
	case "GET":
		return 0
	case "HEAD":
		return 1
	case "OPTIONS":
		return 2
	case "PROPFIND":
		return 3
	}
	return 4
}

// c02Limit: what browse makes of the limit parameter (strconv.Atoi): bad = not a number
func c02LimitBad(lim string) bool {
	if lim == "" {
		return false
	}
	_, err := strconv.Atoi(lim)
	return err != nil
}

func c02Run(in0 interface{}) Result {
	in := in0.(*c02In)
	skip := func(class, why string) Result {
		return Result{Term: "CSkip", Obs: why, Class: class, Sig: class}
	}
	p, query, ok := c02Split(in.Target)
	prefixSite := strings.HasPrefix(in.Site, "prefix")
	if prefixSite {
		p, ok = c02PrefixPath(in.Target)
	}
	o, err := c02Do(in)
	if err != nil {
		r := skip("start-error", err.Error())
		r.Direct = "site did not start / fixture unusable: " + err.Error()
		return r
	}
	lim := c02QueryGet(query, "limit")
	if !ok || o.Status == 0 || (o.Status == 400 && !c02LimitBad(lim)) {
		return Result{Term: "CSkip", Obs: o, Class: "rejected-by-net-http", Sig: "rejected-by-net-http"}
	}
	scope, types := c02Browse(in.Site)
	loc := o.Loc
	if i := strings.Index(loc, "?"); i >= 0 {
		loc = loc[:i]
	}
	req := cApp("mkreq", cN(c02MethodCode(in.Method)), cStr(p), cStr(in.AE), cStr(c02QueryGet(query, "archive")), cStr(lim))
	fx := c02Fixture()
	ob := cApp("mkobs", cN(uint64(o.Status)), cStr(loc), cStr(o.CE), cN(uint64(o.Kind)), cNList(o.IDs), cStrList(o.Names), cNList(o.HIDs), cNList(o.Counts))
	class := fmt.Sprintf("%s:%s:%d:k%d", in.Site, in.Method, o.Status, o.Kind)
	key := in.Site + "|" + in.Method + "|" + in.Target + "|" + in.AE + fmt.Sprint(in.JSON)
	nontrivial := o.Status == 200 || o.Status/100 == 3
	outsideTok := func(sig string) string {
		for _, id := range append(append([]uint64{}, o.IDs...), o.HIDs...) {
			if id == c02OutsideID || id == c02UnknownID {
				return sig + ":token-from-outside-the-root"
			}
		}
		return sig
	}
	if in.Site == "multi" {
		el, _ := c02MSiteOf(in.Multi, in.Pos)
		var roots []string
		for _, e := range in.Multi {
			for k := 0; k < e.keys(); k++ {
				roots = append(roots, c02MAbsRoot(fx, e))
			}
		}
		mscope, mtypes := "", []string(nil)
		if el.Browse {
			mscope, mtypes = "/", c02MArchiveTypes
		}
		// the hide list as hideCasketfile computes it for this root (for the class of the input only)
		hide := append([]string{}, c02MInternal...)
		absRoot, absOrigin := filepath.Clean(c02MAbsRoot(fx, el)), filepath.Join(fx.mbase, filepath.FromSlash(c02MOrigin))
		if strings.HasPrefix(absOrigin, absRoot) {
			hide = append(hide, strings.TrimPrefix(absOrigin, absRoot))
		}
		sig := c02SigOf("site", c02SubNodes(c02M.nodes(), el.Root), hide, mscope, in, p, query)
		if !strings.HasPrefix(sig, "browse:") { // the classes of browse's known findings are the same on every site
			sig = "multi:" + c02MRelation(el.Root) + ":" + sig
		}
		kb, _ := json.Marshal(in.Multi)
		term := cApp("CMulti", cStr(fx.mbase), cStrList(roots), cStr(absOrigin), cNat(in.Pos), cStr(el.Root), cStr(mscope), cStrList(mtypes), req, ob)
		return Result{Term: term, Obs: o, Sig: outsideTok(sig), Nontrivial: nontrivial, Key: string(kb) + fmt.Sprint(in.Pos) + "|" + key,
			Class: fmt.Sprintf("multi:%s:%s:%d:k%d", c02MRelation(el.Root), in.Method, o.Status, o.Kind)}
	}
	if in.Site == "symlink" {
		// http.Dir follows symbolic links: the lexical model does not describe this tree; the cases are
		// judged against the executable property only
		site := cApp("mksite_on", "stree_fs", cStr(fx.sroot), cStr(filepath.Join(fx.sroot, "Casketfile")), "gen_c02_sinternal", cStr("/"), cStr(scope), cStrList(types))
		sig := c02SigOf("site", c02S.nodes(), append([]string{"/Casketfile"}, c02SInternal...), scope, in, p, query)
		switch through := c02SymSig(p); {
		case through == "link-target-outside-the-root":
			sig = "symlink:link-target-outside-the-root"
		case c02SymListsLinkToHidden(in, p, query):
			sig = "symlink:listing:directory-with-link-to-hidden-file"
		case !strings.HasPrefix(sig, "browse:"):
			sig = "symlink:" + through + ":" + sig
		}
		return Result{Term: cApp("CContract", site, req, ob), Obs: o, Sig: sig, Nontrivial: nontrivial, Key: key, Class: class}
	}
	sitePrefix := "/"
	if prefixSite {
		sitePrefix = "/pre"
	}
	site := cApp("mksite", cStr(fx.root), cStr(filepath.Join(fx.base, c02Origin(in.Site))), cStr(sitePrefix), cStr(scope), cStrList(types))
	if in.isRange() && o.FileAns && !prefixSite {
		inm, ims, ifr := c02CondClasses(in)
		cond := cApp("mkcond", cStr(in.Range), cN(inm), cN(ims), cN(ifr))
		term := cApp("CRange", site, req, cond, c02Sizes(c02Main), ob, c02PartsTerm(o.Parts))
		return Result{Term: term, Obs: o, Sig: "range:" + outsideTok(c02Sig(in, p, query)), Nontrivial: o.Status == 200 || o.Status == 206 || o.Status == 304 || o.Status == 416,
			Key: key + "|" + in.Range + "|" + in.INM + "|" + in.IMS + "|" + in.IfRange, Class: fmt.Sprintf("range:%s:%d:parts%d", in.Method, o.Status, len(o.Parts))}
	}
	if len(in.Pre) > 0 {
		// a sequence: after every disk step the tree is again the table's (c02Swap re-verifies it), so
		// the judged request is an ordinary case on the twin site — the model and the property are
		// functions of the CURRENT file system and of nothing that happened before
		site = cApp("mksite", cStr(fx.qroot), cStr(filepath.Join(fx.base, "q", c02Origin(in.Site))), cStr(sitePrefix), cStr(scope), cStrList(types))
		pb, _ := json.Marshal(in.Pre)
		return Result{Term: cApp("CReq", site, req, ob), Obs: o, Sig: "seq:" + outsideTok(c02Sig(in, p, query)), Nontrivial: nontrivial,
			Key: "seq|" + string(pb) + "|" + key, Class: "seq:" + c02SeqShape(in.Pre) + ":" + class}
	}
	if prefixSite {
		sig := c02Sig(in, p, query)
		if (strings.HasPrefix(p, "//") || strings.HasPrefix(strings.TrimPrefix(c02EscapedPath(in.Target), "/pre"), "//")) && !strings.HasPrefix(sig, "browse:listing:") {
			sig = "prefix-site:rest-after-prefix-starts-with-two-slashes"
		}
		term := cApp("CReq", site, req, ob)
		if !c02PrefixMatches(in.Target) {
			// the request path does not start with the site's path prefix: the server answers "no such
			// site" (vhost matching is C01's subject); judged against the executable property only
			term = cApp("CContract", site, req, ob)
		}
		return Result{Term: term, Obs: o, Sig: sig, Nontrivial: nontrivial,
			Key: in.Site + "|" + in.Method + "|" + in.Target + "|" + in.AE, Class: class}
	}
	return Result{Term: cApp("CReq", site, req, ob), Obs: o, Sig: outsideTok(c02Sig(in, p, query)), Nontrivial: nontrivial, Key: key, Class: class}
}

// c02SubNodes: the nodes of the sub-tree at root, re-rooted.
func c02SubNodes(nodes []c02Node, root string) []c02Node {
	if root == "/" {
		return nodes
	}
	var out []c02Node
	for _, n := range nodes {
		if n.Path == root {
			out = append(out, c02Node{Path: "/", Dir: n.Dir, ID: n.ID})
		} else if strings.HasPrefix(n.Path, root+"/") {
			out = append(out, c02Node{Path: strings.TrimPrefix(n.Path, root), Dir: n.Dir, ID: n.ID})
		}
	}
	return out
}

// c02SymListsLinkToHidden: a listing (HTML or JSON) of a directory of the symlink tree that has a
// symbolic link to a hidden file as a child
func c02SymListsLinkToHidden(in *c02In, p, query string) bool {
	c := path.Clean("/" + p)
	if in.Method != "GET" || !strings.HasSuffix(p, "/") || c02QueryGet(query, "archive") != "" || c02LimitBad(c02QueryGet(query, "limit")) {
		return false
	}
	hidden := map[uint64]bool{}
	nodes := c02S.nodes()
	for _, n := range nodes {
		if n.Path == "/Casketfile" || n.Path == "/secret.txt" {
			hidden[n.ID] = true
		}
	}
	for _, e := range c02STable {
		if e.Kind == 'l' && path.Dir(e.Path) == c {
			for _, n := range nodes {
				if n.Path == e.Path && hidden[n.ID] {
					return true
				}
			}
		}
	}
	return false
}

// c02SymSig: does the cleaned request path go through a symbolic link, and where does that link lead
func c02SymSig(p string) string {
	c := path.Clean("/" + p)
	best := "no-link"
	for _, e := range c02STable {
		if e.Kind != 'l' || !(c == e.Path || strings.HasPrefix(c, e.Path+"/")) {
			continue
		}
		best = "link-inside-the-root"
		for _, n := range c02S.nodes() {
			if n.Path == e.Path && n.ID == c02OutsideID {
				return "link-target-outside-the-root"
			}
		}
	}
	return best
}

// c02Sig is the class of the INPUT (site kind, what the cleaned path names, what is asked for).
func c02Sig(in *c02In, p, query string) string {
	scope, _ := c02Browse(in.Site)
	return c02SigOf(in.Site, c02Nodes(), c02HideOf(in.Site), scope, in, p, query)
}

// c02SigOf: the same over any tree, hide list and browse scope; name is what the class calls the site.
func c02SigOf(name string, nodes []c02Node, hide []string, scope string, in *c02In, p, query string) string {
	c := path.Clean("/" + p)
	var at *c02Node
	for i := range nodes {
		if nodes[i].Path == c {
			at = &nodes[i]
		}
	}
	hiddenID := map[uint64]bool{}
	for _, h := range hide {
		for _, n := range nodes {
			if n.Path == path.Clean("/"+h) { // hide entries are opened through the jail
				hiddenID[n.ID] = true
			}
		}
	}
	inScope := scope != "" && (scope == "/" || strings.HasPrefix(strings.ToLower(c), scope))
	get := in.Method == "GET" || in.Method == "HEAD"
	switch {
	case at == nil:
		return name + ":no-such-file"
	case at.Dir && inScope && get && !strings.HasSuffix(p, "/") && strings.HasPrefix(p, "//") && !strings.HasPrefix(p, "///"):
		return "browse:dir-redirect:path-starts-with-two-slashes"
	case at.Dir && inScope && get && strings.HasSuffix(p, "/") && c02QueryGet(query, "archive") != "":
		for _, n := range nodes {
			if strings.HasPrefix(n.Path, strings.TrimSuffix(c, "/")+"/") && hiddenID[n.ID] {
				return "browse:archive:directory-with-hidden-descendant"
			}
		}
		return "browse:archive"
	case at.Dir && inScope && in.Method == "GET" && strings.HasSuffix(p, "/") && !in.JSON && !c02LimitBad(c02QueryGet(query, "limit")):
		// an HTML listing announces how many directories and files there are
		for _, n := range nodes {
			if path.Dir(n.Path) == c && n.Path != c && hiddenID[n.ID] {
				return "browse:listing:html:directory-with-hidden-child"
			}
		}
		return name + ":dir"
	case at.Dir:
		return name + ":dir"
	}
	// a file: does an accepted precompressed sibling exist that is itself hidden?
	for _, e := range [][2]string{{"zstd", ".zst"}, {"br", ".br"}, {"gzip", ".gz"}} {
		acc := false
		for _, t := range strings.Split(in.AE, ",") {
			if strings.Trim(t, " \t") == e[0] {
				acc = true
			}
		}
		if !acc {
			continue
		}
		for _, n := range nodes {
			if n.Path == c+e[1] && hiddenID[n.ID] && !hiddenID[at.ID] {
				return "static:file-with-hidden-precompressed-sibling"
			}
			if n.Path == c+e[1] && n.Dir && !hiddenID[at.ID] {
				return "static:file-with-directory-named-like-precompressed-sibling"
			}
		}
	}
	if hiddenID[at.ID] {
		return name + ":hidden-file"
	}
	return name + ":file"
}

// ---------------------------------------------------------------------------------------------
// generator

const c02Hex = "0123456789abcdef0123456789ABCDEF"

// c02Render spells a list of decoded segments as a raw request-target path: bytes that cannot
// travel literally are always percent-encoded, others (dots, slashes, letters) with probability enc%.
func c02Render(r *Rand, segs []string, trailing bool, enc int) string {
	var sb strings.Builder
	esc := func(c byte) {
		k := 0
		if r.Bool() {
			k = 16
		}
		sb.WriteByte('%')
		sb.WriteByte(c02Hex[k+int(c>>4)])
		sb.WriteByte(c02Hex[k+int(c&15)])
	}
	put := func(c byte) {
		switch {
		case c <= 0x20 || c == 0x7f || c == '%' || c == '?' || c == '#':
			esc(c)
		case c >= 0x80 && r.Chance(70):
			esc(c)
		case r.Chance(enc):
			esc(c)
		default:
			sb.WriteByte(c)
		}
	}
	for _, s := range segs {
		if r.Chance(enc / 2) {
			sb.WriteString(r.Pick([]string{"%2f", "%2F"})) // decodes to a separator in r.URL.Path
		} else {
			sb.WriteByte('/')
		}
		for i := 0; i < len(s); i++ {
			put(s[i])
		}
	}
	if trailing || len(segs) == 0 {
		sb.WriteByte('/')
	}
	return sb.String()
}

func c02FlipCase(r *Rand, s string) string {
	b := []byte(s)
	var idx []int
	for i, c := range b {
		if (c >= 'a' && c <= 'z') || (c >= 'A' && c <= 'Z') {
			idx = append(idx, i)
		}
	}
	if len(idx) == 0 {
		return s
	}
	i := idx[r.Intn(len(idx))]
	b[i] ^= 0x20
	return string(b)
}

// c02Mutate applies one adversarial respelling to a list of segments.
func c02Mutate(r *Rand, segs []string) []string {
	ins := func(at int, what ...string) []string {
		out := append([]string{}, segs[:at]...)
		out = append(out, what...)
		return append(out, segs[at:]...)
	}
	at := r.Intn(len(segs) + 1)
	switch r.Intn(12) {
	case 0:
		return ins(at, ".")
	case 1:
		return ins(at, "")
	case 2:
		return ins(at, r.Pick([]string{"x", "dir", "a.txt", "evil.example", "Casketfile", ".."}), "..")
	case 3:
		return ins(0, "", "")
	case 4:
		return ins(0, "", r.Pick([]string{"evil.example", "evil.example:80", "@evil.example", "\\evil.example"}), "..")
	case 5:
		return ins(0, "..")
	case 6:
		if len(segs) > 0 {
			i := r.Intn(len(segs))
			out := append([]string{}, segs...)
			out[i] = c02FlipCase(r, out[i])
			return out
		}
	case 7: // a backslash instead of a separator
		if len(segs) > 1 {
			i := r.Intn(len(segs) - 1)
			out := append([]string{}, segs[:i]...)
			out = append(out, segs[i]+"\\"+segs[i+1])
			return append(out, segs[i+2:]...)
		}
	case 8:
		return ins(len(segs), r.Pick([]string{".", "..", "x"}))
	case 9:
		return ins(at, "..", r.Pick([]string{"root", "rootx", "outside"}))
	case 10:
		return ins(0, r.Pick([]string{"\\", "\\evil.example", "..\\..", "\x00"}))
	}
	return segs
}

var c02AEs = []string{"", "", "", "gzip", "br", "zstd", "gzip, br", "zstd, gzip", "br,zstd", "zstd,br,gzip", "gzip, br, zstd", "br;q=1.0, gzip", " gzip ", "GZIP",
	"gzip;q=0", "x-gzip", "*", "identity", "deflate, gzip", "gzip,", ",br", "zstd ,\tbr", "gzipx", "br, br", "xbr", "notzstd", "bro", "gzip2, zstdx", "Br", "ZSTD"}

func c02PickMethod(r *Rand) string {
	switch k := r.Intn(100); {
	case k < 68:
		return "GET"
	case k < 88:
		return "HEAD"
	case k < 92:
		return "POST"
	case k < 96:
		return "OPTIONS"
	}
	return "PROPFIND"
}

// values of browse's limit parameter: strconv.Atoi decides (a sign is allowed, nothing else but digits, within int64)
var c02Limits = []string{"0", "1", "2", "3", "5", "100", "-1", "+2", "%2B3", "abc", "1e3", "2.0", "0x2", "1_0", "", "%20", "-", "+", "007",
	"9223372036854775807", "9223372036854775808", "-9223372036854775808", "-9223372036854775809", "99999999999999999999999"}

func c02PickQuery(r *Rand, site string) string {
	types := append(append([]string{}, c02ArchiveTypes...), "rar", "ZIP", "tar.gz%20", "%7Aip", "")
	switch k := r.Intn(100); {
	case k < 30:
		return ""
	case k < 65:
		return "?archive=" + r.Pick(types)
	case k < 75:
		return "?archive=" + r.Pick([]string{"zip", "tar.gz"})
	case k < 82:
		return "?sort=" + r.Pick([]string{"name", "namedirfirst", "size", "time", "bogus"}) + "&order=" + r.Pick([]string{"asc", "desc", "x"})
	case k < 90:
		return "?sort=" + r.Pick([]string{"name", "namedirfirst", "size", "time"}) + "&order=" + r.Pick([]string{"asc", "desc"}) + "&limit=" + r.Pick(c02Limits)
	case k < 95:
		return "?sort=" + r.Pick([]string{"name", "size", "time"}) + "&order=desc&archive=" + r.Pick(types)
	}
	return "?x=//evil.example/&y=%2f"
}

func c02Gen(r *Rand, tier string) []interface{} {
	var out []interface{}
	add := func(site, method, target, ae string, js bool) {
		out = append(out, &c02In{Site: site, Method: method, Target: target, AE: ae, JSON: js})
	}
	thorough := tier == "thorough"
	all := c02All()
	var dirs, files []string
	for _, e := range all {
		if e.Kind == 'd' {
			dirs = append(dirs, e.Path)
		} else {
			files = append(files, e.Path)
		}
	}
	segsOf := func(p string) []string {
		if p == "/" {
			return nil
		}
		return strings.Split(strings.TrimPrefix(p, "/"), "/")
	}

	// (1) exhaustive over the adversarial segment alphabet, static GET (depth 2; depth 3 sampled / full)
	alpha := []string{"a.txt", "dir", ".", "..", "", "%2e", "%2E%2e", "%2f", "\\", "%5c", "A.TXT", "Casketfile", "x"}
	var enum func(prefix string, depth int)
	enum = func(prefix string, depth int) {
		for _, a := range alpha {
			t := prefix + "/" + a
			if depth <= 2 || thorough || r.Chance(12) {
				add("static", "GET", t, "", false)
				add("static", "GET", t+"/", "", false)
			}
			if (depth <= 2 && r.Chance(50)) || (thorough && r.Chance(40)) {
				add("browse", "GET", t+r.Pick([]string{"", "/", "/?archive=zip", "/?archive=tar.gz"}), "", r.Chance(20))
			}
			if depth < 3 {
				enum(t, depth+1)
			}
		}
	}
	enum("", 1)

	// (2) directed: every directory x every archive type, listings x sort x json, on both browse sites
	for _, d := range dirs {
		t := c02Render(r, segsOf(d), true, 0)
		for _, at := range append(append([]string{}, c02ArchiveTypes...), "rar") {
			if thorough || d == "/" || d == "/links" || r.Chance(25) {
				add("browse", "GET", t+"?archive="+at, "", false)
			}
		}
		add("scoped", "GET", t+"?archive=zip", "", false)
		add("browse", "HEAD", t+"?archive=tar", "", false)
		for _, q := range []string{"", "?sort=name&order=desc", "?sort=size&order=asc", "?sort=time&order=desc", "?sort=namedirfirst"} {
			add("browse", "GET", t+q, "", false)
			add("browse", "GET", t+q, "", true)
		}
		add("scoped", "GET", t, "", r.Bool())
		add("browse", "GET", c02Render(r, segsOf(d), false, 0), "", false)
		add("static", "GET", c02Render(r, segsOf(d), false, 0), "", false)
	}
	// open-redirect shapes: k leading slashes, a foreign first segment cancelled by "..", directory / file-with-slash targets
	for k := 1; k <= 5; k++ {
		lead := strings.Repeat("/", k)
		for _, host := range []string{"evil.example", "evil.example:8080", "\\evil.example", "%5cevil.example", "@evil.example", "evil.example%2f.."} {
			for _, tail := range []string{"/..", "/%2e%2e", "/../dir", "/../dir/sub", "/../a.txt/", "/%2e%2e/dir/c.txt/", "/../Casketfile/", "/..//dir", "/../idx"} {
				if !thorough && !r.Chance(40) {
					continue
				}
				for _, site := range c02SiteKinds {
					add(site, r.Pick([]string{"GET", "GET", "HEAD"}), lead+host+tail, "", false)
				}
			}
		}
		add("static", "GET", lead+"dir", "", false)
		add("browse", "GET", lead+"dir", "", false)
		add("scoped", "GET", lead+"dir"+lead+"sub", "", false)
		add("static", "GET", lead+"a.txt/", "", false)
		add("browse", "GET", lead+"a.txt/?archive=zip", "", false)
	}
	// every file x every Accept-Encoding subset (order varied), GET and HEAD
	encs := []string{"gzip", "br", "zstd"}
	for _, f := range files {
		for mask := 0; mask < 8; mask++ {
			if !thorough && mask != 0 && mask != 7 && !strings.Contains(f, ".txt") && !r.Chance(30) {
				continue
			}
			var toks []string
			for _, i := range r.Perm(3) {
				if mask&(1<<i) != 0 {
					toks = append(toks, encs[i])
				}
			}
			add(r.Pick(c02SiteKinds), r.Pick([]string{"GET", "GET", "GET", "HEAD"}), c02Render(r, segsOf(f), false, 0), strings.Join(toks, r.Pick([]string{",", ", ", " , "})), false)
		}
	}

	// every file that has a precompressed sibling (or whose index page has) x every Accept-Encoding
	// spelling incl. the decoys that must NOT select a sibling (substring, case, q-values, x-gzip, *)
	for _, f := range []string{"/a.txt", "/b.txt", "/dir/c.txt", "/dir/sub/d.txt", "/idx/index.html", "/idx/", "/hsib.txt", "/dir/e", "/./a.txt", "/dir/../b.txt"} {
		for _, ae := range c02AEs[2:] {
			if thorough || r.Chance(60) {
				add(r.Pick(c02SiteKinds), r.Pick([]string{"GET", "GET", "GET", "HEAD"}), f, ae, false)
			}
		}
	}

	// sites with a path prefix (127.0.0.1:0/pre): the rest after the prefix is re-parsed by the server
	for _, site := range []string{"prefix", "prefix-browse"} {
		for _, t := range []string{"/a.txt", "/dir", "/dir/", "/a.txt/", "/Casketfile", "/./Casketfile", "/links/hard-casket", "/hsib.txt", "/idx/", "/../outside/o.txt", "/%2e%2e/root.txt", "",
			"//evil.example/..", "//evil.example/../dir", "//evil.example/%2e%2e/a.txt/", "///evil.example/../dir", "//dir", "//dir/sub", "/%2fevil.example/..", "/\\evil.example/../dir", "/%5cevil.example/../dir"} {
			add(site, "GET", "/pre"+t, r.Pick([]string{"", "gzip"}), false)
		}
		add(site, "GET", "/a.txt", "", false)
		add(site, "GET", "/pre%2fdir", "", false)
		add(site, "GET", "/pre/..%2fpre/dir", "", false)
	}

	// sites whose origin Casketfile lies elsewhere: in a sub-directory of the root, outside the root,
	// in a sibling directory whose name has the root's as a prefix
	for _, site := range c02OriginKinds {
		for _, t := range []string{"/Casketfile", "/sub2/Casketfile", "/x/Casketfile", "/sub2/./Casketfile", "/x/../sub2/Casketfile/.", "/links/hard-casket", "/", "/sub2/", "/x/",
			"/?archive=zip", "/sub2/?archive=zip", "/x/?archive=zip", "/secret.txt", "/a.txt", "/../outside/Casketfile", "/../rootx/Casketfile"} {
			add(site, "GET", t, r.Pick([]string{"", "gzip"}), r.Chance(30))
		}
	}

	// listings in every format: HTML / JSON x sort x order x limit (the cut comes after the hidden
	// entries are taken out), GET and HEAD
	for _, d := range dirs {
		t := c02Render(r, segsOf(d), true, 0)
		for _, lim := range c02Limits {
			if !thorough && d != "/" && d != "/hidx" && d != "/links" && !r.Chance(15) {
				continue
			}
			q := "?limit=" + lim
			if r.Bool() {
				q = "?sort=" + r.Pick([]string{"name", "namedirfirst", "size", "time"}) + "&order=" + r.Pick([]string{"asc", "desc"}) + "&limit=" + lim
			}
			add(r.Pick([]string{"browse", "browse", "scoped"}), r.Pick([]string{"GET", "GET", "GET", "HEAD"}), t+q, "", r.Bool())
		}
	}
	// HEAD beside GET: the headers of a HEAD answer (ETag, Content-Length, Last-Modified) describe a
	// file just as a body does — every file and every hidden spelling, with and without siblings
	for _, f := range files {
		t := c02Render(r, segsOf(f), false, 0)
		ae := r.Pick([]string{"", "gzip", "zstd, br, gzip"})
		site := r.Pick(c02SiteKinds)
		add(site, "HEAD", t, ae, false)
		if thorough || r.Chance(40) {
			add(site, "GET", t, ae, false)
		}
	}
	for _, t := range []string{"/Casketfile", "/./Casketfile", "//Casketfile", "/links/hard-casket", "/secret.txt", "/hsib.txt.gz", "/hidx/index.html", "/hidx/", "/hdir/in.txt", "/hdir/",
		"/x/../Casketfile", "/%43asketfile", "/Casketfile/", "/../outside/o.txt", "/../root.txt"} {
		for _, site := range append(append([]string{}, c02SiteKinds...), c02OriginKinds...) {
			add(site, "HEAD", t, r.Pick([]string{"", "gzip"}), false)
		}
	}

	// multi-site Casketfiles
	out = append(out, c02GenMulti(r, thorough)...)
	out = append(out, c02GenRange(r, thorough)...)
	out = append(out, c02GenSeq(r, thorough)...)

	// the symlink site (contract only)
	for _, t := range []string{"/", "/l/", "/l", "/l/to-in", "/l/to-dir", "/l/to-dir/", "/l/to-dir/f.txt", "/l/to-casket", "/l/to-secret", "/l/to-out", "/l/to-abs", "/l/to-outdir", "/l/to-outdir/",
		"/l/to-outdir/o.txt", "/l/dangling", "/l/plain.txt", "/l/./to-out", "/l/to-out/", "/L/to-out", "/l/?archive=zip", "/?archive=zip", "/d/?archive=zip", "/l/to-dir/?archive=zip", "/l/to-outdir/?archive=zip",
		"/l/?sort=size&order=desc", "/l/?limit=2", "/in.txt", "/Casketfile", "/secret.txt", "/d/"} {
		add("symlink", "GET", t, "", false)
		if !strings.Contains(t, "?archive") {
			add("symlink", r.Pick([]string{"HEAD", "GET"}), t, r.Pick([]string{"", "gzip"}), true)
		}
	}

	// (3) random respellings of fixture paths and of paths aimed outside the root
	n := 1100
	if thorough {
		n = 22000
	}
	extra := []string{"/x/Casketfile", "/sub2/Casketfile", "/nope", "/dir/nope.txt", "/../outside/o.txt", "/../rootx/x.txt", "/../root.txt", "/../outside/Casketfile", "/dir/../../outside/o.txt", "/CASKETFILE", "/casketfile",
		"/Secret.txt", "/SECRET.TXT", "/hsib.txt.GZ", "/HIDX/", "/hidx/INDEX.HTML", "/a.txt.gz", "/a.txt.zst/", "/dir/e.gz", "/idir/index.html", "/up.txt", "/DIR/c.txt", "/sub2/casketfile"}
	for i := 0; i < n; i++ {
		var p string
		switch k := r.Intn(100); {
		case k < 45:
			p = r.Pick(files)
		case k < 75:
			p = r.Pick(dirs)
		case k < 85:
			p = r.Pick(c02Hide())
		default:
			p = r.Pick(extra)
		}
		segs := segsOf(p)
		for k := r.Intn(4); k > 0; k-- {
			segs = c02Mutate(r, segs)
		}
		trailing := strings.HasSuffix(p, "/") || r.Chance(25)
		enc := 0
		if r.Chance(50) {
			enc = []int{4, 15, 40}[r.Intn(3)]
		}
		target := c02Render(r, segs, trailing, enc)
		site := r.Pick(c02SiteKinds)
		if r.Chance(8) {
			site = r.Pick([]string{"prefix", "prefix-browse"})
			target = "/pre" + target
		} else if r.Chance(8) {
			site = r.Pick(c02OriginKinds)
		}
		if site != "static" || r.Chance(15) {
			target += c02PickQuery(r, site)
		}
		add(site, c02PickMethod(r), target, r.Pick(c02AEs), site != "static" && r.Chance(30))
	}
	return out
}

// c02GenMulti: Casketfiles of 2-3 sites in every declaration order over the root relations, on one
// port and on several, then requests to EVERY site of each with that site's Host header.
func c02GenMulti(r *Rand, thorough bool) []interface{} {
	var out []interface{}
	var confs [][]c02MEl
	mk := func(roots ...string) []c02MEl {
		var c []c02MEl
		for _, root := range roots {
			c = append(c, c02MEl{Root: root})
		}
		return c
	}
	// every ordered pair (a root may serve two sites), every ordered triple (sampled in the quick tier)
	for _, a := range c02MRoots {
		for _, b := range c02MRoots {
			if a != b || a == "/www" || thorough {
				confs = append(confs, mk(a, b))
			}
			for _, c := range c02MRoots {
				if a != b && b != c && a != c && (thorough || r.Chance(12)) {
					confs = append(confs, mk(a, b, c))
				}
			}
		}
	}
	targets := []string{"/Casketfile", "/www/Casketfile", "/w/Casketfile", "/pub/Casketfile", "/www/pub/Casketfile", "/ww/w/Casketfile", "/links/hard-casket", "/www/links/hard-casket",
		"/hid.txt", "/www/hid.txt", "/a.txt", "/www/a.txt", "/p.txt", "/q.txt", "/o.txt", "/top.txt", "/", "/www/", "/w/", "/links/", "/www/links/", "/pub/", "/idx/", "/other/idx/", "/ww/", "/nope"}
	for ci, conf := range confs {
		for i := range conf {
			conf[i].Browse = r.Chance(70)
			conf[i].Spell = []int{0, 0, 0, 1, 2, 3}[r.Intn(6)]
			switch ci % 3 { // one listener for all, one per site, two sharing
			case 1:
				conf[i].Port = i
			case 2:
				conf[i].Port = i % 2
			}
			if r.Chance(10) {
				conf[i].Keys = 2
			}
		}
		if r.Chance(25) { // one site (and those sharing its root) without a root directive: the default root
			k := r.Intn(len(conf))
			for i := range conf {
				if conf[i].Root == conf[k].Root {
					conf[i].Spell = 4
				}
			}
		}
		nsites := 0
		for _, e := range conf {
			nsites += e.keys()
		}
		for pos := 0; pos < nsites; pos++ {
			el, _ := c02MSiteOf(conf, pos)
			add := func(method, target, ae string, js bool) {
				out = append(out, &c02In{Site: "multi", Method: method, Target: target, AE: ae, JSON: js, Multi: conf, Pos: pos})
			}
			// where the origin is inside this root, if it is (component-wise)
			inside := ""
			if el.Root == "/" {
				inside = c02MOrigin
			} else if strings.HasPrefix(c02MOrigin, el.Root+"/") {
				inside = strings.TrimPrefix(c02MOrigin, el.Root)
			}
			add("GET", "/Casketfile", "", false)
			add("HEAD", "/Casketfile", r.Pick([]string{"", "gzip"}), false)
			if inside != "" {
				segs := strings.Split(strings.TrimPrefix(inside, "/"), "/")
				add("GET", c02Render(r, c02Mutate(r, segs), false, []int{0, 15}[r.Intn(2)]), r.Pick([]string{"", "gzip"}), false)
				add("HEAD", c02Render(r, segs, false, 0), "", false)
				add("GET", c02Render(r, segs[:len(segs)-1], true, 0), "", r.Bool())
				add("GET", c02Render(r, segs[:len(segs)-1], true, 0)+"?archive="+r.Pick(c02MArchiveTypes), "", false)
			}
			add("GET", "/", "", false)
			add("GET", "/?sort="+r.Pick([]string{"name", "size", "time"})+"&order=desc&limit="+r.Pick([]string{"1", "2", "100"}), "", true)
			add("GET", "/?archive="+r.Pick(c02MArchiveTypes), "", false)
			n := 4
			if thorough {
				n = 10
			}
			for k := 0; k < n; k++ {
				t := r.Pick(targets)
				segs := []string(nil)
				if t != "/" {
					segs = strings.Split(strings.Trim(t, "/"), "/")
				}
				if r.Chance(40) {
					segs = c02Mutate(r, segs)
				}
				target := c02Render(r, segs, strings.HasSuffix(t, "/"), []int{0, 0, 15}[r.Intn(3)])
				if strings.HasSuffix(t, "/") && r.Chance(40) {
					target += "?archive=" + r.Pick(c02MArchiveTypes)
				}
				add(r.Pick([]string{"GET", "GET", "GET", "HEAD"}), target, r.Pick([]string{"", "", "gzip"}), r.Chance(30))
			}
		}
	}
	return out
}

func init() {
	register(&Property{
		ID: "C02", Imports: "V.Lib V.GoPath V.Gen_C02 V.Gen_C02b V.C02_Model", Judge: "judge", Shard: 285,
		Rule:   "real in-process sites (static; browse / with every archive type; browse /dir with zip, tar.gz; the same root under a site path prefix /pre; the origin Casketfile in a sub-directory of the root / outside it / in a sibling directory named root+x) rooted in a fixture with files, nested directories, index pages (incl. a directory named index.html and a hidden index page), .gz/.br/.zst siblings (incl. a hidden one and a directory named like one), hard links, odd names, the origin Casketfile inside the root, `internal`-hidden files and an `internal`-hidden directory, plus token files outside the root; raw request lines: exhaustive targets of depth <= 2 (3 sampled / full) over the segment alphabet {a.txt, dir, ., .., empty, %2e, %2E%2e, %2f, backslash, %5c, A.TXT, Casketfile, x} x trailing slash (static; sampled on browse with ?archive=); every directory x archive types / sort orders / JSON; open-redirect shapes (1..5 leading slashes x foreign first segment x dot-dot x directory or file-with-slash); every file x Accept-Encoding subsets and decoys; random respellings (dot segments, doubled / encoded slashes and dots, case flips, backslashes, climbing above the root, NUL) x methods x queries. MULTI-SITE Casketfiles written to disk and loaded from there (2-3 sites s0/s1/s2.c02.test, every ordered pair and sampled / every ordered triple over the root relations {contains the Casketfile directly, in a sub-directory, not at all (below / beside), sibling with a string-prefix name}; one port, one per site, two sharing; root spelled cleaned / trailing slash / with /./ / with x/../ / not at all (default root); blocks with two addresses), requests to EVERY site with its Host header: the Casketfile under every name it has in that root, its directory as HTML / JSON listing and as archive, random respellings; every directory x 24 spellings of ?limit= (HTML / JSON, sort, order); HEAD beside GET for every file and every hidden spelling (the file a header describes is identified by ETag, Content-Length, Last-Modified); a site with symbolic links (judged against the executable property only); SEQUENCES on one running site (twin sites rooted in a second copy of the main tree): a request that evaluates the hide list, then a hide-list entry (origin Casketfile, internal files, hidden sibling, hidden index page, hidden directory) or its directory or a visible control replaced on disk by a new inode (write + rename, directories swapped whole; tree re-verified against the table), then the entry asked for again directly (spellings), below it, via sibling / index page, in HTML / JSON listings and archives of its directory and of the root; longer histories (request, swap, request, swap, request) with every request judged. Prefix-site cases are modelled like the others (the path the handlers see is computed as trimPathPrefix does); those whose path does not start with the prefix never reach the site and are judged against the executable property only (CContract). RANGE / CONDITIONAL requests (c02_range.go): GET and HEAD on every file, index page, precompressed sibling, hidden file and its sibling, directory and listing of the static / browse / scoped / origin-sub sites with a Range header (single, multiple, suffix, open-ended, overlapping, longer than the file, unsatisfiable, malformed: 47 fixed spellings + random ones) and If-None-Match / If-Modified-Since / If-Range built from the validators of a probe; the pieces of every 200 / 206 body (multipart/byteranges read with mime/multipart) are located byte for byte in the files on disk. Non-trivial = answers 200, 206, 304, 416 or 3xx",
		Gen:    c02Gen,
		Decode: func(raw json.RawMessage) (interface{}, error) { in := &c02In{}; return in, json.Unmarshal(raw, in) },
		Run:    c02Run,
	})
	// Gen_C02b.v: browse's archive type list (from the sources) and the fixture tree (from c02Table)
	registerGen("Gen_C02b.v", func(repo string) (string, error) {
		_, f, err := parseGo(filepath.Join(repo, "caskethttp/browse/browse.go"))
		if err != nil {
			return "", err
		}
		consts := map[string]string{}
		var order []string
		ast.Inspect(f, func(n ast.Node) bool {
			switch x := n.(type) {
			case *ast.GenDecl:
				if x.Tok == token.CONST {
					for _, sp := range x.Specs {
						vs := sp.(*ast.ValueSpec)
						if id, ok := vs.Type.(*ast.Ident); ok && id.Name == "ArchiveType" && len(vs.Values) == 1 {
							if bl, ok := vs.Values[0].(*ast.BasicLit); ok {
								s, _ := strconv.Unquote(bl.Value)
								consts[vs.Names[0].Name] = s
							}
						}
					}
				}
			case *ast.ValueSpec:
				if len(x.Names) >= 1 && x.Names[0].Name == "ArchiveTypes" && len(x.Values) >= 1 {
					if cl, ok := x.Values[0].(*ast.CompositeLit); ok {
						for _, el := range cl.Elts {
							if id, ok := el.(*ast.Ident); ok {
								order = append(order, consts[id.Name])
							}
						}
					}
				}
			}
			return true
		})
		if len(order) == 0 {
			return "", fmt.Errorf("ArchiveTypes not found in browse.go")
		}
		tree := func(t *c02Tree) string {
			var nodes []string
			for _, n := range t.nodes() {
				nodes = append(nodes, fmt.Sprintf("(%s, %s, %s)", cStr(n.Path), cBool(n.Dir), cN(n.ID)))
			}
			return "[\n  " + strings.Join(nodes, ";\n  ") + "]"
		}
		return "Definition gen_archive_types : list bytes := " + cStrList(order) + ".\n" +
			"Definition gen_c02_fixture : list (bytes * bool * N) := " + tree(c02Main) + ".\n" +
			"(* the tree of the multi-site Casketfiles (origin: " + c02MOrigin + ") and the tree of the symlink site *)\n" +
			"Definition gen_c02_mtree : list (bytes * bool * N) := " + tree(c02M) + ".\n" +
			"Definition gen_c02_minternal : list bytes := " + cStrList(c02MInternal) + ".\n" +
			"Definition gen_c02_stree : list (bytes * bool * N) := " + tree(c02S) + ".\n" +
			"Definition gen_c02_sinternal : list bytes := " + cStrList(c02SInternal) + ".\n" +
			"Definition gen_c02_hide : list bytes := " + cStrList(c02Hide()) + ".\n" +
			"Definition gen_c02_internal : list bytes := " + cStrList(c02Internal) + ".\n", nil
	})
	extraCommands["c02probe"] = func(args []string) int {
		if len(args) < 3 {
			fmt.Fprintln(os.Stderr, "usage: harness c02probe <site> <method> <target> [accept-encoding] [json]")
			return 2
		}
		in := &c02In{Site: args[0], Method: args[1], Target: args[2]}
		if len(args) > 3 {
			in.AE = args[3]
		}
		in.JSON = len(args) > 4
		if strings.HasPrefix(args[0], "{") { // a whole input as JSON, then method and target
			in = &c02In{}
			if err := json.Unmarshal([]byte(args[0]), in); err != nil {
				fmt.Fprintln(os.Stderr, err)
				return 2
			}
			in.Method, in.Target = args[1], args[2]
		}
		o, err := c02Do(in)
		if err != nil {
			fmt.Fprintln(os.Stderr, err)
			return 1
		}
		b, _ := json.Marshal(o)
		fmt.Println(string(b))
		r := c02Run(in)
		fmt.Println("sig:", r.Sig)
		fmt.Println("term:", r.Term)
		os.RemoveAll(c02Fixture().base)
		return 0
	}
}
