package main

// C05 — kinds "retrymid" and "retryseq".
//
// retrymid: ONE request with a pattern body through a proxy with retries whose first attempts reach
// backends that accept the request, read k bytes of the body (k = 0, 1, half, len-1, len, buffer
// boundaries ...) and die — the machinery of c04_retry.go (scripted transport, or the real
// http.Transport with shrunk socket buffers against loopback backends that reset the connection).
// Judged for EVERY attempt: the bytes its backend could read from the start of the attempt AND the
// Content-Length it was announced.

import (
	"bytes"
	"fmt"
	"net/http"
	"net/http/httptest"
	"strings"
	"sync/atomic"
	"time"

	"github.com/tmpim/casket/casketfile"
	"github.com/tmpim/casket/caskethttp/proxy"
)

func c05RunRetryMid(in *c05In) Result {
	m := in.Mid
	if m == nil || m.BodyLen < 0 {
		return c05SkipT("bad input", "retrymid:bad-input")
	}
	m.Kind = "retrybody"
	res := c04RunRetryBody(m)
	obs, ok := res.Obs.(map[string]interface{})
	if !ok {
		r := c05SkipT(fmt.Sprint(res.Obs), "retrymid:setup-error")
		r.Direct = fmt.Sprint("mid-body retry case could not be run: ", res.Obs)
		return r
	}
	atts, _ := obs["attempts"].([]c04RAtt)
	status, _ := obs["status"].(int)
	ret, _ := obs["ret"].(int)
	var it []string
	mid := false
	for _, a := range atts {
		it = append(it, cApp("mk_rmatt", cZ(a.Asked), c05BObsTerm(a.Body), cZ(a.CL), cBool(a.Failed)))
		if a.Failed && a.Asked > 0 && int(a.Asked) < m.BodyLen {
			mid = true
		}
	}
	mode, framing := "scripted", "content-length"
	if m.RealWire {
		mode = "wire"
	}
	if m.Chunked {
		framing = "chunked"
	}
	sig := "retrymid:" + mode
	if mid {
		sig += ":backend-died-mid-body:" + framing
	}
	return Result{Term: cApp("CRetryMid", cBool(m.RealWire), cN(uint64(m.Salt)), cN(uint64(m.BodyLen)), cBool(m.Chunked), cList(it), cN(uint64(status)), cN(uint64(ret))),
		Obs: obs, Sig: sig, Direct: res.Direct, Nontrivial: mid,
		Class: fmt.Sprintf("retrymid:%s:%s:fails=%d", mode, framing, len(m.FailRead))}
}

// retryseq: SEVERAL requests, one after the other, through ONE proxy (the timed machinery of
// c05_retry.go: fault-scripted transport per host whose script goes on from request to request, real
// time on a grid).  Request j starts Gaps[j] units after the previous one returned; Fails of every
// host is read when a request starts, when it returns, and Tail units after the last one.  Event
// times are reported relative to the start of their request.
type c05Seq struct {
	RT   *c05RT `json:"rt"`
	Gaps []int  `json:"gaps"` // per request: idle units before it starts (>= 1)
	Tail int    `json:"tail"` // units after the last request at which Fails is read once more
}

type c05SeqObs struct {
	start  int
	f0, f1 []int
	events []c05Ev
	out    string
	obs    map[string]interface{}
}

func c05SeqTimed(in *c05In, scale int) (Result, int) {
	sq := in.Seq
	rt := sq.RT
	n := len(rt.Scripts)
	grid := c05Grid * time.Duration(scale)
	us := func(half int) string { return fmt.Sprintf("%dus", int64(time.Duration(half)*grid/2/time.Microsecond)) }
	names := make([]string, n)
	for i := range names {
		names[i] = fmt.Sprintf("http://127.0.0.1:%d", 10000+i)
	}
	polLine := in.Policy
	if in.Policy == "header" {
		polLine = "header X-Key"
	}
	text := fmt.Sprintf("proxy / %s {\n policy %s\n max_fails %d\n try_interval %s\n", strings.Join(names, " "), polLine, rt.MF, us(2*rt.TI))
	if rt.FT2 > 0 {
		text += " fail_timeout " + us(rt.FT2) + "\n"
	}
	if rt.TD2 > 0 {
		text += " try_duration " + us(rt.TD2) + "\n"
	}
	text += "}\n"
	ups, err := proxy.NewStaticUpstreams(casketfile.NewDispenser("Testfile", strings.NewReader(text)), "")
	if err != nil || len(ups) != 1 {
		r := c05SkipT(fmt.Sprint("setup error ", err), "retryseq:setup-error")
		r.Direct = fmt.Sprint("proxy block rejected: ", err)
		return r, 0
	}
	defer ups[0].Stop()
	run := &c05TRun{in: rt, grid: grid, hosts: hostsOf(ups[0]), body: bodyOf(in.BodyLen), uses: make([]int, n),
		cur: make([]c05Step, n), held: make([]bool, n), fails: make([][]time.Duration, n), pending: -1}
	for i, h := range run.hosts {
		h.ReverseProxy.Transport = &c05Transport{run: run, host: i}
	}
	hasBody := in.BodyLen > 0
	var pterm string
	switch in.Policy {
	case "first":
		pterm = "PFirst"
	case "ip_hash":
		pterm = cApp("PHash", cN(uint64(fnv32a("192.0.2.7"))))
	case "uri_hash":
		pterm = cApp("PHash", cN(uint64(fnv32a(httptest.NewRequest("POST", "http://example.test/up", nil).RequestURI))))
	case "header":
		pterm = cApp("PHeaderValue", cN(uint64(fnv32a("k-"+in.Key))))
	case "random":
		pterm = "PRandom"
	case "least_conn":
		pterm = "PLeastConn"
	default:
		return c05SkipT("bad policy", "retryseq:bad-input"), 0
	}
	p := proxy.Proxy{Next: handlerFunc(func(w http.ResponseWriter, r *http.Request) (int, error) { return 404, nil }),
		Upstreams: []proxy.Upstream{&c05Up{Upstream: ups[0], run: run}}}
	dmax := 0
	for _, sc := range rt.Scripts {
		for _, st := range append(append([]c05Step(nil), sc.Pre...), sc.Dflt) {
			if st.D > dmax {
				dmax = st.D
			}
		}
	}
	limit := 3*time.Duration(rt.TD2/2+rt.TI+dmax+4)*grid + 2*time.Second
	readFails := func() []int {
		f := make([]int, n)
		for i, h := range run.hosts {
			f[i] = int(atomic.LoadInt32(&h.Fails))
		}
		return f
	}
	// a reading of Fails that falls close to an expiry of the harness's books is not usable
	nearExpiry := func(now time.Duration) {
		if rt.FT2 == 0 {
			return
		}
		ft := time.Duration(rt.FT2) * grid / 2
		for _, fs := range run.fails {
			for _, at := range fs {
				if d := at + ft - now; d < grid/8 && d > -grid/8 {
					run.margin = true
				}
			}
		}
	}
	var reqs []c05SeqObs
	direct := ""
	run.t0 = time.Now()
	endTick := 0
	nfailed := 0
	for j, gap := range sq.Gaps {
		if gap < 1 {
			gap = 1
		}
		startTick := endTick + 2*gap
		time.Sleep(time.Until(run.t0.Add(time.Duration(startTick) * grid / 2)))
		var req *http.Request
		if hasBody {
			req = httptest.NewRequest("POST", "http://example.test/up", &c05Body{r: bytes.NewReader(run.body)})
			req.ContentLength = int64(in.BodyLen)
		} else {
			req = httptest.NewRequest("POST", "http://example.test/up", nil)
		}
		req.RemoteAddr = "192.0.2.7:4711"
		req.Header.Set("X-Key", "k-"+in.Key)
		rec := httptest.NewRecorder()
		var status, tEnd int
		var serr error
		hung, panicked := false, ""
		done := make(chan struct{})
		run.events, run.it, run.first, run.pending = nil, 0, false, -1
		now := time.Since(run.t0)
		if run.tick(now) != startTick {
			run.margin = true
		}
		run.lastEnd = now
		nearExpiry(now)
		o := c05SeqObs{start: startTick, f0: readFails()}
		go func() {
			defer close(done)
			defer func() {
				if x := recover(); x != nil {
					if _, ok := x.(c05Abort); ok {
						hung = true
					} else {
						panicked = fmt.Sprint(x)
					}
				}
			}()
			status, serr = p.ServeHTTP(rec, req)
			end := time.Since(run.t0)
			if end-run.lastEnd > grid/4 {
				run.margin = true
			}
			tEnd = run.tick(end)
			nearExpiry(end)
			o.f1 = readFails()
		}()
		select {
		case <-done:
		case <-time.After(limit):
			atomic.StoreInt32(&run.abort, 1)
			<-done
		}
		final := -1
		switch {
		case status == 0 && rec.Code == 200:
			fmt.Sscan(rec.Header().Get("X-Backend"), &final)
			o.out = cApp("TAnswered", cNat(final), cN(uint64(tEnd-startTick)))
		case status == http.StatusBadGateway:
			o.out = cApp("T502", cN(uint64(tEnd-startTick)))
		default:
			o.out = "THang"
			direct = fmt.Sprintf("request %d: Proxy.ServeHTTP returned status %d (recorder %d) err %v", j, status, rec.Code, serr)
		}
		if hung {
			atomic.AddInt32(&c05Hangs, 1)
			o.out = "THang"
			direct = fmt.Sprintf("request %d: Proxy.ServeHTTP did not return within %v: the retry loop does not end", j, limit)
			run.margin, run.books = false, false
		} else if panicked != "" {
			o.out = "THang"
			direct = fmt.Sprintf("request %d: Proxy.ServeHTTP panicked: %s", j, panicked)
		}
		if o.f1 == nil {
			o.f1 = readFails()
		}
		var obsEv []string
		for _, e := range run.events {
			e.t -= startTick
			e.te -= startTick
			o.events = append(o.events, e)
			switch e.kind {
			case "none":
				obsEv = append(obsEv, fmt.Sprintf("%d:none", e.t))
			case "refused":
				obsEv = append(obsEv, fmt.Sprintf("%d:refused h%d", e.t, e.host))
			default:
				obsEv = append(obsEv, strings.TrimSpace(fmt.Sprintf("%d-%d:h%d %s %s ok=%v %s", e.t, e.te, e.host, e.k, e.rx, e.ok, e.rxInfo)))
				if !e.ok {
					nfailed++
				}
			}
		}
		o.obs = map[string]interface{}{"start_tick": startTick, "fails_at_start": o.f0, "events": obsEv, "status": status, "code": rec.Code,
			"final_host": final, "end_tick": tEnd - startTick, "fails_at_end": o.f1}
		reqs = append(reqs, o)
		if hung || panicked != "" || o.out == "THang" {
			break
		}
		endTick = tEnd
	}
	tail := sq.Tail
	if tail < 1 {
		tail = 1
	}
	finTick := endTick + 2*tail
	time.Sleep(time.Until(run.t0.Add(time.Duration(finTick) * grid / 2)))
	now := time.Since(run.t0)
	if run.tick(now) != finTick {
		run.margin = true
	}
	nearExpiry(now)
	finF := readFails()
	for i, h := range run.hosts {
		if c := atomic.LoadInt64(&h.Conns); c != 0 {
			direct = fmt.Sprintf("host %d: Conns = %d after the requests", i, c)
		}
	}
	zl := func(xs []int) string {
		it := make([]string, len(xs))
		for i, x := range xs {
			it[i] = cZ(int64(x))
		}
		return cList(it)
	}
	var rterms []string
	var robs []interface{}
	for _, o := range reqs {
		var evs []string
		for _, e := range o.events {
			switch e.kind {
			case "none":
				evs = append(evs, cApp("ENone", cN(uint64(e.t))))
			case "refused":
				evs = append(evs, cApp("ERefused", cN(uint64(e.t)), cNat(e.host)))
			default:
				evs = append(evs, cApp("EAttempt", cN(uint64(e.t)), cNat(e.host), e.k, e.rx, cBool(e.ok), cN(uint64(e.te))))
			}
		}
		rterms = append(rterms, cApp("mk_sreq", cN(uint64(o.start)), zl(o.f0), cList(evs), o.out, zl(o.f1)))
		robs = append(robs, o.obs)
	}
	bs := func(xs []bool) string {
		it := make([]string, len(xs))
		for i, x := range xs {
			it[i] = cBool(x)
		}
		return cList(it)
	}
	var scr []string
	for _, s := range rt.Scripts {
		var pre []string
		for _, st := range s.Pre {
			pre = append(pre, c05StepTerm(st))
		}
		scr = append(scr, cApp("mk_script", cList(pre), c05StepTerm(s.Dflt)))
	}
	cfg := cApp("mk_tcfg", cNat(n), cN(uint64(rt.MF)), cN(uint64(rt.FT2)), cN(uint64(rt.TD2)), cN(uint64(2*rt.TI)), cBool(hasBody))
	status2 := 0
	if run.margin {
		status2 = 2
	} else if run.books {
		status2 = 1
	}
	return Result{Term: cApp("CRetrySeq", pterm, cfg, bs(rt.Unh), cList(scr), cList(rterms), cN(uint64(finTick)), zl(finF)),
		Obs: map[string]interface{}{"requests": robs, "final_tick": finTick, "fails_at_final_tick": finF, "grid_ms": float64(grid) / 1e6, "notes": run.notes},
		Direct: direct, Sig: fmt.Sprintf("retryseq:%s", in.Policy), Nontrivial: nfailed > 0 && len(reqs) >= 2,
		Class: fmt.Sprintf("retryseq:%s:n%d:reqs%d:failed%d", in.Policy, n, len(reqs), min(nfailed, 3))}, status2
}

func c05RunRetrySeq(in *c05In) Result {
	sq := in.Seq
	if sq == nil || sq.RT == nil || len(sq.RT.Scripts) < 1 || len(sq.RT.Unh) != len(sq.RT.Scripts) || sq.RT.TI < 1 || sq.RT.MF < 1 || len(sq.Gaps) < 1 {
		return c05SkipT("bad input", "retryseq:bad-input")
	}
	if atomic.LoadInt32(&c05Hangs) >= 3 {
		return c05SkipT("skipped: three earlier requests did not return", "retryseq:skipped-after-hangs")
	}
	var res Result
	status := 0
	var terms []string
	for _, scale := range []int{1, 2, 4} {
		res, status = c05SeqTimed(in, scale)
		if status != 2 {
			// Fails differing from the harness's books (status 1) is what the case is there to judge
			return res
		}
		terms = append(terms, res.Term)
	}
	if terms[0] == terms[1] && terms[1] == terms[2] {
		return res
	}
	return c05SkipT("real-time margins missed in 3 runs", "retryseq:timing-invalid")
}

func c05GenRetrySeq(r *Rand, i int) *c05In {
	n := r.Range(1, 3)
	rt := &c05RT{MF: r.Pick2(1, 2, 2, 3, 3), TI: 1, Unh: make([]bool, n)}
	rt.FT2 = r.Pick2(3, 5, 7, 9, 201)
	rt.TD2 = r.Pick2(0, 3, 5, 7, 9, 13)
	in := &c05In{Kind: "retryseq", Policy: r.Pick([]string{"first", "first", "ip_hash", "uri_hash", "header", "random", "least_conn"}),
		BodyLen: r.Pick2(0, 100), Key: fmt.Sprint(r.Intn(50)), Seq: &c05Seq{RT: rt}}
	step := func() c05Step { return c05Step{K: r.Pick([]string{"ok", "ok", "fb", "fa"}), D: r.Pick2(0, 0, 1)} }
	for j := 0; j < n; j++ {
		rt.Unh[j] = r.Chance(8)
		s := c05Script{Dflt: step()}
		for k := r.Intn(7); k > 0; k-- {
			s.Pre = append(s.Pre, step())
		}
		rt.Scripts = append(rt.Scripts, s)
	}
	nreq := r.Range(2, 5)
	for j := 0; j < nreq; j++ {
		in.Seq.Gaps = append(in.Seq.Gaps, r.Range(1, 3))
	}
	short := rt.FT2 < 100
	if short {
		in.Seq.Tail = rt.FT2/2 + r.Range(1, 2)
		// some pauses outlast fail_timeout
		for j := range in.Seq.Gaps {
			if r.Chance(40) {
				in.Seq.Gaps[j] = rt.FT2/2 + r.Range(1, 2)
			}
		}
	} else {
		in.Seq.Tail = 1
	}
	if i%3 == 0 {
		// a host with a hiccup that recovers and later dies for good, next to one that is always up:
		// h fails k < max_fails times, answers, the pause outlasts fail_timeout, then it fails every forward
		rt.MF = r.Pick2(2, 2, 3)
		rt.FT2 = r.Pick2(3, 5, 7)
		h := r.Intn(n)
		k := r.Range(1, rt.MF-1)
		s := c05Script{Dflt: c05Step{K: r.Pick([]string{"fb", "fa"})}}
		for ; k > 0; k-- {
			s.Pre = append(s.Pre, c05Step{K: r.Pick([]string{"fb", "fa"})})
		}
		s.Pre = append(s.Pre, c05Step{K: "ok"})
		rt.Scripts[h] = s
		rt.Unh[h] = false
		if n > 1 {
			g := (h + 1 + r.Intn(n-1)) % n
			rt.Scripts[g] = c05Script{Dflt: c05Step{K: "ok"}}
			rt.Unh[g] = false
		}
		rt.TD2 = r.Pick2(5, 7, 9)
		in.Seq.Gaps = []int{1, rt.FT2/2 + r.Range(1, 3), r.Range(1, 2)}
		if r.Chance(50) {
			in.Seq.Gaps = append(in.Seq.Gaps, r.Range(1, 2))
		}
		in.Seq.Tail = rt.FT2/2 + 2
	}
	return in
}
