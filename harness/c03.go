package main

import (
	"encoding/base64"
	"encoding/json"
	"fmt"
	"net/http"
	"net/http/httptest"
	"net/url"
	"os"
	"path/filepath"
	"strings"

	"github.com/tmpim/casket/caskethttp/httpserver"
	"github.com/tmpim/casket/caskethttp/internalsrv"
)

type c03Rule struct {
	Res  []string `json:"res"`
	Excl []string `json:"excl,omitempty"`
	OK   bool     `json:"ok,omitempty"` // request carries this rule's credentials
}
type c03In struct {
	Kind   string    `json:"kind"` // matches | auth | internal | site
	CS     bool      `json:"cs,omitempty"`
	P      string    `json:"p,omitempty"`
	Base   string    `json:"base,omitempty"`
	Method string    `json:"method,omitempty"`
	Rules  []c03Rule `json:"rules,omitempty"`
	Paths  []string  `json:"paths,omitempty"`
	// site
	Prot   string   `json:"prot,omitempty"`
	Extras []string `json:"extras,omitempty"`
	Target string   `json:"target,omitempty"`
	Creds  string   `json:"creds,omitempty"` // none | wrong | right
	AE     string   `json:"ae,omitempty"`
}

const (
	tPUBIDX = "TOKPUBIDXq1z"
	tPUBA   = "TOKPUBAq2z"
	tSF     = "TOKSFq3z"
	tSFGZ   = "TOKSFGZq4z"
	tSIDX   = "TOKSIDXq5z"
	tSG     = "TOKSGq6z"
	tOPEN   = "TOKOPENq7z"
	tSNAME  = "NAMETOKq8z"
	tSN     = "TOKSNq9z"
	tIH     = "TOKIHq10z"
	tIIDX   = "TOKIIDXq11z"
	tAPI    = "TOKAPIq12z"
	tSEXT   = "TOKSEXTq13z"
	tARCP   = "TOKARCPq14z"
)

var c03Root string
var c03Backend *httptest.Server

func c03Fixture() string {
	if c03Root != "" {
		return c03Root
	}
	base := os.Getenv("VERIF_ROOT")
	if base == "" {
		base = os.TempDir()
	}
	root, err := os.MkdirTemp(filepath.Join(base, "run"), "c03fix")
	if err != nil {
		panic(err)
	}
	writeFixture(root, map[string]string{
		"index.html":                 "<html>" + tPUBIDX + "</html>",
		"pub/a.txt":                  tPUBA,
		"secret/f.txt":               tSF,
		"secret/f.txt.gz":            gzipBytes(tSFGZ),
		"secret/index.html":          "<html>" + tSIDX + "</html>",
		"secret/sub/g.md":            "# " + tSG + "\n",
		"secret/pub/open.txt":        tOPEN,
		"secret/" + tSNAME + ".txt":  tSN,
		"secret/page.html":           tSEXT,
		"arc/open.txt":               "nothing secret here",
		"arc/priv/p.txt":             tARCP,
		"int/h.txt":                  tIH,
		"int/index.html":             tIIDX,
	})
	c03Root = root
	c03Backend = httptest.NewServer(http.HandlerFunc(func(w http.ResponseWriter, r *http.Request) {
		fmt.Fprintf(w, "backend says %s for %s", tAPI, r.URL.Path)
	}))
	return root
}

// protection configs: directive text and the tokens it protects
var c03Prots = map[string]struct {
	text   string
	tokens []string
}{
	"auth-dir":     {"basicauth u p {\n /secret\n /arc/priv\n}", []string{tSF, tSFGZ, tSIDX, tSG, tOPEN, tSNAME, tSN, tSEXT, tARCP}},
	"auth-dir-ex":  {"basicauth u p {\n /secret\n exclude /secret/pub\n}", []string{tSF, tSFGZ, tSIDX, tSG, tSNAME, tSN, tSEXT}},
	"auth-slash":   {"basicauth /secret/ u p", []string{tSF, tSFGZ, tSIDX, tSG, tOPEN, tSNAME, tSN, tSEXT}},
	"internal":     {"internal /int", []string{tIH, tIIDX}},
	"auth-file":    {"basicauth /secret/f.txt u p", []string{tSF}},
	"auth-index":   {"basicauth /secret/index.html u p", []string{tSIDX}},
	"auth-api":     {"basicauth /api u p", []string{tAPI}},
	"auth-two":     {"basicauth /secret u p {\n exclude /secret/pub\n}\nbasicauth /secret/pub/open.txt v q", []string{tSF, tSFGZ, tSIDX, tSG, tSNAME, tSN, tSEXT, tOPEN}},
}

func c03Run(in0 interface{}) Result {
	in := in0.(*c03In)
	switch in.Kind {
	case "matches":
		httpserver.CaseSensitivePath = in.CS
		obs := httpserver.Path(in.P).Matches(in.Base)
		httpserver.CaseSensitivePath = false
		return Result{Term: cApp("CMatches", cBool(in.CS), cStr(in.P), cStr(in.Base), cBool(obs)), Obs: obs,
			Sig: "matches", Nontrivial: obs, Class: fmt.Sprintf("matches:%v", obs)}
	case "auth":
		httpserver.CaseSensitivePath = in.CS
		defer func() { httpserver.CaseSensitivePath = false }()
		// build the rules through the real directive parser
		var sb strings.Builder
		for i, ru := range in.Rules {
			fmt.Fprintf(&sb, "basicauth user%d pw%d {\n", i, i)
			for _, r := range ru.Res {
				fmt.Fprintf(&sb, "  %s\n", r)
			}
			for _, e := range ru.Excl {
				fmt.Fprintf(&sb, "  exclude %s\n", e)
			}
			sb.WriteString("}\n")
		}
		cfg, err := setupDirective("basicauth", sb.String())
		if err != nil {
			return Result{Term: "(CSite false false)", Obs: "setup error " + err.Error(), Class: "auth:setup-error", Sig: "auth:setup-error"}
		}
		passed := false
		h := compile(cfg.Middleware(), handlerFunc(func(w http.ResponseWriter, r *http.Request) (int, error) { passed = true; return 200, nil }))
		req := &http.Request{Method: in.Method, URL: &url.URL{Path: in.P}, Header: http.Header{}, RemoteAddr: "192.0.2.1:1"}
		for i, ru := range in.Rules {
			if ru.OK {
				req.SetBasicAuth(fmt.Sprintf("user%d", i), fmt.Sprintf("pw%d", i))
			}
		}
		status, _ := h.ServeHTTP(httptest.NewRecorder(), req)
		denied := status == 401 && !passed
		var rs []string
		for _, ru := range in.Rules {
			rs = append(rs, fmt.Sprintf("{| r_resources := %s; r_exclude := %s; r_creds_ok := %s |}", cStrList(ru.Res), cStrList(ru.Excl), cBool(ru.OK)))
		}
		direct := ""
		if (status == 401) == passed {
			direct = fmt.Sprintf("status %d but next handler called=%v", status, passed)
		}
		return Result{Term: cApp("CAuth", cBool(in.CS), cBool(in.Method == "OPTIONS"), cStr(in.P), cList(rs), cBool(denied)), Obs: map[string]interface{}{"status": status, "passed": passed},
			Sig: "auth", Direct: direct, Nontrivial: denied, Class: fmt.Sprintf("auth:denied=%v", denied)}
	case "internal":
		blocked := true
		h := internalsrv.Internal{Paths: in.Paths, Next: handlerFunc(func(w http.ResponseWriter, r *http.Request) (int, error) { blocked = false; return 200, nil })}
		req := &http.Request{Method: "GET", URL: &url.URL{Path: in.P}, Header: http.Header{}}
		status, _ := h.ServeHTTP(httptest.NewRecorder(), req)
		direct := ""
		if blocked != (status == 404) {
			direct = fmt.Sprintf("status %d blocked=%v", status, blocked)
		}
		return Result{Term: cApp("CInternal", "false", cStr(in.P), cStrList(in.Paths), cBool(blocked)), Obs: status, Sig: "internal", Direct: direct, Nontrivial: blocked, Class: fmt.Sprintf("internal:%v", blocked)}
	case "site":
		root := c03Fixture()
		prot := c03Prots[in.Prot]
		body := "root " + root + "\n" + prot.text + "\n"
		for _, e := range in.Extras {
			body += strings.ReplaceAll(e, "BACKEND", c03Backend.URL) + "\n"
		}
		st, err := getSite(body)
		if err != nil {
			return Result{Term: "(CSite false false)", Obs: "start error: " + err.Error(), Class: "site:start-error", Sig: "site:start-error"}
		}
		hdr := map[string]string{}
		switch in.Creds {
		case "right":
			user, pw := "u", "p"
			hdr["Authorization"] = "Basic " + base64.StdEncoding.EncodeToString([]byte(user+":"+pw))
		case "wrong":
			hdr["Authorization"] = "Basic " + base64.StdEncoding.EncodeToString([]byte("u:nope"))
		}
		if in.AE != "" {
			hdr["Accept-Encoding"] = in.AE
		}
		resp := doRaw(st.addr, in.Method, in.Target, hdr, nil)
		views := decodedViews(resp.Body)
		var leaked []string
		for _, tok := range prot.tokens {
			if containsAny(views, tok) {
				leaked = append(leaked, tok)
			}
		}
		unauth := in.Creds != "right" || in.Prot == "internal"
		if in.Method == "OPTIONS" && in.Prot != "internal" {
			unauth = false // documented unauthenticated pass-through of OPTIONS (excluded by the property)
		}
		if in.Prot == "auth-two" && in.Creds == "right" {
			// credentials u:p are valid for rule 1 only; tOPEN is protected by rule 2 (v:q)
			var l2 []string
			for _, t := range leaked {
				if t == tOPEN {
					l2 = append(l2, t)
				}
			}
			leaked = l2
			unauth = in.Method != "OPTIONS"
		}
		disclosed := len(leaked) > 0
		sig := "site:" + in.Prot
		if disclosed && unauth {
			sig = c03Sig(in, leaked, resp.Header.Get("Content-Type"))
		}
		return Result{Term: cApp("CSite", cBool(unauth), cBool(disclosed)), Obs: map[string]interface{}{"status": resp.Status, "leaked": leaked, "len": len(resp.Body), "err": resp.Err, "location": resp.Header.Get("Location")},
			Sig: sig, Nontrivial: resp.Status != 404 && resp.Status != 0, Key: body + "|" + in.Method + in.Target + in.Creds + in.AE,
			Class: fmt.Sprintf("site:%s:%s:%d", in.Prot, in.Creds, resp.Status)}
	}
	panic("bad kind")
}

// c03Sig classifies a disclosure by its mechanism (for known findings)
func c03Sig(in *c03In, leaked []string, ctype string) string {
	has := func(s string) bool {
		for _, e := range in.Extras {
			if strings.HasPrefix(e, s) {
				return true
			}
		}
		return false
	}
	switch {
	case strings.HasPrefix(ctype, "application/zip") || strings.HasPrefix(ctype, "application/tar"):
		return "site:disclosure:browse-archive-of-unprotected-ancestor"
	case in.Prot == "auth-index" || in.Prot == "auth-file":
		return "site:disclosure:file-scope:" + in.Prot
	case has("rewrite /alias2 secret") && strings.Contains(strings.ToLower(in.Target), "alias2"):
		return "site:disclosure:unrooted-rewrite-target"
	}
	return "site:disclosure:" + in.Prot
}

func c03Gen(r *Rand, tier string) []interface{} {
	var out []interface{}
	nM, nA, nS := 1500, 700, 900
	if tier == "thorough" {
		nM, nA, nS = 30000, 10000, 9000
	}
	segs := []string{"a", "b", "A", "secret", "pub", ".", "..", "", "x.y", "B"}
	bases := []string{"/", "", "/a", "/a/", "/a/b", "/A", "/secret", "/secret/", "/secret/pub", "//a", "/a/./b", "/a/../b", "a", "/x.y", "/a//b/", "/."}
	mkp := func() string {
		n := r.Range(0, 5)
		p := ""
		for i := 0; i < n; i++ {
			p += "/" + r.Pick(segs)
		}
		if p == "" || r.Chance(20) {
			p += "/"
		}
		if r.Chance(3) {
			p = strings.TrimPrefix(p, "/")
		}
		return p
	}
	for i := 0; i < nM; i++ {
		p := mkp()
		b := r.Pick(bases)
		if r.Chance(40) { // base = prefix of the cleaned or raw path
			parts := strings.Split(strings.Trim(p, "/"), "/")
			k := r.Intn(len(parts) + 1)
			b = "/" + strings.Join(parts[:k], "/")
			if r.Chance(30) {
				b += "/"
			}
		}
		out = append(out, &c03In{Kind: "matches", CS: r.Chance(30), P: p, Base: b})
	}
	for i := 0; i < nA; i++ {
		in := &c03In{Kind: "auth", CS: r.Chance(20), P: mkp(), Method: r.Pick([]string{"GET", "GET", "POST", "HEAD", "OPTIONS", "PUT"})}
		nr := r.Range(1, 3)
		for j := 0; j < nr; j++ {
			ru := c03Rule{OK: r.Chance(25)}
			for k := r.Range(1, 3); k > 0; k-- {
				ru.Res = append(ru.Res, r.Pick(bases[2:]))
			}
			for k := r.Intn(3); k > 0; k-- {
				ru.Excl = append(ru.Excl, r.Pick(bases[2:]))
			}
			if r.Chance(50) { // aim a resource at the request path
				parts := strings.Split(strings.Trim(in.P, "/"), "/")
				ru.Res[0] = "/" + strings.Join(parts[:r.Intn(len(parts)+1)], "/")
				if ru.Res[0] == "/" && r.Chance(80) {
					ru.Res[0] = "/" + parts[0]
				}
			}
			in.Rules = append(in.Rules, ru)
		}
		// a request carries one credential pair: at most one rule can be satisfied
		seenOK := false
		for j := range in.Rules {
			if in.Rules[j].OK && seenOK {
				in.Rules[j].OK = false
			}
			seenOK = seenOK || in.Rules[j].OK
		}
		out = append(out, in)
		if i%5 == 0 {
			out = append(out, &c03In{Kind: "internal", P: mkp(), Paths: []string{r.Pick(bases[2:]), r.Pick(bases[2:])}})
		}
	}
	// full sites
	extras := []string{
		"rewrite /alias /secret/f.txt",
		"rewrite /alias2 secret/f.txt",
		"rewrite {\n regexp ^/re/(.*)$\n to /secret/{1}\n}",
		"tryfiles /tf1 /secret/f.txt",
		"ext .txt .html",
		"index index.html h.txt",
		"gzip",
		"browse / {\n servearchive zip tar\n}",
		"browse /",
		"templates",
		"markdown /",
		"proxy /api BACKEND",
		"header / X-Test 1",
		"errors",
		"mime .txt text/plain",
	}
	targetsFor := map[string][]string{
		"secret": {"/secret/f.txt", "/secret/", "/secret", "/secret/index.html", "/secret/sub/g.md", "/secret/pub/open.txt", "/secret/sub/", "/secret/f", "/secret/page",
			"/alias", "/alias2", "/re/f.txt", "/re/sub/g.md", "/tf1", "/", "/?archive=zip", "/?archive=tar", "/secret/?archive=zip", "/secret/sub/?archive=tar", "/pub/?archive=zip", "/secret/" + tSNAME + ".txt", "/arc/", "/arc/?archive=zip", "/arc/?archive=tar", "/arc/priv/p.txt", "/arc/priv/", "/arc/priv/?archive=tar"},
		"int": {"/int/h.txt", "/int/", "/int", "/int/index.html", "/?archive=zip", "/int/?archive=tar", "/INT/h.txt"},
		"api": {"/api", "/api/", "/api/x", "/api/../api/y", "/API/z"},
	}
	spell := func(t string) string {
		q := ""
		if i := strings.Index(t, "?"); i >= 0 {
			t, q = t[:i], t[i:]
		}
		switch r.Intn(12) {
		case 0:
			t = "/." + t
		case 1:
			t = "/" + t
		case 2:
			t = "/pub/.." + t
		case 3:
			t = strings.Replace(t, "/", "//", 1+r.Intn(2))
		case 4:
			t = "/%2e" + t
		case 5:
			t = strings.Replace(t, "secret", "SECRET", 1)
		case 6:
			t = strings.Replace(t, "secret", "secre%74", 1)
		case 7:
			t = strings.Replace(t, "/secret", "/secret/.", 1)
		case 8:
			t = strings.Replace(t, "/secret", "/x/../secret", 1)
		case 9:
			t = strings.Replace(t, "/", "\\", 1)
		}
		return t + q
	}
	protNames := []string{"auth-dir", "auth-dir-ex", "auth-slash", "internal", "auth-file", "auth-index", "auth-api", "auth-two"}
	for i := 0; i < nS; {
		prot := protNames[r.Intn(len(protNames))]
		var ex []string
		for _, e := range extras {
			if r.Chance(25) {
				ex = append(ex, e)
			}
		}
		if prot == "auth-api" {
			ex = append(ex, "proxy /api BACKEND")
			ex = dedupe(ex)
		}
		// browse twice is a config error
		ex = c03FilterBrowse(ex)
		group := "secret"
		if prot == "internal" {
			group = "int"
		} else if prot == "auth-api" {
			group = "api"
		}
		for k := 0; k < 12; k++ {
			in := &c03In{Kind: "site", Prot: prot, Extras: ex, Target: spell(r.Pick(targetsFor[group])),
				Method: r.Pick([]string{"GET", "GET", "GET", "HEAD", "POST", "OPTIONS"}), Creds: r.Pick([]string{"none", "none", "wrong", "right"}),
				AE: r.Pick([]string{"", "gzip", "gzip, br", "zstd"})}
			out = append(out, in)
			i++
		}
	}
	return out
}

func dedupe(xs []string) []string {
	seen := map[string]bool{}
	var out []string
	for _, x := range xs {
		if !seen[x] {
			seen[x] = true
			out = append(out, x)
		}
	}
	return out
}

func c03FilterBrowse(xs []string) []string {
	var out []string
	b := false
	for _, x := range xs {
		if strings.HasPrefix(x, "browse") {
			if b {
				continue
			}
			b = true
		}
		out = append(out, x)
	}
	return out
}

func init() {
	register(&Property{
		ID: "C03", Imports: "V.Lib V.GoPath V.C03_Model", Judge: "judge",
		Rule: "direct Path.Matches calls on generated spellings/bases; basicauth rules built by the real directive parser (resources, excludes, which credentials the request carries) and internal; full in-process sites (protection directive x random subset of rewrite/tryfiles/ext/index/gzip/browse+archives/templates/markdown/proxy/header/errors/mime) queried over raw request lines with path spellings x methods x credentials x Accept-Encoding, decoded bodies (gunzip/unzip/untar) searched for planted tokens; non-trivial = matcher true / 401 issued / site answered something other than 404",
		Gen:    c03Gen,
		Decode: func(raw json.RawMessage) (interface{}, error) { in := &c03In{}; return in, json.Unmarshal(raw, in) },
		Run:    c03Run,
	})
}
