package main

import (
	"bytes"
	"encoding/base64"
	"encoding/json"
	"fmt"
	"html"
	"net/http"
	"net/http/httptest"
	"net/url"
	"os"
	"path"
	"path/filepath"
	"regexp"
	"sort"
	"strings"
	"sync"

	"github.com/tmpim/casket/caskethttp/httpserver"
	"github.com/tmpim/casket/caskethttp/internalsrv"
	"github.com/tmpim/casket/caskethttp/staticfiles"
)

type c03Rule struct {
	Res  []string `json:"res"`
	Excl []string `json:"excl,omitempty"`
	OK   bool     `json:"ok,omitempty"` // request carries this rule's credentials
}
type c03In struct {
	Kind   string    `json:"kind"` // matches | auth | internal | site
	CS     bool      `json:"cs,omitempty"`
	P      string    `json:"p,omitempty"`
	Base   string    `json:"base,omitempty"`
	Method string    `json:"method,omitempty"`
	Rules  []c03Rule `json:"rules,omitempty"`
	Paths  []string  `json:"paths,omitempty"`
	// site
	Prot   string   `json:"prot,omitempty"`
	Extras []string `json:"extras,omitempty"`
	Target string   `json:"target,omitempty"`
	Creds  string   `json:"creds,omitempty"` // none | wrong | right (rule 0) | right1 | right2 (rule 1, 2)
	AE     string   `json:"ae,omitempty"`
	XReq   string   `json:"xreq,omitempty"` // X-Accel-Redirect REQUEST header sent by the client
	Accept string   `json:"accept,omitempty"` // hide: "json" asks browse for its JSON listing
	// accel (internalsrv.Internal over a scripted inner handler)
	Script [][2]string `json:"script,omitempty"`
	W0     string      `json:"w0,omitempty"`
	// block: a server block with NAddr addresses (Layout hosts|ports|mixed); the Sub case (site|hide|serve) is run against every address
	Sub    string `json:"sub,omitempty"`
	Layout string `json:"layout,omitempty"`
	NAddr  int    `json:"naddr,omitempty"`
	ep     *c03Endpoint // set while the case runs as a part of a block
	// htmatch: GetHtpasswdMatcher on a file with this text
	Text      string   `json:"text,omitempty"`
	User      string   `json:"user,omitempty"`
	Pws       []string `json:"pws,omitempty"`
	TruthBits *[]bool  `json:"truth,omitempty"`
	// seq: a running site with htpasswd-file rules and a sequence of requests / file replacements / restarts
	Files    map[string]c03SeqFile `json:"files,omitempty"`
	SeqRules []c03SeqRule          `json:"seqrules,omitempty"`
	Steps    []c03SeqStep          `json:"steps,omitempty"`
	// site | hide | serve: steps on the running site BEFORE the judged request (c03_swap.go): requests,
	// and directories / files of the root replaced on disk by new inodes. Such cases run on a copy of
	// the fixture of their own.
	Pre []c03PreStep `json:"pre,omitempty"`
}

const (
	tPUBIDX = "TOKPUBIDXq1z"
	tPUBA   = "TOKPUBAq2z"
	tSF     = "TOKSFq3z"
	tSFGZ   = "TOKSFGZq4z"
	tSIDX   = "TOKSIDXq5z"
	tSG     = "TOKSGq6z"
	tOPEN   = "TOKOPENq7z"
	tSNAME  = "NAMETOKq8z"
	tSN     = "TOKSNq9z"
	tIH     = "TOKIHq10z"
	tIIDX   = "TOKIIDXq11z"
	tAPI    = "TOKAPIq12z"
	tSEXT   = "TOKSEXTq13z"
	tARCP   = "TOKARCPq14z"
	tDEEP   = "TOKDEEPq15z"
	tDX     = "TOKDXq16z"
)

// canonical name of the resource each planted token is content of (a listing is the content of
// the directory, written as the matcher spells a directory: with its trailing slash)
var c03TokenRes = map[string]string{
	tSF: "/secret/f.txt", tSFGZ: "/secret/f.txt.gz", tSIDX: "/secret/index.html", tSG: "/secret/sub/g.md",
	tOPEN: "/secret/pub/open.txt", tSNAME: "/secret/", tSN: "/secret/" + tSNAME + ".txt", tSEXT: "/secret/page.html",
	tARCP: "/arc/priv/p.txt", tIH: "/int/h.txt", tIIDX: "/int/index.html",
	tDEEP: "/secret/pub/deep/d.txt", tDX: "/secret/pub/deep/x/y.txt",
}
var c03TokenOrder = []string{tSF, tSFGZ, tSIDX, tSG, tOPEN, tSNAME, tSN, tSEXT, tARCP, tIH, tIIDX, tDEEP, tDX}

var c03Root string
var c03Backend *httptest.Server
var c03BackMu sync.Mutex
var c03BackSeen []string // request paths the backend was asked for (reset before each request)
var c03BackEmitted bool  // the backend put an X-Accel-Redirect header on a response

const xar = "X-Accel-Redirect"

// what the backend answers for path p: the X-Accel-Redirect response header value ("" = none;
// "ECHO" = it copies the client's own X-Accel-Redirect request header)
func c03Emit(p string) string {
	switch {
	case strings.HasPrefix(p, "/accel/"):
		return p[len("/accel"):]
	case p == "/loop":
		return "/loop"
	case strings.HasPrefix(p, "/echo"):
		return "ECHO"
	}
	return ""
}

func c03Fixture() string {
	if c03Root != "" {
		return c03Root
	}
	base := os.Getenv("VERIF_ROOT")
	if base == "" {
		base = os.TempDir()
	}
	root, err := os.MkdirTemp(filepath.Join(base, "run"), "c03fix")
	if err != nil {
		panic(err)
	}
	writeFixture(root, map[string]string{
		"index.html":                 "<html>" + tPUBIDX + "</html>",
		"pub/a.txt":                  tPUBA,
		"secret/f.txt":               tSF,
		"secret/f.txt.gz":            gzipBytes(tSFGZ),
		"secret/index.html":          "<html>" + tSIDX + "</html>",
		"secret/sub/g.md":            "# " + tSG + "\n",
		"secret/pub/open.txt":        tOPEN,
		"secret/" + tSNAME + ".txt":  tSN,
		"secret/page.html":           tSEXT,
		"arc/open.txt":               "nothing secret here",
		"arc/priv/p.txt":             tARCP,
		"secret/pub/deep/d.txt":      tDEEP,
		"secret/pub/deep/x/y.txt":    tDX,
		"int/h.txt":                  tIH,
		"int/index.html":             tIIDX,
	})
	c03Root = root
	c03Backend = httptest.NewServer(http.HandlerFunc(func(w http.ResponseWriter, r *http.Request) {
		c03BackMu.Lock()
		c03BackSeen = append(c03BackSeen, r.URL.Path)
		v := c03Emit(r.URL.Path)
		if v == "ECHO" {
			v = r.Header.Get(xar)
		}
		if v != "" {
			c03BackEmitted = true
			w.Header().Set(xar, v)
		}
		c03BackMu.Unlock()
		fmt.Fprintf(w, "backend says %s for <<%s>>", tAPI, r.URL.Path)
	}))
	return root
}

// protection configs: directive text, and the same as data (what the Coq spec clause is given)
type c03ProtRule struct {
	res, excl []string
	user, pw  string
}
type c03Prot struct {
	text   string
	rules  []c03ProtRule
	ipaths []string
}

var c03Prots = map[string]c03Prot{
	"auth-dir":    {"basicauth u p {\n /secret\n /arc/priv\n}", []c03ProtRule{{[]string{"/secret", "/arc/priv"}, nil, "u", "p"}}, nil},
	"auth-dir-ex": {"basicauth u p {\n /secret\n exclude /secret/pub\n}", []c03ProtRule{{[]string{"/secret"}, []string{"/secret/pub"}, "u", "p"}}, nil},
	"auth-slash":  {"basicauth /secret/ u p", []c03ProtRule{{[]string{"/secret/"}, nil, "u", "p"}}, nil},
	"internal":    {"internal /int", nil, []string{"/int"}},
	"auth-file":   {"basicauth /secret/f.txt u p", []c03ProtRule{{[]string{"/secret/f.txt"}, nil, "u", "p"}}, nil},
	"auth-index":  {"basicauth /secret/index.html u p", []c03ProtRule{{[]string{"/secret/index.html"}, nil, "u", "p"}}, nil},
	"auth-gz":     {"basicauth /secret/f.txt.gz u p", []c03ProtRule{{[]string{"/secret/f.txt.gz"}, nil, "u", "p"}}, nil},
	"auth-api":    {"basicauth /api u p", []c03ProtRule{{[]string{"/api"}, nil, "u", "p"}}, nil},
	"auth-two": {"basicauth /secret u p {\n exclude /secret/pub\n}\nbasicauth /secret/pub/open.txt v q",
		[]c03ProtRule{{[]string{"/secret"}, []string{"/secret/pub"}, "u", "p"}, {[]string{"/secret/pub/open.txt"}, nil, "v", "q"}}, nil},
	// three rules, each nested inside the previous one's exclusion
	"auth-nest3": {"basicauth /secret u p {\n exclude /secret/pub\n}\nbasicauth /secret/pub v q {\n exclude /secret/pub/deep\n}\nbasicauth /secret/pub/deep/x w r",
		[]c03ProtRule{{[]string{"/secret"}, []string{"/secret/pub"}, "u", "p"}, {[]string{"/secret/pub"}, []string{"/secret/pub/deep"}, "v", "q"}, {[]string{"/secret/pub/deep/x"}, nil, "w", "r"}}, nil},
	// the same rules written innermost first
	"auth-nest3r": {"basicauth /secret/pub/deep/x w r\nbasicauth /secret/pub v q {\n exclude /secret/pub/deep\n}\nbasicauth /secret u p {\n exclude /secret/pub\n}",
		[]c03ProtRule{{[]string{"/secret/pub/deep/x"}, nil, "w", "r"}, {[]string{"/secret/pub"}, []string{"/secret/pub/deep"}, "v", "q"}, {[]string{"/secret"}, []string{"/secret/pub"}, "u", "p"}}, nil},
	// overlapping scopes without exclusions: either rule's credentials open the inner scope
	"auth-overlap": {"basicauth /secret u p\nbasicauth /secret/sub v q",
		[]c03ProtRule{{[]string{"/secret"}, nil, "u", "p"}, {[]string{"/secret/sub"}, nil, "v", "q"}}, nil},
	// internal locations that are a single file: an index page, a plain file, a precompressed sibling;
	// a location inside an otherwise public directory; two directives
	"int-index": {"internal /int/index.html", nil, []string{"/int/index.html"}},
	"int-file":  {"internal /int/h.txt", nil, []string{"/int/h.txt"}},
	"int-gz":    {"internal /secret/f.txt.gz", nil, []string{"/secret/f.txt.gz"}},
	"int-deep":  {"internal /arc/priv", nil, []string{"/arc/priv"}},
	"int-two":   {"internal /int\ninternal /arc/priv/p.txt\ninternal /secret/pub/deep/x/", nil, []string{"/int", "/arc/priv/p.txt", "/secret/pub/deep/x/"}},
	// basicauth and internal together, internal with two locations
	"auth-int": {"basicauth /secret u p {\n exclude /secret/pub\n}\ninternal /int\ninternal /secret/pub/deep",
		[]c03ProtRule{{[]string{"/secret"}, []string{"/secret/pub"}, "u", "p"}}, []string{"/int", "/secret/pub/deep"}},
}

// which rule's credentials does the request carry
func c03CredPair(creds string) (string, string, bool) {
	switch creds {
	case "right":
		return "u", "p", true
	case "right1":
		return "v", "q", true
	case "right2":
		return "w", "r", true
	case "wrong":
		return "u", "nope", true
	}
	return "", "", false
}

func c03RuleTerms(prot c03Prot, creds string) string {
	user, pw, _ := c03CredPair(creds)
	var rs []string
	for _, ru := range prot.rules {
		ok := user == ru.user && pw == ru.pw
		rs = append(rs, fmt.Sprintf("{| r_resources := %s; r_exclude := %s; r_creds_ok := %s |}", cStrList(ru.res), cStrList(ru.excl), cBool(ok)))
	}
	return cList(rs)
}

// Go-side copy of the spec clause, used only to give a disclosure its Sig (the verdict is Coq's)
func c03Under(f, base string) bool {
	if base == "/" || base == "" {
		return true
	}
	return strings.HasPrefix(strings.ToLower(f), strings.ToLower(base))
}
func c03Violates(prot c03Prot, creds string, opt bool, f string) bool {
	return c03ViolKind(prot, creds, opt, f) != ""
}

// c03ViolKind: "" (no violation), "internal" (f lies under an internal location) or "auth"
func c03ViolKind(prot c03Prot, creds string, opt bool, f string) string {
	for _, ip := range prot.ipaths {
		if c03Under(f, ip) {
			return "internal"
		}
	}
	if c03ViolatesAuth(prot, creds, opt, f) {
		return "auth"
	}
	return ""
}

func c03ViolatesAuth(prot c03Prot, creds string, opt bool, f string) bool {
	user, pw, _ := c03CredPair(creds)
	protected, satisfied := false, false
	for _, ru := range prot.rules {
		in := false
		for _, r := range ru.res {
			in = in || c03Under(f, r)
		}
		for _, e := range ru.excl {
			if c03Under(f, e) {
				in = false
			}
		}
		if in {
			protected = true
			satisfied = satisfied || (user == ru.user && pw == ru.pw)
		}
	}
	return !opt && protected && !satisfied
}

var c03BackRe = regexp.MustCompile(regexp.QuoteMeta("backend says "+tAPI+" for <<") + "([^>]*)>>")

func c03Run(in0 interface{}) Result {
	in := in0.(*c03In)
	switch in.Kind {
	case "matches":
		httpserver.CaseSensitivePath = in.CS
		obs := httpserver.Path(in.P).Matches(in.Base)
		httpserver.CaseSensitivePath = false
		return Result{Term: cApp("CMatches", cBool(in.CS), cStr(in.P), cStr(in.Base), cBool(obs)), Obs: obs,
			Sig: "matches", Nontrivial: obs, Class: fmt.Sprintf("matches:%v", obs)}
	case "auth":
		httpserver.CaseSensitivePath = in.CS
		defer func() { httpserver.CaseSensitivePath = false }()
		// build the rules through the real directive parser
		var sb strings.Builder
		for i, ru := range in.Rules {
			fmt.Fprintf(&sb, "basicauth user%d pw%d {\n", i, i)
			for _, r := range ru.Res {
				fmt.Fprintf(&sb, "  %s\n", r)
			}
			for _, e := range ru.Excl {
				fmt.Fprintf(&sb, "  exclude %s\n", e)
			}
			sb.WriteString("}\n")
		}
		cfg, err := setupDirective("basicauth", sb.String())
		if err != nil {
			return Result{Term: "(CSite false false)", Obs: "setup error " + err.Error(), Class: "auth:setup-error", Sig: "auth:setup-error"}
		}
		passed := false
		h := compile(cfg.Middleware(), handlerFunc(func(w http.ResponseWriter, r *http.Request) (int, error) { passed = true; return 200, nil }))
		req := &http.Request{Method: in.Method, URL: &url.URL{Path: in.P}, Header: http.Header{}, RemoteAddr: "192.0.2.1:1"}
		for i, ru := range in.Rules {
			if ru.OK {
				req.SetBasicAuth(fmt.Sprintf("user%d", i), fmt.Sprintf("pw%d", i))
			}
		}
		status, _ := h.ServeHTTP(httptest.NewRecorder(), req)
		denied := status == 401 && !passed
		var rs []string
		for _, ru := range in.Rules {
			rs = append(rs, fmt.Sprintf("{| r_resources := %s; r_exclude := %s; r_creds_ok := %s |}", cStrList(ru.Res), cStrList(ru.Excl), cBool(ru.OK)))
		}
		direct := ""
		if (status == 401) == passed {
			direct = fmt.Sprintf("status %d but next handler called=%v", status, passed)
		}
		return Result{Term: cApp("CAuth", cBool(in.CS), cBool(in.Method == "OPTIONS"), cStr(in.P), cList(rs), cBool(denied)), Obs: map[string]interface{}{"status": status, "passed": passed},
			Sig: "auth", Direct: direct, Nontrivial: denied, Class: fmt.Sprintf("auth:denied=%v", denied)}
	case "internal":
		blocked := true
		h := internalsrv.Internal{Paths: in.Paths, Next: handlerFunc(func(w http.ResponseWriter, r *http.Request) (int, error) { blocked = false; return 200, nil })}
		req := &http.Request{Method: "GET", URL: &url.URL{Path: in.P}, Header: http.Header{}}
		status, _ := h.ServeHTTP(httptest.NewRecorder(), req)
		direct := ""
		if blocked != (status == 404) {
			direct = fmt.Sprintf("status %d blocked=%v", status, blocked)
		}
		return Result{Term: cApp("CInternal", "false", cStr(in.P), cStrList(in.Paths), cBool(blocked)), Obs: status, Sig: "internal", Direct: direct, Nontrivial: blocked, Class: fmt.Sprintf("internal:%v", blocked)}
	case "site":
		root := c03RootOf(in)
		prot, okp := c03Prots[in.Prot]
		if !okp {
			return Result{Term: "(CSite false false)", Obs: "unknown prot", Class: "site:unknown-prot", Sig: "site:unknown-prot"}
		}
		body := "root " + root + "\n" + prot.text + "\n"
		for _, e := range in.Extras {
			body += strings.ReplaceAll(e, "BACKEND", c03Backend.URL) + "\n"
		}
		where, err := c03Where(in, body)
		if err != nil {
			return Result{Term: "(CSite false false)", Obs: "start error: " + err.Error(), Class: "site:start-error", Sig: "site:start-error"}
		}
		if err := c03RunPre(where, in, root); err != nil {
			return Result{Term: "(CSite false false)", Obs: "step error: " + err.Error(), Class: "site:step-error", Sig: "site:step-error", Direct: "a step of the sequence could not be performed: " + err.Error()}
		}
		resp, _, emitted := c03Do(where, in)
		views := decodedViews(resp.Body)
		var leaked, leakedRes []string
		for _, tok := range c03TokenOrder {
			if containsAny(views, tok) {
				leaked = append(leaked, tok)
				leakedRes = append(leakedRes, c03TokenRes[tok])
			}
		}
		for _, v := range views {
			for _, m := range c03BackRe.FindAllSubmatch(v, -1) {
				leaked = append(leaked, tAPI)
				leakedRes = append(leakedRes, string(m[1]))
			}
		}
		opt := in.Method == "OPTIONS"
		checked := prot
		if emitted {
			// a backend answered with X-Accel-Redirect: whatever follows is deliberate internal access
			checked = c03Prot{}
		}
		var viol []string
		byInternal := false
		for k, f := range leakedRes {
			if kind := c03ViolKind(checked, in.Creds, opt, f); kind != "" {
				viol = append(viol, leaked[k])
				byInternal = byInternal || kind == "internal"
			}
		}
		sig := "site:" + in.Prot
		if len(viol) > 0 {
			sig = c03Sig(in, viol, resp.Header.Get("Content-Type"))
			if byInternal {
				// content of an internal location: never one of the basicauth finding classes
				sig = "site:disclosure:internal-location:" + in.Prot
			}
		}
		return Result{Term: cApp("CDisc", "false", cBool(opt), c03RuleTerms(checked, in.Creds), cStrList(checked.ipaths), cStrList(leakedRes)),
			Obs: map[string]interface{}{"status": resp.Status, "leaked": leaked, "resources": leakedRes, "violating": viol, "accel": emitted, "len": len(resp.Body), "err": resp.Err, "location": resp.Header.Get("Location")},
			Sig: sig, Nontrivial: resp.Status != 404 && resp.Status != 0, Key: body + "|" + in.Method + in.Target + in.Creds + in.AE + in.XReq + c03PreKey(in),
			Class: fmt.Sprintf("site%s:%s:%s:%d", c03PreShape(in), in.Prot, in.Creds, resp.Status)}
	case "chain":
		// canonical-order site: rewriters + protection + `proxy / BACKEND`; the final path is measured
		// on the twin site without the protection directives
		root := c03Fixture()
		prot, okp := c03Prots[in.Prot]
		if !okp {
			return Result{Term: "(CSite false false)", Obs: "unknown prot", Class: "chain:unknown-prot", Sig: "chain:unknown-prot"}
		}
		tail := ""
		for _, e := range in.Extras {
			tail += strings.ReplaceAll(e, "BACKEND", c03Backend.URL) + "\n"
		}
		tail += "proxy / " + c03Backend.URL + "\n"
		twin, err := getSite("root " + root + "\n" + tail)
		if err != nil {
			return Result{Term: "(CSite false false)", Obs: "start error: " + err.Error(), Class: "chain:start-error", Sig: "chain:start-error"}
		}
		_, seenTwin, _ := c03Do(twin.addr, in)
		if len(seenTwin) == 0 {
			return Result{Term: "(CSite false false)", Obs: "twin site: backend not reached", Class: "chain:no-final-path", Sig: "chain:no-final-path"}
		}
		pfinal := seenTwin[0]
		st, err := getSite("root " + root + "\n" + prot.text + "\n" + tail)
		if err != nil {
			return Result{Term: "(CSite false false)", Obs: "start error: " + err.Error(), Class: "chain:start-error", Sig: "chain:start-error"}
		}
		resp, seen, _ := c03Do(st.addr, in)
		// the script the backend follows, for the paths involved
		var script []string
		done := map[string]bool{}
		for _, t := range append([]string{pfinal}, seen...) {
			if v := c03Emit(t); v != "" && !done[t] {
				done[t] = true
				script = append(script, cPair(cStr(t), cStr(v)))
			}
		}
		status := resp.Status
		if status == 200 && len(seen) == 0 {
			status = 0 // answered by something else than the chain under test
		}
		return Result{Term: cApp("CChain", "false", cBool(in.Method == "OPTIONS"), cStr(pfinal), c03RuleTerms(prot, in.Creds), cBool(len(prot.ipaths) > 0),
			cStrList(prot.ipaths), cList(script), cStr(in.XReq), cN(uint64(status)), cStrList(seen)),
			Obs: map[string]interface{}{"status": resp.Status, "final": pfinal, "backend_saw": seen, "err": resp.Err},
			Sig: "chain:" + in.Prot, Nontrivial: pfinal != in.Target || resp.Status == 401 || resp.Status == 404 || len(seen) > 1,
			Class: fmt.Sprintf("chain:%s:%d:%d", in.Prot, resp.Status, len(seen))}
	case "accel":
		var seen []string
		script := map[string]string{}
		for _, e := range in.Script {
			if _, dup := script[e[0]]; !dup {
				script[e[0]] = e[1]
			}
		}
		h := internalsrv.Internal{Paths: in.Paths, Next: handlerFunc(func(w http.ResponseWriter, r *http.Request) (int, error) {
			seen = append(seen, r.URL.Path)
			if v, ok := script[r.URL.Path]; ok {
				if v == "ECHO" {
					v = r.Header.Get(xar)
				}
				w.Header().Set(xar, v)
			}
			w.Write([]byte("x"))
			return 200, nil
		})}
		req := &http.Request{Method: "GET", URL: &url.URL{Path: in.P}, Header: http.Header{}}
		if in.XReq != "" {
			req.Header.Set(xar, in.XReq)
		}
		rec := httptest.NewRecorder()
		if in.W0 != "" {
			rec.Header().Set(xar, in.W0)
		}
		status, _ := h.ServeHTTP(rec, req)
		var sc []string
		for _, e := range in.Script {
			sc = append(sc, cPair(cStr(e[0]), cStr(e[1])))
		}
		direct := ""
		if rec.Header().Get(xar) != "" && status != 404 {
			direct = "X-Accel-Redirect left in the response headers: " + rec.Header().Get(xar)
		}
		return Result{Term: cApp("CAccel", "false", cStrList(in.Paths), cList(sc), cStr(in.W0), cStr(in.P), cStr(in.XReq), cN(uint64(status)), cStrList(seen)),
			Obs: map[string]interface{}{"status": status, "saw": seen}, Sig: "accel", Direct: direct, Nontrivial: len(seen) != 1,
			Class: fmt.Sprintf("accel:%d:%d", status, len(seen))}
	case "hide":
		// `internal` + browse: what a listing (HTML/JSON) or an archive of a directory names
		root := c03RootOf(in)
		prot, okp := c03Prots[in.Prot]
		u, perr := url.ParseRequestURI(in.Target)
		if !okp || perr != nil {
			return Result{Term: "(CSite false false)", Obs: "unknown prot / unparsable target", Class: "hide:skipped", Sig: "hide:skipped"}
		}
		body := "root " + root + "\n" + prot.text + "\n" + strings.Join(in.Extras, "\n") + "\n"
		where, err := c03Where(in, body)
		if err != nil {
			return Result{Term: "(CSite false false)", Obs: "start error: " + err.Error(), Class: "hide:start-error", Sig: "hide:start-error"}
		}
		if err := c03RunPre(where, in, root); err != nil {
			return Result{Term: "(CSite false false)", Obs: "step error: " + err.Error(), Class: "hide:step-error", Sig: "hide:step-error", Direct: "a step of the sequence could not be performed: " + err.Error()}
		}
		resp, _, _ := c03Do(where, in)
		d := path.Clean("/" + u.Path)
		kind, names := c03ListedNames(resp, d)
		if kind == "" {
			return Result{Term: "(CSite false false)", Obs: map[string]interface{}{"status": resp.Status, "listing": false}, Sig: "hide:" + in.Prot,
				Class: fmt.Sprintf("hide:%s:none:%d", in.Prot, resp.Status)}
		}
		sig := "hide:" + in.Prot
		var bad []string
		for _, n := range names {
			full := strings.TrimSuffix(d, "/") + "/" + n
			for _, ip := range prot.ipaths {
				loc := path.Clean("/" + ip)
				if full == loc || strings.HasPrefix(full, strings.TrimSuffix(loc, "/")+"/") {
					bad = append(bad, full)
				}
			}
		}
		if len(bad) > 0 {
			sig = "hide:disclosure:internal-location-in-" + kind + "-of-ancestor"
		}
		return Result{Term: cApp("CHide", cStrList(prot.ipaths), cStr(u.Path), cBool(kind == "archive"), c03TreeTerm(filepath.Join(root, filepath.FromSlash(d))), cStrList(names)),
			Obs: map[string]interface{}{"status": resp.Status, "kind": kind, "dir": d, "names": names, "internal": bad}, Sig: sig,
			Nontrivial: true, Key: body + "|" + in.Target + in.Creds + in.Accept + c03PreKey(in), Class: fmt.Sprintf("hide%s:%s:%s", c03PreShape(in), in.Prot, kind)}
	case "serve":
		// `internal` + the static file server alone: which file's bytes does GET p obtain
		root := c03RootOf(in)
		prot, okp := c03Prots[in.Prot]
		u, perr := url.ParseRequestURI(in.Target)
		if !okp || perr != nil || len(prot.rules) > 0 {
			return Result{Term: "(CSite false false)", Obs: "unknown prot / unparsable target", Class: "serve:skipped", Sig: "serve:skipped"}
		}
		body := "root " + root + "\n" + prot.text + "\n" + strings.Join(in.Extras, "\n") + "\n"
		where, err := c03Where(in, body)
		if err != nil {
			return Result{Term: "(CSite false false)", Obs: "start error: " + err.Error(), Class: "serve:start-error", Sig: "serve:start-error"}
		}
		if err := c03RunPre(where, in, root); err != nil {
			return Result{Term: "(CSite false false)", Obs: "step error: " + err.Error(), Class: "serve:step-error", Sig: "serve:step-error", Direct: "a step of the sequence could not be performed: " + err.Error()}
		}
		in.Method = "GET"
		resp, _, _ := c03Do(where, in)
		views := decodedViews(resp.Body)
		files, dirs, toks := c03FixtureIndex(root)
		var served []string
		for _, f := range files {
			if t := toks[f]; t != "" && containsAny(views, t) {
				served = append(served, f)
			}
		}
		idx := staticfiles.DefaultIndexPages
		for _, e := range in.Extras {
			if strings.HasPrefix(e, "index ") {
				idx = strings.Fields(e)[1:]
			}
		}
		var exts []string
		for _, enc := range [][2]string{{"zstd", ".zst"}, {"br", ".br"}, {"gzip", ".gz"}} {
			for _, a := range strings.Split(in.AE, ",") {
				if strings.TrimSpace(a) == enc[0] {
					exts = append(exts, enc[1])
					break
				}
			}
		}
		sig := "serve:" + in.Prot
		for _, f := range served {
			if c03ViolKind(prot, "none", false, f) != "" {
				sig = "serve:disclosure:internal-location-served:" + in.Prot
			}
		}
		return Result{Term: cApp("CServe", cStrList(prot.ipaths), cStrList(idx), cStrList(exts), cStrList(files), cStrList(dirs), cStr(u.Path), cStrList(served)),
			Obs: map[string]interface{}{"status": resp.Status, "served": served, "encoding": resp.Header.Get("Content-Encoding")}, Sig: sig,
			Nontrivial: len(served) > 0 || resp.Status == 404, Key: body + "|" + in.Target + in.AE + c03PreKey(in), Class: fmt.Sprintf("serve%s:%s:%d:%d", c03PreShape(in), in.Prot, resp.Status, len(served))}
	case "block":
		return c03RunBlock(in)
	case "seq":
		return c03RunSeq(in)
	case "htmatch":
		return c03RunHtMatch(in)
	case "assigners":
		files := c03Assigners()
		return Result{Term: cApp("CAssigners", cStrList(files)), Obs: files, Sig: "assigners", Nontrivial: true, Class: "assigners"}
	}
	panic("bad kind")
}

// c03Do sends the case's request; returns the response, the paths the backend saw and whether the
// backend emitted an X-Accel-Redirect response header
func c03Do(addr string, in *c03In) (rawResp, []string, bool) {
	hdr := map[string]string{}
	if user, pw, ok := c03CredPair(in.Creds); ok {
		hdr["Authorization"] = "Basic " + base64.StdEncoding.EncodeToString([]byte(user+":"+pw))
	}
	if in.AE != "" {
		hdr["Accept-Encoding"] = in.AE
	}
	if in.XReq != "" {
		hdr[xar] = in.XReq
	}
	if in.Accept == "json" {
		hdr["Accept"] = "application/json"
	}
	if in.ep != nil {
		hdr["Host"] = in.ep.host
	}
	c03BackMu.Lock()
	c03BackSeen, c03BackEmitted = nil, false
	c03BackMu.Unlock()
	resp := doRaw(addr, in.Method, in.Target, hdr, nil)
	c03BackMu.Lock()
	defer c03BackMu.Unlock()
	return resp, append([]string(nil), c03BackSeen...), c03BackEmitted
}

var c03NameRe = regexp.MustCompile(`<span class="name">([^<]*)</span>`)
var c03MemberRe = regexp.MustCompile("\x00NAME:([^\x00]*)\x00")

// c03ListedNames: is the response a browse listing ("listing") or an archive ("archive"), and which
// entries does it name (relative to the directory asked for; an archive's top-level folder removed)
func c03ListedNames(resp rawResp, d string) (string, []string) {
	if resp.Status != 200 {
		return "", nil
	}
	ct := resp.Header.Get("Content-Type")
	seen := map[string]bool{}
	var names []string
	add := func(n string) {
		n = strings.Trim(n, "/")
		if n != "" && !seen[n] {
			seen[n] = true
			names = append(names, n)
		}
	}
	switch {
	case strings.HasPrefix(ct, "application/json"):
		var items []struct{ Name string }
		for _, v := range decodedViews(resp.Body) {
			if json.Unmarshal(v, &items) == nil {
				for _, it := range items {
					add(it.Name)
				}
				sort.Strings(names)
				return "listing", names
			}
		}
		return "", nil
	case strings.HasPrefix(ct, "application/zip") || strings.HasPrefix(ct, "application/tar") || strings.HasPrefix(ct, "application/x-tar"):
		for _, v := range decodedViews(resp.Body)[1:] {
			for _, m := range c03MemberRe.FindAllSubmatch(v, -1) {
				// members are named <base name of the archived directory>/<relative name>; the root has no base name
				n := strings.Trim(string(m[1]), "/")
				if top := path.Base(d); d != "/" {
					if n == top {
						continue
					}
					n = strings.TrimPrefix(n, top+"/")
				}
				add(n)
			}
		}
		sort.Strings(names)
		return "archive", names
	case strings.HasPrefix(ct, "text/html"):
		for _, v := range decodedViews(resp.Body) {
			if bytes.Contains(v, []byte(`<div class="listing">`)) {
				for _, m := range c03NameRe.FindAllSubmatch(v, -1) {
					add(html.UnescapeString(string(m[1])))
				}
				sort.Strings(names)
				return "listing", names
			}
		}
	}
	return "", nil
}

// c03TreeTerm: what is on disk below dir, as a Coq `list node`
func c03TreeTerm(dir string) string {
	ents, err := os.ReadDir(dir)
	if err != nil {
		return "[]"
	}
	var out []string
	for _, e := range ents {
		kids := "[]"
		if e.IsDir() {
			kids = c03TreeTerm(filepath.Join(dir, e.Name()))
		}
		out = append(out, cApp("Node", cStr(e.Name()), cBool(e.IsDir()), kids))
	}
	return cList(out)
}

// c03FixtureIndex: canonical names of the regular files and directories under root, and the
// token each file's content carries
func c03FixtureIndex(root string) (files, dirs []string, toks map[string]string) {
	toks = map[string]string{"/index.html": tPUBIDX, "/pub/a.txt": tPUBA, "/arc/open.txt": "nothing secret here"}
	for t, f := range c03TokenRes {
		if t != tSNAME {
			toks[f] = t
		}
	}
	filepath.Walk(root, func(p string, info os.FileInfo, err error) error {
		if err != nil {
			return nil
		}
		rel, _ := filepath.Rel(root, p)
		c := path.Clean("/" + filepath.ToSlash(rel))
		if info.IsDir() {
			dirs = append(dirs, c)
		} else {
			files = append(files, c)
		}
		return nil
	})
	sort.Strings(files)
	sort.Strings(dirs)
	return
}

var c03AssignRe = regexp.MustCompile(`URL\.(Path|RawPath)\s*(=[^=]|\+=)|\br\.URL\s*=[^=]`)

// c03Assigners: non-test Go files under caskethttp/ that assign a request's URL path
func c03Assigners() []string {
	repo := os.Getenv("VERIF_REPO")
	if repo == "" {
		repo = "/repo"
	}
	base := filepath.Join(repo, "caskethttp")
	var out []string
	filepath.Walk(base, func(p string, info os.FileInfo, err error) error {
		if err != nil || info.IsDir() || !strings.HasSuffix(p, ".go") || strings.HasSuffix(p, "_test.go") {
			return nil
		}
		b, err := os.ReadFile(p)
		if err != nil {
			return nil
		}
		for _, line := range strings.Split(string(b), "\n") {
			t := strings.TrimSpace(line)
			if strings.HasPrefix(t, "//") {
				continue
			}
			if c03AssignRe.MatchString(t) {
				rel, _ := filepath.Rel(base, p)
				out = append(out, filepath.ToSlash(rel))
				break
			}
		}
		return nil
	})
	sort.Strings(out)
	return out
}

// c03Sig classifies a disclosure by its mechanism (for known findings)
func c03Sig(in *c03In, leaked []string, ctype string) string {
	has := func(s string) bool {
		for _, e := range in.Extras {
			if strings.HasPrefix(e, s) {
				return true
			}
		}
		return false
	}
	switch {
	case strings.HasPrefix(ctype, "application/zip") || strings.HasPrefix(ctype, "application/tar"):
		return "site:disclosure:browse-archive-of-unprotected-ancestor"
	case in.Prot == "auth-index" || in.Prot == "auth-file" || in.Prot == "auth-gz":
		return "site:disclosure:file-scope:" + in.Prot
	case has("rewrite /alias2 secret") && strings.Contains(strings.ToLower(in.Target), "alias2"):
		return "site:disclosure:unrooted-rewrite-target"
	}
	return "site:disclosure:" + in.Prot
}

func c03Gen(r *Rand, tier string) []interface{} {
	var out []interface{}
	nM, nA, nS, nC, nX, nH, nV := 1500, 700, 1500, 900, 700, 600, 500
	if tier == "thorough" {
		nM, nA, nS, nC, nX, nH, nV = 30000, 10000, 15000, 9000, 8000, 6000, 5000
	}
	out = append(out, &c03In{Kind: "assigners"})
	segs := []string{"a", "b", "A", "secret", "pub", ".", "..", "", "x.y", "B"}
	bases := []string{"/", "", "/a", "/a/", "/a/b", "/A", "/secret", "/secret/", "/secret/pub", "//a", "/a/./b", "/a/../b", "a", "/x.y", "/a//b/", "/."}
	mkp := func() string {
		n := r.Range(0, 5)
		p := ""
		for i := 0; i < n; i++ {
			p += "/" + r.Pick(segs)
		}
		if p == "" || r.Chance(20) {
			p += "/"
		}
		if r.Chance(3) {
			p = strings.TrimPrefix(p, "/")
		}
		return p
	}
	for i := 0; i < nM; i++ {
		p := mkp()
		b := r.Pick(bases)
		if r.Chance(40) { // base = prefix of the cleaned or raw path
			parts := strings.Split(strings.Trim(p, "/"), "/")
			k := r.Intn(len(parts) + 1)
			b = "/" + strings.Join(parts[:k], "/")
			if r.Chance(30) {
				b += "/"
			}
		}
		out = append(out, &c03In{Kind: "matches", CS: r.Chance(30), P: p, Base: b})
	}
	for i := 0; i < nA; i++ {
		in := &c03In{Kind: "auth", CS: r.Chance(20), P: mkp(), Method: r.Pick([]string{"GET", "GET", "POST", "HEAD", "OPTIONS", "PUT"})}
		nr := r.Range(1, 3)
		for j := 0; j < nr; j++ {
			ru := c03Rule{OK: r.Chance(25)}
			for k := r.Range(1, 3); k > 0; k-- {
				ru.Res = append(ru.Res, r.Pick(bases[2:]))
			}
			for k := r.Intn(3); k > 0; k-- {
				ru.Excl = append(ru.Excl, r.Pick(bases[2:]))
			}
			if r.Chance(50) { // aim a resource at the request path
				parts := strings.Split(strings.Trim(in.P, "/"), "/")
				ru.Res[0] = "/" + strings.Join(parts[:r.Intn(len(parts)+1)], "/")
				if ru.Res[0] == "/" && r.Chance(80) {
					ru.Res[0] = "/" + parts[0]
				}
			}
			in.Rules = append(in.Rules, ru)
		}
		// a request carries one credential pair: at most one rule can be satisfied
		seenOK := false
		for j := range in.Rules {
			if in.Rules[j].OK && seenOK {
				in.Rules[j].OK = false
			}
			seenOK = seenOK || in.Rules[j].OK
		}
		out = append(out, in)
		if i%5 == 0 {
			out = append(out, &c03In{Kind: "internal", P: mkp(), Paths: []string{r.Pick(bases[2:]), r.Pick(bases[2:])}})
		}
	}
	// full sites
	extras := []string{
		"rewrite /alias /secret/f.txt",
		"rewrite /alias2 secret/f.txt",
		"rewrite {\n regexp ^/re/(.*)$\n to /secret/{1}\n}",
		"rewrite {\n regexp ^/strip/(.*)$\n to /{1}\n}",
		"rewrite {\n regexp ^/up/(.*)$\n to /pub/../{1}\n}",
		"rewrite /ialias /int/h.txt",
		"tryfiles /tf1 /secret/f.txt",
		"tryfiles {path} {path}.txt /pub/a.txt",
		"proxy /accel BACKEND",
		"proxy /echo BACKEND",
		"ext .txt .html",
		"index index.html h.txt",
		"gzip",
		"browse / {\n servearchive zip tar\n}",
		"browse /",
		"templates",
		"markdown /",
		"proxy /api BACKEND",
		"header / X-Test 1",
		"errors",
		"mime .txt text/plain",
	}
	targetsFor := map[string][]string{
		"secret": {"/secret/f.txt", "/secret/", "/secret", "/secret/index.html", "/secret/sub/g.md", "/secret/pub/open.txt", "/secret/sub/", "/secret/f", "/secret/page",
			"/alias", "/alias2", "/re/f.txt", "/re/sub/g.md", "/tf1", "/", "/?archive=zip", "/?archive=tar", "/secret/?archive=zip", "/secret/sub/?archive=tar", "/pub/?archive=zip", "/secret/" + tSNAME + ".txt", "/arc/", "/arc/?archive=zip", "/arc/?archive=tar", "/arc/priv/p.txt", "/arc/priv/", "/arc/priv/?archive=tar",
			"/secret/pub/", "/secret/pub/?archive=zip", "/secret/pub/deep/d.txt", "/secret/pub/deep/", "/secret/pub/deep/?archive=tar", "/secret/pub/deep/x/y.txt", "/secret/pub/deep/x/",
			"/strip/secret/f.txt", "/strip/secret/pub/deep/x/y.txt", "/up/secret/f.txt", "/up/secret/sub/g.md", "/re/pub/deep/x/y.txt", "/re/../secret/f.txt"},
		"int": {"/int/h.txt", "/int/", "/int", "/int/index.html", "/?archive=zip", "/int/?archive=tar", "/INT/h.txt", "/ialias", "/strip/int/h.txt", "/up/int/h.txt",
			"/accel/int/h.txt", "/accel/int/", "/echo/x", "/accel/accel/int/h.txt", "/secret/pub/deep/d.txt", "/secret/f.txt", "/strip/secret/pub/deep/d.txt"},
		"api": {"/api", "/api/", "/api/x", "/api/../api/y", "/API/z"},
		// internal locations seen from their ancestors and through the file server's own lookups
		"hide": {"/", "/?archive=zip", "/?archive=tar", "/int/", "/int/?archive=zip", "/int/h.txt", "/int/index.html", "/int", "/arc/", "/arc/?archive=zip",
			"/arc/?archive=tar", "/arc/priv/", "/arc/priv/?archive=zip", "/arc/priv/p.txt", "/secret/f.txt", "/secret/f.txt.gz", "/secret/", "/secret/?archive=tar",
			"/secret/pub/", "/secret/pub/?archive=zip", "/secret/pub/deep/", "/secret/pub/deep/?archive=tar", "/secret/pub/deep/x/", "/secret/pub/deep/x/y.txt", "/pub/", "/pub/a.txt"},
	}
	spell := func(t string) string {
		q := ""
		if i := strings.Index(t, "?"); i >= 0 {
			t, q = t[:i], t[i:]
		}
		switch r.Intn(19) {
		case 12:
			if i := strings.LastIndex(t, "/"); i > 0 {
				t = t[:i] + "%2F" + t[i+1:]
			}
		case 13:
			t = "/%2E%2E" + t
		case 14:
			t = strings.Replace(t, "/secret", "/secret/../secret", 1)
		case 15:
			if i := strings.LastIndex(t, "/"); i > 0 && i < len(t)-1 {
				t = t[:i] + "/./" + t[i+1:]
			}
		case 16:
			t = strings.Replace(t, "int", "%69nt", 1)
		case 17:
			t = strings.Replace(t, "/int", "/Int", 1)
		case 18:
			t = "/pub/%2e%2e/." + t
		case 0:
			t = "/." + t
		case 1:
			t = "/" + t
		case 2:
			t = "/pub/.." + t
		case 3:
			t = strings.Replace(t, "/", "//", 1+r.Intn(2))
		case 4:
			t = "/%2e" + t
		case 5:
			t = strings.Replace(t, "secret", "SECRET", 1)
		case 6:
			t = strings.Replace(t, "secret", "secre%74", 1)
		case 7:
			t = strings.Replace(t, "/secret", "/secret/.", 1)
		case 8:
			t = strings.Replace(t, "/secret", "/x/../secret", 1)
		case 9:
			t = strings.Replace(t, "/", "\\", 1)
		}
		return t + q
	}
	protNames := []string{"auth-dir", "auth-dir-ex", "auth-slash", "internal", "auth-file", "auth-index", "auth-api", "auth-two",
		"auth-nest3", "auth-nest3r", "auth-overlap", "auth-int", "auth-int", "auth-nest3", "auth-gz",
		"int-index", "int-file", "int-gz", "int-deep", "int-two"}
	credKinds := []string{"none", "none", "wrong", "right", "right", "right1", "right2"}
	methods := []string{"GET", "GET", "GET", "HEAD", "POST", "OPTIONS"}
	xreqs := []string{"", "", "", "", "", "/int/h.txt", "/secret/f.txt", "/secret/pub/deep/d.txt"}
	for i := 0; i < nS; {
		prot := protNames[r.Intn(len(protNames))]
		var ex []string
		for _, e := range extras {
			if r.Chance(25) {
				ex = append(ex, e)
			}
		}
		if prot == "auth-api" {
			ex = append(ex, "proxy /api BACKEND")
			ex = dedupe(ex)
		}
		// browse twice is a config error
		ex = c03FilterBrowse(ex)
		group := "secret"
		if prot == "internal" || (prot == "auth-int" && r.Chance(50)) {
			group = "int"
		} else if prot == "auth-api" {
			group = "api"
		} else if strings.HasPrefix(prot, "int-") || (prot == "auth-int" && r.Chance(50)) {
			group = "hide"
		}
		for k := 0; k < 12; k++ {
			in := &c03In{Kind: "site", Prot: prot, Extras: ex, Target: spell(r.Pick(targetsFor[group])),
				Method: r.Pick(methods), Creds: r.Pick(credKinds),
				AE: r.Pick([]string{"", "gzip", "gzip, br", "zstd"}), XReq: r.Pick(xreqs)}
			out = append(out, in)
			i++
		}
	}
	// internal x browse: listings (HTML, JSON) and archives of the internal locations' ancestors
	hideProts := []string{"internal", "internal", "auth-int", "int-index", "int-file", "int-deep", "int-two", "int-two", "int-gz"}
	browses := []string{"browse / {\n servearchive zip tar\n}", "browse / {\n servearchive zip tar\n}", "browse /", "browse /arc {\n servearchive zip\n}", "browse /secret {\n servearchive tar\n}"}
	neutral := []string{"gzip", "header / X-Test 1", "mime .txt text/plain", "errors", "index index.html h.txt", "index nothing.html"}
	hideDirs := []string{"/", "/", "/int/", "/arc/", "/arc/", "/arc/priv/", "/secret/", "/secret/pub/", "/secret/pub/deep/", "/secret/pub/deep/x/", "/secret/sub/", "/pub/"}
	for i := 0; i < nH; {
		prot := r.Pick(hideProts)
		ex := []string{r.Pick(browses)}
		for _, e := range neutral {
			if r.Chance(20) {
				ex = append(ex, e)
			}
		}
		ex = c03OneIndex(ex)
		for k := 0; k < 10; k++ {
			t := r.Pick(hideDirs)
			if r.Chance(45) {
				t += "?archive=" + r.Pick([]string{"zip", "tar"})
			}
			in := &c03In{Kind: "hide", Prot: prot, Extras: ex, Target: spell(t), Method: "GET", Creds: r.Pick([]string{"none", "none", "right", "wrong"}),
				Accept: r.Pick([]string{"", "json"})}
			out = append(out, in)
			i++
		}
	}
	// internal x the static file server alone: index pages, precompressed siblings, plain files
	serveProts := []string{"internal", "int-index", "int-index", "int-file", "int-gz", "int-gz", "int-two", "int-deep"}
	serveTargets := []string{"/int/", "/int/h.txt", "/int/index.html", "/int", "/", "/index.html", "/secret/f.txt", "/secret/f.txt", "/secret/", "/secret/index.html",
		"/secret/f.txt.gz", "/arc/priv/p.txt", "/arc/priv/", "/arc/open.txt", "/pub/a.txt", "/pub/", "/secret/pub/deep/x/y.txt", "/secret/pub/deep/x/", "/nothing"}
	for i := 0; i < nV; {
		prot := r.Pick(serveProts)
		var ex []string
		for _, e := range neutral {
			if r.Chance(25) {
				ex = append(ex, e)
			}
		}
		ex = c03OneIndex(ex)
		for k := 0; k < 10; k++ {
			out = append(out, &c03In{Kind: "serve", Prot: prot, Extras: ex, Target: spell(r.Pick(serveTargets)), Method: "GET", Creds: "none",
				AE: r.Pick([]string{"", "gzip", "gzip", "gzip, br", "zstd", "br,gzip"})})
			i++
		}
	}
	// canonical-order chains: rewriters x protection x proxy-to-recording-backend
	rewriters := []string{
		"rewrite /alias /secret/f.txt",
		"rewrite /alias2 secret/f.txt",
		"rewrite /ialias /int/h.txt",
		"rewrite {\n regexp ^/re/(.*)$\n to /secret/{1}\n}",
		"rewrite {\n regexp ^/strip/(.*)$\n to /{1}\n}",
		"rewrite {\n regexp ^/up/(.*)$\n to /pub/../{1}\n}",
		"rewrite {\n regexp ^/two/([^/]*)/(.*)$\n to /{2}/{1}\n}",
		"tryfiles {path} {path}.txt /pub/a.txt",
		"ext .txt .html",
		"gzip",
		"header / X-Test 1",
	}
	chainTargets := []string{"/alias", "/alias2", "/ialias", "/re/f.txt", "/re/pub/open.txt", "/re/pub/deep/x/y.txt", "/strip/secret/f.txt", "/strip/int/h.txt",
		"/strip/secret/pub/deep/d.txt", "/up/secret/f.txt", "/up/int/x", "/two/f.txt/secret", "/two/h.txt/int", "/secret/f", "/secret/page", "/secret/f.txt",
		"/secret/pub/open.txt", "/secret/pub/deep/d.txt", "/secret/pub/deep/x/y.txt", "/secret/sub/g.md", "/int/h.txt", "/INT/h.txt", "/pub/a.txt", "/api/x",
		"/accel/int/h.txt", "/accel/secret/f.txt", "/accel/accel/int/h.txt", "/accel/accel/accel/accel/pub/a.txt", "/loop", "/echo/x", "/accel/loop", "/accel/echo/y", "/nothing"}
	chainProts := []string{"auth-dir-ex", "auth-two", "auth-nest3", "auth-nest3r", "auth-overlap", "auth-int", "auth-int", "internal", "auth-slash"}
	chainCreds := []string{"none", "none", "none", "wrong", "right", "right1", "right2"}
	for i := 0; i < nC; {
		prot := r.Pick(chainProts)
		var ex []string
		for _, e := range rewriters {
			if r.Chance(35) {
				ex = append(ex, e)
			}
		}
		for k := 0; k < 10; k++ {
			out = append(out, &c03In{Kind: "chain", Prot: prot, Extras: ex, Target: spell(r.Pick(chainTargets)),
				Method: r.Pick(methods), Creds: r.Pick(chainCreds), XReq: r.Pick(xreqs)})
			i++
		}
	}
	// internal alone over a scripted inner handler
	apaths := []string{"/a", "/b", "/int/h", "/a/x", "/INT/x", "/c/../int/y", "/loop", "/e", "/f/", "/b/../a", "/e/e", "/a/"}
	avals := []string{"/a", "/b", "/int/h", "/loop", "/e", "ECHO", "int/h", "/f/"}
	for i := 0; i < nX; i++ {
		in := &c03In{Kind: "accel", P: r.Pick(apaths), Paths: []string{"/int"}}
		if r.Chance(30) {
			in.Paths = append(in.Paths, r.Pick([]string{"/b", "/f/", "/e"}))
		}
		for k := r.Intn(5); k > 0; k-- {
			in.Script = append(in.Script, [2]string{r.Pick(apaths), r.Pick(avals)})
		}
		if r.Chance(25) {
			in.Script = append(in.Script, [2]string{"/loop", "/loop"})
		}
		if r.Chance(40) {
			in.Script = append(in.Script, [2]string{in.P, r.Pick(avals)})
		}
		if r.Chance(35) {
			in.XReq = r.Pick(apaths)
		}
		if r.Chance(15) {
			in.W0 = r.Pick(apaths)
		}
		out = append(out, in)
	}
	// blocks, htpasswd matchers and request sequences: their case terms are large, so they are spread
	// evenly (in runs of 8, which keeps a block's cases together) over the shards
	out = append(out, c03GenSwap(r, tier)...)
	extra := c03GenState(r, tier)
	nchunks := (len(extra) + 7) / 8
	if nchunks == 0 {
		return out
	}
	every := len(out)/nchunks + 1
	var mixed []interface{}
	k := 0
	for i, c := range out {
		mixed = append(mixed, c)
		if (i+1)%every == 0 && k < len(extra) {
			hi := k + 8
			if hi > len(extra) {
				hi = len(extra)
			}
			mixed = append(mixed, extra[k:hi]...)
			k = hi
		}
	}
	mixed = append(mixed, extra[k:]...)
	return mixed
}

func dedupe(xs []string) []string {
	seen := map[string]bool{}
	var out []string
	for _, x := range xs {
		if !seen[x] {
			seen[x] = true
			out = append(out, x)
		}
	}
	return out
}

// at most one `index` directive per site
func c03OneIndex(xs []string) []string {
	var out []string
	b := false
	for _, x := range xs {
		if strings.HasPrefix(x, "index ") {
			if b {
				continue
			}
			b = true
		}
		out = append(out, x)
	}
	return out
}

func c03FilterBrowse(xs []string) []string {
	var out []string
	b := false
	for _, x := range xs {
		if strings.HasPrefix(x, "browse") {
			if b {
				continue
			}
			b = true
		}
		out = append(out, x)
	}
	return out
}

func init() {
	register(&Property{
		ID: "C03", Imports: "V.Lib V.GoPath V.C03_Model", Judge: "judge",
		Rule: "source scan for assignments to a request's URL path; internalsrv.Internal over scripted inner handlers (X-Accel-Redirect response/request headers, loops); canonical-order sites (rewriters incl. prefix-stripping and capture rewrites, tryfiles, ext x 1-3 basicauth rules with nested excludes x internal x proxy to a recording backend that can answer X-Accel-Redirect) compared with the chain model on the final path measured on the unprotected twin site; direct Path.Matches calls on generated spellings/bases; basicauth rules built by the real directive parser (resources, excludes, which credentials the request carries) and internal; full in-process sites (protection directive x random subset of rewrite/tryfiles/ext/index/gzip/browse+archives/templates/markdown/proxy/header/errors/mime) queried over raw request lines with path spellings x methods x credentials x Accept-Encoding, decoded bodies (gunzip/unzip/untar) searched for planted tokens; server blocks with 2-3 addresses (host names on one port / several ports / both) for the hide, serve and site configurations, the request sent to EVERY address and each answer judged like a single site's; basicauth.GetHtpasswdMatcher on generated htpasswd texts (plain, {PLAIN}, {SHA}, apr1, noise, overridden users, malformed lines); request SEQUENCES on one running site with htpasswd-file rules (every ordered pair of users: login, the other name with that password, wrong/no credentials; files replaced and the site restarted, incl. unloadable files) judged per request on status + planted tokens; REPLACEMENT sequences on one running site (a copy of the fixture of their own): a request that evaluates the hide list, then the internal / basicauth-protected directory or file or a directory it lies in replaced on disk by a new inode (copy + rename), then listings (HTML / JSON) and zip / tar archives of every ancestor and the protected files themselves without credentials, and with valid ones; longer histories replace twice; each judged as a site / hide / serve case; non-trivial = matcher true / 401 issued / site answered something other than 404",
		Gen:    c03Gen,
		Decode: func(raw json.RawMessage) (interface{}, error) { in := &c03In{}; return in, json.Unmarshal(raw, in) },
		Run:    c03Run,
	})
}
