package main

// C15 translator: the literal tables of the qualification classifiers, re-read from the Go
// sources (go/ast) on every run and written to coq/Gen_C15.v:
//   casket.go IsInternal   — privateTLDs, privateNetworks (CIDR strings, expanded here with
//                            net.ParseCIDR into (address bytes, mask bytes) as IPNet.Contains uses them)
//   casket.go IsLoopback   — the literals of its return expression (host == L, strings.Trim(host, C) == L,
//                            strings.HasPrefix(host, L), strings.HasSuffix(host, L))
//   certmagic certificates.go — SubjectIsInternal's literals, the ContainsAny set of SubjectQualifiesForCert
// The model's classifiers are folds over these tables, so a change of a table changes the model
// the theorems are checked against (and breaks the table well-formedness facts if it is not a
// list of dot-led suffixes any more).

import (
	"fmt"
	"go/ast"
	"go/token"
	"net"
	"os"
	"path/filepath"
	"regexp"
	"strconv"
	"strings"
)

func c15FuncDecl(f *ast.File, name string) *ast.FuncDecl {
	for _, d := range f.Decls {
		if fd, ok := d.(*ast.FuncDecl); ok && fd.Name.Name == name && fd.Recv == nil {
			return fd
		}
	}
	return nil
}

func c15Lit(e ast.Expr) (string, bool) {
	bl, ok := e.(*ast.BasicLit)
	if !ok || bl.Kind != token.STRING {
		return "", false
	}
	s, err := strconv.Unquote(bl.Value)
	return s, err == nil
}

// c15StringsCall matches strings.<fn>(<anything>, "lit")
func c15StringsCall(e ast.Expr, fn string) (string, bool) {
	ce, ok := e.(*ast.CallExpr)
	if !ok || len(ce.Args) != 2 {
		return "", false
	}
	se, ok := ce.Fun.(*ast.SelectorExpr)
	if !ok || se.Sel.Name != fn {
		return "", false
	}
	if id, ok := se.X.(*ast.Ident); !ok || id.Name != "strings" {
		return "", false
	}
	return c15Lit(ce.Args[1])
}

type c15Disj struct {
	eq, pre, suf []string
	trimEq       [][2]string
	other        int // disjuncts of an unrecognised shape
}

func (d *c15Disj) walk(e ast.Expr) {
	if p, ok := e.(*ast.ParenExpr); ok {
		d.walk(p.X)
		return
	}
	if be, ok := e.(*ast.BinaryExpr); ok {
		if be.Op == token.LOR {
			d.walk(be.X)
			d.walk(be.Y)
			return
		}
		if be.Op == token.EQL {
			if l, ok := c15Lit(be.Y); ok {
				if _, isID := be.X.(*ast.Ident); isID {
					d.eq = append(d.eq, l)
					return
				}
				if cut, ok := c15StringsCall(be.X, "Trim"); ok {
					d.trimEq = append(d.trimEq, [2]string{cut, l})
					return
				}
			}
		}
		d.other++
		return
	}
	if l, ok := c15StringsCall(e, "HasPrefix"); ok {
		d.pre = append(d.pre, l)
		return
	}
	if l, ok := c15StringsCall(e, "HasSuffix"); ok {
		d.suf = append(d.suf, l)
		return
	}
	d.other++
}

func c15ReturnDisj(fd *ast.FuncDecl) *c15Disj {
	d := &c15Disj{}
	if fd == nil || fd.Body == nil {
		d.other = 1
		return d
	}
	n := len(fd.Body.List)
	if n == 0 {
		d.other = 1
		return d
	}
	rs, ok := fd.Body.List[n-1].(*ast.ReturnStmt)
	if !ok || len(rs.Results) != 1 {
		d.other = 1
		return d
	}
	d.walk(rs.Results[0])
	return d
}

func c15LocalStrings(fd *ast.FuncDecl, name string) ([]string, bool) {
	var out []string
	found := false
	if fd == nil {
		return nil, false
	}
	ast.Inspect(fd, func(n ast.Node) bool {
		as, ok := n.(*ast.AssignStmt)
		if !ok || len(as.Lhs) != 1 || len(as.Rhs) != 1 {
			return true
		}
		if id, ok := as.Lhs[0].(*ast.Ident); ok && id.Name == name {
			if l, ok := stringSliceLits(as.Rhs[0]); ok {
				out, found = l, true
			}
		}
		return true
	})
	return out, found
}

func c15BytesOf(b []byte) string {
	var v []uint64
	for _, x := range b {
		v = append(v, uint64(x))
	}
	return cNList(v)
}

func c15CertmagicDir(repo string) (string, error) {
	mod, err := os.ReadFile(filepath.Join(repo, "go.mod"))
	if err != nil {
		return "", err
	}
	m := regexp.MustCompile(`(?m)^\s*github.com/caddyserver/certmagic\s+(v\S+)`).FindSubmatch(mod)
	if m == nil {
		return "", fmt.Errorf("certmagic requirement not found in go.mod")
	}
	var roots []string
	if v := os.Getenv("GOMODCACHE"); v != "" {
		roots = append(roots, v)
	}
	if v := os.Getenv("GOPATH"); v != "" {
		for _, p := range filepath.SplitList(v) {
			roots = append(roots, filepath.Join(p, "pkg", "mod"))
		}
	}
	if h, err := os.UserHomeDir(); err == nil {
		roots = append(roots, filepath.Join(h, "go", "pkg", "mod"))
	}
	roots = append(roots, filepath.Join(repo, "vendor"))
	for _, r := range roots {
		for _, d := range []string{filepath.Join(r, "github.com", "caddyserver", "certmagic@"+string(m[1])), filepath.Join(r, "github.com", "caddyserver", "certmagic")} {
			if _, err := os.Stat(filepath.Join(d, "certificates.go")); err == nil {
				return d, nil
			}
		}
	}
	return "", fmt.Errorf("certmagic %s sources not found in the module cache", m[1])
}

func c15GenCoq(repo string) (string, error) {
	_, f, err := parseGo(filepath.Join(repo, "casket.go"))
	if err != nil {
		return "", err
	}
	internal := c15FuncDecl(f, "IsInternal")
	tlds, ok1 := c15LocalStrings(internal, "privateTLDs")
	nets, ok2 := c15LocalStrings(internal, "privateNetworks")
	if !ok1 || !ok2 {
		return "", fmt.Errorf("privateTLDs / privateNetworks literals not found in casket.IsInternal")
	}
	var netTerms []string
	for _, c := range nets {
		_, n, err := net.ParseCIDR(c)
		if err != nil {
			return "", fmt.Errorf("privateNetworks entry %q: %v", c, err)
		}
		netTerms = append(netTerms, cPair(c15BytesOf(n.IP), c15BytesOf(n.Mask)))
	}
	lb := c15ReturnDisj(c15FuncDecl(f, "IsLoopback"))
	var trims []string
	for _, t := range lb.trimEq {
		trims = append(trims, cPair(cStr(t[0]), cStr(t[1])))
	}

	cmDir, err := c15CertmagicDir(repo)
	if err != nil {
		return "", err
	}
	_, cf, err := parseGo(filepath.Join(cmDir, "certificates.go"))
	if err != nil {
		return "", err
	}
	ci := c15ReturnDisj(c15FuncDecl(cf, "SubjectIsInternal"))
	special, foundSpecial := "", false
	if q := c15FuncDecl(cf, "SubjectQualifiesForCert"); q != nil {
		ast.Inspect(q, func(n ast.Node) bool {
			if e, ok := n.(ast.Expr); ok {
				if l, ok := c15StringsCall(e, "ContainsAny"); ok {
					special, foundSpecial = l, true
				}
			}
			return true
		})
	}
	if !foundSpecial {
		return "", fmt.Errorf("ContainsAny set not found in certmagic.SubjectQualifiesForCert")
	}
	var sb strings.Builder
	w := func(comment, name, typ, val string) {
		sb.WriteString("(* " + comment + " *)\nDefinition " + name + " : " + typ + " := " + val + ".\n")
	}
	w("casket.IsInternal: privateTLDs", "gen_c15_private_tlds", "list bytes", cStrList(tlds))
	w("casket.IsInternal: privateNetworks "+strings.Join(nets, " ")+" as (IPNet.IP, IPNet.Mask)", "gen_c15_private_nets", "list (list N * list N)", cList(netTerms))
	w("casket.IsLoopback: host == L", "gen_c15_loopback_eq", "list bytes", cStrList(lb.eq))
	w("casket.IsLoopback: strings.Trim(host, C) == L", "gen_c15_loopback_trim_eq", "list (bytes * bytes)", cList(trims))
	w("casket.IsLoopback: strings.HasPrefix(host, L)", "gen_c15_loopback_prefixes", "list bytes", cStrList(lb.pre))
	w("casket.IsLoopback: strings.HasSuffix(host, L)", "gen_c15_loopback_suffixes", "list bytes", cStrList(lb.suf))
	w("casket.IsLoopback: disjuncts of another shape", "gen_c15_loopback_other", "N", cN(uint64(lb.other)))
	w("certmagic.SubjectIsInternal: subj == L", "gen_c15_cert_internal_eq", "list bytes", cStrList(ci.eq))
	w("certmagic.SubjectIsInternal: strings.HasSuffix(subj, L)", "gen_c15_cert_internal_suffixes", "list bytes", cStrList(ci.suf))
	w("certmagic.SubjectIsInternal: disjuncts of another shape", "gen_c15_cert_internal_other", "N", cN(uint64(ci.other+len(ci.pre)+len(ci.trimEq))))
	w("certmagic.SubjectQualifiesForCert: strings.ContainsAny set", "gen_c15_cert_special", "bytes", cStr(special))
	return sb.String(), nil
}

func init() { registerGen("Gen_C15.v", c15GenCoq) }
