package main

// C19, part 2 — end-to-end "what is recorded" cases (structured hello -> record -> read
// segmentation -> clientHelloConn), connections sharing the listener's pooled tee buffers on the
// running TLS server, FastCGI responses over a connection that delivers short reads, {labelN} on
// hostile Host headers, X-Forwarded-For folding by the real proxy middleware.

import (
	"bufio"
	"bytes"
	"crypto/tls"
	"fmt"
	"io"
	"net"
	"net/http"
	"net/http/httptest"
	"strings"
	"sync"
	"time"

	"github.com/tmpim/casket/caskethttp/fastcgi"
	"github.com/tmpim/casket/caskethttp/httpserver"
)

// ---- a connection that delivers scripted short reads (under the FastCGI client) ----
type c19ScriptRWC struct {
	segs [][]byte
	i    int
}

func (c *c19ScriptRWC) Read(p []byte) (int, error) {
	if c.i >= len(c.segs) {
		return 0, io.EOF
	}
	n := copy(p, c.segs[c.i])
	if n == len(c.segs[c.i]) {
		c.i++
	} else {
		c.segs[c.i] = c.segs[c.i][n:]
	}
	return n, nil
}
func (c *c19ScriptRWC) Write(p []byte) (int, error) { return len(p), nil }
func (c *c19ScriptRWC) Close() error                { return nil }

// c19ReadFcgi reads a FastCGI response delivered as [segs] through FCGIClient.Do's reader with a
// caller buffer of bufsz bytes: data, error class (1 EOF, 2 unexpected EOF, 3 bad version, 9 other), panic
func c19ReadFcgi(segs [][]byte, bufsz int) (got []byte, ecode int, p bool, msg string) {
	cp := make([][]byte, len(segs))
	total := 0
	for i, s := range segs {
		cp[i] = append([]byte(nil), s...)
		total += len(s)
	}
	p, msg = c19Try(func() {
		cl := fastcgi.VerifNewClient(&c19ScriptRWC{segs: cp})
		rd, err := cl.Do(map[string]string{}, nil)
		if err != nil {
			ecode = 8
			return
		}
		buf := make([]byte, bufsz)
		for it := 0; it < total+len(segs)+16; it++ {
			n, err := rd.Read(buf)
			got = append(got, buf[:n]...)
			if err != nil {
				switch {
				case err == io.EOF:
					ecode = 1
				case err == io.ErrUnexpectedEOF:
					ecode = 2
				case strings.Contains(err.Error(), "invalid header version"):
					ecode = 3
				default:
					ecode = 9
				}
				return
			}
		}
	})
	return
}

func c19CutBytes(wire []byte, sizes []int) [][]byte {
	var segs [][]byte
	rest := wire
	for _, n := range sizes {
		if n > len(rest) {
			n = len(rest)
		}
		segs = append(segs, rest[:n])
		rest = rest[n:]
	}
	if len(rest) > 0 {
		segs = append(segs, rest)
	}
	return segs
}

func c19BytesList(xs [][]byte) string {
	it := make([]string, len(xs))
	for i, x := range xs {
		it[i] = c19Bytes(x)
	}
	return cList(it)
}

// ---- the proxy in front of a loopback backend that reports the X-Forwarded-For it received ----
var (
	c19XffBackend *httptest.Server
	c19XffMu      sync.Mutex
	c19XffSeen    []string
	c19XffHandler httpserver.Handler
)

func c19GetProxy() httpserver.Handler {
	if c19XffHandler != nil {
		return c19XffHandler
	}
	c19XffBackend = httptest.NewServer(http.HandlerFunc(func(w http.ResponseWriter, r *http.Request) {
		c19XffMu.Lock()
		c19XffSeen = append([]string(nil), r.Header["X-Forwarded-For"]...)
		c19XffMu.Unlock()
		w.WriteHeader(204)
	}))
	cfg, err := setupDirective("proxy", "proxy / "+c19XffBackend.URL+"\n")
	if err != nil {
		panic("harness: proxy setup: " + err.Error())
	}
	c19XffHandler = compile(cfg.Middleware(), handlerFunc(func(w http.ResponseWriter, r *http.Request) (int, error) { return 404, nil }))
	return c19XffHandler
}

func c19RunB(in *c19In) Result {
	switch in.Kind {
	case "hellotrail":
		g := c19Hex(in.Data)
		data := append(in.Hello.encode(), g...)
		var got *c19Info
		p, msg := c19Try(func() { got = c19InfoOf(httpserver.VerifC19ParseRawClientHello(data)) })
		if p {
			got = nil
		}
		res := Result{Term: cApp("CHelloTrail", in.Hello.term(), cBytes(g), cBytes(data), c19OptInfo(got)),
			Obs: map[string]interface{}{"panic": msg, "info": got}, Sig: "hello-trailing", Nontrivial: len(g) > 0 && len(in.Hello.Exts) > 0,
			Class: fmt.Sprintf("hello-trailing:g%d:exts%d", c19Bucket(len(g)), c19Bucket(len(in.Hello.Exts)))}
		if p {
			res.Direct = "parseRawClientHello panicked: " + msg
		}
		return res
	case "hellocut":
		enc := in.Hello.encode()
		k := in.Buf
		if k > len(enc) {
			k = len(enc)
		}
		data := enc[:k]
		var got *c19Info
		p, msg := c19Try(func() { got = c19InfoOf(httpserver.VerifC19ParseRawClientHello(data)) })
		if p {
			got = nil
		}
		res := Result{Term: cApp("CHelloCut", in.Hello.term(), cNat(in.Buf), cBytes(data), c19OptInfo(got)),
			Obs: map[string]interface{}{"panic": msg, "info": got, "k": k, "len": len(enc)}, Sig: "hello-cut", Nontrivial: k >= 42 && k < len(enc),
			Class: fmt.Sprintf("hello-cut:depth%d", func() int {
				if got == nil {
					return -1
				}
				return c19Depth(got)
			}())}
		if p {
			res.Direct = "parseRawClientHello panicked: " + msg
		}
		return res
	case "ws":
		return c19RunWs(in)
	case "helloconn":
		rest := c19Hex(in.Data)
		body := in.Hello.encode()
		wire := append([]byte{22, 3, 1, byte(len(body) >> 8), byte(len(body))}, body...)
		wire = append(wire, rest...)
		var segs [][]byte
		left := wire
		total := 0
		for _, n := range in.Sizes {
			if n > len(left) {
				n = len(left)
			}
			segs = append(segs, left[:n])
			left = left[n:]
			total += n
		}
		fc := &c19Conn{segs: segs}
		hc, get := httpserver.VerifC19NewHelloConn(fc)
		p, msg := c19Try(func() {
			buf := make([]byte, 1<<17)
			for range segs {
				hc.Read(buf)
			}
		})
		var rec *c19Info
		if info, ok := get(); ok {
			rec = c19InfoOf(info)
		}
		sig := "helloconn:safe-segmentation"
		cum := 0
		for _, s := range segs {
			cum += len(s)
			if cum >= 5 && cum < 5+len(body) {
				sig = "conn:read-ends-inside-record"
			}
		}
		res := Result{Term: cApp("CHelloConn", in.Hello.term(), cBytes(rest), cBytes(wire), cNatList(in.Sizes), cBool(p), c19OptInfo(rec)),
			Obs: map[string]interface{}{"recorded": rec, "panic": msg}, Sig: sig, Nontrivial: total >= 5+len(body) && len(segs) > 1,
			Class: fmt.Sprintf("%s:segs%d", sig, c19Bucket(len(segs)))}
		if p {
			res.Direct = "clientHelloConn.Read panicked: " + msg
		}
		return res
	case "pool":
		return c19RunPool(in)
	case "fseg":
		var wire []byte
		rs := "None"
		if len(in.Recs) > 0 || in.Tail >= 0 && in.Data == "" {
			for _, r := range in.Recs {
				wire = append(wire, c19EncRec(r.Type, c19Hex(r.Content), r.Pad)...)
			}
			if in.Tail == 0 {
				wire = append(wire, c19EndRequest...)
			}
			var rt []string
			for _, r := range in.Recs {
				rt = append(rt, cApp("mkRec", cN(uint64(r.Type)), c19Bytes(c19Hex(r.Content)), cNat(r.Pad)))
			}
			rs = "(Some " + cPair(cList(rt), cN(uint64(in.Tail))) + ")"
		} else {
			wire = c19Hex(in.Data)
		}
		bufsz := in.Buf
		if bufsz <= 0 {
			bufsz = 4096
		}
		segs := c19CutBytes(wire, in.Sizes)
		got, ecode, p, msg := c19ReadFcgi(segs, bufsz)
		got1, ecode1, p1, _ := c19ReadFcgi([][]byte{wire}, 4096)
		if p1 {
			ecode1 = 99
		}
		short := false
		for _, s := range segs {
			if len(s) < 8 {
				short = true
			}
		}
		res := Result{Term: cApp("CStreamSeg", rs, c19BytesList(segs), cBool(p), c19Bytes(got), cN(uint64(ecode)), c19Bytes(got1), cN(uint64(ecode1))),
			Obs: map[string]interface{}{"len": len(got), "err": ecode, "panic": msg, "len_whole": len(got1), "err_whole": ecode1},
			Sig: "fcgi-seg", Nontrivial: len(segs) > 1 && (len(got) > 0 || ecode > 1),
			Class: fmt.Sprintf("fcgi-seg:err%d:segs%d:short=%v", ecode, c19Bucket(len(segs)), short)}
		if p {
			res.Direct = "FastCGI response reader panicked: " + msg
		}
		return res
	case "label":
		host, nstr := string(c19Hex(in.Data)), string(c19Hex(in.Name))
		const empty = "\x01EMPTY\x01"
		req := httptest.NewRequest("GET", "http://example.test/", nil)
		req.Host = host
		var out string
		p, msg := c19Try(func() { out = httpserver.NewReplacer(req, nil, empty).Replace("{label" + nstr + "}") })
		obs := "None"
		if out != empty {
			obs = "(Some " + cStr(out) + ")"
		}
		res := Result{Term: cApp("CLabel", cStr(host), cStr(nstr), cBool(p), obs),
			Obs: map[string]interface{}{"out": out, "panic": msg, "host": host, "n": nstr}, Sig: "label",
			Nontrivial: out != empty, Class: fmt.Sprintf("label:found=%v", out != empty)}
		if p {
			res.Direct = "replacer {labelN} panicked: " + msg
		}
		return res
	case "xff":
		h := c19GetProxy()
		req := httptest.NewRequest("GET", "http://example.test/", nil)
		ip := string(c19Hex(in.Data))
		req.RemoteAddr = net.JoinHostPort(ip, "50000")
		prior := "None"
		if len(in.Values) > 0 {
			var vals, vt []string
			for _, v := range in.Values {
				vals = append(vals, string(c19Hex(v)))
				vt = append(vt, cStr(string(c19Hex(v))))
			}
			req.Header["X-Forwarded-For"] = vals
			prior = "(Some " + cList(vt) + ")"
		}
		c19XffMu.Lock()
		c19XffSeen = nil
		c19XffMu.Unlock()
		status := 0
		p, msg := c19Try(func() { status, _ = h.ServeHTTP(httptest.NewRecorder(), req) })
		c19XffMu.Lock()
		seen := append([]string(nil), c19XffSeen...)
		c19XffMu.Unlock()
		obs := strings.Join(seen, "\x00") // one value is expected; a NUL makes anything else disagree
		res := Result{Term: cApp("CXff", prior, cStr(ip), cBool(p), cStr(obs)),
			Obs: map[string]interface{}{"status": status, "seen": seen, "panic": msg}, Sig: "xff",
			Nontrivial: len(in.Values) > 0 && len(seen) == 1, Class: fmt.Sprintf("xff:prior=%d:seen=%d", c19Bucket(len(in.Values)), len(seen))}
		if p {
			res.Direct = "proxy panicked on X-Forwarded-For: " + msg
		}
		return res
	}
	panic("bad kind " + in.Kind)
}

// c19RunPool: earlier connections to the running TLS server each write, in ONE write, a genuine
// ClientHello record followed by more bytes (a second complete record holding another hello, or
// garbage); the listener's pooled tee buffer goes back to the pool with those bytes in it.  Then a
// real TLS handshake: what is recorded for it must be its own hello.
func c19RunPool(in *c19In) Result {
	s, addr := c19GetTLSServer()
	c19Log.take()
	var staleT []string
	for _, v := range in.Values {
		w := c19Hex(v)
		staleT = append(staleT, cBytes(w))
		conn, err := net.DialTimeout("tcp", addr, time.Second)
		if err != nil {
			panic("harness: dial tls server: " + err.Error())
		}
		conn.SetDeadline(time.Now().Add(80 * time.Millisecond))
		conn.Write(w)
		// the server answers the first hello (ServerHello.. or an alert) once it has read — and
		// therefore teed and parsed — it; then it meets the trailing bytes and gives up
		io.ReadAll(conn)
		conn.Close()
	}
	raw, err := net.DialTimeout("tcp", addr, time.Second)
	if err != nil {
		panic("harness: dial tls server: " + err.Error())
	}
	defer raw.Close()
	raw.SetDeadline(time.Now().Add(3 * time.Second))
	sc := &c19SegConn{Conn: raw, sizes: nil}
	tc := tls.Client(sc, &tls.Config{InsecureSkipVerify: true, ServerName: "127.0.0.1", Rand: c19DetRand{NewRand(uint64(len(in.Values)) + 77)},
		CurvePreferences: []tls.CurveID{tls.X25519, tls.CurveP256}, NextProtos: []string{"http/1.1"}, MaxVersion: tls.VersionTLS12})
	ok := false
	var rec *c19Info
	if err := tc.Handshake(); err == nil {
		fmt.Fprintf(tc, "GET / HTTP/1.1\r\nHost: 127.0.0.1\r\nUser-Agent: pool\r\n\r\n")
		if resp, err := http.ReadResponse(bufio.NewReader(tc), nil); err == nil {
			io.Copy(io.Discard, resp.Body)
			ok = resp.StatusCode == 200
		}
	}
	if info, have := httpserver.VerifC19HelloInfoOf(s, raw.LocalAddr().String()); have {
		rec = c19InfoOf(info)
	}
	tc.Close()
	wire := sc.first
	direct := &c19Info{}
	if len(wire) >= 5 {
		bl := int(wire[3])<<8 | int(wire[4])
		if len(wire) >= 5+bl {
			c19Try(func() { direct = c19InfoOf(httpserver.VerifC19ParseRawClientHello(wire[5 : 5+bl])) })
		}
	}
	logs := c19Log.take()
	res := Result{Term: cApp("CPool", cList(staleT), cBytes(wire), cBool(ok), c19OptInfo(rec), direct.term()),
		Obs: map[string]interface{}{"ok": ok, "recorded": rec, "direct": direct, "stale_conns": len(in.Values)},
		Sig: "pool:other-connections-bytes", Nontrivial: ok && len(in.Values) > 0, Class: fmt.Sprintf("pool:stale%d", c19Bucket(len(in.Values))),
		Key: fmt.Sprintf("pool:%d:%d", len(in.Values), in.Which)}
	if strings.Contains(logs, "panic") {
		res.Direct = "TLS connection handling panicked: " + c19Trunc(logs, 300)
	}
	return res
}

// ---- websocket `type text` in front of /bin/cat: the peer's bytes come back through pumpStdout's
// findIncompleteRuneLength.  Minimal RFC 6455 client (one masked binary frame out, one frame in). ----
var c19WsSrv *httptest.Server

func c19GetWs() string {
	if c19WsSrv == nil {
		cfg, err := setupDirective("websocket", "websocket /ws /bin/cat {\n\ttype text\n}\n")
		if err != nil {
			panic("harness: websocket setup: " + err.Error())
		}
		h := compile(cfg.Middleware(), handlerFunc(func(w http.ResponseWriter, r *http.Request) (int, error) { return 404, nil }))
		c19WsSrv = httptest.NewServer(http.HandlerFunc(func(w http.ResponseWriter, r *http.Request) { h.ServeHTTP(w, r) }))
	}
	return c19WsSrv.Listener.Addr().String()
}

func c19RunWs(in *c19In) Result {
	data := c19Hex(in.Data)
	addr := c19GetWs()
	c19Log.take()
	var got []byte
	note := ""
	func() {
		conn, err := net.DialTimeout("tcp", addr, time.Second)
		if err != nil {
			panic("harness: dial websocket server: " + err.Error())
		}
		defer conn.Close()
		conn.SetDeadline(time.Now().Add(2 * time.Second))
		fmt.Fprintf(conn, "GET /ws HTTP/1.1\r\nHost: %s\r\nUpgrade: websocket\r\nConnection: Upgrade\r\nSec-WebSocket-Key: dGhlIHNhbXBsZSBub25jZQ==\r\nSec-WebSocket-Version: 13\r\n\r\n", addr)
		br := bufio.NewReader(conn)
		resp, err := http.ReadResponse(br, nil)
		if err != nil || resp.StatusCode != 101 {
			note = fmt.Sprint("no upgrade: ", err)
			return
		}
		frame := []byte{0x82}
		if len(data) <= 125 {
			frame = append(frame, 0x80|byte(len(data)))
		} else {
			frame = append(frame, 0x80|126, byte(len(data)>>8), byte(len(data)))
		}
		mask := []byte{0x12, 0x34, 0x56, 0x78}
		frame = append(frame, mask...)
		for i, b := range data {
			frame = append(frame, b^mask[i%4])
		}
		conn.Write(frame)
		for { // first data frame from the server
			var h [2]byte
			if _, err := io.ReadFull(br, h[:]); err != nil {
				note = "no frame: " + err.Error()
				return
			}
			n := int(h[1] & 0x7f)
			if n == 126 {
				var l [2]byte
				io.ReadFull(br, l[:])
				n = int(l[0])<<8 | int(l[1])
			}
			payload := make([]byte, n)
			if _, err := io.ReadFull(br, payload); err != nil {
				note = "short frame: " + err.Error()
				return
			}
			if op := h[0] & 0x0f; op == 1 || op == 2 {
				got = payload
				return
			} else if op == 8 {
				note = "closed by server"
				return
			}
		}
	}()
	logs := c19Log.take()
	p := strings.Contains(logs, "panic")
	res := Result{Term: cApp("CWs", cBytes(data), cBool(p), cBytes(got)),
		Obs: map[string]interface{}{"sent": len(data), "received": len(got), "note": note, "log": c19Trunc(logs, 300)}, Sig: "websocket-text",
		Nontrivial: len(got) < len(data), Class: fmt.Sprintf("ws:held%d", len(data)-len(got))}
	if p {
		res.Direct = "websocket handling panicked: " + c19Trunc(logs, 300)
	}
	return res
}

// ---- generators ----
func c19SNI(host string) c19Ext {
	b := append(c19be16(len(host)+3), 0)
	b = append(b, c19be16(len(host))...)
	return c19Ext{K: "other", Type: 0, Body: c19H(append(b, host...))}
}
func c19ALPN(protos ...string) c19Ext {
	var l []byte
	for _, p := range protos {
		l = append(l, byte(len(p)))
		l = append(l, p...)
	}
	return c19Ext{K: "other", Type: 16, Body: c19H(append(c19be16(len(l)), l...))}
}

// a structured hello with the extensions real clients send (server_name, supported_groups,
// ec_point_formats, ALPN, unknown types), duplicates of the two the parser looks into included
func c19GenHelloRich(r *Rand) *c19Hello {
	h := c19GenHello(r)
	var extra []c19Ext
	if r.Chance(70) {
		extra = append(extra, c19SNI([]string{"a.test", "localhost", "", strings.Repeat("x", 200)}[r.Intn(4)]))
	}
	if r.Chance(60) {
		extra = append(extra, c19ALPN([][]string{{"h2", "http/1.1"}, {"http/1.1"}, {}, {""}}[r.Intn(4)]...))
	}
	if r.Chance(30) {
		extra = append(extra, c19Ext{K: "curves", Curves: []uint16{0x2a2a, 29, 23, 24}}, c19Ext{K: "points", Body: "00"})
	}
	if r.Chance(20) {
		extra = append(extra, c19Ext{K: "other", Type: uint16(0xff00 + r.Intn(256)), Body: c19H(c19RandBytes(r, r.Intn(300)))})
	}
	for _, e := range extra { // insert at random positions
		k := r.Intn(len(h.Exts) + 1)
		h.Exts = append(h.Exts[:k:k], append([]c19Ext{e}, h.Exts[k:]...)...)
	}
	return h
}

func c19GenB(r *Rand, tier string, add func(*c19In)) {
	mult := 1
	if tier == "thorough" {
		mult = 10
	}
	hx := func(s string) string { return c19H([]byte(s)) }
	record := func(h []byte) []byte { return append([]byte{22, 3, 1, byte(len(h) >> 8), byte(len(h))}, h...) }

	// --- parse(encode h ++ g): nothing, one byte, a few, a whole second message behind the hello
	for i := 0; i < 120*mult; i++ {
		h := c19GenHelloRich(r)
		var g []byte
		switch r.Intn(5) {
		case 0:
		case 1:
			g = []byte{byte(r.U64())}
		case 2:
			g = c19RandBytes(r, r.Range(2, 9))
		case 3:
			g = c19GenHello(r).encode()
		default:
			g = []byte{0, 10, 0, 4, 0, 2, 0, 29} // looks like one more extension
		}
		add(&c19In{Kind: "hellotrail", Hello: h, Data: c19H(g)})
	}
	// --- every kind of strict prefix of a structured hello: around each field boundary and at random
	for i := 0; i < 40*mult; i++ {
		h := c19GenHelloRich(r)
		n := len(h.encode())
		sid, nc, cm := len(c19Hex(h.Sid)), len(h.Ciphers), len(c19Hex(h.Comp))
		cuts := []int{41, 42, 38 + sid, 39 + sid, 40 + sid, 41 + sid, 40 + sid + 2*nc, 41 + sid + 2*nc, 42 + sid + 2*nc, 41 + sid + 2*nc + cm, 42 + sid + 2*nc + cm,
			43 + sid + 2*nc + cm, 44 + sid + 2*nc + cm, n - 1, n, r.Intn(n + 1), r.Intn(n + 1)}
		for _, k := range cuts {
			if k >= 0 && k <= n && (tier == "thorough" || r.Chance(40)) {
				add(&c19In{Kind: "hellocut", Hello: h, Buf: k})
			}
		}
	}
	// --- end to end: structured hello -> record (+ following bytes) -> read segmentation -> recorded
	for i := 0; i < 200*mult; i++ {
		h := c19GenHelloRich(r)
		body := h.encode()
		var rest []byte
		switch r.Intn(4) {
		case 0:
		case 1:
			rest = c19RandBytes(r, r.Range(1, 40))
		case 2:
			rest = record(c19Hex(c19Seeds[r.Intn(len(c19Seeds))].hex)) // another complete hello record
		default:
			rest = []byte{20, 3, 3, 0, 1, 1}
		}
		total := 5 + len(body) + len(rest)
		var sizes []int
		switch r.Intn(6) {
		case 0:
			sizes = []int{total}
		case 1:
			c := []int{1, 4, 5, 6, 5 + len(body) - 1, 5 + len(body), 5 + len(body) + 1, 47}[r.Intn(8)]
			if c < 1 || c >= total {
				c = total / 2
			}
			sizes = []int{c, total - c}
		case 2:
			for j := r.Range(1, 6); j > 0; j-- {
				sizes = append(sizes, 1)
			}
			sizes = append(sizes, 0, total)
		case 3:
			a := r.Range(1, total-1)
			sizes = []int{a, r.Range(0, c19Max(total-a, 1)), total}
		case 4: // stops before the record is complete
			sizes = []int{r.Range(0, 5), r.Range(0, c19Max(len(body)-1, 1)/2)}
		default:
			left := total
			for left > 0 && len(sizes) < 10 {
				n := r.Range(0, c19Max(left/2, 1)+3)
				sizes = append(sizes, n)
				left -= n
			}
			sizes = append(sizes, total)
		}
		add(&c19In{Kind: "helloconn", Hello: h, Data: c19H(rest), Sizes: sizes})
	}
	// --- pooled tee buffers on the running server: connections that leave bytes behind, then a real handshake
	for i := 0; i < 10*mult; i++ {
		in := &c19In{Kind: "pool", Which: i}
		for k := 1 + r.Intn(3); k > 0; k-- {
			first := record(c19Hex(c19Seeds[r.Intn(len(c19Seeds))].hex))
			var more []byte
			switch r.Intn(3) {
			case 0:
				more = record(c19Hex(c19Seeds[10].hex)) // a complete record holding a different hello
			case 1:
				more = record(c19GenHello(r).encode())
			default:
				more = c19RandBytes(r, r.Range(1, 60))
			}
			in.Values = append(in.Values, c19H(append(first, more...)))
		}
		add(in)
	}
	add(&c19In{Kind: "pool", Which: 999}) // no earlier connection

	// --- FastCGI responses over short reads
	for i := 0; i < 60*mult; i++ {
		w := c19GenStream(r)
		var sizes []int
		switch r.Intn(4) {
		case 0: // byte by byte
			for j := 0; j < len(w); j++ {
				sizes = append(sizes, 1)
			}
		case 1: // header split
			sizes = []int{r.Range(1, 7), r.Range(0, 3), r.Range(1, 9)}
		case 2:
			for left := len(w); left > 0 && len(sizes) < 12; {
				n := r.Range(0, c19Max(left/2, 1)+2)
				sizes = append(sizes, n)
				left -= n
			}
		default:
			sizes = []int{8, 1}
		}
		add(&c19In{Kind: "fseg", Data: c19H(w), Tail: -1, Sizes: sizes, Buf: []int{1, 3, 8, 64, 4096}[r.Intn(5)]})
	}
	for i := 0; i < 60*mult; i++ {
		in := &c19In{Kind: "fseg", Tail: r.Intn(2), Buf: []int{1, 7, 64, 4096}[r.Intn(4)]}
		n := 0
		for k := r.Range(1, 4); k > 0; k-- {
			rc := c19Rec{Type: []int{6, 6, 6, 7, 1, 11}[r.Intn(6)], Content: c19H(c19RandBytes(r, []int{0, 1, 8, 9, 60, 255, 256, 300}[r.Intn(8)])), Pad: []int{0, 0, 3, 7, 255}[r.Intn(5)]}
			in.Recs = append(in.Recs, rc)
			n += 8 + len(rc.Content)/2 + rc.Pad
		}
		switch r.Intn(3) {
		case 0:
			for left := n + 16; left > 0 && len(in.Sizes) < 14; {
				k := r.Range(0, c19Max(left/3, 1)+2)
				in.Sizes = append(in.Sizes, k)
				left -= k
			}
		case 1:
			in.Sizes = []int{r.Range(1, 7), 1, 1, r.Range(1, 20)}
		default:
			for j := 0; j < 40 && j < n; j++ {
				in.Sizes = append(in.Sizes, 1+j%3)
			}
		}
		add(in)
	}
	// content + padding above 65535, and the largest record, delivered in pieces
	big := [][2]int{{65535, 255}, {65535, 1}, {65300, 250}, {65281, 255}, {65530, 6}, {65535, 0}}
	if tier != "thorough" {
		big = big[:4]
	}
	for bi, cp := range big {
		sizes := [][]int{{3, 5, 1000, 60000}, {8, 65535}, {7, 1, 32768, 32768}, {70000}, {9, 9, 9, 9}, {1, 1, 1, 1, 1, 1, 1, 1, 65000}}[bi]
		add(&c19In{Kind: "fseg", Tail: bi % 2, Buf: []int{4096, 1, 65536, 100}[bi%4], Sizes: sizes,
			Recs: []c19Rec{{Type: 6, Content: c19H(bytes.Repeat([]byte{0x61 + byte(bi)}, cp[0])), Pad: cp[1]}, {Type: 6, Content: hx("tail"), Pad: 4}}})
	}

	// --- websocket text tunnel: messages ending in complete / incomplete UTF-8 sequences, lone continuation bytes
	wsTails := [][]byte{{}, {0x41}, {0xc3}, {0xc3, 0xa9}, {0xe2}, {0xe2, 0x82}, {0xe2, 0x82, 0xac}, {0xf0}, {0xf0, 0x9f}, {0xf0, 0x9f, 0x92}, {0xf0, 0x9f, 0x92, 0xa9},
		{0x80}, {0x80, 0x80, 0x80, 0x80}, {0xff}, {0xf8, 0x80}, {0xe2, 0x41}, {0xf0, 0xc3}, {0xc3, 0xf0, 0x9f}, {0x80, 0xe2, 0x82}}
	for ti, tl := range wsTails {
		if tier != "thorough" && ti%2 == 1 && ti > 10 {
			continue
		}
		pre := []string{"", "a", "héllo ", strings.Repeat("x", 130)}[r.Intn(4)]
		d := append([]byte(pre), tl...)
		if len(d) > 0 {
			add(&c19In{Kind: "ws", Data: c19H(d)})
		}
	}
	for i := 0; i < 6*mult; i++ {
		add(&c19In{Kind: "ws", Data: c19H(c19RandBytes(r, r.Range(1, 40)))})
	}
	// --- {labelN} on hostile Host headers
	hosts := []string{"a.b.c", "", ".", "..", "a..b", "[::1]:80", "a.b:8080", "example", strings.Repeat("a.", 70) + "z", "\xff.\x00.{", "a.b.c.", ".a", "{label1}.x", "1.2.3.4"}
	ns := []string{"1", "2", "3", "4", "0", "-1", "+2", "01", "9", "71", "72", "99999999999999999999", "", "x", "1x", "\xd9\xa3", " 1", "1 ", "+", "-", "-0", "141", "9223372036854775807", "9223372036854775808"}
	for _, hst := range hosts {
		for k := 0; k < 6; k++ {
			add(&c19In{Kind: "label", Data: hx(hst), Name: hx(ns[r.Intn(len(ns))])})
		}
	}
	for _, n := range ns {
		add(&c19In{Kind: "label", Data: hx("a.b.c"), Name: hx(n)})
	}
	// --- X-Forwarded-For values chosen by the peer
	xv := []string{"1.1.1.1", "1.1.1.1, 2.2.2.2", "", ",", ", ,", "evil", "192.0.2.7", "a,b,c", "x ,", ",y", "unknown", "::1", "[::1]", "1.1.1.1,", strings.Repeat("9.9.9.9, ", 50) + "8.8.8.8", "\xe2\x80\xa8z", "a\tb"}
	add(&c19In{Kind: "xff", Data: hx("192.0.2.7")})
	add(&c19In{Kind: "xff", Data: hx("2001:db8::7")})
	for i := 0; i < 40*mult; i++ {
		in := &c19In{Kind: "xff", Data: hx([]string{"192.0.2.7", "2001:db8::7", "10.0.0.1"}[r.Intn(3)]), }
		for k := r.Range(1, 4); k > 0; k-- {
			in.Values = append(in.Values, hx(xv[r.Intn(len(xv))]))
		}
		if len(in.Values) > 0 && (strings.HasPrefix(string(c19Hex(in.Values[0])), " ") || in.Values[0] == "") {
			in.Values[0] = hx("first")
		}
		add(in)
	}
}
